#!/venv/bin/python
"""Single entry point of the checks:  check.py --property C10 --tier quick|thorough [--replay FILE]

Exit 0: property held on everything explored.  Exit 1 + `VIOLATION property=<id> replay=<path>`.
Exit 2: infrastructure failure (never used to hide a verdict).
"""
import argparse
import importlib
import os
import sys
import traceback

sys.path.insert(0, os.path.dirname(os.path.abspath(__file__)))


def main():
    ap = argparse.ArgumentParser()
    ap.add_argument('--property', required=True)
    ap.add_argument('--tier', default=None, choices=['quick', 'thorough'])
    ap.add_argument('--replay', default=None)
    a = ap.parse_args()
    tier = a.tier or os.environ.get('VERIF_TIER') or 'quick'
    try:
        seed = int(os.environ.get('VERIF_SEED', '0'))
    except ValueError:
        seed = 0
    mod = importlib.import_module('harness.props.%s' % a.property.lower())
    try:
        if a.replay:
            return mod.replay(a.replay)
        return mod.run(tier, seed)
    except SystemExit:
        raise
    except BaseException:
        traceback.print_exc()
        print('INFRASTRUCTURE-FAILURE property=%s' % a.property)
        return 2


if __name__ == '__main__':
    sys.exit(main())
