/-
  e2pdrv — line-protocol driver for the executable models and specs.
  One request line in, one response line out:  `<model> | <spec> | <class flags>`.
  Imports Model/Spec/Generated only (no Mathlib) so that it links natively.
-/
import E2P.Model.Val
import E2P.Model.Proto
import E2P.Model.Compare
import E2P.Model.NumParse
import E2P.Spec.CompareSpec
import E2P.Model.DateFns
import E2P.Spec.DateSpec
import E2P.Model.Round
import E2P.Model.Lookup
import E2P.Spec.LookupSpec
import E2P.Model.Text
import E2P.Spec.TextSpec
import E2P.Model.Branch
import E2P.Spec.BranchSpec
import E2P.Model.Agg
import E2P.Spec.AggSpec
import E2P.Model.Exec
import E2P.Model.ExecRej
import E2P.Spec.ExecSpec
import E2P.Model.Facade
import E2P.Spec.FacadeSpec
import E2P.Generated.Facade
import E2P.Model.Graph
import E2P.Model.Peg
import E2P.Model.PegMemo
import E2P.Generated.Grammar
import E2P.Model.Quote
import E2P.Model.Refs
import E2P.Model.Safety
import E2P.Model.Ops
import E2P.Model.Criteria
import E2P.Generated.RuntimeConsts
import E2P.Model.Lex
open E2P

def optB : Option Bool → String
  | some true => "T" | some false => "F" | none => "-"

def strsModelled (vs : List Val) : Bool :=
  vs.all fun v => match v with | .str s => numTextModelled s | _ => true

def handleCmp (args : List String) : String :=
  match args with
  | opS :: rest =>
    match CmpOp.ofPy opS, decVals 2 rest with
    | some op, some ([l, r], []) =>
      let model := if strsModelled [l, r] then
          match compare parseNum op l r with
          | some b => if b then "T" else "F"
          | none => "EUnmodelled"
        else "EUnmodelled"
      s!"{model} | {optB (specCompare op l r)} | "
    | _, _ => "bad-op"
  | _ => "bad-op"

def optV : Option Val → String
  | some v => " ".intercalate (encVal v) | none => "-"

def strOf : Val → Option (List Char) | .str s => some s | _ => none
def intOf : Val → Option Int | .int z => some z | _ => none

/-- date helpers: `dt <fn> args…` -/
def handleDate (args : List String) : String :=
  match args with
  | fn :: rest =>
    match decAll rest with
    | none => "bad-op"
    | some vs =>
      match fn, vs with
      | "date", [.int y, .int m, .int d] =>
        let model := dateFn y m d
        let spec := match specDate y m d with
          | some n => optV (some (.dt n 0))
          | none => "-"
        s!"{encRes model} | {spec} | "
      | "year", [v] => s!"{encRes (yearFn v)} | - | "
      | "month", [v] => s!"{encRes (monthFn v)} | - | "
      | "day", [v] => s!"{encRes (dayFn v)} | - | "
      | "edate", [a, b] => s!"{encRes (edateFn a b)} | - | "
      | "eomonth", [a, b] => s!"{encRes (eomonthFn a b)} | - | "
      | "datedif", [a, b, .str m] => s!"{encRes (datedifFn a b m)} | - | "
      | "netdays", [a, b, h] =>
        let spec := match a, b with
          | .dt ns _, .dt ne _ => optV (some (.int (specNetworkdays (holidayOrdinals h) ns ne)))
          | _, _ => "-"
        s!"{encRes (networkDaysFn a b h)} | {spec} | "
      | "ordinal", [.int y, .int m, .int d] => s!"{encRes (.ok (.int (ordinal y m d)))} | - | "
      | "fromordinal", [.int n] =>
        let t := ofOrdinal n
        s!"{encRes (.ok (.list [.int t.y, .int t.m, .int t.d, .int (weekday n), .int (daysInMonth t.y t.m)]))} | - | "
      | _, _ => "bad-op"
  | _ => "bad-op"

def modeOf : String → Option RMode
  | "round" => some .halfUp | "roundup" => some .up | "rounddown" => some .down | _ => none

/-- rounding: `rnd <mode> I<digits> I<exp10> R<double> <n>` — the operand is the double made from the decimal text -/
def handleRound (args : List String) : String :=
  match args with
  | m :: rest =>
    match modeOf m, decAll rest with
    | some mode, some [.int digits, .int ex, .flt dbl, nv] =>
      let x := decimal (digits < 0) digits.natAbs ex
      let model := roundFn mode (.flt dbl) nv
      let spec := match digitsArg nv with
        | some n => if digits.natAbs < 10 ^ 15 then optV (some (.flt (specRound mode x n))) else "-"
        | none => "-"
      let flags := (if rn x == dbl then "" else "rn-bad,") ++ (if digits.natAbs < 10 ^ 15 && !(round15 dbl == x) then "recover-bad," else "")
      s!"{encRes model} | {spec} | {flags}"
    | some mode, some [.int z, nv] =>
      let model := roundFn mode (.int z) nv
      let spec := match digitsArg nv with
        | some n => optV (some (.int (quantize mode (z : Rat) n).floor))
        | none => "-"
      s!"{encRes model} | {spec} | "
    | _, _ => "bad-op"
  | _ => "bad-op"

def handlePct (args : List String) : String :=
  match decAll args with
  | some [.int digits, .int ex, .flt dbl] =>
    let x := decimal (digits < 0) digits.natAbs ex
    let spec := if digits.natAbs < 10 ^ 13 then optV (some (.flt (specPercent x))) else "-"
    s!"{encRes (percentFn (.flt dbl))} | {spec} | {if rn x == dbl then "" else "rn-bad,"}"
  | some [.int z] => s!"{encRes (percentFn (.int z))} | {optV (some (.flt (specPercent (z : Rat))))} | "
  | _ => "bad-op"

def optIdx : Option Nat → String
  | some i => s!"I{i}" | none => " ".intercalate (encVal errNA)

/-- lookups: `lk <fn> args…` -/
def handleLookup (args : List String) : String :=
  match args with
  | fn :: rest =>
    match decAll rest with
    | none => "bad-op"
    | some vs =>
      match fn, vs with
      | "match", [lookup, .list rows, .int mt] =>
        let spec := match keysOf rows with
          | some keys =>
            if allEligible lookup keys && textsModelled (lookup :: keys) then
              if mt = 0 then optIdx (specFirstEqual true lookup keys)
              else if mt = 1 ∧ sortedAsc true keys then optIdx (specLastLe true lookup keys)
              else "-"
            else "-"
          | none => "-"
        s!"{encRes (matchFn lookup (.list rows) mt)} | {spec} | "
      | "xmatch", [lookup, .list rows, .int mm, .int sm] =>
        let spec := match keysOf rows with
          | some keys =>
            if allEligible lookup keys && textsModelled (lookup :: keys) && mm == 0 then
              if sm = 1 then optIdx (specFirstEqual true lookup keys)
              else if sm = -1 then optIdx (specLastEqual true lookup keys)
              else "-"
            else if mm == 0 && (sm == 2 || sm == -2) && !keys.isEmpty && sameKind lookup keys && strictlyRuns (sm == -2) keys then
              optIdx (specBinExact lookup keys)
            else if (mm == 1 || mm == -1) && sm == 2 && !keys.isEmpty && sameKind lookup keys && strictlyRuns false keys then
              optIdx (if mm == 1 then specBinNextLarger lookup keys else specBinNextSmaller lookup keys)
            else if (mm == 1 || mm == -1) && sm == -2 && !keys.isEmpty && sameKind lookup keys && strictlyRuns true keys then
              optIdx (if mm == 1 then specBinDescNextLarger lookup keys else specBinDescNextSmaller lookup keys)
            else "-"
          | none => "-"
        s!"{encRes (xmatchFn lookup (.list rows) mm sm)} | {spec} | "
      | "vlookup", [lookup, .list rows, .int col, rl] =>
        let spec := match keysOf rows with
          | some keys =>
            if allEligible lookup keys && textsModelled (lookup :: keys) && 1 ≤ col then
              let pick : Option Nat → String := fun i => match i with
                | some i => (match rows[i - 1]? with
                    | some row => (match rowCol row col with | .ok v => optV (some v) | .error _ => "-")
                    | none => "-")
                | none => optV (some errNA)
              match rl with
              | .bool false | .int 0 => pick (specFirstEqual false lookup keys)
              | .bool true | .int 1 => if sortedAsc false keys then pick (specLastLe false lookup keys) else "-"
              | _ => "-"
            else "-"
          | none => "-"
        s!"{encRes (vlookupFn lookup (.list rows) col rl)} | {spec} | "
      | "index", [.list rows, r, c] =>
        let rs : Option (List (List Val)) := rows.mapM fun x => match x with | .list cs => some cs | _ => none
        let spec := match rs, r, c with
          | some rs, .int r, .int c => if rs.length > 1 || true then optV (specIndex rs r c) else "-"
          | some rs, .int r, .none =>
            -- one index: row number of a column vector, column number of a row vector
            if rs.length = 1 then optV (specIndex rs 1 r)
            else if rs.all (fun x => x.length == 1) then optV (specIndex rs r 1) else "-"
          | _, _, _ => "-"
        s!"{encRes (indexFn (.list rows) r c)} | {spec} | "
      | "address", [.int r, .int c] =>
        let letters := colLetters c.toNat
        let ok := 1 ≤ c && colIndex letters == c.toNat && letters.all isUpper
        let spec := if ok then optV (some (.str (['$'] ++ letters ++ ['$'] ++ (toString r).toList))) else "-"
        s!"{encRes (addressFn r c)} | {spec} | "
      | "col", [.int c] => s!"{encRes (.ok (.str (colLetters c.toNat)))} | - | "
      | "colidx", [.str s] => s!"{encRes (.ok (.int (colIndex s)))} | - | "
      | _, _ => "bad-op"
  | _ => "bad-op"

def encTextOut : TextOut → String
  | .text s => encStr s
  | .errorValue => "ERRVAL"
  | .position p => s!"I{p}"

/-- text helpers: `tx <fn> args…` -/
def handleText (args : List String) : String :=
  match args with
  | fn :: rest =>
    match decAll rest with
    | none => "bad-op"
    | some vs =>
      match fn, vs with
      | "left", [.str t, .int n] => s!"{encRes (leftFn t n)} | {encTextOut (specLeft t n)} | "
      | "right", [.str t, .int n] => s!"{encRes (rightFn t n)} | {encTextOut (specRight t n)} | "
      | "mid", [.str t, .int k, .int n] => s!"{encRes (midFn t k n)} | {encTextOut (specMid t k n)} | "
      | "search", [.str f, .str t, st] =>
        let start : Option (Option Int) := match st with | .int z => some (some z) | .none => some none | _ => none
        match start with
        | some st =>
          let m := searchFn f t st
          let spec := match m with | .ok (.int p) => s!"I{p}" | .ok _ => "ERRVAL" | .error _ => "-"
          s!"{encRes m} | {spec} | "
        | none => "bad-op"
      | "concat", vs =>
        let m := concatFn vs
        let spec := match m with | .ok v => optV (some v) | .error _ => "-"
        s!"{encRes m} | {spec} | "
      | "value", [.str t] =>
        let m := valueFn t
        let spec := match m with | .ok v => optV (some v) | .error _ => "-"
        s!"{encRes m} | {spec} | "
      | _, _ => "bad-op"
  | _ => "bad-op"

/-- prefix parser for formulas of the C13 fragment -/
def parseX : Nat → List String → Option (XExpr × List String)
  | 0, _ => none
  | fuel + 1, ts =>
    let two (mk : XExpr → XExpr → XExpr) (r : List String) : Option (XExpr × List String) := do
      let (a, r) ← parseX fuel r
      let (b, r) ← parseX fuel r
      some (mk a b, r)
    match ts with
    | "lit" :: r => (decVal r).map fun (v, r) => (.lit v, r)
    | "ref" :: i :: r => i.toNat?.map fun i => (.ref i, r)
    | "div" :: r => two .div r
    | "add" :: r => two .add r
    | "mul" :: r => two .mul r
    | "cat" :: r => two .cat r
    | "eq" :: r => two .eq r
    | "sum" :: r => two .sum2 r
    | "left" :: r => two .left r
    | "iferr" :: r => two .iferror r
    | "if2" :: r => two .if2 r
    | "if3" :: r => do
      let (c, r) ← parseX fuel r
      let (t, r) ← parseX fuel r
      let (f, r) ← parseX fuel r
      some (.if3 c t f, r)
    | "ifs" :: n :: r => do
      let n ← n.toNat?
      let rec pairs : Nat → List String → Option (List (XExpr × XExpr) × List String)
        | 0, r => some ([], r)
        | k + 1, r => do
          let (c, r) ← parseX fuel r
          let (v, r) ← parseX fuel r
          let (ps, r) ← pairs k r
          some ((c, v) :: ps, r)
      let (ps, r) ← pairs n r
      some (ps.foldr (fun (c, v) acc => .ifsCons c v acc) .ifsNil, r)
    | _ => none

def decRes (ts : List String) : Option (Res × List String) :=
  match ts with
  | t :: r => if t.startsWith "E" then some (.error (PyExc.ofName (t.drop 1).toString), r) else (decVal ts).map fun (v, r) => (.ok v, r)
  | [] => none

/-- `br <ncells> res₀ … <formula>` -/
def handleBranch (args : List String) : String :=
  match args with
  | n :: rest =>
    match n.toNat? with
    | none => "bad-op"
    | some n =>
      let rec cells : Nat → List String → Option (List Res × List String)
        | 0, r => some ([], r)
        | k + 1, r => do
          let (x, r) ← decRes r
          let (xs, r) ← cells k r
          some (x :: xs, r)
      match cells n rest with
      | none => "bad-op"
      | some (cs, r) =>
        match parseX (r.length + 1) r with
        | some (e, []) =>
          let env : Nat → Res := fun i => cs.getD i (.ok .blank)
          let model := evalPy (E2P.Generated.errorValuesTemplate.map String.toList) env (translateX e)
          let spec := match evalX env e with
            | .ok v => optV (some v)
            | .error .unmodelled => "-"
            | .error _ => "EFAIL"
          s!"{encRes model} | {if wellFormed e then spec else "-"} | "
        | _ => "bad-op"
  | _ => "bad-op"

/-- `Q<num>/<den>`: the exact value of a number, kind-insensitive (MIN/MAX are specified as values) -/
def encQ (q : Rat) : String := s!"Q{q.num}/{q.den}"

def errsGen : List (List Char) := E2P.Generated.errorValuesTemplate.map String.toList

/-- aggregates: `ag <fn> <args as one list value>` / `ag count <matrices> <args> <cells>` -/
def handleAgg (args : List String) : String :=
  match args with
  | fn :: rest =>
    match decAll rest with
    | none => "bad-op"
    | some vs =>
      match fn, vs with
      | "count", [.list ms, .list as, .list cs] =>
        let model := countF ms as cs
        let fl := flattenL ms ++ cs
        let plain := plainCells excelErrors fl && plainCells excelErrors as
        let scal := (as.filter fun v => match v with
          | .int _ | .flt _ | .bool _ => true | .str s => isDigitText s | _ => false).length
        let spec := if plain then s!"I{specCount (ms ++ cs) + scal}" else "-"
        s!"I{model} | {spec} | "
      | _, [.list as] =>
        let fl := flattenL as
        let plain := plainCells excelErrors fl
        let nums := numericCells as
        let exact := allExact nums
        match fn with
        | "sum" =>
          let model := if exact then encRes (sumCall as) else "EUnmodelled"
          s!"{model} | {if exact && plain then optV (some (specSum as)) else "-"} | "
        | "average" =>
          let model := if exact then encRes (averageCall as) else "EUnmodelled"
          let spec := match specAverage as with
            | some v => if exact && plain then optV (some v) else "-"
            | none => "-"
          s!"{model} | {spec} | "
        | "min" =>
          let model := minCall errsGen as
          let spec := match nums with
            | [] => "-"
            | v :: r => if plain then encQ (ratOf (minFold v r)) else "-"
          s!"{encRes model} | {spec} | "
        | "max" =>
          let model := maxCall errsGen as
          let spec := match nums with
            | [] => "-"
            | v :: r => if plain then encQ (ratOf (maxFold v r)) else "-"
          s!"{encRes model} | {spec} | "
        | "countblank" =>
          s!"{encRes (countBlankCall errsGen as)} | {if plain then s!"I{specCountBlank as}" else "-"} | "
        | "and" =>
          let truthDefined := fl.all fun v => match v with | .int _ | .flt _ | .bool _ | .blank => true | _ => false
          s!"{if andCall as then "T" else "F"} | {if truthDefined then (if fl.all truthy then "T" else "F") else "-"} | "
        | "or" =>
          let truthDefined := fl.all fun v => match v with | .int _ | .flt _ | .bool _ | .blank => true | _ => false
          s!"{if orCall as then "T" else "F"} | {if truthDefined then (if fl.any truthy then "T" else "F") else "-"} | "
        | _ => "bad-op"
      | _, _ => "bad-op"
  | _ => "bad-op"

/-! executor histories: `ex <fuel> <nsheets> {w h} <ncells> {code xexpr} <nops> {op}` -/
def takeNat : List String → Option (Nat × List String)
  | t :: r => t.toNat?.map fun n => (n, r)
  | [] => none

def parseMany {α} (p : List String → Option (α × List String)) : Nat → List String → Option (List α × List String)
  | 0, r => some ([], r)
  | k + 1, r => do
    let (x, r) ← p r
    let (xs, r) ← parseMany p k r
    some (x :: xs, r)

def parseUid (r : List String) : Option (Uid × List String) := do
  let (s, r) ← takeNat r
  let (c, r) ← takeNat r
  let (w, r) ← takeNat r
  some (⟨s, c, w⟩, r)

def parseOp : List String → Option (Op × List String)
  | "set" :: r => do
    let (n, r) ← takeNat r
    let (b, r) ← parseMany (fun r => do
      let (u, r) ← parseUid r
      let (v, r) ← decVal r
      some ((u, v), r)) n r
    some (.set b, r)
  | "get" :: r => do let (u, r) ← parseUid r; some (.get u, r)
  | "gets" :: r => do
    let (n, r) ← takeNat r
    let (us, r) ← parseMany parseUid n r
    some (.gets us, r)
  | "sheet" :: r => do let (s, r) ← takeNat r; some (.sheet s, r)
  | _ => none

def parseOpA : List String → Option (OpA × List String)
  | "rej" :: r => some (.rejected, r)
  | r => do let (o, r) ← parseOp r; some (.op o, r)

def firstErr (rs : List Res) : Option PyExc := rs.findSome? fun r => match r with | .error e => some e | .ok _ => none

def encOut : Out → String
  | .unit => "-"
  | .val r => encRes r
  | .vals rs => match firstErr rs with
    | some e => "E" ++ e.name
    | none => s!"V{rs.length} " ++ " ".intercalate (rs.map encRes)
  | .grid g => match firstErr g.flatten with
    | some e => "E" ++ e.name
    | none => s!"G{g.length}x{(g.headD []).length} " ++ " ".intercalate (g.flatten.map encRes)

def weave : List OpA → List String → List String
  | [], _ => []
  | .rejected :: ops, outs => "ECell" :: weave ops outs
  | .op _ :: ops, o :: outs => o :: weave ops outs
  | .op _ :: ops, [] => "?" :: weave ops []

def handleExec (args : List String) : String :=
  match (do
    let (fuel, r) ← takeNat args
    let (ns, r) ← takeNat r
    let (sizes, r) ← parseMany (fun r => do let (w, r) ← takeNat r; let (h, r) ← takeNat r; some ((w, h), r)) ns r
    let (nc, r) ← takeNat r
    let (cells, r) ← parseMany (fun r => do
      let (code, r) ← takeNat r
      let (e, r) ← parseX (r.length + 1) r
      some ((code, e), r)) nc r
    let (no, r) ← takeNat r
    let (ops, r) ← parseMany parseOpA no r
    if r.isEmpty then some (fuel, sizes, cells, ops) else none) with
  | none => "bad-op"
  | some (fuel, sizes, cells, opsA) =>
    let wb : Workbook := cells
    let ops := accepted opsA
    let model := (runA wb fuel (ExecState.init sizes) opsA).2.map fun o => match o with | .out o => encOut o | .cellError => "ECell"
    -- the specification speaks about the accepted calls; a rejected call answers with the cell exception
    let spec := weave opsA ((specRun (fun k => lookup k wb) fuel sizes [] ops).map encOut)
    let valid := (allWriteUids ops).all fun u => u.sheet < sizes.length
    let j := fun (os : List String) => " ; ".intercalate os
    s!"{j model} | {if valid then j spec else "-"} | "

/-! facade sequences: `fc <ntab> {p e s result} <nops> {P<k> | E<k> | S+ | S- | G | W}`; entry index 0 = none in the table -/
def genTable : FacadeTable :=
  { inits := E2P.Generated.facadeInits, assigns := E2P.Generated.facadeAssigns,
    guard := E2P.Generated.facadeGuard, resets := E2P.Generated.facadeResets }

def parseFOp (t : String) : Option (FOp Nat Nat) :=
  if t == "S+" then some .enableSafety else if t == "S-" then some .disableSafety
  else if t == "G" then some .get else if t == "W" then some .write
  else if t.startsWith "P" then (t.drop 1).toString.toNat?.map .setPath
  else if t.startsWith "E" then (t.drop 1).toString.toNat?.map .setEntry
  else none

def encFRes : Except PyExc (Option String) → String
  | .ok (some t) => t
  | .ok none => "N"
  | .error e => "E" ++ e.name

def handleFacade (args : List String) : String :=
  match (do
    let (n, r) ← takeNat args
    let (tab, r) ← parseMany (fun r => match r with
      | p :: e :: s :: res :: r => do
        let p ← p.toNat?; let e ← e.toNat?
        some ((p, e, s == "1", res), r)
      | _ => none) n r
    let (m, r) ← takeNat r
    let ops ← (r.mapM parseFOp)
    if ops.length = m then some (tab, ops) else none) with
  | none => "bad-op"
  | some (tab, ops) =>
    let tr : Nat → Option Nat → Bool → Except PyExc String := fun p e s =>
      let ei := match e with | none => 0 | some k => k + 1
      match tab.find? (fun row => row.1 == p && row.2.1 == ei && row.2.2.1 == s) with
      | some row => if row.2.2.2.startsWith "E" then .error (PyExc.ofName (row.2.2.2.drop 1).toString) else .ok row.2.2.2
      | none => .error .unmodelled
    let outs := (frun genTable tr (initState genTable) ops).2
    let model := outs.filterMap fun o => o.map encFRes
    let spec := (List.range ops.length).filterMap fun i =>
      match ops[i]? with
      | some (FOp.get) | some (FOp.write) => some (encFRes (freshResult tr (settingsAfter ⟨none, none, true⟩ (ops.take i))))
      | _ => none
    s!"{" ".intercalate model} | {" ".intercalate spec} | "

/-! dependency graphs: `gr <fuel> <nnodes> {u k d₁…d_k} (from <e> | all <n> c₁…c_n)` -/
def insertSorted (x : Nat) : List Nat → List Nat
  | [] => [x]
  | y :: ys => if x ≤ y then x :: y :: ys else y :: insertSorted x ys
def sortNat (l : List Nat) : List Nat := l.foldr insertSorted []

/-- independent oracle: reachability by iterated closure -/
def closure (G : DepGraph) (seed : List Nat) : Nat → List Nat
  | 0 => seed
  | k + 1 =>
    let next := (seed.flatMap (depsOf G)).filter (fun v => !seed.contains v)
    if next.isEmpty then seed else closure G (seed ++ next.eraseDups) k

def reachSet (G : DepGraph) (roots : List Nat) : List Nat := closure G roots.eraseDups (G.length + roots.length + 2)
def onCycle (G : DepGraph) (c : Nat) : Bool := (reachSet G (depsOf G c)).contains c && !(depsOf G c).isEmpty

def handleGraph (args : List String) : String :=
  match (do
    let (fuel, r) ← takeNat args
    let (n, r) ← takeNat r
    let (g, r) ← parseMany (fun r => do
      let (u, r) ← takeNat r
      let (k, r) ← takeNat r
      let (ds, r) ← parseMany takeNat k r
      some ((u, ds), r)) n r
    match r with
    | "from" :: r => do let (e, r) ← takeNat r; if r.isEmpty then some (fuel, g, [e], true) else none
    | "all" :: r => do let (k, r) ← takeNat r; let (cs, r) ← parseMany takeNat k r; if r.isEmpty then some (fuel, g, cs, false) else none
    | _ => none) with
  | none => "bad-op"
  | some (fuel, g, roots, single) =>
    let res := if single then translateFrom g fuel (roots.headD 0) else translateAll g fuel roots
    let enc := fun (l : List Nat) => s!"K{l.length} " ++ " ".intercalate ((sortNat l).map toString)
    let model := match res with | .ok l => enc l | .error e => "E" ++ e.name
    let rs := reachSet g roots
    let spec := if rs.any (onCycle g) then "EParser" else enc rs
    s!"{model} | {spec} | "

/-! token-set parser: `pg <fuel> <entry class> k₁ … kₙ` (token classes only: parsing does not look at texts) -/
def genGrammar : Grammar :=
  { rules := E2P.Generated.grammarRules, control := E2P.Generated.grammarControl, composites := E2P.Generated.grammarCompositeNames }

def handlePeg (args : List String) : String :=
  match args with
  | fuel :: entry :: kinds =>
    match fuel.toNat? with
    | none => "bad-op"
    | some fuel =>
      let toks : List Tok := kinds.map fun k => (k, "")
      let m := match astBuild genGrammar fuel entry toks with
        | .accept t => "A " ++ t.sexp
        | .reject => "REJECT"
        | .depth => "EUnmodelled"
      s!"{m} | - | "
  | _ => "bad-op"

/-! memoised token-set parser: `pm <fuel> <entry class> k₁ … kₙ` -> outcome of `AstBuilder.parse` with the memo table and the
    number of `_get` executions -/
def handlePegMemo (args : List String) : String :=
  match args with
  | fuel :: entry :: kinds =>
    match fuel.toNat? with
    | none => "bad-op"
    | some fuel =>
      let toks : List Tok := kinds.map fun k => (k, "")
      let (r, calls) := astBuildM genGrammar fuel entry toks
      let m := match r with
        | .accept t => "A " ++ t.sexp
        | .reject => "REJECT"
        | .depth => "EUnmodelled"
      let plain := match astBuild genGrammar fuel entry toks with
        | .accept t => "A " ++ t.sexp
        | .reject => "REJECT"
        | .depth => "EUnmodelled"
      s!"{m} #{calls} | - | {if m == plain then "" else "memo-differs-from-plain"}"
  | _ => "bad-op"

/-! lexer: `lx <S text>` (Lexer.parse), `lt <class> <S text>` (one class's `get`), `lp <S text>` (lex, then the token-set parser) -/
def lexTable : List (String × Lex.Scanner) := Lex.table E2P.Generated.lexerOrder E2P.Generated.lexerRegexes

def encTitle (t : Option (List Char)) : String := match t with | some t => encStr t | none => "@"
def encRef (c : Lex.RefCell) : String := s!"{encTitle c.title} {encStr c.col} {encStr c.row}"

def handleLex (args : List String) : String :=
  match args with
  | [t] =>
    match decVal [t] with
    | some (.str s, []) =>
      let m := match Lex.lex lexTable s with
        | .ok toks => " ".intercalate ("OK" :: toks.map fun (tk : Tok) => tk.1 ++ "=" ++ encStr tk.2.toList)
        | .undefined _ => "EUndefined"
        | .tooLarge => "ETooLarge"
        | .unsupported => "EUnmodelled"
        | .spin => "ESpin"
        | .fuel => "EFuel"
      s!"{m} | - | "
    | _ => "bad-op"
  | _ => "bad-op"

def handleLexTok (args : List String) : String :=
  match args with
  | [cls, t] =>
    match decVal [t] with
    | some (.str s, []) =>
      let m := match cls with
        | "CellIdentifierToken" => (match Lex.cellTok s with | some (c, rest) => s!"{encRef c} {encStr rest}" | none => "NONE")
        | "MatrixOfCellIdentifiersToken" => (match Lex.matrixTok s with | some ((a, b), rest) => s!"{encRef a} {encRef b} {encStr rest}" | none => "NONE")
        | "CellIdentifierRangeToken" => (match Lex.rangeTok s with | some ((a, b), rest) => s!"{encRef a} {encRef b} {encStr rest}" | none => "NONE")
        | "PatternToken" => (match Lex.patternTok s with | some (b, rest) => s!"{encStr b} {encStr rest}" | none => "NONE")
        | "LiteralToken" => (match Lex.literalTok s with
            | some (.str raw, rest) => s!"str {encStr (Lex.undouble '"' raw)} {encStr rest}"
            | some (.num _ _ _ _ _, rest) => s!"num {encStr rest}"
            | some (.tru, rest) => s!"true {encStr rest}"
            | some (.fls, rest) => s!"false {encStr rest}"
            | none => "NONE")
        | other => (match Lex.scannerOf E2P.Generated.lexerRegexes other with
            | .alts as => (match Lex.matchAlts as s with | some rest => encStr rest | none => "NONE")
            | _ => "EUnmodelled")
      s!"{m} | - | "
    | _ => "bad-op"
  | _ => "bad-op"

def handleLexParse (args : List String) : String :=
  match args with
  | [t] =>
    match decVal [t] with
    | some (.str s, []) =>
      let m := match Lex.lex lexTable s with
        | .ok toks => (match astBuild genGrammar (6 * toks.length + 6) "EntryPointToken" toks with
            | .accept t => "A " ++ t.sexp
            | .reject => "REJECT"
            | .depth => "EDepth")
        | .undefined _ => "EUndefined"
        | .tooLarge => "ETooLarge"
        | .unsupported => "EUnmodelled"
        | .spin => "ESpin"
        | .fuel => "EFuel"
      s!"{m} | - | "
    | _ => "bad-op"
  | _ => "bad-op"

/-! quoting: `qt <S-encoded text>` → model = repr(text) (S-encoded), flag rt-bad if the model's own round trip fails -/
def handleQuote (args : List String) : String :=
  match args with
  | [t] =>
    match decVal [t] with
    | some (.str s, []) =>
      let r := pyRepr s
      let ok := match pyStringLiteral? (r ++ " + x".toList) with
        | some (v, rest) => v == s && rest == " + x".toList
        | none => false
      s!"{encStr r} | - | {if ok then "" else "rt-bad"}"
    | _ => "bad-op"
  | _ => "bad-op"

/-! references: a book of `n` sheets with dims (w h); cell (s,c,r) inside holds the planted number (s+1)·10¹⁰+(c+1)·10⁵+(r+1) unless listed as a hole.
    `rf <n> {w h} <nholes> {s c r} (mx s c1 r1 c2 r2 | cols s c1 c2 | uid s c r)` -/
def planted (s c r : Nat) : Val := .int (((s + 1) * 10000000000 + (c + 1) * 100000 + (r + 1) : Nat) : Int)

def handleRefs (args : List String) : String :=
  match (do
    let (n, r) ← takeNat args
    let (dims, r) ← parseMany (fun r => do let (w, r) ← takeNat r; let (h, r) ← takeNat r; some ((w, h), r)) n r
    let (nh, r) ← takeNat r
    let (holes, r) ← parseMany parseUid nh r
    some (dims, holes, r)) with
  | none => "bad-op"
  | some (dims, holes, rest) =>
    let book : List SheetData := dims.mapIdx fun s (w, h) =>
      (List.range h).map fun r => (List.range w).map fun c =>
        if holes.any (fun u => u.sheet == s && u.col == c && u.row == r) then .blank else planted s c r
    let encM := fun (m : List (List Val)) => " ".intercalate (encVal (.list (m.map .list)))
    match rest.map String.toNat? with
    | [] => "bad-op"
    | _ =>
      match rest with
      | ["mx", s, c1, r1, c2, r2] =>
        match s.toNat?, c1.toNat?, r1.toNat?, c2.toNat?, r2.toNat? with
        | some s, some c1, some r1, some c2, some r2 => let m := encM (getMatrix book s c1 r1 c2 r2); s!"{m} | {m} | "
        | _, _, _, _, _ => "bad-op"
      | ["cols", s, c1, c2] =>
        match s.toNat?, c1.toNat?, c2.toNat? with
        | some s, some c1, some c2 => let m := encM (wholeColumns book s c1 c2); s!"{m} | {m} | "
        | _, _, _ => "bad-op"
      | ["cell", s, c, r] =>
        match s.toNat?, c.toNat?, r.toNat? with
        | some s, some c, some r => let v := " ".intercalate (encVal (fetch book s c r)); s!"{v} | {v} | "
        | _, _, _ => "bad-op"
      | ["uid", s, c, r] =>
        match s.toNat?, c.toNat?, r.toNat? with
        | some s, some c, some r => let u := encStr (uidText s c r); s!"{u} | {u} | "
        | _, _, _ => "bad-op"
      | _ => "bad-op"

/-! safety gate: `sf <S text>` → the suspicious fragments; `sk <S title> <col> <row>` → the report key -/
def handleSafety (args : List String) : String :=
  match args with
  | [t] =>
    match decVal [t] with
    | some (.str s, []) =>
      let m := " ".intercalate (encVal (.list ((suspicious s).map .str)))
      s!"{m} | - | "
    | _ => "bad-op"
  | _ => "bad-op"

def handleSafetyKey (args : List String) : String :=
  match args with
  | [t, c, r] =>
    match decVal [t], c.toNat?, r.toNat? with
    | some (.str s, []), some c, some r => let k := encStr (reportKey s c r); s!"{k} | {k} | "
    | _, _, _ => "bad-op"
  | _ => "bad-op"

/-! operators: `op <n> res₀ … res_{n-1} tok…` with tokens a<i> ( ) % + - * / & = <> < <= > >= -/
def parseTk (t : String) : Option Tk :=
  match t with
  | "(" => some .lp | ")" => some .rp | "%" => some .pct
  | "+" => some (.op .add) | "-" => some (.op .sub) | "*" => some (.op .mul) | "/" => some (.op .div) | "&" => some (.op .cat)
  | "=" => some (.op (.cmp .eq)) | "<>" => some (.op (.cmp .ne)) | "<" => some (.op (.cmp .lt)) | "<=" => some (.op (.cmp .le))
  | ">" => some (.op (.cmp .gt)) | ">=" => some (.op (.cmp .ge))
  | _ => if t.startsWith "a" then (t.drop 1).toString.toNat?.map .atom else none

/-- independent reading of the same token sequence: recursive descent over the stratified grammar
    cmp := cat (cmpop cat)* ; cat := add (& add)* ; add := mul ((+|-) mul)* ; mul := un ((*|/) un)* ; un := (+|-)* post ; post := (atom | '(' cmp ')') %*
    evaluated directly on values (no tree), one function per level -/
structure SV where
  v : Res
  pct : Bool

def applyBin (o : BinOp) (l r : SV) : SV :=
  let v : Res := do
    let x ← l.v
    let y ← r.v
    let z ← evalBin o x y
    match o with
    | .add | .sub | .mul | .div => if l.pct then pure (normVal z) else pure z
    | _ => pure z
  ⟨v, false⟩

mutual
  partial def sCmp (env : Nat → Res) (ts : List Tk) : Option (SV × List Tk) := do
    let (l, r) ← sCat env ts
    sCmpTail env l r
  partial def sCmpTail (env : Nat → Res) (l : SV) (ts : List Tk) : Option (SV × List Tk) :=
    match ts with
    | .op (.cmp c) :: r => do let (x, r') ← sCat env r; sCmpTail env (applyBin (.cmp c) l x) r'
    | _ => some (l, ts)
  partial def sCat (env : Nat → Res) (ts : List Tk) : Option (SV × List Tk) := do
    let (l, r) ← sAdd env ts
    sCatTail env l r
  partial def sCatTail (env : Nat → Res) (l : SV) (ts : List Tk) : Option (SV × List Tk) :=
    match ts with
    | .op .cat :: r => do let (x, r') ← sAdd env r; sCatTail env (applyBin .cat l x) r'
    | _ => some (l, ts)
  partial def sAdd (env : Nat → Res) (ts : List Tk) : Option (SV × List Tk) := do
    let (l, r) ← sMul env ts
    sAddTail env l r
  partial def sAddTail (env : Nat → Res) (l : SV) (ts : List Tk) : Option (SV × List Tk) :=
    match ts with
    | .op .add :: r => do let (x, r') ← sMul env r; sAddTail env (applyBin .add l x) r'
    | .op .sub :: r => do let (x, r') ← sMul env r; sAddTail env (applyBin .sub l x) r'
    | _ => some (l, ts)
  partial def sMul (env : Nat → Res) (ts : List Tk) : Option (SV × List Tk) := do
    let (l, r) ← sUn env ts
    sMulTail env l r
  partial def sMulTail (env : Nat → Res) (l : SV) (ts : List Tk) : Option (SV × List Tk) :=
    match ts with
    | .op .mul :: r => do let (x, r') ← sUn env r; sMulTail env (applyBin .mul l x) r'
    | .op .div :: r => do let (x, r') ← sUn env r; sMulTail env (applyBin .div l x) r'
    | _ => some (l, ts)
  partial def sUn (env : Nat → Res) (ts : List Tk) : Option (SV × List Tk) :=
    match ts with
    | .op .sub :: r => do let (x, r') ← sUn env r; some (⟨x.v >>= pyNeg, false⟩, r')
    | .op .add :: r => do let (x, r') ← sUn env r; some (⟨x.v >>= pyPos, false⟩, r')
    | _ => sPost env ts
  partial def sPost (env : Nat → Res) (ts : List Tk) : Option (SV × List Tk) :=
    match ts with
    | .atom a :: r => sPct ⟨env a, false⟩ r
    | .lp :: r => do
      let (x, r') ← sCmp env r
      match r' with
      | .rp :: r'' => sPct ⟨x.v, false⟩ r''
      | _ => none
    | _ => none
  partial def sPct (x : SV) (ts : List Tk) : Option (SV × List Tk) :=
    match ts with
    | .pct :: r => sPct ⟨x.v >>= pctVal, true⟩ r
    | _ => some (x, ts)
end

def encResU : Res → String
  | .error .unmodelled => "EUnmodelled"
  | r => encRes r

def handleOps (args : List String) : String :=
  match args with
  | n :: rest =>
    match n.toNat? with
    | none => "bad-op"
    | some n =>
      let rec cells : Nat → List String → Option (List Res × List String)
        | 0, r => some ([], r)
        | k + 1, r => do
          let (x, r) ← decRes r
          let (xs, r) ← cells k r
          some (x :: xs, r)
      match cells n rest with
      | none => "bad-op"
      | some (cs, r) =>
        match r.mapM parseTk with
        | none => "bad-op"
        | some toks =>
          let env : Nat → Res := fun i => cs.getD i (.ok .blank)
          let model := match groupTokens toks with
            | some e => encResU (evalEx env e)
            | none => "REJECT"
          let spec := match sCmp env toks with
            | some (v, []) => (match v.v with | .error .unmodelled => "-" | r => encRes r)
            | _ => "REJECT"
          s!"{model} | {spec} | "
  | _ => "bad-op"

/-! criteria: a structured criterion is `n <op> <number val>` | `t <op> <S text>`; ops as in `cmp`
    `cr <rendered criterion val> ; <structured> ; <cell val>`        → does the cell meet the criterion
    `ci (sumifs|countifs|sumif) <target list val> <k> {<range list val> <rendered val> <structured>}` -/
def parseCrit : List String → Option (Crit × List String)
  | "n" :: op :: r => do
    let o ← CmpOp.ofPy op
    let (v, r) ← decVal r
    match v with
    | .int z => some (.num o (z : Rat), r)
    | .flt q => some (.num o q, r)
    | _ => none
  | "t" :: op :: r => do
    let o ← CmpOp.ofPy op
    let (v, r) ← decVal r
    match v with
    | .str s => some (.text o s, r)
    | _ => none
  | _ => none

def bStr (b : Bool) : String := if b then "T" else "F"

def handleCrit (args : List String) : String :=
  match (do
    let (rendered, r) ← decVal args
    let (cr, r) ← parseCrit r
    let (cell, r) ← decVal r
    if r.isEmpty then some (rendered, cr, cell) else none) with
  | none => "bad-op"
  | some (rendered, cr, cell) =>
    let model := match decodeCrit parseNum rendered with
      | some d => bStr (critAccepts d cell)
      | none => "EUnmodelled"
    s!"{model} | {bStr (critAccepts cr cell)} | "

def listOf : Val → Option (List Val) | .list vs => some vs | _ => none

def handleCondAgg (args : List String) : String :=
  match args with
  | fn :: rest =>
    match (do
      let (tv, r) ← decVal rest
      let target ← listOf tv
      let (k, r) ← takeNat r
      let (pairs, r) ← parseMany (fun r => do
        let (rv, r) ← decVal r
        let rng ← listOf rv
        let (rendered, r) ← decVal r
        let (cr, r) ← parseCrit r
        some ((rng, rendered, cr), r)) k r
      if r.isEmpty then some (target, pairs) else none) with
    | none => "bad-op"
    | some (target, pairs) =>
      let decoded := pairs.mapM fun (rng, rendered, _) => (decodeCrit parseNum rendered).map fun d => (rng, d)
      let structured := pairs.map fun (rng, _, cr) => (rng, cr)
      let blanky := pairs.any fun (rng, _, _) => rng.any fun v => match v with | .blank | .none | .bool _ => true | _ => false
      let run := fun (ps : List (List Val × Crit)) => match fn with
        | "sumifs" => encResU (sumifsF (flattenL target) (ps.map fun (r, c) => (flattenL r, c)))
        | "countifs" => (match ps with
          | (r0, c0) :: more => (match countifsF (flattenL r0) c0 (more.map fun (r, c) => (flattenL r, c)) with
            | .ok n => s!"I{n}" | .error e => "E" ++ e.name)
          | [] => "bad-op")
        | "sumif" => (match ps with
          | [(r0, c0)] => encResU (sumIfF (flattenL r0) c0 (flattenL target))
          | _ => "bad-op")
        | _ => "bad-op"
      let model := match decoded with | some ps => run ps | none => "EUnmodelled"
      let spec := if blanky then "-" else run structured
      s!"{model} | {spec} | "
  | _ => "bad-op"

def handle (line : String) : String :=
  match tokens line with
  | "echo" :: rest =>
    match decAll rest with
    | some vs => " ".intercalate (vs.map fun v => " ".intercalate (encVal v))
    | none => "bad-op"
  | "cmp" :: rest => handleCmp rest
  | "dt" :: rest => handleDate rest
  | "rnd" :: rest => handleRound rest
  | "lk" :: rest => handleLookup rest
  | "tx" :: rest => handleText rest
  | "br" :: rest => handleBranch rest
  | "pct" :: rest => handlePct rest
  | "ag" :: rest => handleAgg rest
  | "ex" :: rest => handleExec rest
  | "fc" :: rest => handleFacade rest
  | "gr" :: rest => handleGraph rest
  | "pg" :: rest => handlePeg rest
  | "pm" :: rest => handlePegMemo rest
  | "qt" :: rest => handleQuote rest
  | "rf" :: rest => handleRefs rest
  | "sf" :: rest => handleSafety rest
  | "op" :: rest => handleOps rest
  | "cr" :: rest => handleCrit rest
  | "ci" :: rest => handleCondAgg rest
  | "sk" :: rest => handleSafetyKey rest
  | "lx" :: rest => handleLex rest
  | "lt" :: rest => handleLexTok rest
  | "lp" :: rest => handleLexParse rest
  | _ => "bad-op"

partial def loop (h : IO.FS.Stream) (out : IO.FS.Stream) : IO Unit := do
  let line ← h.getLine
  if line.isEmpty then return ()
  out.putStrLn (handle ((line.replace "\n" "").replace "\r" ""))
  loop h out

def main : IO Unit := do
  let out ← IO.getStdout
  loop (← IO.getStdin) out
  out.flush
