/-
  e2pdrv — line-protocol driver for the executable models and specs.
  One request line in, one response line out:  `<model> | <spec> | <class flags>`.
  Imports Model/Spec/Generated only (no Mathlib) so that it links natively.
-/
import E2P.Model.Val
import E2P.Model.Proto
import E2P.Model.Compare
import E2P.Model.NumParse
import E2P.Spec.CompareSpec
open E2P

def optB : Option Bool → String
  | some true => "T" | some false => "F" | none => "-"

def strsModelled (vs : List Val) : Bool :=
  vs.all fun v => match v with | .str s => numTextModelled s | _ => true

def handleCmp (args : List String) : String :=
  match args with
  | opS :: rest =>
    match CmpOp.ofPy opS, decVals 2 rest with
    | some op, some ([l, r], []) =>
      let model := if strsModelled [l, r] then
          match compare parseNum op l r with
          | some b => if b then "T" else "F"
          | none => "EUnmodelled"
        else "EUnmodelled"
      s!"{model} | {optB (specCompare op l r)} | "
    | _, _ => "bad-op"
  | _ => "bad-op"

def handle (line : String) : String :=
  match tokens line with
  | "echo" :: rest =>
    match decAll rest with
    | some vs => " ".intercalate (vs.map fun v => " ".intercalate (encVal v))
    | none => "bad-op"
  | "cmp" :: rest => handleCmp rest
  | _ => "bad-op"

partial def loop (h : IO.FS.Stream) (out : IO.FS.Stream) : IO Unit := do
  let line ← h.getLine
  if line.isEmpty then return ()
  out.putStrLn (handle ((line.replace "\n" "").replace "\r" ""))
  loop h out

def main : IO Unit := do
  let out ← IO.getStdout
  loop (← IO.getStdin) out
  out.flush
