import E2P.Model.Val
import E2P.Model.Proto
import E2P.Model.Compare
import E2P.Model.F53
import E2P.Model.NumParse
import E2P.Spec.CompareSpec
