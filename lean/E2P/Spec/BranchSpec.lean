/-
  E2P.Spec.BranchSpec — the formula fragment of property C13 and its Excel meaning.

  `XExpr` is the formula; `evalX` says what it denotes: strict operators evaluate their operands left to right and
  fail when one fails; IF evaluates the condition and then only the chosen branch (FALSE when the else-branch is
  omitted); IFS returns the value paired with the first true condition and #N/A when none is true (an error value
  reached as a condition is returned); IFERROR returns its fallback exactly when the first argument is one of the
  seven Excel error values or its evaluation fails.
-/
import E2P.Model.Branch
namespace E2P

/-- the seven Excel error values -/
def excelErrors : List (List Char) :=
  ["#NULL!", "#DIV/0!", "#VALUE!", "#REF!", "#NAME?", "#NUM!", "#N/A"].map String.toList

inductive XExpr where
  | lit (v : Val)
  | ref (i : Nat)
  | div (a b : XExpr)
  | add (a b : XExpr)
  | mul (a b : XExpr)
  | cat (a b : XExpr)
  | eq (a b : XExpr)
  | sum2 (a b : XExpr)
  | left (t n : XExpr)
  | if3 (c t f : XExpr)
  | if2 (c t : XExpr)                        -- IF with the else-branch omitted
  | ifsNil                                   -- end of an IFS argument list
  | ifsCons (c v : XExpr) (rest : XExpr)     -- IFS(c, v, rest…)
  | iferror (a b : XExpr)

variable (env : Nat → Res)

/-- strict binary operator: left operand, then right operand, then the operation -/
def strict2 (op : Val → Val → Res) (a b : Res) : Res :=
  match a with
  | .error e => .error e
  | .ok x => match b with
    | .error e => .error e
    | .ok y => op x y

def opAdd (x y : Val) : Res := pyAdd x y
def opMul (x y : Val) : Res := pyMul x y
def opDiv (x y : Val) : Res := pyTrueDiv x y
def opCat (x y : Val) : Res := concatFn [x, y]
def opEq (x y : Val) : Res :=
  match compare parseNum .eq x y with
  | some r => .ok (.bool r)
  | none => .error .unmodelled
def opSum (x y : Val) : Res := sumTwo x y
def opLeft (x y : Val) : Res :=
  match x, y with
  | .str s, .int k => leftFn s k
  | _, _ => .error .unmodelled

def evalX : XExpr → Res
  | .lit v => .ok v
  | .ref i => env i
  | .div a b => strict2 opDiv (evalX a) (evalX b)
  | .add a b => strict2 opAdd (evalX a) (evalX b)
  | .mul a b => strict2 opMul (evalX a) (evalX b)
  | .cat a b => strict2 opCat (evalX a) (evalX b)
  | .eq a b => strict2 opEq (evalX a) (evalX b)
  | .sum2 a b => strict2 opSum (evalX a) (evalX b)
  | .left t n => strict2 opLeft (evalX t) (evalX n)
  | .if3 c t f =>
    match evalX c with
    | .error e => .error e
    | .ok cv => if truthy cv then evalX t else evalX f
  | .if2 c t =>
    match evalX c with
    | .error e => .error e
    | .ok cv => if truthy cv then evalX t else .ok (.bool false)
  | .ifsNil => .ok errNA
  | .ifsCons c v rest =>
    match evalX c with
    | .error e => .error e
    | .ok cv => if isErrVal excelErrors cv then .ok cv else if truthy cv then evalX v else evalX rest
  | .iferror a b =>
    match evalX a with
    | .ok v => if isErrVal excelErrors v then evalX b else .ok v
    | .error .unmodelled => .error .unmodelled
    | .error _ => evalX b

/-- what the translators emit -/
def translateX : XExpr → PyExpr
  | .lit v => .const v
  | .ref i => .cellCall i
  | .div a b => .div (translateX a) (translateX b)
  | .add a b => .add (translateX a) (translateX b)
  | .mul a b => .mul (translateX a) (translateX b)
  | .cat a b => .strAdd (translateX a) (translateX b)
  | .eq a b => .cmpEq (translateX a) (translateX b)
  | .sum2 a b => .sum2 (translateX a) (translateX b)
  | .left t n => .left (translateX t) (translateX n)
  | .if3 c t f => .cond (translateX t) (translateX c) (translateX f)
  | .if2 c t => .cond (translateX t) (translateX c) (.const (.bool false))
  | .ifsNil => .ifsCall .nil
  | .ifsCons c v rest => .ifsCall (.cons (translateX c) (.cons (translateX v) (ifsTail rest)))
  | .iferror a b => .iferrorCall (translateX a) (translateX b)
where
  ifsTail : XExpr → PyList
    | .ifsCons c v rest => .cons (translateX c) (.cons (translateX v) (ifsTail rest))
    | _ => .nil

/-- `ifsCons c v rest` in an operand position is an IFS call; its `rest` is the remaining argument list, closed by
    `ifsNil`; a bare `ifsNil` (IFS without arguments) is not a formula -/
def wellFormed : XExpr → Bool
  | .lit _ | .ref _ => true
  | .div a b | .add a b | .mul a b | .cat a b | .eq a b | .sum2 a b | .left a b | .iferror a b =>
    wellFormed a && wellFormed b && !isNil a && !isNil b
  | .if3 c t f => wellFormed c && wellFormed t && wellFormed f && !isNil c && !isNil t && !isNil f
  | .if2 c t => wellFormed c && wellFormed t && !isNil c && !isNil t
  | .ifsNil => true
  | .ifsCons c v rest => wellFormed c && wellFormed v && !isNil c && !isNil v && wellFormed rest && isChain rest
where
  isChain : XExpr → Bool | .ifsNil | .ifsCons .. => true | _ => false
  isNil : XExpr → Bool | .ifsNil => true | _ => false

end E2P
