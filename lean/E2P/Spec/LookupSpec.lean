/-
  E2P.Spec.LookupSpec — what property C14 demands, declaratively, on the domain it speaks about:
  key columns whose keys are all of the lookup value's kind (numbers or texts, no blanks).
-/
import E2P.Model.Lookup
namespace E2P

/-! ### XMATCH, binary search modes: the specification on a column that runs strictly in one direction -/

/-- the key equals the lookup value in Python's order (nothing is lower-cased) -/
def bsEqB (k v : Val) : Bool := bsLt k v == some false && bsLt v k == some false

/-- neighbours strictly ordered in the direction of the column (`rev`: descending) -/
def strictlyRuns (rev : Bool) : List Val → Bool
  | a :: b :: rest => ((if rev then bsLt b a else bsLt a b) == some true) && strictlyRuns rev (b :: rest)
  | _ => true

def sameKind (lookup : Val) (keys : List Val) : Bool :=
  bsKey lookup && keys.all (fun k => bsKey k && lkind k == lkind lookup)

/-- 1-based position of the key that equals the lookup value -/
def specBinExact (lookup : Val) (keys : List Val) : Option Nat :=
  (keys.findIdx? (fun k => bsEqB k lookup)).map (· + 1)

/-- 1-based position of the last key that is not greater than the lookup value ("exact match or next smaller") -/
def specBinNextSmaller (lookup : Val) (keys : List Val) : Option Nat :=
  (keys.reverse.findIdx? (fun k => bsLt lookup k == some false)).map (fun i => keys.length - i)

/-- 1-based position of the first key that is not smaller than the lookup value ("exact match or next larger") -/
def specBinNextLarger (lookup : Val) (keys : List Val) : Option Nat :=
  (keys.findIdx? (fun k => bsLt k lookup == some false)).map (· + 1)

/-- descending column: 1-based position of the FIRST key that is not greater than the lookup value -/
def specBinDescNextSmaller (lookup : Val) (keys : List Val) : Option Nat :=
  (keys.findIdx? (fun k => bsLt lookup k == some false)).map (· + 1)

/-- descending column: 1-based position of the LAST key that is not smaller than the lookup value -/
def specBinDescNextLarger (lookup : Val) (keys : List Val) : Option Nat :=
  (keys.reverse.findIdx? (fun k => bsLt k lookup == some false)).map (fun i => keys.length - i)

/-- every key is a non-blank value of the lookup value's kind -/
def allEligible (lookup : Val) (keys : List Val) : Bool :=
  match lkind lookup with
  | some k => !(lookup matches .blank) && keys.all (eligible k)
  | none => false

/-- ascending keys -/
def sortedAsc (ci : Bool) : List Val → Bool
  | [] => true
  | [_] => true
  | a :: b :: rest => keyLe ci a b && sortedAsc ci (b :: rest)

/-- 1-based position of the first key equal to the lookup value -/
def specFirstEqual (ci : Bool) (lookup : Val) (keys : List Val) : Option Nat :=
  (keys.findIdx? fun key => keyEq ci key lookup).map (· + 1)

/-- 1-based position of the last key equal to the lookup value -/
def specLastEqual (ci : Bool) (lookup : Val) (keys : List Val) : Option Nat :=
  (keys.reverse.findIdx? fun key => keyEq ci key lookup).map fun i => keys.length - i

/-- 1-based position of the last key not greater than the lookup value -/
def specLastLe (ci : Bool) (lookup : Val) (keys : List Val) : Option Nat :=
  (keys.reverse.findIdx? fun key => keyLe ci key lookup).map fun i => keys.length - i

/-- element (r, c), 1-based, of a rectangular area; #REF! outside -/
def specIndex (rs : List (List Val)) (r c : Int) : Option Val :=
  if r < 0 ∨ c < 0 then some errRef
  else if r = 0 ∨ c = 0 then
    -- whole row / column forms: the value is not fixed by the statement, but an index beyond the area is #REF! in any reading
    (if (rs.length : Int) < r ∨ ((rs.headD []).length : Int) < c then some errRef else none)
  else match rs[(r - 1).toNat]? with
    | none => some errRef
    | some row => match row[(c - 1).toNat]? with
      | none => some errRef
      | some v => some v

end E2P
