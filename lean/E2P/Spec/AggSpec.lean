/-
  E2P.Spec.AggSpec — what property C11 demands of the aggregates: folds over the numeric cells.
-/
import E2P.Model.Agg
namespace E2P

/-- exact rational sum -/
def ratSum : List Val → Rat
  | [] => 0
  | v :: vs => ratOf v + ratSum vs

def allInt (l : List Val) : Bool := l.all fun v => match v with | .int _ => true | _ => false

def intOf0 : Val → Int | .int z => z | _ => 0

/-- the exact sum as a Python number: an int when every summand is an int, else the double with that exact value -/
def exactSum (l : List Val) : Val :=
  if allInt l then .int (l.foldl (fun a v => a + intOf0 v) 0) else .flt (ratSum l)

/-- every summand and every partial sum `acc + x₁ + … + xᵢ` is a double (so that no conversion and no addition rounds,
    in any summation algorithm) -/
def allExactFrom (acc : Rat) : List Val → Bool
  | [] => true
  | v :: vs => (rn (ratOf v) == ratOf v) && (rn (acc + ratOf v) == acc + ratOf v) && allExactFrom (acc + ratOf v) vs

def allExact (l : List Val) : Bool := allExactFrom 0 l

/-- the cells an aggregate looks at: numbers only -/
def numericCells (args : List Val) : List Val := (flattenL args).filter isNumeric

def specSum (args : List Val) : Val := exactSum (numericCells args)

def specAverage (args : List Val) : Option Val :=
  match numericCells args with
  | [] => none
  | l => some (.flt (rn (ratSum l / (l.length : Rat))))

def specCount (areas : List Val) : Nat := (numericCells areas).length

def specCountBlank (args : List Val) : Nat := ((flattenL args).filter isBlankish).length

def IsMin (m : Val) (l : List Val) : Prop := m ∈ l ∧ ∀ v ∈ l, ratOf m ≤ ratOf v
def IsMax (m : Val) (l : List Val) : Prop := m ∈ l ∧ ∀ v ∈ l, ratOf v ≤ ratOf m

/-- no text of the list is an Excel error value, no dates (the statement is silent about both) -/
def plainCells (errs : List (List Char)) (l : List Val) : Bool :=
  l.all fun v => !isErrVal errs v && (match v with | .dt _ _ | .date _ | .list _ | .tuple _ | .none => false | _ => true)

end E2P
