/-
  E2P.Spec.CompareSpec — what property C10 demands of a comparison, as a value where the
  statement fixes one.  `none` = the statement fixes no value for this operand pair
  (texts: laws only; mixed kinds: nothing).
-/
import E2P.Model.Val
import E2P.Model.Compare
namespace E2P

/-- numeric reading of a number operand (booleans are the numbers 0 and 1) -/
def numVal : Val → Option Rat
  | .int z => some (z : Rat)
  | .flt q => some q
  | .bool b => some (if b then 1 else 0)
  | _ => none

def specCompare (op : CmpOp) (l r : Val) : Option Bool :=
  match l, r with
  | .blank, .blank => some (op.onOrd (0 : Int) 0)
  -- blank = "" ; blank < every non-empty text
  | .blank, .str s => some (if s.isEmpty then op.onOrd (0 : Int) 0 else op.onOrd (0 : Int) 1)
  | .str s, .blank => some (if s.isEmpty then op.onOrd (0 : Int) 0 else op.onOrd (1 : Int) 0)
  -- blank < every date
  | .blank, .date _ | .blank, .dt _ _ => some (op.onOrd (0 : Int) 1)
  | .date _, .blank | .dt _ _, .blank => some (op.onOrd (1 : Int) 0)
  | a, b =>
    match stamp? a, stamp? b with
    | some x, some y => some (op.onOrd x y)
    | _, _ =>
      -- blank = 0 = FALSE, blank < every positive number (negative numbers: statement silent)
      let nv : Val → Option Rat := fun v => match v with | .blank => some 0 | v => numVal v
      match nv a, nv b with
      | some x, some y =>
        if (isBlank a && y < 0) || (isBlank b && x < 0) then none else some (op.onOrd x y)
      | _, _ => none

end E2P
