/-
  E2P.Spec.FacadeSpec — what C09 demands of the facade: the text corresponds to the settings in force at the call.
-/
import E2P.Model.Facade
namespace E2P

structure Settings (P E : Type) where
  path : Option P
  entry : Option E
  safety : Bool

section
variable {P E T : Type}

/-- the settings in force after a sequence of calls (the constructor enables the check) -/
def settingsAfter (s : Settings P E) : List (FOp P E) → Settings P E
  | [] => s
  | .setPath p :: ops => settingsAfter { s with path := some p } ops
  | .setEntry e :: ops => settingsAfter { s with entry := some e } ops
  | .enableSafety :: ops => settingsAfter { s with safety := true } ops
  | .disableSafety :: ops => settingsAfter { s with safety := false } ops
  | _ :: ops => settingsAfter s ops

/-- what a fresh parser configured with these settings returns -/
def freshResult (tr : P → Option E → Bool → Except PyExc T) (s : Settings P E) : Except PyExc (Option T) :=
  match s.path with
  | none => .error .parser
  | some p => match tr p s.entry s.safety with
    | .ok t => .ok (some t)
    | .error e => .error e

/-- a table is coherent when the constructor leaves some tested flag raised and every setter assigns its setting from
    its argument (or constant), assigns nothing else but `True` to flags, and raises at least one tested flag -/
def setterOK (tb : FacadeTable) (m attr kind : String) : Bool :=
  let as := assignsOf tb m
  as.contains (attr, kind) &&
  as.all (fun a => a == (attr, kind) || (!settingAttrs.contains a.1 && a.2 == "True")) &&
  as.any (fun a => !settingAttrs.contains a.1 && a.2 == "True" && tb.guard.contains a.1)

def tableOK (tb : FacadeTable) : Bool :=
  setterOK tb "set_excel_file_path" "_excel_file_path" "param" &&
  setterOK tb "set_entrypoint_cell" "_entrypoint_cell" "param" &&
  setterOK tb "enable_safety_check" "_safety_check" "True" &&
  setterOK tb "disable_safety_check" "_safety_check" "False" &&
  (tb.guard.isEmpty || tb.guard.any fun f => (tb.inits.contains (f, "True"))) &&
  tb.inits.contains ("_safety_check", "True") &&
  tb.guard.all (fun f => !settingAttrs.contains f) &&
  tb.resets.all (fun f => !settingAttrs.contains f)

end
end E2P
