/-
  E2P.Spec.DateSpec — what property C15 demands, declaratively.
-/
import E2P.Model.Calendar
import E2P.Model.DateFns
namespace E2P

/-- DATE(y, m, d) = 1 January of year y plus (m-1) months plus (d-1) days, as an ordinal.
    Years below 1900 are outside the statement (Excel's two-digit-year window); so are triples whose
    month step or result leaves the representable years 1 … 9999 (`datetime`'s range). -/
def specDate (y m d : Int) : Option Int :=
  let n := ordinal (y + (m - 1) / 12) ((m - 1) % 12 + 1) 1 + (d - 1)
  if 1900 ≤ y ∧ y ≤ 9999 ∧ 1 ≤ y + (m - 1) / 12 ∧ y + (m - 1) / 12 ≤ 9999 ∧ 1 ≤ n ∧ n ≤ maxOrdinal then some n else none

/-- Monday–Friday dates of the inclusive interval [a, b] that are not holidays -/
def workdaysBetween (hol : List Int) (a b : Int) : Int :=
  (((List.range (b - a + 1).toNat).filter fun (i : Nat) => isWorkday hol (a + (i : Int))).length : Int)

def specNetworkdays (hol : List Int) (s e : Int) : Int :=
  if s ≤ e then workdaysBetween hol s e else -(workdaysBetween hol e s)

/-- month index and day, ordered lexicographically: (y, m, d) is "on or before" (y', m', d') -/
def lexLe (a b : YMD) : Prop := a.y * 12 + a.m < b.y * 12 + b.m ∨ (a.y * 12 + a.m = b.y * 12 + b.m ∧ a.d ≤ b.d)

/-- `k` complete months fit between `s` and `e`: moving the month index of `s` by `k` (day unchanged)
    does not pass `e` -/
def monthsFit (s e : YMD) (k : Int) : Prop := s.y * 12 + s.m + k < e.y * 12 + e.m ∨ (s.y * 12 + s.m + k = e.y * 12 + e.m ∧ s.d ≤ e.d)

end E2P
