/-
  E2P.Spec.TextSpec — what property C17 demands of the text functions.
-/
import E2P.Model.Text
namespace E2P

inductive TextOut where
  | text (s : List Char)
  | errorValue              -- "an error value": any `#…` text
  | position (p : Nat)
  deriving DecidableEq, Repr

/-- LEFT(t, n): the first n characters; an error value for n < 0 -/
def specLeft (t : List Char) (n : Int) : TextOut := if n < 0 then .errorValue else .text (t.take n.toNat)

/-- RIGHT(t, n): the last n characters -/
def specRight (t : List Char) (n : Int) : TextOut :=
  if n < 0 then .errorValue else .text (t.reverse.take n.toNat).reverse

/-- MID(t, k, n): the n characters from 1-based position k, shorter at the ends; an error value for k < 1 or n < 0 -/
def specMid (t : List Char) (k n : Int) : TextOut :=
  if k < 1 ∨ n < 0 then .errorValue else .text ((t.drop (k.toNat - 1)).take n.toNat)

/-- declarative wildcard semantics: the pattern matches exactly this text -/
inductive PMatch : List Pat → List Char → Prop where
  | nil : PMatch [] []
  | lit {c x ps xs} : ciEq c x = true → PMatch ps xs → PMatch (.lit c :: ps) (x :: xs)
  | any {x ps xs} : PMatch ps xs → PMatch (.any :: ps) (x :: xs)
  | star {ps xs} (run rest : List Char) : xs = run ++ rest → PMatch ps rest → PMatch (.star :: ps) xs

/-- an occurrence of the pattern starts at 0-based position `p` of `t` -/
def OccursAt (ps : List Pat) (t : List Char) (p : Nat) : Prop :=
  p ≤ t.length ∧ ∃ m : List Char, m <+: t.drop p ∧ PMatch ps m

end E2P
