/-
  E2P.Spec.ExecSpec — what C04 / C08 demand: overrides mean "edit the cell and recalculate", last write wins,
  queries are pure, the whole-sheet grid has one entry per coordinate of the used range extended by the overrides.
-/
import E2P.Model.Exec
namespace E2P

/-- every (cell, constant) supplied by the set-cells calls of a history, in the order supplied -/
def allWrites : List Op → List (Nat × Val)
  | [] => []
  | .set b :: ops => b.map (fun uv => (uv.1.code, uv.2)) ++ allWrites ops
  | _ :: ops => allWrites ops

def allWriteUids : List Op → List Uid
  | [] => []
  | .set b :: ops => b.map (·.1) ++ allWriteUids ops
  | _ :: ops => allWriteUids ops

/-- the most recently supplied constant for a cell -/
def lastWrite (h : List Op) (u : Nat) : Option Val :=
  ((allWrites h).reverse.find? fun kv => kv.1 = u).map (·.2)

/-- the workbook in which each overridden cell — formula, constant, blank or outside the used range — has been
    replaced by its constant -/
def edit (body : Nat → Option XExpr) (ov : Nat → Option Val) : Nat → Option XExpr :=
  fun u => match ov u with | some v => some (.lit v) | none => body u

/-- a fresh evaluation of a workbook without overrides -/
def recalc (body : Nat → Option XExpr) (fuel : Nat) (u : Nat) : Res := cellValueF body (fun _ => none) fuel u

/-- extent of a sheet: used range extended by the overridden coordinates -/
def extent (size : Nat × Nat) (ov : List Uid) (sheet : Nat) : Nat × Nat :=
  ov.foldl (fun wh u => if u.sheet = sheet then (max wh.1 (u.col + 1), max wh.2 (u.row + 1)) else wh) size

/-- what a history must output, every query answered from scratch on the edited workbook -/
def specOut (body : Nat → Option XExpr) (fuel : Nat) (sizes : List (Nat × Nat)) (pre : List Op) : Op → Out
  | .set _ => .unit
  | .get u => .val (recalc (edit body (lastWrite pre)) fuel u.code)
  | .gets us => .vals (us.map fun u => recalc (edit body (lastWrite pre)) fuel u.code)
  | .sheet s =>
    let (w, h) := extent (sizes.getD s (0, 0)) (allWriteUids pre) s
    .grid ((List.range h).map fun r => (List.range w).map fun c =>
      recalc (edit body (lastWrite pre)) fuel (Uid.code ⟨s, c, r⟩))

def specRun (body : Nat → Option XExpr) (fuel : Nat) (sizes : List (Nat × Nat)) (pre : List Op) : List Op → List Out
  | [] => []
  | op :: ops => specOut body fuel sizes pre op :: specRun body fuel sizes (pre ++ [op]) ops

end E2P
