/-
  Property C05 — a formula is translated whole or rejected, never silently truncated.
  Every theorem here holds for ANY grammar table; the table of this run only enters `keywords_longest_first` and the
  correspondence check.
-/
import E2P.Model.Peg
import E2P.Generated.Grammar
import Mathlib.Data.List.Basic
import E2P.Model.Lex
import E2P.Lemmas.LexCover
import E2P.Lemmas.LexWs
namespace E2P.C05
open E2P

variable (G : Grammar)

/-- `getF` never drops, duplicates or invents a token -/
def Exact (getF : String → List Tok → PRes) : Prop :=
  ∀ cls toks t rest, getF cls toks = .ok t rest → t.leaves ++ rest = toks

theorem seq_exact (getF : String → List Tok → PRes) (hf : Exact getF) (syms : List String) (toks : List Tok)
    (kids : List PTree) (rest : List Tok) (m : Bool) (h : seqMatch G getF syms toks = .done kids rest m) :
    PTree.leavesL kids ++ rest = toks := by
  induction syms generalizing toks kids rest m with
  | nil => simp only [seqMatch] at h; cases h; rfl
  | cons sym syms ih =>
    cases toks with
    | nil => simp [seqMatch] at h
    | cons t ts =>
      simp only [seqMatch] at h
      by_cases h1 : (sym == t.1) = true
      · simp only [h1, ↓reduceIte] at h
        cases hs : seqMatch G getF syms ts with
        | done k r m' =>
          rw [hs] at h
          simp only [SeqRes.done.injEq] at h
          obtain ⟨rfl, rfl, rfl⟩ := h
          have := ih ts k r m' hs
          simp [PTree.leavesL, PTree.leaves, this]
        | fail m' => rw [hs] at h; cases h
        | raise => rw [hs] at h; cases h
        | depth => rw [hs] at h; cases h
      · simp only [h1, Bool.false_eq_true, ↓reduceIte] at h
        by_cases h2 : G.composites.contains sym = true
        · simp only [h2, ↓reduceIte] at h
          cases hg : getF sym (t :: ts) with
          | ok tree r1 =>
            rw [hg] at h
            simp only at h
            cases hs : seqMatch G getF syms r1 with
            | done k r m' =>
              rw [hs] at h
              simp only [SeqRes.done.injEq] at h
              obtain ⟨rfl, rfl, rfl⟩ := h
              have e1 := hf _ _ _ _ hg
              have e2 := ih r1 k r m' hs
              simp only [PTree.leavesL, List.append_assoc, e2, e1]
            | fail m' => rw [hs] at h; cases h
            | raise => rw [hs] at h; cases h
            | depth => rw [hs] at h; cases h
          | none => rw [hg] at h; cases h
          | raise => rw [hg] at h; cases h
          | depth => rw [hg] at h; cases h
        · have h2' : sym ∉ G.composites := by simpa using h2
          simp [h2'] at h

theorem trySets_exact (getF : String → List Tok → PRes) (hf : Exact getF) (cls : String) (toks : List Tok)
    (sets : List (List String)) (saw : Bool) (t : PTree) (rest : List Tok)
    (h : trySets G getF cls toks sets saw = .ok t rest) : t.leaves ++ rest = toks := by
  induction sets generalizing saw with
  | nil => simp only [trySets] at h; split at h <;> cases h
  | cons set sets ih =>
    simp only [trySets] at h
    cases hs : seqMatch G getF set toks with
    | done kids r m =>
      rw [hs] at h
      simp only at h
      by_cases he : set.isEmpty = true
      · simp only [he, ↓reduceIte] at h; exact ih _ h
      · simp only [he, Bool.false_eq_true, ↓reduceIte, PRes.ok.injEq] at h
        obtain ⟨rfl, rfl⟩ := h
        simpa [PTree.leaves] using seq_exact G getF hf set toks kids r m hs
    | fail m => rw [hs] at h; exact ih _ h
    | raise => rw [hs] at h; cases h
    | depth => rw [hs] at h; cases h

/-- **No token is dropped, duplicated or invented inside a parse**: the leaves of the tree followed by the unconsumed
    rest are exactly the input — for every grammar, class, token list and depth. -/
theorem yield_exact (fuel : Nat) : Exact (pegGet G fuel) := by
  induction fuel with
  | zero => intro cls toks t rest h; simp [pegGet] at h
  | succ n ih =>
    intro cls toks t rest h
    simp only [pegGet] at h
    exact trySets_exact G (pegGet G n) ih cls toks _ _ t rest h

/-- **Whole or rejected**: an accepted formula's tree covers the entire token list; every other outcome is the parser
    exception (or depth exhaustion, excluded by the termination argument of C06). -/
theorem whole_or_rejected (fuel : Nat) (entry : String) (toks : List Tok) :
    (∃ t, astBuild G fuel entry toks = .accept t ∧ t.leaves = toks) ∨ astBuild G fuel entry toks = .reject ∨
      astBuild G fuel entry toks = .depth := by
  unfold astBuild
  cases h : pegGet G fuel entry toks with
  | ok t rest =>
    cases rest with
    | nil => left; exact ⟨t, rfl, by simpa using yield_exact G fuel _ _ _ _ h⟩
    | cons r rs => right; left; rfl
  | none => right; left; rfl
  | raise => right; left; rfl
  | depth => right; right; rfl

/-- in particular: an accepted formula never has trailing tokens, and dropping a non-empty tail of an accepted token
    list never yields the same tree -/
theorem no_silent_truncation (fuel : Nat) (entry : String) (toks extra : List Tok) (t : PTree) (hx : extra ≠ [])
    (h1 : astBuild G fuel entry toks = .accept t) : astBuild G fuel entry (toks ++ extra) ≠ .accept t := by
  intro h2
  have e1 : t.leaves = toks := by
    rcases whole_or_rejected G fuel entry toks with ⟨t', ht, hl⟩ | h | h
    · rw [h1] at ht; cases ht; exact hl
    · rw [h1] at h; cases h
    · rw [h1] at h; cases h
  have e2 : t.leaves = toks ++ extra := by
    rcases whole_or_rejected G fuel entry (toks ++ extra) with ⟨t', ht, hl⟩ | h | h
    · rw [h2] at ht; cases ht; exact hl
    · rw [h2] at h; cases h
    · rw [h2] at h; cases h
  rw [e1] at e2
  have := congrArg List.length e2
  simp only [List.length_append] at this
  have : extra.length = 0 := by omega
  exact hx (List.length_eq_zero_iff.1 this)

/-! ### every node instantiates one of its class's token sets, in order -/

def symMatches (sym : String) : PTree → Bool
  | .leaf t => sym == t.1
  | .node c _ => sym == c

mutual
  /-- every node's children instantiate, in order, one of the token sets the grammar defines for its class -/
  def Derives (G : Grammar) : PTree → Prop
    | .leaf _ => True
    | .node c kids => (∃ set ∈ G.setsOf c, set ≠ [] ∧ List.Forall₂ (fun s k => symMatches s k = true) set kids) ∧ DerivesL G kids
  def DerivesL (G : Grammar) : List PTree → Prop
    | [] => True
    | k :: ks => Derives G k ∧ DerivesL G ks
end

/-- `getF` only returns trees of its class that are derivations -/
def Sound (getF : String → List Tok → PRes) : Prop :=
  ∀ cls toks t rest, getF cls toks = .ok t rest → Derives G t ∧ symMatches cls t = true

theorem seq_sound (getF : String → List Tok → PRes) (hf : Sound G getF) (syms : List String) (toks : List Tok)
    (kids : List PTree) (rest : List Tok) (m : Bool) (h : seqMatch G getF syms toks = .done kids rest m) :
    List.Forall₂ (fun s k => symMatches s k = true) syms kids ∧ DerivesL G kids := by
  induction syms generalizing toks kids rest m with
  | nil => simp only [seqMatch] at h; cases h; exact ⟨.nil, trivial⟩
  | cons sym syms ih =>
    cases toks with
    | nil => simp [seqMatch] at h
    | cons t ts =>
      simp only [seqMatch] at h
      by_cases h1 : (sym == t.1) = true
      · simp only [h1, ↓reduceIte] at h
        cases hs : seqMatch G getF syms ts with
        | done k r m' =>
          rw [hs] at h
          simp only [SeqRes.done.injEq] at h
          obtain ⟨rfl, rfl, rfl⟩ := h
          obtain ⟨a, b⟩ := ih ts k r m' hs
          exact ⟨.cons (by simpa [symMatches] using h1) a, by simp [DerivesL, Derives, b]⟩
        | fail m' => rw [hs] at h; cases h
        | raise => rw [hs] at h; cases h
        | depth => rw [hs] at h; cases h
      · simp only [h1, Bool.false_eq_true, ↓reduceIte] at h
        by_cases h2 : G.composites.contains sym = true
        · simp only [h2, ↓reduceIte] at h
          cases hg : getF sym (t :: ts) with
          | ok tree r1 =>
            rw [hg] at h
            simp only at h
            cases hs : seqMatch G getF syms r1 with
            | done k r m' =>
              rw [hs] at h
              simp only [SeqRes.done.injEq] at h
              obtain ⟨rfl, rfl, rfl⟩ := h
              obtain ⟨a, b⟩ := ih r1 k r m' hs
              obtain ⟨c, d⟩ := hf _ _ _ _ hg
              exact ⟨.cons d a, by simp [DerivesL, c, b]⟩
            | fail m' => rw [hs] at h; cases h
            | raise => rw [hs] at h; cases h
            | depth => rw [hs] at h; cases h
          | none => rw [hg] at h; cases h
          | raise => rw [hg] at h; cases h
          | depth => rw [hg] at h; cases h
        · have h2' : sym ∉ G.composites := by simpa using h2
          simp [h2'] at h

theorem trySets_sound (getF : String → List Tok → PRes) (hf : Sound G getF) (cls : String) (toks : List Tok)
    (sets : List (List String)) (hsub : ∀ s ∈ sets, s ∈ G.setsOf cls) (saw : Bool) (t : PTree) (rest : List Tok)
    (h : trySets G getF cls toks sets saw = .ok t rest) : Derives G t ∧ symMatches cls t = true := by
  induction sets generalizing saw with
  | nil => simp only [trySets] at h; split at h <;> cases h
  | cons set sets ih =>
    simp only [trySets] at h
    have hsub' : ∀ s ∈ sets, s ∈ G.setsOf cls := fun s hs => hsub s (by simp [hs])
    cases hs : seqMatch G getF set toks with
    | done kids r m =>
      rw [hs] at h
      simp only at h
      by_cases he : set.isEmpty = true
      · simp only [he, ↓reduceIte] at h; exact ih hsub' _ h
      · simp only [he, Bool.false_eq_true, ↓reduceIte, PRes.ok.injEq] at h
        obtain ⟨rfl, rfl⟩ := h
        obtain ⟨a, b⟩ := seq_sound G getF hf set toks kids r m hs
        refine ⟨?_, by simp [symMatches]⟩
        simp only [Derives]
        exact ⟨⟨set, hsub set (by simp), by intro e; rw [e] at he; simp at he, a⟩, b⟩
    | fail m => rw [hs] at h; exact ih hsub' _ h
    | raise => rw [hs] at h; cases h
    | depth => rw [hs] at h; cases h

/-- **Derivation soundness**: whatever `get` returns is a derivation of the grammar — in particular a supported
    function is never accepted with an argument list the grammar does not define. -/
theorem derivation_sound (fuel : Nat) : Sound G (pegGet G fuel) := by
  induction fuel with
  | zero => intro cls toks t rest h; simp [pegGet] at h
  | succ n ih =>
    intro cls toks t rest h
    simp only [pegGet] at h
    exact trySets_sound G (pegGet G n) ih cls toks _ (fun _ h => h) _ t rest h

/-! ### parsing looks at token classes only (`,` and `;` are one class) -/

/-- replace the text of every token by `g` of it (the class is kept) -/
def retok (g : String → String) (t : Tok) : Tok := (t.1, g t.2)

mutual
  def retextT (g : String → String) : PTree → PTree
    | .leaf t => .leaf (retok g t)
    | .node c kids => .node c (retextL g kids)
  def retextL (g : String → String) : List PTree → List PTree
    | [] => []
    | k :: ks => retextT g k :: retextL g ks
end

def retextRes (g : String → String) : PRes → PRes
  | .ok t rest => .ok (retextT g t) (rest.map (retok g))
  | .none => .none
  | .raise => .raise
  | .depth => .depth

def retextSeq (g : String → String) : SeqRes → SeqRes
  | .done kids rest m => .done (retextL g kids) (rest.map (retok g)) m
  | .fail m => .fail m
  | .raise => .raise
  | .depth => .depth

/-- `getF` commutes with relabelling the texts -/
def Blind (g : String → String) (getF : String → List Tok → PRes) : Prop :=
  ∀ cls toks, getF cls (toks.map (retok g)) = retextRes g (getF cls toks)

theorem seq_blind (g : String → String) (getF : String → List Tok → PRes) (hf : Blind g getF) (syms : List String) (toks : List Tok) :
    seqMatch G getF syms (toks.map (retok g)) = retextSeq g (seqMatch G getF syms toks) := by
  induction syms generalizing toks with
  | nil => simp [seqMatch, retextSeq, retextL]
  | cons sym syms ih =>
    cases toks with
    | nil => simp [seqMatch, retextSeq]
    | cons t ts =>
      simp only [List.map_cons, seqMatch]
      have hk : (retok g t).1 = t.1 := rfl
      rw [hk]
      by_cases h1 : (sym == t.1) = true
      · simp only [h1, ↓reduceIte]
        rw [ih ts]
        cases seqMatch G getF syms ts <;> simp [retextSeq, retextL, retextT]
      · simp only [h1, Bool.false_eq_true, ↓reduceIte]
        by_cases h2 : G.composites.contains sym = true
        · simp only [h2, ↓reduceIte]
          have := hf sym (t :: ts)
          simp only [List.map_cons] at this
          rw [this]
          cases hg : getF sym (t :: ts) with
          | ok tree r1 =>
            simp only [retextRes]
            rw [ih r1]
            cases seqMatch G getF syms r1 <;> simp [retextSeq, retextL]
          | none => simp [retextRes, retextSeq]
          | raise => simp [retextRes, retextSeq]
          | depth => simp [retextRes, retextSeq]
        · have h2' : sym ∉ G.composites := by simpa using h2
          simp [h2', retextSeq]

theorem trySets_blind (g : String → String) (getF : String → List Tok → PRes) (hf : Blind g getF) (cls : String) (toks : List Tok)
    (sets : List (List String)) (saw : Bool) :
    trySets G getF cls (toks.map (retok g)) sets saw = retextRes g (trySets G getF cls toks sets saw) := by
  induction sets generalizing saw with
  | nil => simp only [trySets]; split <;> simp [retextRes]
  | cons set sets ih =>
    simp only [trySets]
    rw [seq_blind G g getF hf set toks]
    cases seqMatch G getF set toks with
    | done kids r m =>
      simp only [retextSeq]
      split
      · exact ih _
      · simp [retextRes, retextT]
    | fail m => simp only [retextSeq]; exact ih _
    | raise => simp [retextSeq, retextRes]
    | depth => simp [retextSeq, retextRes]

/-- **Separator-blind**: the parse depends on the token classes only - replacing token texts (`;` by `,`, one literal by
    another, one spelling of a reference by another) changes nothing but the leaves' texts. -/
theorem kinds_only (g : String → String) (fuel : Nat) : Blind g (pegGet G fuel) := by
  induction fuel with
  | zero => intro cls toks; simp [pegGet, retextRes]
  | succ n ih =>
    intro cls toks
    simp only [pegGet]
    exact trySets_blind G g (pegGet G n) ih cls toks _ _

/-- in particular acceptance does not depend on the choice of `,` or `;` -/
theorem separator_blind (fuel : Nat) (entry : String) (toks : List Tok) :
    (match astBuild G fuel entry (toks.map (retok fun s => if s == ";" then "," else s)) with
      | .accept _ => 0 | .reject => 1 | .depth => 2) =
    (match astBuild G fuel entry toks with | .accept _ => 0 | .reject => 1 | .depth => 2) := by
  unfold astBuild
  rw [kinds_only G _ fuel entry toks]
  cases pegGet G fuel entry toks with
  | ok t rest => cases rest <;> simp [retextRes]
  | none => simp [retextRes]
  | raise => simp [retextRes]
  | depth => simp [retextRes]

/-! ### the lexer tries longer keywords first -/

/-- the table of this run -/
def generated : Grammar :=
  { rules := E2P.Generated.grammarRules, control := E2P.Generated.grammarControl, composites := E2P.Generated.grammarCompositeNames }

def noEarlierPrefix : List String → Bool
  | [] => true
  | k :: ks => ks.all (fun later => !(k.toList.isPrefixOf later.toList)) && noEarlierPrefix ks

/-- no keyword is tried before a longer keyword that starts with it (else `SUMIFS(` would lex as `SUM`, `IFS`) -/
theorem keywords_longest_first : noEarlierPrefix (E2P.Generated.lexerKeywords.map (·.2)) = true := by decide

/-- every symbol of every token set is a terminal of the lexer or a composite class with rules; no token set is empty -/
def symbolsDefined (G : Grammar) (terminals : List String) : Bool :=
  G.rules.all fun kv => kv.2.all fun set => !set.isEmpty && set.all fun s => terminals.contains s || (G.composites.contains s && G.rules.any (·.1 == s))

theorem generated_symbols_defined : symbolsDefined generated E2P.Generated.lexerOrder = true := by decide

/-! ### the lexer model is the lexer of this run -/

/-- the regex sources of the five classes with hand-written scanners (and of WhitespaceToken) in the repository are, character
    for character, the ones the scanners of `E2P.Model.Lex` were written for -/
theorem pinned_sources : Lex.pinned.all (fun e => E2P.Generated.lexerRegexes.contains e) = true := by decide +kernel

/-- no class of `Lexer.TOKENS` is outside the model: the five pinned ones, WhitespaceToken, UndefinedToken, and classes whose
    regex is an alternation of escaped literals (interpreted from the regenerated table) -/
theorem lexer_table_modelled :
    (Lex.table E2P.Generated.lexerOrder E2P.Generated.lexerRegexes).all (fun kv => kv.2 != Lex.Scanner.unsupported) = true := by decide +kernel

/-- both separators (and `~`) are the same token class, so `separator_blind` applies to the lexed formula -/
theorem separators_one_class :
    Lex.scannerOf E2P.Generated.lexerRegexes "SeparatorToken" = .alts [[';'], [','], ['~']] := by decide +kernel

/-- **The lexer drops nothing but whitespace** (for any lexer table): when `Lexer.parse` returns tokens, their texts, in order and
    with whitespace only before, between and after them, are the whole stripped formula text — the lexer-level half of "never
    drops a part of the formula" (the parser-level half is `yield_exact`). -/
theorem lexer_drops_nothing (tbl : List (String × Lex.Scanner)) (s : List Char) (toks : List Tok) (h : Lex.lex tbl s = .ok toks) :
    Lex.Covers toks (Lex.strip s) := Lex.lex_covers tbl s toks h

/-- every function name followed by `(` is lexed as its own keyword class by the lexer table of this run - never as a shorter
    keyword that it starts with (`SUMIFS(` is not `SUM`, `IFS`, `(`), nor as a cell reference (checked by evaluation over the table) -/
theorem keywords_lex_as_themselves :
    E2P.Generated.lexerKeywords.all (fun kw =>
      Lex.lexOne (Lex.table E2P.Generated.lexerOrder E2P.Generated.lexerRegexes) (kw.2.toList ++ ['(']) == Lex.One.tok kw.1 ['(']) = true := by
  decide +kernel

/-- whitespace before the first token and after the last one never changes what the lexer returns (any table, any text) -/
theorem whitespace_around_formula (tbl : List (String × Lex.Scanner)) (ws1 s ws2 : List Char)
    (h1 : ∀ c ∈ ws1, Lex.isWs c = true) (h2 : ∀ c ∈ ws2, Lex.isWs c = true) : Lex.lex tbl (ws1 ++ s ++ ws2) = Lex.lex tbl s :=
  Lex.lex_outer_ws tbl ws1 s ws2 h1 h2

/-- whitespace in front of the text at which the loop stands — i.e. between the token just taken and the next one — is
    skipped before any class is tried (`lex_ws_partial`: that the PREVIOUS token's lookahead is indifferent to it is a law on the real code) -/
theorem whitespace_before_token (tbl : List (String × Lex.Scanner)) (n : Nat) (ws s : List Char) (h : ∀ c ∈ ws, Lex.isWs c = true) :
    Lex.lexLoop tbl n (ws ++ s) = Lex.lexLoop tbl n s := Lex.lexLoop_skip_ws tbl n ws s h

/-! ### non-vacuity on the grammar of this run -/

private def tk (c t : String) : Tok := (c, t)
/-- `=1+2` is accepted whole; `=1+2)` and `=1+` are rejected -/
example : (match astBuild generated 40 "EntryPointToken" [tk "EqOperatorToken" "=", tk "LiteralToken" "1", tk "PlusOperatorToken" "+", tk "LiteralToken" "2"] with
    | .accept t => t.leaves.length | _ => 0) = 4 := by decide +kernel
example : (match astBuild generated 40 "EntryPointToken" [tk "EqOperatorToken" "=", tk "LiteralToken" "1", tk "PlusOperatorToken" "+", tk "LiteralToken" "2", tk "BracketFinishToken" ")"] with
    | .reject => true | _ => false) = true := by decide +kernel
example : (match astBuild generated 40 "EntryPointToken" [tk "EqOperatorToken" "=", tk "LiteralToken" "1", tk "PlusOperatorToken" "+"] with
    | .reject => true | _ => false) = true := by decide +kernel

end E2P.C05
