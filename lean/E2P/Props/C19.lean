/-
  Property C19 — the safety gate reports exactly the Python-like cells.
-/
import E2P.Model.Safety
import Mathlib.Data.List.Basic
import Mathlib.Data.List.Infix
import Mathlib.Data.List.TakeWhile
namespace E2P.C19
open E2P

/-- `f` is call syntax occurring in `t`: an identifier run immediately followed by a parenthesised argument list -/
def OccursIn (f : List Char × List Char) (t : List Char) : Prop :=
  f.1 ≠ [] ∧ f.1.all isIdChar = true ∧ ')' ∉ f.2 ∧ fragmentText f <:+: t

/-- up to the first `)`: the text splits as args ++ ')' :: tail with no `)` in args -/
theorem split_at_close (rs : List Char) (h : ')' ∈ rs) :
    ∃ tail, rs = rs.takeWhile (· != ')') ++ ')' :: tail ∧ rs.dropWhile (· != ')') = ')' :: tail := by
  induction rs with
  | nil => cases h
  | cons x xs ih =>
    by_cases hx : x = ')'
    · subst hx; exact ⟨xs, by simp [List.takeWhile], by simp [List.dropWhile]⟩
    · have hm : ')' ∈ xs := by rcases List.mem_cons.1 h with e | e; exact absurd e.symm hx; exact e
      obtain ⟨tail, h1, h2⟩ := ih hm
      have hne : (x != ')') = true := by simpa using hx
      refine ⟨tail, ?_, ?_⟩
      · simp only [List.takeWhile, hne, List.cons_append]; rw [← h1]
      · simp only [List.dropWhile, hne]; exact h2

theorem not_close_mem_takeWhile (rs : List Char) : ')' ∉ rs.takeWhile (· != ')') := by
  intro hm; have := List.mem_takeWhile_imp hm; simp at this

/-- **Soundness of the scan**: every reported fragment really is call syntax of the cell text — a cell without call syntax
    is never listed. -/
theorem scan_sound (fuel : Nat) (t : List Char) : ∀ f ∈ scanCalls fuel t, OccursIn f t := by
  induction fuel generalizing t with
  | zero => intro f h; simp [scanCalls] at h
  | succ n ih =>
    intro f hf
    cases t with
    | nil => simp [scanCalls] at hf
    | cons c cs =>
      simp only [scanCalls] at hf
      by_cases hc : isIdChar c = true
      · simp only [hc, ↓reduceIte] at hf
        have hsplit : (c :: cs).takeWhile isIdChar ++ (c :: cs).dropWhile isIdChar = c :: cs := List.takeWhile_append_dropWhile
        generalize hrun : (c :: cs).takeWhile isIdChar = run at hf hsplit
        generalize hrest : (c :: cs).dropWhile isIdChar = rest at hf hsplit
        have hrun_ne : run ≠ [] := by rw [← hrun]; simp [List.takeWhile, hc]
        have hrun_all : run.all isIdChar = true := by
          rw [← hrun, List.all_eq_true]; intro x hx; exact List.mem_takeWhile_imp hx
        have lift : ∀ g, OccursIn g rest → OccursIn g (c :: cs) := by
          intro g ⟨a, b, c', d⟩
          exact ⟨a, b, c', by rw [← hsplit]; exact d.trans (List.suffix_append _ _).isInfix⟩
        by_cases hcond : rest.head? = some '(' ∧ (rest.drop 1).contains ')' = true
        · rw [if_pos hcond] at hf
          obtain ⟨hh, hcl⟩ := hcond
          obtain ⟨rs, rfl⟩ : ∃ rs, rest = '(' :: rs := by
            cases rest with
            | nil => simp at hh
            | cons r rs => simp only [List.head?_cons, Option.some.injEq] at hh; exact ⟨rs, by rw [hh]⟩
          simp only [List.drop_succ_cons, List.drop_zero] at hf hcl
          have hmem : ')' ∈ rs := by simpa using hcl
          obtain ⟨tail, h1, h2⟩ := split_at_close rs hmem
          rcases List.mem_cons.1 hf with rfl | hf
          · refine ⟨hrun_ne, hrun_all, not_close_mem_takeWhile rs, [], tail, ?_⟩
            rw [← hsplit]
            conv_rhs => rw [h1]
            simp [fragmentText, List.append_assoc]
          · rw [h2] at hf
            simp only [List.drop_succ_cons, List.drop_zero] at hf
            obtain ⟨a, b, c', d⟩ := ih _ f hf
            apply lift
            refine ⟨a, b, c', d.trans ?_⟩
            have : tail <:+ '(' :: rs := by
              rw [h1]; exact ⟨'(' :: (rs.takeWhile (· != ')') ++ [')']), by simp⟩
            exact this.isInfix
        · rw [if_neg hcond] at hf
          exact lift f (ih _ f hf)
      · simp only [hc, Bool.false_eq_true, ↓reduceIte] at hf
        obtain ⟨a, b, c', d⟩ := ih _ f hf
        exact ⟨a, b, c', d.trans (List.suffix_cons _ _).isInfix⟩

/-- a cell whose text contains no `(` at all — in particular plain text and numbers — is never listed -/
theorem no_paren_never_listed (t : List Char) (h : '(' ∉ t) : suspicious t = [] := by
  unfold suspicious
  have : scanCalls (t.length + 1) t = [] := by
    apply List.eq_nil_iff_forall_not_mem.2
    intro f hf
    obtain ⟨_, _, _, hin⟩ := scan_sound _ t f hf
    apply h
    exact hin.subset (by simp [fragmentText])
  simp [this]

/-- cells whose only call syntax consists of upper-case (Excel) function calls are never listed -/
theorem only_excel_calls_never_listed (t : List Char)
    (h : ∀ f ∈ scanCalls (t.length + 1) t, isExcelCall f = true) : suspicious t = [] := by
  unfold suspicious
  rw [List.filter_eq_nil_iff.2 (by intro f hf; simp [h f hf])]; rfl

/-- every listed fragment is call syntax of the cell whose identifier is NOT upper-case throughout -/
theorem listed_is_python_like (t : List Char) (frag : List Char) (h : frag ∈ suspicious t) :
    ∃ f, frag = fragmentText f ∧ OccursIn f t ∧ isExcelCall f = false := by
  unfold suspicious at h
  simp only [List.mem_map, List.mem_filter, Bool.not_eq_eq_eq_not, Bool.not_true] at h
  obtain ⟨f, ⟨hf, hx⟩, rfl⟩ := h
  exact ⟨f, rfl, scan_sound _ t f hf, hx⟩

/-! ### completeness: every cell with call syntax is found -/

/-- the text contains call syntax: a non-empty run of identifier characters immediately followed by `(`, and a `)` later -/
def HasCall (t : List Char) : Prop :=
  ∃ pre run after, t = pre ++ run ++ '(' :: after ∧ run ≠ [] ∧ run.all isIdChar = true ∧ ')' ∈ after

theorem paren_not_id : isIdChar '(' = false := by decide

theorem scan_complete (fuel : Nat) (t : List Char) (hf : t.length < fuel) (h : HasCall t) : scanCalls fuel t ≠ [] := by
  induction fuel generalizing t with
  | zero => omega
  | succ n ih =>
    obtain ⟨pre, run, after, ht, hne, hall, hclose⟩ := h
    cases t with
    | nil => cases pre <;> cases run <;> simp at ht hne
    | cons c cs =>
      simp only [scanCalls]
      by_cases hc : isIdChar c = true
      · simp only [hc, ↓reduceIte]
        have hsplit : (c :: cs).takeWhile isIdChar ++ (c :: cs).dropWhile isIdChar = c :: cs := List.takeWhile_append_dropWhile
        generalize hrun0 : (c :: cs).takeWhile isIdChar = run0 at hsplit
        generalize hrest : (c :: cs).dropWhile isIdChar = rest at hsplit
        have hrun0_ne : run0 ≠ [] := by rw [← hrun0]; simp [List.takeWhile, hc]
        have hrun0_all : ∀ x ∈ run0, isIdChar x = true := by rw [← hrun0]; intro x hx; exact List.mem_takeWhile_imp hx
        have hrest_head : ∀ x xs, rest = x :: xs → isIdChar x = false := by
          intro x xs hx
          have hne' : (c :: cs).dropWhile isIdChar ≠ [] := by rw [hrest, hx]; simp
          have := List.head_dropWhile_not isIdChar hne'
          simp only [hrest, hx, List.head_cons] at this
          simpa using this
        by_cases hcond : rest.head? = some '(' ∧ (rest.drop 1).contains ')' = true
        · rw [if_pos hcond]; simp
        · rw [if_neg hcond]
          have hlen : rest.length < n := by
            have := congrArg List.length hsplit
            simp only [List.length_append, List.length_cons] at this
            have : 0 < run0.length := List.length_pos_iff.2 hrun0_ne
            simp only [List.length_cons] at hf
            omega
          apply ih rest hlen
          -- the call lies in `rest`
          have heq : run0 ++ rest = pre ++ (run ++ '(' :: after) := by rw [hsplit, ht]; simp [List.append_assoc]
          rcases List.append_eq_append_iff.1 heq with ⟨a', h1, h2⟩ | ⟨c', h1, h2⟩
          · exact ⟨a', run, after, by rw [h2]; simp [List.append_assoc], hne, hall, hclose⟩
          · exfalso
            -- run0 = pre ++ c', run ++ '(' :: after = c' ++ rest: then rest = '(' :: after
            have hc'id : ∀ x ∈ c', isIdChar x = true := fun x hx => hrun0_all x (by rw [h1]; simp [hx])
            have hrest_eq : rest = '(' :: after := by
              rcases List.append_eq_append_iff.1 h2 with ⟨d, g1, g2⟩ | ⟨d, g1, g2⟩
              · -- c' = run ++ d, '(' :: after = d ++ rest
                cases d with
                | nil => simpa using g2.symm
                | cons x xs =>
                  simp only [List.cons_append, List.cons.injEq] at g2
                  have := hc'id x (by rw [g1]; simp)
                  rw [← g2.1] at this; simp [paren_not_id] at this
              · -- run = c' ++ d, rest = d ++ '(' :: after
                cases d with
                | nil => simpa using g2
                | cons x xs =>
                  have hx : isIdChar x = true := by
                    rw [List.all_eq_true] at hall; exact hall x (by rw [g1]; simp)
                  have := hrest_head x (xs ++ '(' :: after) (by rw [g2]; simp)
                  rw [hx] at this; cases this
            apply hcond
            rw [hrest_eq]
            simp only [List.head?_cons, List.drop_succ_cons, List.drop_zero, true_and]
            simpa using hclose
      · simp only [hc, Bool.false_eq_true, ↓reduceIte]
        apply ih cs (by simp only [List.length_cons] at hf; omega)
        cases pre with
        | nil =>
          exfalso
          cases run with
          | nil => exact hne rfl
          | cons x xs =>
            simp only [List.nil_append, List.cons_append, List.cons.injEq] at ht
            rw [List.all_eq_true] at hall
            have := hall x (by simp)
            rw [← ht.1] at this; exact hc this
        | cons p ps =>
          simp only [List.cons_append, List.cons.injEq] at ht
          exact ⟨ps, run, after, ht.2, hne, hall, hclose⟩

/-- **Completeness**: a cell whose text contains call syntax and no upper-case letter at all (hence no upper-case
    function call) is listed. -/
theorem flags_python_like (t : List Char) (h : HasCall t) (hu : ∀ c ∈ t, isUpperAZ c = false) : suspicious t ≠ [] := by
  have hs := scan_complete (t.length + 1) t (by omega) h
  unfold suspicious
  intro hnil
  simp only [List.map_eq_nil_iff, List.filter_eq_nil_iff] at hnil
  obtain ⟨f, rest', hf⟩ := List.exists_cons_of_ne_nil hs
  have hmem : f ∈ scanCalls (t.length + 1) t := by rw [hf]; simp
  have hx := hnil f hmem
  obtain ⟨hne, _, _, hin⟩ := scan_sound _ t f hmem
  -- the identifier's first character is a character of the text, hence not upper-case
  cases hid : f.1 with
  | nil => exact hne hid
  | cons c cs =>
    have hc : c ∈ t := by
      apply hin.subset
      simp [fragmentText, hid]
    have := hu c hc
    simp [isExcelCall, hid, this] at hx

/-- **Completeness as the property states it**: a text with call syntax in which no found call fragment is an upper-case (Excel)
    function call is listed. -/
theorem flags_when_no_excel_call (t : List Char) (h : HasCall t)
    (hno : ∀ f ∈ scanCalls (t.length + 1) t, isExcelCall f = false) : suspicious t ≠ [] := by
  have hs := scan_complete (t.length + 1) t (by omega) h
  unfold suspicious
  intro hnil
  simp only [List.map_eq_nil_iff, List.filter_eq_nil_iff] at hnil
  obtain ⟨f, rest', hf⟩ := List.exists_cons_of_ne_nil hs
  have hmem : f ∈ scanCalls (t.length + 1) t := by rw [hf]; simp
  have := hnil f hmem
  rw [hno f hmem] at this
  simp at this

/-- with the check disabled the safety exception is never raised; enabled, it is raised exactly when a cell is listed -/
theorem disabled_never_raises (report : List (List Char × List (List Char))) : gate false report = .ok () := rfl

theorem enabled_raises_iff (report : List (List Char × List (List Char))) :
    gate true report = .error .safety ↔ report ≠ [] := by
  cases report <;> simp [gate]

/-- the report key is the true sheet title and A1 address: distinct (column, row) give distinct keys for one title -/
theorem reportKey_shape (title : List Char) (col row : Nat) :
    reportKey title col row = "'".toList ++ title ++ "'".toList ++ colLetters col ++ (toString row).toList := by
  simp [reportKey]

/-! ### non-vacuity (the model of the code, evaluated) -/
example : suspicious "eval(1)".toList = ["eval(1)".toList] ∧ suspicious "os.system(\"x\")".toList = ["system(\"x\")".toList] ∧
    suspicious "f(\n)".toList = ["f(\n)".toList] ∧ suspicious "aB(2)".toList = ["aB(2)".toList] ∧
    suspicious "=SUM(A1)+IF(A1,1,2)".toList = [] ∧ suspicious "plain text (no call)".toList = [] ∧
    suspicious "=LOG10(5)".toList = [] := by decide +kernel
example : reportKey "My Sheet".toList 3 7 = "'My Sheet'C7".toList := by decide +kernel

end E2P.C19
