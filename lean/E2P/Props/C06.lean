/-
  Property C06 — translation is total (parser part): the token-set parser terminates on every token list, within a
  recursion depth that is linear in the number of tokens, for every grammar without left recursion — and the grammar of
  this run is one (rank table regenerated from the source, checked by `decide`).
-/
import E2P.Props.C05
import E2P.Generated.GrammarRank
import Mathlib.Tactic.Linarith
import E2P.Lemmas.LexLemmas
import E2P.Lemmas.PegMemo
import E2P.Lemmas.PegSteps
namespace E2P.C06
open E2P E2P.C05

variable (G : Grammar)

/-! ### an accepted node consumes at least one token -/

def Consumes (getF : String → List Tok → PRes) : Prop :=
  ∀ cls toks t rest, getF cls toks = .ok t rest → rest.length < toks.length

theorem seq_consumes (getF : String → List Tok → PRes) (hf : Consumes getF) (syms : List String) (toks : List Tok)
    (kids : List PTree) (rest : List Tok) (m : Bool) (h : seqMatch G getF syms toks = .done kids rest m) :
    rest.length ≤ toks.length ∧ (syms ≠ [] → rest.length < toks.length) := by
  induction syms generalizing toks kids rest m with
  | nil => simp only [seqMatch] at h; cases h; simp
  | cons sym syms ih =>
    cases toks with
    | nil => simp [seqMatch] at h
    | cons t ts =>
      simp only [seqMatch] at h
      by_cases h1 : (sym == t.1) = true
      · simp only [h1, ↓reduceIte] at h
        cases hs : seqMatch G getF syms ts with
        | done k r m' =>
          rw [hs] at h
          simp only [SeqRes.done.injEq] at h
          obtain ⟨rfl, rfl, rfl⟩ := h
          have := (ih ts k r m' hs).1
          simp only [List.length_cons]
          exact ⟨by omega, fun _ => by omega⟩
        | fail m' => rw [hs] at h; cases h
        | raise => rw [hs] at h; cases h
        | depth => rw [hs] at h; cases h
      · simp only [h1, Bool.false_eq_true, ↓reduceIte] at h
        by_cases h2 : G.composites.contains sym = true
        · simp only [h2, ↓reduceIte] at h
          cases hg : getF sym (t :: ts) with
          | ok tree r1 =>
            rw [hg] at h
            simp only at h
            cases hs : seqMatch G getF syms r1 with
            | done k r m' =>
              rw [hs] at h
              simp only [SeqRes.done.injEq] at h
              obtain ⟨rfl, rfl, rfl⟩ := h
              have e1 := hf _ _ _ _ hg
              have e2 := (ih r1 k r m' hs).1
              exact ⟨by omega, fun _ => by omega⟩
            | fail m' => rw [hs] at h; cases h
            | raise => rw [hs] at h; cases h
            | depth => rw [hs] at h; cases h
          | none => rw [hg] at h; cases h
          | raise => rw [hg] at h; cases h
          | depth => rw [hg] at h; cases h
        · have h2' : sym ∉ G.composites := by simpa using h2
          simp [h2'] at h

theorem trySets_consumes (getF : String → List Tok → PRes) (hf : Consumes getF) (cls : String) (toks : List Tok)
    (sets : List (List String)) (saw : Bool) (t : PTree) (rest : List Tok)
    (h : trySets G getF cls toks sets saw = .ok t rest) : rest.length < toks.length := by
  induction sets generalizing saw with
  | nil => simp only [trySets] at h; split at h <;> cases h
  | cons set sets ih =>
    simp only [trySets] at h
    cases hs : seqMatch G getF set toks with
    | done kids r m =>
      rw [hs] at h
      simp only at h
      by_cases he : set.isEmpty = true
      · simp only [he, ↓reduceIte] at h; exact ih _ h
      · simp only [he, Bool.false_eq_true, ↓reduceIte, PRes.ok.injEq] at h
        obtain ⟨rfl, rfl⟩ := h
        exact (seq_consumes G getF hf set toks kids r m hs).2 (by intro e; rw [e] at he; simp at he)
    | fail m => rw [hs] at h; exact ih _ h
    | raise => rw [hs] at h; cases h
    | depth => rw [hs] at h; cases h

theorem consumes (fuel : Nat) : Consumes (pegGet G fuel) := by
  induction fuel with
  | zero => intro cls toks t rest h; simp [pegGet] at h
  | succ n ih => intro cls toks t rest h; simp only [pegGet] at h; exact trySets_consumes G _ ih cls toks _ _ t rest h

/-! ### no left recursion ⇒ bounded depth -/

/-- a ranking of the composite classes that decreases along head symbols: the grammar has no left recursion -/
def RankOK (rk : String → Nat) (R : Nat) : Prop :=
  (∀ c, rk c ≤ R) ∧ ∀ cls set, set ∈ G.setsOf cls → ∀ s rest, set = s :: rest → G.composites.contains s = true → rk s < rk cls

/-- `getF` does not run out of depth on inputs whose measure is below `n` -/
def DeepEnough (rk : String → Nat) (R n : Nat) (getF : String → List Tok → PRes) : Prop :=
  ∀ sym toks, toks.length * (R + 1) + rk sym < n → getF sym toks ≠ .depth

theorem seq_tail_nodepth (rk : String → Nat) (R n : Nat) (hR : ∀ c, rk c ≤ R) (getF : String → List Tok → PRes)
    (hd : DeepEnough rk R n getF) (hc : Consumes getF) (syms : List String) (toks : List Tok)
    (hlen : (toks.length + 1) * (R + 1) ≤ n) : seqMatch G getF syms toks ≠ .depth := by
  induction syms generalizing toks with
  | nil => simp [seqMatch]
  | cons sym syms ih =>
    cases toks with
    | nil => simp [seqMatch]
    | cons t ts =>
      simp only [seqMatch]
      have hts : (ts.length + 1) * (R + 1) ≤ n := by
        simp only [List.length_cons] at hlen
        nlinarith
      by_cases h1 : (sym == t.1) = true
      · simp only [h1, ↓reduceIte]
        have := ih ts hts
        cases hs : seqMatch G getF syms ts <;> simp_all
      · simp only [h1, Bool.false_eq_true, ↓reduceIte]
        by_cases h2 : G.composites.contains sym = true
        · simp only [h2, ↓reduceIte]
          have hg : getF sym (t :: ts) ≠ .depth := by
            apply hd
            simp only [List.length_cons] at hlen ⊢
            have := hR sym
            nlinarith
          cases hgr : getF sym (t :: ts) with
          | ok tree r1 =>
            simp only
            have hr1 := hc _ _ _ _ hgr
            have := ih r1 (by
              simp only [List.length_cons] at hlen hr1
              have : r1.length + 1 ≤ ts.length + 1 := by omega
              nlinarith)
            cases hs : seqMatch G getF syms r1 <;> simp_all
          | none => simp
          | raise => simp
          | depth => exact absurd hgr hg
        · have h2' : sym ∉ G.composites := by simpa using h2
          simp [h2']

theorem seq_head_nodepth (rk : String → Nat) (R n : Nat) (hrk : RankOK G rk R) (getF : String → List Tok → PRes)
    (hd : DeepEnough rk R n getF) (hc : Consumes getF) (cls : String) (set : List String) (hset : set ∈ G.setsOf cls)
    (toks : List Tok) (hm : toks.length * (R + 1) + rk cls < n + 1) : seqMatch G getF set toks ≠ .depth := by
  cases set with
  | nil => simp [seqMatch]
  | cons sym syms =>
    cases toks with
    | nil => simp [seqMatch]
    | cons t ts =>
      simp only [seqMatch]
      have hts : (ts.length + 1) * (R + 1) ≤ n := by
        simp only [List.length_cons] at hm
        nlinarith
      by_cases h1 : (sym == t.1) = true
      · simp only [h1, ↓reduceIte]
        have := seq_tail_nodepth G rk R n hrk.1 getF hd hc syms ts hts
        cases hs : seqMatch G getF syms ts <;> simp_all
      · simp only [h1, Bool.false_eq_true, ↓reduceIte]
        by_cases h2 : G.composites.contains sym = true
        · simp only [h2, ↓reduceIte]
          have hlt := hrk.2 cls _ hset sym syms rfl h2
          have hg : getF sym (t :: ts) ≠ .depth := by
            apply hd
            omega
          cases hgr : getF sym (t :: ts) with
          | ok tree r1 =>
            simp only
            have hr1 := hc _ _ _ _ hgr
            have := seq_tail_nodepth G rk R n hrk.1 getF hd hc syms r1 (by
              simp only [List.length_cons] at hr1
              have : r1.length + 1 ≤ ts.length + 1 := by omega
              nlinarith)
            cases hs : seqMatch G getF syms r1 <;> simp_all
          | none => simp
          | raise => simp
          | depth => exact absurd hgr hg
        · have h2' : sym ∉ G.composites := by simpa using h2
          simp [h2']

theorem trySets_nodepth (rk : String → Nat) (R n : Nat) (hrk : RankOK G rk R) (getF : String → List Tok → PRes)
    (hd : DeepEnough rk R n getF) (hc : Consumes getF) (cls : String) (toks : List Tok)
    (hm : toks.length * (R + 1) + rk cls < n + 1) (sets : List (List String)) (hsub : ∀ s ∈ sets, s ∈ G.setsOf cls)
    (saw : Bool) : trySets G getF cls toks sets saw ≠ .depth := by
  induction sets generalizing saw with
  | nil => simp only [trySets]; split <;> simp
  | cons set sets ih =>
    simp only [trySets]
    have h1 := seq_head_nodepth G rk R n hrk getF hd hc cls set (hsub set (by simp)) toks hm
    have hsub' : ∀ s ∈ sets, s ∈ G.setsOf cls := fun s hs => hsub s (by simp [hs])
    cases hs : seqMatch G getF set toks with
    | done kids r m => simp only; split; exact ih hsub' _; simp
    | fail m => exact ih hsub' _
    | raise => simp
    | depth => exact absurd hs h1

/-- **The parser terminates within a depth linear in the input**: with `fuel > |toks|·(R+1) + rank cls` the interpreter
    never reports depth exhaustion — for every grammar whose head-symbol relation is ranked (no left recursion). -/
theorem no_depth (rk : String → Nat) (R : Nat) (hrk : RankOK G rk R) (fuel : Nat) :
    DeepEnough rk R fuel (pegGet G fuel) := by
  induction fuel with
  | zero => intro sym toks h; omega
  | succ n ih =>
    intro sym toks hm
    simp only [pegGet]
    exact trySets_nodepth G rk R n hrk (pegGet G n) ih (consumes G n) sym toks hm _ (fun _ h => h) _

/-! ### the grammar of this run -/

def rankFn (c : String) : Nat := match E2P.Generated.grammarRank.find? (·.1 == c) with | some kv => kv.2 | none => 0

/-- decidable form of `RankOK` for the generated tables -/
def rankCheck (G : Grammar) (R : Nat) : Bool :=
  (E2P.Generated.grammarRank.all fun kv => kv.2 ≤ R) &&
  G.rules.all fun kv => kv.2.all fun set => match set with
    | s :: _ => !G.composites.contains s || (rankFn s < rankFn kv.1)
    | [] => true

theorem generated_rank_check : rankCheck generated 5 = true ∧ E2P.Generated.grammarRank ≠ [] := by decide

theorem rankOK_of_check (G : Grammar) (R : Nat) (h : rankCheck G R = true) : RankOK G rankFn R := by
  simp only [rankCheck, Bool.and_eq_true, List.all_eq_true, decide_eq_true_eq] at h
  obtain ⟨h1, h2⟩ := h
  refine ⟨?_, ?_⟩
  · intro c
    unfold rankFn
    cases hf : E2P.Generated.grammarRank.find? (·.1 == c) with
    | none => simp
    | some kv => exact h1 kv (List.mem_of_find?_eq_some hf)
  · intro cls set hset s rest hs hcomp
    unfold Grammar.setsOf at hset
    cases hf : G.rules.find? (·.1 == cls) with
    | none => rw [hf] at hset; simp at hset
    | some kv =>
      rw [hf] at hset
      have hk : kv.1 = cls := by simpa using List.find?_some hf
      have := h2 kv (List.mem_of_find?_eq_some hf) set hset
      subst hs
      simp only [hcomp, Bool.not_true, Bool.false_or, decide_eq_true_eq] at this
      rw [← hk]; exact this

/-- **The parser of this run terminates on every token list**: with depth `6·|toks| + 6` the entry rule never reports
    depth exhaustion, so `AstBuilder.parse` either accepts the whole formula or raises the parser exception. -/
theorem parse_total (toks : List Tok) :
    (∃ t, astBuild generated (toks.length * 6 + 6) "EntryPointToken" toks = .accept t ∧ t.leaves = toks) ∨
      astBuild generated (toks.length * 6 + 6) "EntryPointToken" toks = .reject := by
  have hrk := rankOK_of_check generated 5 generated_rank_check.1
  have hnd := no_depth generated rankFn 5 hrk (toks.length * 6 + 6) "EntryPointToken" toks (by
    have := hrk.1 "EntryPointToken"; omega)
  rcases whole_or_rejected generated (toks.length * 6 + 6) "EntryPointToken" toks with h | h | h
  · exact Or.inl h
  · exact Or.inr h
  · exfalso
    unfold astBuild at h
    cases hp : pegGet generated (toks.length * 6 + 6) "EntryPointToken" toks with
    | ok t rest => rw [hp] at h; cases rest <;> simp at h
    | none => rw [hp] at h; simp at h
    | raise => rw [hp] at h; simp at h
    | depth => exact hnd hp

/-! ### the memo table of `CompositeBaseToken.get` -/

/-- **The memo table is transparent** (every grammar, every token list): `AstBuilder.parse` with the table
    `(class, number of remaining tokens) -> result` returns exactly what the parser without a table returns. Entries are
    only ever read for a suffix of the token list of the same `AstBuilder.parse` call, and a suffix is determined by its
    length (`MemoOK`, `pegGetM_sim`); depth exhaustion is excluded by `parse_total` for the grammar of this run. -/
theorem memo_transparent (fuel : Nat) (entry : String) (toks : List Tok) (h : astBuild G fuel entry toks ≠ .depth) :
    (astBuildM G fuel entry toks).1 = astBuild G fuel entry toks := by
  have hnd : pegGet G fuel entry toks ≠ .depth := by
    intro e; apply h; unfold astBuild; rw [e]
  obtain ⟨e1, _⟩ := PegMemo.pegGetM_sim G toks fuel entry toks MemoSt.empty (List.suffix_refl toks)
    (PegMemo.memoOK_empty G toks) hnd
  unfold astBuildM astBuild
  rcases hm : pegGetM G fuel entry toks MemoSt.empty with ⟨r, s⟩
  rw [hm] at e1
  simp only at e1
  rw [← e1]
  cases r with
  | ok t rest => cases rest <;> rfl
  | none => rfl
  | raise => rfl
  | depth => rfl

/-- the same from ANY table that is sound for this token list (e.g. the table another rule of the same parse left) -/
theorem memo_transparent_from (fuel : Nat) (cls : String) (orig toks : List Tok) (s : MemoSt) (hsuf : toks <:+ orig)
    (hok : PegMemo.MemoOK G orig s) (h : pegGet G fuel cls toks ≠ .depth) :
    (pegGetM G fuel cls toks s).1 = pegGet G fuel cls toks ∧ PegMemo.MemoOK G orig (pegGetM G fuel cls toks s).2 :=
  PegMemo.pegGetM_sim G orig fuel cls toks s hsuf hok h

/-- **The memoised parser of this run** accepts a tree covering all tokens or rejects - on every token list, with the
    proved depth, and with the answer of the parser without a table. -/
theorem parse_total_memo (toks : List Tok) :
    (astBuildM generated (toks.length * 6 + 6) "EntryPointToken" toks).1 =
        astBuild generated (toks.length * 6 + 6) "EntryPointToken" toks ∧
      ((∃ t, (astBuildM generated (toks.length * 6 + 6) "EntryPointToken" toks).1 = .accept t ∧ t.leaves = toks) ∨
        (astBuildM generated (toks.length * 6 + 6) "EntryPointToken" toks).1 = .reject) := by
  have hp := parse_total toks
  have hnd : astBuild generated (toks.length * 6 + 6) "EntryPointToken" toks ≠ .depth := by
    rcases hp with ⟨t, h, _⟩ | h <;> rw [h] <;> simp
  have e := memo_transparent generated (toks.length * 6 + 6) "EntryPointToken" toks hnd
  refine ⟨e, ?_⟩
  rw [e]; exact hp

/-- **Whole or rejected, for the parser as the repository runs it** (with the memo table; every grammar; a depth budget
    that suffices for the parser without a table - `parse_total` gives one for the grammar of this run): whenever the
    memoised `AstBuilder.parse` accepts, the tree's leaves are exactly the token list - nothing dropped, duplicated or
    invented - and the same token list with a non-empty tail appended is never accepted with that tree. -/
theorem whole_or_rejected_memo (fuel : Nat) (entry : String) (toks : List Tok) (t : PTree)
    (hd : astBuild G fuel entry toks ≠ .depth) (h : (astBuildM G fuel entry toks).1 = .accept t) :
    t.leaves = toks ∧ ∀ extra : List Tok, extra ≠ [] → astBuild G fuel entry (toks ++ extra) ≠ .depth →
      (astBuildM G fuel entry (toks ++ extra)).1 ≠ .accept t := by
  have e := memo_transparent G fuel entry toks hd
  rw [e] at h
  refine ⟨?_, ?_⟩
  · rcases whole_or_rejected G fuel entry toks with ⟨t', ht, hl⟩ | h' | h'
    · rw [h] at ht; cases ht; exact hl
    · rw [h] at h'; cases h'
    · exact absurd h' hd
  · intro extra hx hd'
    rw [memo_transparent G fuel entry (toks ++ extra) hd']
    exact no_silent_truncation G fuel entry toks extra t hx h

/-- a table that is NOT sound does change the answer (why the hypothesis is there, and what a table kept across two
    `AstBuilder.parse` calls would do): with a stale entry for `(EntryPointToken, 2)` the tokens `= 1` are rejected -/
example : (pegGetM generated 20 "EntryPointToken" [("EqOperatorToken", "="), ("LiteralToken", "1")]
      ⟨[(("EntryPointToken", 2), .none)], []⟩).1 matches .none := by decide +kernel

/-- non-vacuity: a nested formula is accepted by the memoised parser with fewer `_get` executions than table keys -/
example : (match astBuildM generated 60 "EntryPointToken"
      [("EqOperatorToken", "="), ("BracketStartToken", "("), ("BracketStartToken", "("), ("LiteralToken", "1"),
       ("BracketFinishToken", ")"), ("BracketFinishToken", ")")] with
    | (.accept _, n) => decide (n ≤ 7 * generated.composites.length) | _ => false) = true := by decide +kernel

/-- **`_get` runs at most once per (class, position)** - every grammar without left recursion, every token list, every
    outcome (tree, rejection, exception, even depth exhaustion): the number of `_get` executions of one `AstBuilder.parse`
    with the memo table is at most `|composite classes| * (|tokens| + 1)`.  The log of executed keys never repeats a key:
    a key is executed only while the table has no entry for it, a completed execution leaves its entry, and executions in
    progress have a strictly larger measure `remaining * (R+1) + rank` than the one that starts (Lemmas/PegSteps.lean). -/
theorem parse_steps_bound (rk : String → Nat) (R : Nat) (hrk : RankOK G rk R) (hnd : G.composites.Nodup) (fuel : Nat)
    (entry : String) (he : entry ∈ G.composites) (toks : List Tok) :
    (astBuildM G fuel entry toks).2 ≤ G.composites.length * (toks.length + 1) :=
  PegSteps.steps_bound G rk R hrk hnd fuel entry he toks

/-- checked on the regenerated table: no composite class is listed twice and the entry rule is one of them -/
theorem generated_composites_ok : generated.composites.Nodup ∧ "EntryPointToken" ∈ generated.composites := by decide

/-- **The parser of this run is polynomial**: on every token list, with the proved depth, the memoised `AstBuilder.parse`
    answers as the parser without a table does, accepts a tree covering all tokens or rejects, and executes `_get` at most
    `|classes| * (|tokens| + 1)` times.  (The C06 check compares this very count with the real parser's on every generated
    formula.) -/
theorem generated_parse_steps_bound (toks : List Tok) :
    (astBuildM generated (toks.length * 6 + 6) "EntryPointToken" toks).2 ≤ generated.composites.length * (toks.length + 1) ∧
      (astBuildM generated (toks.length * 6 + 6) "EntryPointToken" toks).1 =
        astBuild generated (toks.length * 6 + 6) "EntryPointToken" toks :=
  ⟨parse_steps_bound generated rankFn 5 (rankOK_of_check generated 5 generated_rank_check.1) generated_composites_ok.1 _ _
    generated_composites_ok.2 toks, (parse_total_memo toks).1⟩

/-- non-vacuity: three nested brackets, evaluated - the count of the memoised parser is within the bound (the un-memoised
    parser re-parsed the inner span once per alternative: the repaired defect "exponential re-parsing") -/
example : (astBuildM generated 60 "EntryPointToken"
      [("EqOperatorToken", "="), ("BracketStartToken", "("), ("BracketStartToken", "("), ("BracketStartToken", "("),
       ("LiteralToken", "1"), ("BracketFinishToken", ")"), ("BracketFinishToken", ")"), ("BracketFinishToken", ")")]).2
    ≤ generated.composites.length * 9 := by decide +kernel

/-! ### the regex lexer ends on every text -/

/-- the lexer table of this run: `Lexer.TOKENS` in order, every class with its scanner (five hand-written, the others
    interpreted from their regex source) -/
def lexerTable : List (String × Lex.Scanner) := Lex.table E2P.Generated.lexerOrder E2P.Generated.lexerRegexes

/-- checked on the regenerated table: every class outside the five hand-written scanners has a regex that is an alternation
    of non-empty literals, and `UndefinedToken` is present -/
theorem generated_lexer_table_ok : Lex.tableOk lexerTable = true := by decide +kernel

/-- **`Lexer.parse` ends on every text**: it returns tokens or raises `Undefined token` / `The number is too large`;
    every round of its `while` loop consumes at least one character. -/
theorem lexer_ends (s : List Char) : (Lex.lex lexerTable s).ends := Lex.lex_ends lexerTable generated_lexer_table_ok s

/-- **text → tree is total**: lexing, then parsing with the proved depth, ends in a tree covering all tokens, a rejection by the
    parser, or one of the lexer's two exceptions -/
theorem front_end_total (s : List Char) :
    (∃ toks, Lex.lex lexerTable s = .ok toks ∧
      ((∃ t, astBuild generated (toks.length * 6 + 6) "EntryPointToken" toks = .accept t ∧ t.leaves = toks) ∨
        astBuild generated (toks.length * 6 + 6) "EntryPointToken" toks = .reject)) ∨
    (∃ r, Lex.lex lexerTable s = .undefined r) ∨ Lex.lex lexerTable s = .tooLarge := by
  have h := lexer_ends s
  cases hl : Lex.lex lexerTable s with
  | ok toks => exact Or.inl ⟨toks, rfl, parse_total toks⟩
  | undefined r => exact Or.inr (Or.inl ⟨r, rfl⟩)
  | tooLarge => exact Or.inr (Or.inr rfl)
  | unsupported => rw [hl] at h; exact h.elim
  | spin => rw [hl] at h; exact h.elim
  | fuel => rw [hl] at h; exact h.elim

/-- **text → tree with the memo table is total and polynomial**: lexing ends; the memoised parser then accepts a tree covering
    all tokens or rejects, with at most `|classes| * (|tokens| + 1)` executions of `_get` -/
theorem front_end_total_memo (s : List Char) :
    (∃ toks, Lex.lex lexerTable s = .ok toks ∧
      (astBuildM generated (toks.length * 6 + 6) "EntryPointToken" toks).2 ≤ generated.composites.length * (toks.length + 1) ∧
      ((∃ t, (astBuildM generated (toks.length * 6 + 6) "EntryPointToken" toks).1 = .accept t ∧ t.leaves = toks) ∨
        (astBuildM generated (toks.length * 6 + 6) "EntryPointToken" toks).1 = .reject)) ∨
    (∃ r, Lex.lex lexerTable s = .undefined r) ∨ Lex.lex lexerTable s = .tooLarge := by
  rcases front_end_total s with ⟨toks, hl, _⟩ | h | h
  · exact Or.inl ⟨toks, hl, (generated_parse_steps_bound toks).1, (parse_total_memo toks).2⟩
  · exact Or.inr (Or.inl h)
  · exact Or.inr (Or.inr h)

/-- non-vacuity: a formula is lexed into its tokens -/
example : Lex.lex lexerTable "=SUMIFS(A1:B2, 'x y'!$C$3 ,\">1\")%".toList =
    .ok [("EqOperatorToken", "="), ("SumIfSKeywordToken", "SUMIFS"), ("BracketStartToken", "("), ("MatrixOfCellIdentifiersToken", "A1:B2"),
         ("SeparatorToken", ","), ("CellIdentifierToken", "'x y'!$C$3"), ("SeparatorToken", ","), ("LiteralToken", "\">1\""),
         ("BracketFinishToken", ")"), ("PercentToken", "%")] := by decide +kernel

end E2P.C06
