/-
  Property C20 — the importable runtime base class and the emitted runtime agree.

  Tie A regenerates, on every run, the table (name, normalised AST) of every helper of
    * the class text the real `Context.build_class()` renders (i.e. *after* `str.format` un-escaping), and
    * `AbstractExcelInPython`,
  with annotations, docstrings and source positions removed.  The theorems below say the two tables are the same
  table.  Two helpers with the same AST in the same import environment are the same program; that they then return
  the same result for every argument is CPython's determinism, which is trusted, not proved (see DESIGN.md).
-/
import E2P.Generated.RuntimeAst
namespace E2P.C20
open E2P.Generated

/-- the two classes expose the same set of helpers -/
theorem same_helpers : templateHelpers.map (·.1) = abstractHelpers.map (·.1) := by rfl

/-- every helper has the same normalised program text in both copies -/
theorem helpers_identical : templateHelpers = abstractHelpers := by rfl

/-- … hence: a helper offered by the abstract class has a same-named helper with the same program in the generated class, and conversely -/
theorem helper_agrees (name body : String) : (name, body) ∈ abstractHelpers ↔ (name, body) ∈ templateHelpers := by
  rw [helpers_identical]

/-- the free names of the helpers resolve in the same import environment (the abstract module additionally imports ABC) -/
theorem same_imports : ∀ i ∈ templateImports, i ∈ abstractImports := by decide

theorem abstract_extra_imports : ∀ i ∈ abstractImports, i ∈ templateImports ∨ i = "from abc import ABC as ABC" := by decide

/-- non-vacuity: the tables are not empty and contain the helpers the other properties model -/
theorem tables_nonempty : 40 ≤ templateHelpers.length ∧
    (∀ n ∈ ["_compare", "_sum", "_date", "_round", "_search", "_regexp", "_ifs", "_iferror", "_vlookup", "_address", "EmptyCell.__eq__"],
      n ∈ templateHelpers.map (·.1)) := by
  decide

end E2P.C20
