/-
  C16 — rounding and percent are decimal-exact.  Property theorems only.

  The operand of ROUND/ROUNDUP/ROUNDDOWN is a double.  For a decimal `x` with at most 15 significant digits the
  double is `rn x`, and the helpers first recover the decimal (`round15 (rn x) = x`, theorem
  `E2P.dec15_recover` when present; a hypothesis `Recovers x` otherwise) and then round it as a decimal.
-/
import E2P.Model.Round
import E2P.Lemmas.Dec15

namespace E2P.C16
open E2P

/-! ### integer rounding in the three modes (magnitudes; `N / D` with `D > 0`) -/

/-- ROUNDDOWN: the floor — toward zero -/
theorem roundNat_down (N D : Nat) (hD : 0 < D) :
    roundNat .down N D * D ≤ N ∧ N < (roundNat .down N D + 1) * D := by
  simp only [roundNat]
  have h1 := Nat.div_add_mod N D
  have h2 := Nat.mod_lt N hD
  constructor
  · calc N / D * D = D * (N / D) := Nat.mul_comm _ _
      _ ≤ N := by omega
  · rw [Nat.add_mul, Nat.mul_comm (N / D) D]; omega

/-- ROUNDUP: the ceiling — away from zero; nothing is added to an exact value -/
theorem roundNat_up (N D : Nat) (hD : 0 < D) :
    N ≤ roundNat .up N D * D ∧ roundNat .up N D * D < N + D := by
  simp only [roundNat]
  have h1 := Nat.div_add_mod N D
  have h2 := Nat.mod_lt N hD
  split
  · rw [Nat.add_mul, Nat.mul_comm (N / D) D]; constructor <;> omega
  · rw [Nat.mul_comm (N / D) D]; constructor <;> omega

/-- ROUND: nearest, ties away from zero:  N - D/2 < m·D ≤ N + D/2 -/
theorem roundNat_halfUp (N D : Nat) (hD : 0 < D) :
    2 * N < 2 * (roundNat .halfUp N D * D) + D ∧ 2 * (roundNat .halfUp N D * D) ≤ 2 * N + D := by
  simp only [roundNat]
  have h1 := Nat.div_add_mod N D
  have h2 := Nat.mod_lt N hD
  split
  · rw [Nat.add_mul, Nat.mul_comm (N / D) D]; constructor <;> omega
  · rw [Nat.mul_comm (N / D) D]; constructor <;> omega

/-- a value already at the requested precision is returned unchanged, in every mode -/
theorem roundNat_exact (mode : RMode) (N D : Nat) (hD : 0 < D) (h : N % D = 0) :
    roundNat mode N D * D = N := by
  have h1 := Nat.div_add_mod N D
  have e : N / D * D = N := by rw [Nat.mul_comm]; omega
  cases mode <;> simp only [roundNat, h] <;> (try (have : ¬ D ≤ 2 * 0 := by omega)) <;> simp_all

/-- rounding is symmetric in the sign: ROUND(-x) = -ROUND(x) in every mode (so "up" is away from zero and
    "down" toward zero for negative numbers too) -/
theorem quantize_neg (mode : RMode) (q : Rat) (n : Int) : quantize mode (-q) n = -(quantize mode q n) := by
  unfold quantize
  by_cases h0 : q.num = 0
  · simp [h0]
  · have h0' : ¬ (-q.num) = 0 := by omega
    rw [Rat.neg_num, Rat.neg_den, if_neg h0, if_neg h0', Int.natAbs_neg]
    by_cases hs : q.num < 0
    · have hs' : ¬ (-q.num < 0) := by omega
      rw [show decide (q.num < 0) = true from decide_eq_true hs, show decide (-q.num < 0) = false from decide_eq_false hs']
      simp [signed]
    · have hs' : -q.num < 0 := by omega
      rw [show decide (q.num < 0) = false from decide_eq_false hs, show decide (-q.num < 0) = true from decide_eq_true hs']
      simp [signed]

/-! ### the helpers on doubles made from decimals -/

/-- the 15-significant-digit print of the double of `x` gives `x` back -/
def Recovers (x : Rat) : Prop := round15 (rn x) = x

/-- **ROUND / ROUNDUP / ROUNDDOWN return the double nearest to the exact decimal result.** -/
theorem round_spec_partial (mode : RMode) (x : Rat) (n : Int) (h : Recovers x) :
    roundFn mode (.flt (rn x)) (.int n) = .ok (.flt (specRound mode x n)) := by
  unfold Recovers at h
  simp [roundFn, digitsArg, specRound, h]

/-- every decimal with at most 15 significant digits is recovered from its double -/
theorem recovers_dec15 (neg : Bool) (digits : Nat) (exp : Int) (h : digits < 10 ^ 15) :
    Recovers (decimal neg digits exp) := dec15_recover neg digits exp h

/-- **Full statement.** For every decimal number ±digits·10^exp with up to 15 significant digits and every digit
    count `n` (negative, zero, positive), ROUND / ROUNDUP / ROUNDDOWN applied to the double of that number return
    the double nearest to the exact decimal result. -/
theorem round_spec (mode : RMode) (neg : Bool) (digits : Nat) (exp : Int) (n : Int) (h : digits < 10 ^ 15) :
    roundFn mode (.flt (rn (decimal neg digits exp))) (.int n) =
      .ok (.flt (specRound mode (decimal neg digits exp) n)) :=
  round_spec_partial mode _ n (recovers_dec15 neg digits exp h)

/-- **x% = x/100**, as the nearest double, for every decimal x of up to 13 significant digits given as a double -/
theorem percent_spec (neg : Bool) (digits : Nat) (exp : Int) (h : digits < 10 ^ 13) :
    percentFn (.flt (rn (decimal neg digits exp))) = .ok (.flt (specPercent (decimal neg digits exp))) := by
  simp [percentFn, normalize15, fdiv, specPercent, percent_recover neg digits exp h]

/-- integers are rounded exactly and stay integers -/
theorem round_int (mode : RMode) (z n : Int) :
    roundFn mode (.int z) (.int n) = .ok (.int (quantize mode (z : Rat) n).floor) := by
  simp [roundFn, digitsArg]

/-- x% is the double of x/100 printed to 15 significant digits -/
theorem percent_def (q : Rat) : percentFn (.flt q) = .ok (.flt (rn (round15 (rn (q / 100))))) := by
  simp [percentFn, normalize15, fdiv]

/-! ### non-vacuity (kernel-evaluated instances; these are tests, not the unbounded claim) -/
example : Recovers (decimal false 25 (-1)) := by unfold Recovers; decide +kernel
example : Recovers (decimal false 1005 (-3)) := by unfold Recovers; decide +kernel
example : Recovers (decimal true 999999999999999 (-15)) := by unfold Recovers; decide +kernel
example : quantize .halfUp (decimal false 25 (-1)) 0 = 3 := by decide +kernel
example : quantize .halfUp (decimal true 25 (-1)) 0 = -3 := by decide +kernel
example : quantize .up (decimal true 121 (-2)) 1 = decimal true 13 (-1) := by decide +kernel
example : quantize .down (decimal true 129 (-2)) 1 = decimal true 12 (-1) := by decide +kernel
example : quantize .halfUp 1250 (-2) = 1300 := by decide +kernel
example : roundNat .halfUp 5 2 = 3 ∧ roundNat .halfUp 7 2 = 4 ∧ roundNat .down 7 2 = 3 ∧ roundNat .up 6 2 = 3 := by decide

end E2P.C16
