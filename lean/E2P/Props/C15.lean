/-
  C15 — date functions follow the Gregorian calendar exactly.  Property theorems only.

  The calendar externals (`datetime` ordinals, `calendar.monthrange`, `relativedelta(months=k)`) are the
  functions of E2P.Model.Calendar; their agreement with the real libraries is validated by Tie B on every
  run (exhaustively over all 3 652 059 ordinals in the thorough tier).  TODAY depends on the system clock
  and is measured, not proved.
-/
import E2P.Model.DateFns
import E2P.Spec.DateSpec
import E2P.Lemmas.CalendarLemmas

namespace E2P.C15
open E2P

/-! ### the calendar is a bijection between valid civil dates and ordinals -/

theorem civil_roundtrip {y m d : Int} (h : validYMD y m d) : ofOrdinal (ordinal y m d) = ⟨y, m, d⟩ :=
  ofOrdinal_ordinal h

theorem ordinal_roundtrip (n : Int) :
    validYMD (ofOrdinal n).y (ofOrdinal n).m (ofOrdinal n).d ∧
      ordinal (ofOrdinal n).y (ofOrdinal n).m (ofOrdinal n).d = n :=
  ordinal_ofOrdinal n

/-- consecutive years are consecutive blocks of 365 / 366 ordinals: the closed form is the sum of year lengths -/
theorem ordinal_year_step (y : Int) : ordinal (y + 1) 1 1 = ordinal y 1 1 + yearLen y := by
  simp [ordinal, daysBeforeMonth, daysBeforeYear_succ]; omega

/-! ### DATE -/

theorem addMonths_first (y k : Int) :
    addMonths ⟨y, 1, 1⟩ k = ⟨y + k / 12, k % 12 + 1, 1⟩ := by
  unfold addMonths
  have h1 : (y * 12 + (1 - 1) + k) / 12 = y + k / 12 := by omega
  have h2 : (y * 12 + (1 - 1) + k) % 12 = k % 12 := by omega
  simp only [h1, h2]
  have : (1 : Int) ≤ daysInMonth (y + k / 12) (k % 12 + 1) := by
    unfold daysInMonth; split <;> (try split) <;> omega
  simp [this]

/-- **DATE(y, m, d) = 1 January of y + (m-1) months + (d-1) days**, for every integer month and day
    (zero, negative, overflowing) whose month step and result stay inside the years 1 … 9999. -/
theorem date_spec (y m d n : Int) (h : specDate y m d = some n) : dateFn y m d = .ok (.dt n 0) := by
  unfold specDate at h
  simp only at h
  split at h
  · rename_i hc
    obtain ⟨h1, h2, h3, h4, h5, h6⟩ := hc
    injection h with h
    subst h
    unfold dateFn
    have e1 : ¬ (0 ≤ y ∧ y ≤ 1899) := by omega
    simp only [e1, if_false, addMonths_first]
    have e2 : ¬ (y < 0 ∨ 9999 < y) := by omega
    have e3 : yearInRange (y + (m - 1) / 12) = true := by simp [yearInRange]; omega
    simp [e2, e3, h5, h6]
  · cases h

/-- YEAR, MONTH and DAY invert DATE on valid dates -/
theorem ymd_inverts (y m d : Int) (hy : 1900 ≤ y ∧ y ≤ 9999) (hv : validYMD y m d) :
    ∃ v, dateFn y m d = .ok v ∧ yearFn v = .ok (.int y) ∧ monthFn v = .ok (.int m) ∧ dayFn v = .ok (.int d) := by
  have hm1 : (m - 1) / 12 = 0 := by obtain ⟨a, b, _, _⟩ := hv; omega
  have hm2 : (m - 1) % 12 + 1 = m := by obtain ⟨a, b, _, _⟩ := hv; omega
  have hb := dayOfYear_bounds hv
  have hlo : daysBeforeYear 1 ≤ daysBeforeYear y := by
    rw [daysBeforeYear_def, daysBeforeYear_def]; omega
  have hhi : daysBeforeYear (y + 1) ≤ daysBeforeYear 10000 := by
    rw [daysBeforeYear_def, daysBeforeYear_def]; omega
  have hsucc := daysBeforeYear_succ y
  have h0 : daysBeforeYear 1 = 0 := by decide
  have h1 : daysBeforeYear 10000 = 3652059 := by decide
  have hs : specDate y m d = some (ordinal y m d) := by
    unfold specDate
    simp only [hm1, hm2, Int.add_zero]
    have e : ordinal y m 1 + (d - 1) = ordinal y m d := by unfold ordinal; omega
    rw [e]
    have : 1 ≤ ordinal y m d ∧ ordinal y m d ≤ maxOrdinal := by
      unfold ordinal maxOrdinal; omega
    simp [hy.1, hy.2, this.1, this.2]; omega
  refine ⟨_, date_spec y m d _ hs, ?_, ?_, ?_⟩ <;> simp [yearFn, monthFn, dayFn, ofOrdinal_ordinal hv]

/-! ### EDATE / EOMONTH -/

/-- `relativedelta(months=k)`: the month index moves by exactly `k`, the day is clamped to the length
    of the target month, and the result is a valid date -/
theorem addMonths_spec (t : YMD) (k : Int) (hv : validYMD t.y t.m t.d) :
    (addMonths t k).y * 12 + ((addMonths t k).m - 1) = t.y * 12 + (t.m - 1) + k ∧
    (addMonths t k).d = min t.d (daysInMonth (addMonths t k).y (addMonths t k).m) ∧
    validYMD (addMonths t k).y (addMonths t k).m (addMonths t k).d := by
  obtain ⟨h1, h2, h3, h4⟩ := hv
  unfold addMonths validYMD
  simp only
  have hd : (28 : Int) ≤ daysInMonth ((t.y * 12 + (t.m - 1) + k) / 12) ((t.y * 12 + (t.m - 1) + k) % 12 + 1) := by
    unfold daysInMonth; split <;> (try split) <;> omega
  refine ⟨by omega, ?_, by omega, by omega, ?_, ?_⟩
  · split <;> omega
  · split <;> omega
  · split <;> omega

/-- EDATE moves by whole months, clamping to the last day of the target month, and keeps the time of day -/
theorem edate_spec (n : Int) (us : Nat) (k : Int) (h : yearInRange (addMonths (ofOrdinal n) k).y = true) :
    edateFn (.dt n us) (.int k) =
      .ok (.dt (ordinal (addMonths (ofOrdinal n) k).y (addMonths (ofOrdinal n) k).m (addMonths (ofOrdinal n) k).d) us) := by
  simp [edateFn, monthsArg, shiftMonths, h]

/-- EOMONTH returns the last day of the month `k` months away -/
theorem eomonth_spec (n : Int) (us : Nat) (k : Int) (h : yearInRange (addMonths (ofOrdinal n) k).y = true) :
    eomonthFn (.dt n us) (.int k) =
      .ok (.dt (ordinal (addMonths (ofOrdinal n) k).y (addMonths (ofOrdinal n) k).m
        (daysInMonth (addMonths (ofOrdinal n) k).y (addMonths (ofOrdinal n) k).m)) 0) := by
  simp [eomonthFn, monthsArg, h]

/-! ### DATEDIF -/

theorem datedif_D (ns ne : Int) (h : ns ≤ ne) :
    datedifFn (.dt ns 0) (.dt ne 0) "D".toList = .ok (.int (ne - ns)) := by
  have : ¬ ne < ns := by omega
  simp [datedifFn, this]

/-- unit M is the greatest number of complete months that fit -/
theorem complete_months_greatest (s e : YMD) :
    monthsFit s e (completeMonths s e) ∧ ¬ monthsFit s e (completeMonths s e + 1) := by
  unfold monthsFit completeMonths
  split <;> constructor <;> omega

theorem datedif_units (ns ne : Int) (h : ns ≤ ne) :
    datedifFn (.dt ns 0) (.dt ne 0) "M".toList = .ok (.int (completeMonths (ofOrdinal ns) (ofOrdinal ne))) ∧
    datedifFn (.dt ns 0) (.dt ne 0) "Y".toList = .ok (.int (completeMonths (ofOrdinal ns) (ofOrdinal ne) / 12)) ∧
    datedifFn (.dt ns 0) (.dt ne 0) "YM".toList = .ok (.int (completeMonths (ofOrdinal ns) (ofOrdinal ne) % 12)) := by
  have : ¬ ne < ns := by omega
  refine ⟨?_, ?_, ?_⟩ <;> simp [datedifFn, this] <;> decide

/-- years and months-beyond-whole-years decompose the complete months -/
theorem years_months_decompose (k : Int) : 12 * (k / 12) + k % 12 = k ∧ 0 ≤ k % 12 ∧ k % 12 < 12 := by
  omega

/-! ### NETWORKDAYS -/

theorem countWorkdays_eq (hol : List Int) (a : Int) (len : Nat) :
    countWorkdays hol a len = (((List.range len).filter fun (i : Nat) => isWorkday hol (a + (i : Int))).length : Int) := by
  induction len generalizing a with
  | zero => simp [countWorkdays]
  | succ n ih =>
    rw [countWorkdays, ih (a + 1), List.range_succ_eq_map, List.filter_cons, List.filter_map]
    have e : (fun (i : Nat) => isWorkday hol (a + 1 + (i : Int))) = ((fun (i : Nat) => isWorkday hol (a + (i : Int))) ∘ Nat.succ) := by
      funext i; simp only [Function.comp]; congr 1; omega
    rw [e]
    by_cases hw : isWorkday hol a = true <;> simp [hw] <;> omega

/-- NETWORKDAYS counts the Monday–Friday dates of the inclusive interval that are not holidays,
    negated when the interval is reversed -/
theorem networkdays_spec (ns ne : Int) (us ue : Nat) (hol : Val) :
    networkDaysFn (.dt ns us) (.dt ne ue) hol = .ok (.int (specNetworkdays (holidayOrdinals hol) ns ne)) := by
  unfold networkDaysFn specNetworkdays workdaysBetween
  simp only
  split <;> simp [countWorkdays_eq]

theorem networkdays_reversed (hol : List Int) (s e : Int) (h : e < s) :
    specNetworkdays hol s e = -(specNetworkdays hol e s) := by
  unfold specNetworkdays
  have h1 : ¬ s ≤ e := by omega
  have h2 : e ≤ s := by omega
  simp [h1, h2]

/-- Saturday and Sunday are never counted, whatever the holidays -/
theorem weekend_never_counted (hol : List Int) (n : Int) (h : weekday n = 5 ∨ weekday n = 6) :
    isWorkday hol n = false := by
  unfold isWorkday; rcases h with h | h <;> simp [h]

/-! ### non-vacuity -/
example : specDate 2022 5 (-44) = some 738231 := by decide +kernel
example : dateFn 2022 5 (-44) = .ok (.dt 738231 0) := date_spec _ _ _ _ (by decide +kernel)
example : validYMD 2024 2 29 := by unfold validYMD; decide
example : completeMonths ⟨2022, 5, 15⟩ ⟨2023, 5, 10⟩ = 11 := by decide
example : specNetworkdays [738000] 738000 738030 ≠ specNetworkdays [] 738000 738030 := by decide +kernel

end E2P.C15
