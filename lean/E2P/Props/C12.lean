/-
  Property C12 — conditional aggregates select exactly the positions meeting every criterion.
-/
import E2P.Model.Criteria
import Mathlib.Data.List.Basic
namespace E2P.C12
open E2P

/-! ### decoding a criterion -/

/-- an operator-prefixed criterion written literally or assembled with & decodes to that operator and the rest -/
theorem split_ge (r : List Char) : splitCrit ('>' :: '=' :: r) = (.ge, r) := rfl
theorem split_le (r : List Char) : splitCrit ('<' :: '=' :: r) = (.le, r) := rfl
theorem split_ne (r : List Char) : splitCrit ('<' :: '>' :: r) = (.ne, r) := rfl
theorem split_gt (r : List Char) (h : r.head? ≠ some '=') : splitCrit ('>' :: r) = (.gt, r) := by
  cases r with
  | nil => rfl
  | cons c cs => simp at h; simp [splitCrit, h]
theorem split_lt (r : List Char) (h1 : r.head? ≠ some '=') (h2 : r.head? ≠ some '>') : splitCrit ('<' :: r) = (.lt, r) := by
  cases r with
  | nil => rfl
  | cons c cs => simp at h1 h2; simp [splitCrit, h1, h2]
theorem split_eq (r : List Char) : splitCrit ('=' :: r) = (.eq, r) := rfl
theorem split_plain (s : List Char) (h : s.head? ≠ some '>' ∧ s.head? ≠ some '<' ∧ s.head? ≠ some '=') : splitCrit s = (.eq, s) := by
  cases s with
  | nil => rfl
  | cons c cs => simp at h; obtain ⟨h1, h2, h3⟩ := h; simp [splitCrit, h1, h2, h3]

/-- a number (from a cell or a literal) is an equality criterion on numbers; a blank criterion cell counts as 0 -/
theorem decode_number (P : List Char → Option Num) (z : Int) (q : Rat) :
    decodeCrit P (.int z) = some (.num .eq z) ∧ decodeCrit P (.flt q) = some (.num .eq q) ∧
    decodeCrit P .blank = some (.num .eq 0) := by
  simp [decodeCrit]

/-- an operator-prefixed number: ">5", "<>2.5", "=3", ">-5" … (P = the text → number conversion, an external) -/
theorem decode_op_number (P : List Char → Option Num) (s r : List Char) (op : CmpOp) (n : Num)
    (hs : splitCrit s = (op, r)) (hnum : isCritNumberText r = true) (hp : P r = some n) :
    decodeCrit P (.str s) = some (.num op n.toRat) := by
  simp [decodeCrit, hs, hnum, hp]

/-- an operator-prefixed or plain text without digits: "<>x", "=apple", "apple", "a*" -/
theorem decode_op_text (P : List Char → Option Num) (s r : List Char) (op : CmpOp)
    (hs : splitCrit s = (op, r)) (hnum : isCritNumberText r = false) (hd : hasDigit r = false) :
    decodeCrit P (.str s) = some (.text op r) := by
  simp [decodeCrit, hs, hnum, hd]

/-! ### what a decoded criterion accepts -/

/-- numeric criteria compare exactly with numeric cells; text, boolean and blank cells never satisfy them, except `<>` -/
theorem accepts_num (op : CmpOp) (q : Rat) (z : Int) (x : Rat) :
    critAccepts (.num op q) (.int z) = op.onOrd (z : Rat) q ∧ critAccepts (.num op q) (.flt x) = op.onOrd x q ∧
    (∀ s, critAccepts (.num op q) (.str s) = (op == .ne)) ∧ critAccepts (.num op q) .blank = (op == .ne) := by
  simp [critAccepts]

/-- plain text and "=text": the wildcard pattern has to match the WHOLE cell, without regard to case; `<>` is the negation -/
theorem accepts_text_eq (s t : List Char) :
    critAccepts (.text .eq s) (.str t) = matchAll (parsePat s) t ∧
    critAccepts (.text .ne s) (.str t) = !matchAll (parsePat s) t ∧
    (∀ z, critAccepts (.text .eq s) (.int z) = false) := by
  simp [critAccepts]

/-- a pattern without wildcard characters matches exactly the texts equal to it up to case -/
theorem matchAll_plain (s t : List Char) (h : ∀ c ∈ s, c ≠ '?' ∧ c ≠ '*' ∧ c ≠ '~') :
    matchAll (parsePat s) t = (lowerText s == lowerText t) := by
  induction s generalizing t with
  | nil => cases t <;> simp [parsePat, matchAll, lowerText]
  | cons c cs ih =>
    obtain ⟨h1, h2, h3⟩ := h c (by simp)
    have hp : parsePat (c :: cs) = .lit c :: parsePat cs := by
      cases cs with
      | nil => simp [parsePat, h1, h2, h3]
      | cons d ds => simp [parsePat, h1, h2, h3]
    rw [hp]
    cases t with
    | nil => simp [matchAll, lowerText]
    | cons x xs =>
      rw [matchAll, ih xs (fun d hd => h d (by simp [hd]))]
      simp [lowerText, ciEq]

/-- `?` stands for exactly one character, `*` for any run, at the end of a pattern too ("a?" does not match "abc") -/
example : matchAll (parsePat "a?".toList) "ab".toList = true ∧ matchAll (parsePat "a?".toList) "abc".toList = false ∧
    matchAll (parsePat "a*".toList) "Abc".toList = true ∧ matchAll (parsePat "a~*c".toList) "a*c".toList = true ∧
    matchAll (parsePat "a~*c".toList) "abc".toList = false ∧ matchAll (parsePat "*an*".toList) "banana".toList = true := by
  decide +kernel

/-! ### selection -/

theorem selectMask_length (cast : Val → Val) (pairs : List (List Val × Crit)) (n : Nat) :
    (selectMask cast pairs n).length = n := by simp [selectMask]

/-- position i is selected exactly when every (range, criterion) pair accepts the i-th cell of its range -/
theorem selectMask_spec (cast : Val → Val) (pairs : List (List Val × Crit)) (n i : Nat) (hi : i < n) :
    (selectMask cast pairs n)[i]? = some (pairs.all fun p => critAccepts p.2 (cast (p.1.getD i .blank))) := by
  simp [selectMask, List.getElem?_map, List.getElem?_range hi]

/-- ranges of different sizes are reported as an error, never silently mis-aligned -/
theorem misaligned_error (target : List Val) (pairs : List (List Val × Crit)) (rng : List Val) (cr : Crit)
    (hmem : (rng, cr) ∈ pairs) (hlen : rng.length ≠ target.length) :
    sumifsF target pairs = .error .runtimeLib ∧ (∀ cond, countifsF target cond pairs = .error .runtimeLib) := by
  have : pairs.any (fun p => p.1.length != target.length) = true := by
    rw [List.any_eq_true]; exact ⟨(rng, cr), hmem, by simpa using hlen⟩
  simp [sumifsF, countifsF, this]

/-- **SUMIFS** sums exactly the target cells at the selected positions (booleans of the target count as 0/1 as in the
    code; the fold is C11's `sumF`), aligned with the criteria ranges -/
theorem sumifs_select (target : List Val) (pairs : List (List Val × Crit))
    (hal : ∀ p ∈ pairs, p.1.length = target.length) :
    sumifsF target pairs =
      sumF ((keepSelected (selectMask (fun v => castBool (castBlank v)) pairs target.length) target).map castBool) := by
  have : pairs.any (fun p => p.1.length != target.length) = false := by
    rw [List.any_eq_false]; intro p hp; simpa using hal p hp
  simp [sumifsF, this]

/-- **COUNTIFS** counts exactly the positions accepted by every pair (the first pair is the counted range with its
    criterion) — whatever the counted cells contain (0, FALSE and blank positions count like any other) -/
theorem countifs_select (countRange : List Val) (cond : Crit) (pairs : List (List Val × Crit))
    (hal : ∀ p ∈ pairs, p.1.length = countRange.length) :
    countifsF countRange cond pairs =
      .ok (((countRange.map fun v => critAccepts cond (castBlank v)).zip (selectMask castBlank pairs countRange.length)).filter
        fun ab => ab.1 && ab.2).length := by
  have : pairs.any (fun p => p.1.length != countRange.length) = false := by
    rw [List.any_eq_false]; intro p hp; simpa using hal p hp
  simp [countifsF, this]

/-! ### non-vacuity: keys [5, 3, "apple", 10], targets [1, 2, 4, 8] -/
example :
    let keys : List Val := [.int 5, .int 3, .str "apple".toList, .int 10]
    let tgt : List Val := [.int 1, .int 2, .int 4, .int 8]
    (sumifsF tgt [(keys, .num .gt 3)]).toOption.map ratOf = some 9 ∧
    (sumifsF tgt [(keys, .text .eq "APPLE".toList)]).toOption.map ratOf = some 4 ∧
    (sumifsF tgt [(keys, .num .ne 5)]).toOption.map ratOf = some 14 ∧
    (countifsF keys (.num .ge 5) []).toOption = some 2 ∧
    (countifsF keys (.num .ge 5) [(tgt, .num .lt 8)]).toOption = some 1 := by
  decide +kernel

end E2P.C12
