/-
  Property C09 — translation output depends only on the current workbook and settings (facade part).

  `facade_coherent` is proved for *every* dirty-flag table that passes the decidable check `tableOK`, and
  `generated_table_ok` discharges that check for the table extracted from utilities/parser.py on this run: so the
  invariant proof is re-checked against what the source says now.
-/
import E2P.Spec.FacadeSpec
import E2P.Generated.Facade
import Mathlib.Data.List.Basic
namespace E2P.C09
open E2P

/-- the table regenerated from the working tree -/
def generatedTable : FacadeTable :=
  { inits := E2P.Generated.facadeInits, assigns := E2P.Generated.facadeAssigns,
    guard := E2P.Generated.facadeGuard, resets := E2P.Generated.facadeResets }

/-- **Obligation against the source**: every setter of a setting raises a flag the early return tests; the constructor
    leaves one raised; the early-return test has the shape `not f₁ and … and not fₙ`. -/
theorem generated_table_ok : tableOK generatedTable = true ∧ E2P.Generated.facadeGuardShapeOk = true := by decide

section
variable {P E T : Type}

/-! ### flags -/

theorem find_filter (fl : List (String × Bool)) (g f : String) (h : (g == f) = false) :
    (fl.filter (·.1 != g)).find? (·.1 == f) = fl.find? (·.1 == f) := by
  induction fl with
  | nil => rfl
  | cons kv r ih =>
    simp only [List.filter_cons]
    by_cases e : kv.1 = g
    · have h1 : (kv.1 != g) = false := by simp [e]
      have e2 : (kv.1 == f) = false := by rw [e]; exact h
      simp [h1, List.find?_cons, e2, ih]
    · have h1 : (kv.1 != g) = true := by simp [e]
      simp only [h1, ↓reduceIte, List.find?_cons, ih]

theorem getFlag_setFlag (fl : List (String × Bool)) (g f : String) (b : Bool) :
    getFlag (setFlag fl g b) f = if g = f then b else getFlag fl f := by
  unfold getFlag setFlag
  by_cases h : g = f
  · simp [h]
  · have h' : (g == f) = false := by simpa using h
    simp only [List.find?_cons, h', h, ↓reduceIte]
    rw [find_filter fl g f h']

def sproj (st : FState P E T) : Option P × Option E × Bool := (st.path, st.entry, st.safety)

/-- what assigning a setting does to the three settings -/
def effect (argP : Option P) (argE : Option E) (attr kind : String) (s : Option P × Option E × Bool) :
    Option P × Option E × Bool :=
  if attr = "_excel_file_path" then (if kind = "param" then (argP, s.2.1, s.2.2) else s)
  else if attr = "_entrypoint_cell" then (if kind = "param" then (s.1, argE, s.2.2) else s)
  else if attr = "_safety_check" then (if kind = "True" then (s.1, s.2.1, true) else if kind = "False" then (s.1, s.2.1, false) else s)
  else s

theorem applyAssign_setting (argP : Option P) (argE : Option E) (st : FState P E T) (attr kind : String)
    (h : attr ∈ settingAttrs) :
    sproj (applyAssign argP argE st (attr, kind)) = effect argP argE attr kind (sproj st) ∧
    (applyAssign argP argE st (attr, kind)).flags = st.flags ∧ (applyAssign argP argE st (attr, kind)).cache = st.cache := by
  simp only [settingAttrs, List.mem_cons, List.mem_nil_iff, or_false] at h
  rcases h with rfl | rfl | rfl | rfl <;> simp only [applyAssign, effect, sproj] <;> (repeat' split) <;> simp_all

theorem applyAssign_flag (argP : Option P) (argE : Option E) (st : FState P E T) (f : String) (h : f ∉ settingAttrs) :
    sproj (applyAssign argP argE st (f, "True")) = sproj st ∧
    (applyAssign argP argE st (f, "True")).flags = setFlag st.flags f true ∧
    (applyAssign argP argE st (f, "True")).cache = st.cache := by
  simp only [settingAttrs, List.mem_cons, List.mem_nil_iff, or_false, not_or] at h
  obtain ⟨h1, h2, h3, h4⟩ := h
  simp [applyAssign, h1, h2, h3, h4, sproj]

theorem effect_idem (argP : Option P) (argE : Option E) (attr kind : String) (s : Option P × Option E × Bool) :
    effect argP argE attr kind (effect argP argE attr kind s) = effect argP argE attr kind s := by
  unfold effect; (repeat' split) <;> simp_all

/-- a setter whose assignments are its setting (from the argument) and `True` to flags -/
theorem fold_setter (argP : Option P) (argE : Option E) (attr kind : String) (hattr : attr ∈ settingAttrs)
    (l : List (String × String))
    (hl : ∀ a ∈ l, a = (attr, kind) ∨ (a.1 ∉ settingAttrs ∧ a.2 = "True")) (st : FState P E T) :
    (l.foldl (applyAssign argP argE) st).cache = st.cache ∧
    sproj (l.foldl (applyAssign argP argE) st) = (if (attr, kind) ∈ l then effect argP argE attr kind (sproj st) else sproj st) ∧
    (∀ f, getFlag st.flags f = true ∨ ((f, "True") ∈ l ∧ f ∉ settingAttrs) → getFlag (l.foldl (applyAssign argP argE) st).flags f = true) := by
  induction l generalizing st with
  | nil => simp
  | cons a r ih =>
    have hr : ∀ a ∈ r, a = (attr, kind) ∨ (a.1 ∉ settingAttrs ∧ a.2 = "True") := fun x hx => hl x (by simp [hx])
    obtain ⟨i1, i2, i3⟩ := ih hr (applyAssign argP argE st a)
    rw [List.foldl_cons]
    rcases hl a (by simp) with rfl | ⟨ha1, ha2⟩
    · obtain ⟨e1, e2, e3⟩ := applyAssign_setting argP argE st attr kind hattr
      refine ⟨i1.trans e3, ?_, ?_⟩
      · rw [i2, e1]; simp only [List.mem_cons, true_or, ↓reduceIte]; split <;> simp [effect_idem]
      · intro f hf
        apply i3 f
        rw [e2]
        rcases hf with hf | ⟨hf, hns⟩
        · exact Or.inl hf
        · rcases List.mem_cons.1 hf with e | e
          · exfalso; exact hns ((Prod.mk.inj e).1 ▸ hattr)
          · exact Or.inr ⟨e, hns⟩
    · obtain ⟨f0, k0⟩ := a
      simp only at ha1 ha2
      subst ha2
      obtain ⟨e1, e2, e3⟩ := applyAssign_flag argP argE st f0 ha1
      refine ⟨i1.trans e3, ?_, ?_⟩
      · rw [i2, e1]
        have : ((attr, kind) ∈ (f0, "True") :: r) ↔ (attr, kind) ∈ r := by
          simp only [List.mem_cons, Prod.mk.injEq, or_iff_right_iff_imp]
          rintro ⟨rfl, _⟩; exact absurd hattr ha1
        simp only [this]
      · intro f hf
        apply i3 f
        rw [e2, getFlag_setFlag]
        rcases hf with hf | ⟨hf, hns⟩
        · left; split <;> simp_all
        · rcases List.mem_cons.1 hf with e | e
          · left; injection e with e' _; simp [e']
          · exact Or.inr ⟨e, hns⟩

/-! ### the invariant -/

variable (tb : FacadeTable) (tr : P → Option E → Bool → Except PyExc T)

/-- `_translate` would return early -/
def Clean (st : FState P E T) : Bool := !tb.guard.isEmpty && tb.guard.all (fun f => !getFlag st.flags f)

def Inv (s : Settings P E) (st : FState P E T) : Prop :=
  sproj st = (s.path, s.entry, s.safety) ∧ (Clean tb st = true → Except.ok st.cache = freshResult tr s)

theorem setterOK_spec (m attr kind : String) (h : setterOK tb m attr kind = true) :
    (attr, kind) ∈ assignsOf tb m ∧
    (∀ a ∈ assignsOf tb m, a = (attr, kind) ∨ (a.1 ∉ settingAttrs ∧ a.2 = "True")) ∧
    (∃ f, (f, "True") ∈ assignsOf tb m ∧ f ∉ settingAttrs ∧ f ∈ tb.guard) := by
  simp only [setterOK, Bool.and_eq_true, List.contains_iff_mem, List.all_eq_true, List.any_eq_true, Bool.or_eq_true,
    beq_iff_eq, Bool.not_eq_true', List.contains_eq_mem, decide_eq_false_iff_not, decide_eq_true_eq] at h
  obtain ⟨⟨h1, h2⟩, a, ha, ⟨⟨h3, h4⟩, h5⟩⟩ := h
  refine ⟨h1, ?_, a.1, ?_, h3, h5⟩
  · intro x hx; rcases h2 x hx with e | ⟨e1, e2⟩
    · exact Or.inl e
    · exact Or.inr ⟨e1, e2⟩
  · have : a = (a.1, "True") := by rw [← h4]
    rw [← this]; exact ha

theorem setter_inv (m attr kind : String) (hattr : attr ∈ settingAttrs) (h : setterOK tb m attr kind = true)
    (argP : Option P) (argE : Option E) (s : Settings P E) (st : FState P E T) (hi : Inv tb tr s st) :
    sproj (callSetter tb m argP argE st) = effect argP argE attr kind (s.path, s.entry, s.safety) ∧
    Clean tb (callSetter tb m argP argE st) = false := by
  obtain ⟨h1, h2, f, h3, h4, h5⟩ := setterOK_spec tb m attr kind h
  obtain ⟨_, e2, e3⟩ := fold_setter argP argE attr kind hattr (assignsOf tb m) h2 st
  refine ⟨?_, ?_⟩
  · unfold callSetter; rw [e2, if_pos h1, hi.1]
  · have hf := e3 f (Or.inr ⟨h3, h4⟩)
    unfold Clean callSetter
    rw [Bool.and_eq_false_iff]; right
    rw [List.all_eq_false]
    exact ⟨f, h5, by simp [hf]⟩

theorem translate_inv (s : Settings P E) (st : FState P E T) (hi : Inv tb tr s st) :
    (match doTranslate tb tr st with
      | .ok st' => Inv tb tr s st' ∧ Except.ok st'.cache = freshResult tr s
      | .error e => freshResult tr s = .error e) := by
  unfold doTranslate
  by_cases hc : Clean tb st = true
  · have : (!tb.guard.isEmpty && tb.guard.all fun f => !getFlag st.flags f) = true := hc
    simp only [this, ↓reduceIte]
    exact ⟨hi, hi.2 hc⟩
  · have : (!tb.guard.isEmpty && tb.guard.all fun f => !getFlag st.flags f) = false := by simpa [Clean] using hc
    simp only [this, Bool.false_eq_true, ↓reduceIte]
    have hp : st.path = s.path ∧ st.entry = s.entry ∧ st.safety = s.safety := by
      have := hi.1; simp only [sproj, Prod.mk.injEq] at this; exact this
    cases hpath : st.path with
    | none => simp [freshResult, ← hp.1, hpath]
    | some p =>
      cases htr : tr p st.entry st.safety with
      | error e => simp [freshResult, ← hp.1, hpath, ← hp.2.1, ← hp.2.2, htr]
      | ok t =>
        simp only [htr]
        have hf : Except.ok (some t) = freshResult tr s := by
          simp [freshResult, ← hp.1, hpath, ← hp.2.1, ← hp.2.2, htr]
        exact ⟨⟨by simp only [sproj, Prod.mk.injEq]; exact ⟨hpath ▸ hp.1, hp.2.1, hp.2.2⟩, fun _ => hf⟩, hf⟩

/-- **C09 (facade coherence).**  For every coherent flag table, every translation function and every sequence of
    facade calls: each `get_translation` / `write_translation` returns / writes exactly what a fresh parser configured
    with the settings in force at that call would, or raises what it would raise. -/
theorem facade_coherent_from (hOK : tableOK tb = true) (s : Settings P E) (st : FState P E T) (hi : Inv tb tr s st)
    (pre ops : List (FOp P E)) :
    ∀ i (hi' : i < ops.length), (ops[i] = .get ∨ ops[i] = .write) →
      ((frun tb tr st ops).2[i]?).join = some (freshResult tr (settingsAfter s (ops.take i))) := by
  simp only [tableOK, Bool.and_eq_true] at hOK
  obtain ⟨⟨⟨⟨⟨⟨⟨o1, o2⟩, o3⟩, o4⟩, _⟩, _⟩, _⟩, _⟩ := hOK
  induction ops generalizing s st pre with
  | nil => intro i h; simp at h
  | cons op r ih =>
    intro i hlt hop
    have key : ∀ (st1 : FState P E T) (s1 : Settings P E), Inv tb tr s1 st1 → settingsAfter s [op] = s1 → i ≠ 0 →
        (fstep tb tr st op).1 = st1 →
        ((frun tb tr st (op :: r)).2[i]?).join = some (freshResult tr (settingsAfter s ((op :: r).take i))) := by
      intro st1 s1 hinv hs hi0 hst
      obtain ⟨j, rfl⟩ : ∃ j, i = j + 1 := ⟨i - 1, by omega⟩
      simp only [frun, hst, List.getElem?_cons_succ, List.take_succ_cons]
      have := ih s1 st1 hinv (pre ++ [op]) j (by simpa using hlt) (by simpa using hop)
      rw [this]
      congr 2
      cases op <;> simp_all [settingsAfter]
    rcases Nat.eq_zero_or_pos i with rfl | hpos
    · -- the queried call is this one
      simp only [List.getElem_cons_zero] at hop
      have ht := translate_inv tb tr s st hi
      rcases hop with rfl | rfl <;>
      · simp only [frun, fstep, List.getElem?_cons_zero, List.take_zero, settingsAfter]
        cases hd : doTranslate tb tr st with
        | ok st' => rw [hd] at ht; simp [ht.2]
        | error e => rw [hd] at ht; simp [ht]
    · have hi0 : i ≠ 0 := by omega
      cases op with
      | setPath p =>
        obtain ⟨e1, e2⟩ := setter_inv tb tr _ _ _ (by simp [settingAttrs]) o1 (some p) none s st hi
        exact key (callSetter tb "set_excel_file_path" (some p) none st) { s with path := some p } ⟨by simpa [effect] using e1, fun h => by rw [e2] at h; cases h⟩ rfl hi0 rfl
      | setEntry e =>
        obtain ⟨e1, e2⟩ := setter_inv tb tr _ _ _ (by simp [settingAttrs]) o2 none (some e) s st hi
        exact key (callSetter tb "set_entrypoint_cell" none (some e) st) { s with entry := some e } ⟨by simpa [effect] using e1, fun h => by rw [e2] at h; cases h⟩ rfl hi0 rfl
      | enableSafety =>
        obtain ⟨e1, e2⟩ := setter_inv tb tr _ _ _ (by simp [settingAttrs]) o3 none none s st hi
        exact key (callSetter tb "enable_safety_check" none none st) { s with safety := true } ⟨by simpa [effect] using e1, fun h => by rw [e2] at h; cases h⟩ rfl hi0 rfl
      | disableSafety =>
        obtain ⟨e1, e2⟩ := setter_inv tb tr _ _ _ (by simp [settingAttrs]) o4 none none s st hi
        exact key (callSetter tb "disable_safety_check" none none st) { s with safety := false } ⟨by simpa [effect] using e1, fun h => by rw [e2] at h; cases h⟩ rfl hi0 rfl
      | get =>
        have ht := translate_inv tb tr s st hi
        cases hd : doTranslate tb tr st with
        | ok st' => rw [hd] at ht; exact key st' s ht.1 rfl hi0 (by simp [fstep, hd])
        | error e => exact key st s hi rfl hi0 (by simp [fstep, hd])
      | write =>
        have ht := translate_inv tb tr s st hi
        cases hd : doTranslate tb tr st with
        | ok st' => rw [hd] at ht; exact key st' s ht.1 rfl hi0 (by simp [fstep, hd])
        | error e => exact key st s hi rfl hi0 (by simp [fstep, hd])

end

section
variable {P E T : Type} (tr : P → Option E → Bool → Except PyExc T)

theorem init_safety_gen : initSafety generatedTable = true := by decide
theorem init_dirty_gen : (!generatedTable.guard.isEmpty && generatedTable.guard.all (fun f => !getFlag (initFlags generatedTable) f)) = false := by
  decide
theorem init_safety : (initState (P := P) (E := E) (T := T) generatedTable).safety = true := init_safety_gen
theorem init_dirty : Clean generatedTable (initState (P := P) (E := E) (T := T) generatedTable) = false := init_dirty_gen

theorem init_inv : Inv generatedTable tr ⟨none, none, true⟩ (initState generatedTable) :=
  ⟨by simp only [sproj, init_safety]; rfl, fun h => by rw [init_dirty] at h; cases h⟩

/-- **C09, against the source of this run.**  Starting from a new `Parser()`, after any sequence of facade calls the
    i-th call, if it is `get_translation` or `write_translation`, yields exactly the result of a fresh parser configured
    with the path, entry cell and safety setting in force at that moment. -/
theorem facade_coherent (ops : List (FOp P E)) (i : Nat) (hi : i < ops.length) (hq : ops[i] = .get ∨ ops[i] = .write) :
    ((frun generatedTable tr (initState generatedTable) ops).2[i]?).join =
      some (freshResult tr (settingsAfter ⟨none, none, true⟩ (ops.take i))) :=
  facade_coherent_from generatedTable tr generated_table_ok.1 _ _ (init_inv tr) [] ops i hi hq

/-- repeated calls without a change return the identical text, and the written file equals the returned text -/
theorem repeat_identical (ops : List (FOp P E)) (q₁ q₂ : FOp P E) (h₁ : q₁ = .get ∨ q₁ = .write) (h₂ : q₂ = .get ∨ q₂ = .write) :
    ((frun generatedTable tr (initState generatedTable) (ops ++ [q₁, q₂])).2[ops.length]?).join =
    ((frun generatedTable tr (initState generatedTable) (ops ++ [q₁, q₂])).2[ops.length + 1]?).join := by
  rw [facade_coherent tr _ ops.length (by simp) (by simpa using h₁),
    facade_coherent tr _ (ops.length + 1) (by simp) (by simpa using h₂)]
  congr 2
  have e1 : (ops ++ [q₁, q₂]).take ops.length = ops := by simp
  have e2 : (ops ++ [q₁, q₂]).take (ops.length + 1) = ops ++ [q₁] := by
    rw [List.take_append]; simp [List.take_of_length_le]
  rw [e1, e2]
  have : ∀ (s : Settings P E) (l : List (FOp P E)), settingsAfter s (l ++ [q₁]) = settingsAfter s l := by
    intro s l
    induction l generalizing s with
    | nil => rcases h₁ with rfl | rfl <;> rfl
    | cons op r ih => cases op <;> simp [settingsAfter, ih]
  rw [this]

/-- changing a setting changes the next result accordingly: e.g. a new entry cell -/
example (p : P) (e₁ e₂ : E) :
    settingsAfter (⟨none, none, true⟩ : Settings P E) [.setPath p, .setEntry e₁, .get, .setEntry e₂, .disableSafety] =
      ⟨some p, some e₂, false⟩ := rfl

end

end E2P.C09
