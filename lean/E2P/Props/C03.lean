/-
  Property C03 — entry-point translation is a closed, faithful slice; cycles are rejected.
-/
import E2P.Model.Graph
import E2P.Lemmas.ExecLemmas
import Mathlib.Data.List.Basic
import Mathlib.Data.List.Perm.Subperm
namespace E2P.C03
open E2P

variable (G : DepGraph)

/-- `c` is reachable from `u` through dependency edges (reflexive, transitive) -/
inductive Reach : Nat → Nat → Prop
  | refl (u : Nat) : Reach u u
  | step {u v w : Nat} : v ∈ depsOf G u → Reach v w → Reach u w

/-- reachable through at least one edge -/
def ReachPlus (u w : Nat) : Prop := ∃ v, v ∈ depsOf G u ∧ Reach G v w

variable {G}

theorem Reach.trans {a b c : Nat} (h1 : Reach G a b) (h2 : Reach G b c) : Reach G a c := by
  induction h1 with
  | refl => exact h2
  | step hv _ ih => exact .step hv (ih h2)

theorem ReachPlus.reach {a b : Nat} (h : ReachPlus G a b) : Reach G a b := by
  obtain ⟨v, hv, hr⟩ := h; exact .step hv hr

theorem ReachPlus.trans_reach {a b c : Nat} (h1 : ReachPlus G a b) (h2 : Reach G b c) : ReachPlus G a c := by
  obtain ⟨v, hv, hr⟩ := h1; exact ⟨v, hv, hr.trans h2⟩

theorem Reach.trans_plus {a b c : Nat} (h1 : Reach G a b) (h2 : ReachPlus G b c) : ReachPlus G a c := by
  induction h1 with
  | refl => exact h2
  | step hv _ ih => exact ⟨_, hv, (ih h2).reach⟩

/-- a set of cells closed under dependencies -/
def Closed (G : DepGraph) (done : List Nat) : Prop := ∀ u ∈ done, ∀ v ∈ depsOf G u, v ∈ done

theorem closed_reach {done : List Nat} (hc : Closed G done) {u c : Nat} (hu : u ∈ done) (hr : Reach G u c) : c ∈ done := by
  induction hr with
  | refl => exact hu
  | step hv _ ih => exact ih (hc _ hu _ hv)

/-- every member's dependencies come strictly earlier in the list (registration order is a topological order) -/
def Topo (G : DepGraph) : List Nat → Prop
  | [] => True
  | l => ∀ pre u post, l = pre ++ u :: post → ∀ v ∈ depsOf G u, v ∈ pre

/-- the facts one successful visit establishes -/
structure Post (G : DepGraph) (path done : List Nat) (u : Nat) (done' : List Nat) : Prop where
  grows : ∀ x ∈ done, x ∈ done'
  mem : u ∈ done'
  closed : Closed G done → Closed G done'
  fresh : ∀ c ∈ done', c ∈ done ∨ Reach G u c
  avoid : ∀ p ∈ path, p ∉ done → p ∉ done'
  topo : (∀ pre x post, done = pre ++ x :: post → ∀ v ∈ depsOf G x, v ∈ pre) →
         (∀ pre x post, done' = pre ++ x :: post → ∀ v ∈ depsOf G x, v ∈ pre)
  nodup : done.Nodup → done'.Nodup

structure PostMany (G : DepGraph) (path done : List Nat) (vs : List Nat) (done' : List Nat) : Prop where
  grows : ∀ x ∈ done, x ∈ done'
  mem : ∀ v ∈ vs, v ∈ done'
  closed : Closed G done → Closed G done'
  fresh : ∀ c ∈ done', c ∈ done ∨ ∃ v ∈ vs, Reach G v c
  avoid : ∀ p ∈ path, p ∉ done → p ∉ done'
  topo : (∀ pre x post, done = pre ++ x :: post → ∀ v ∈ depsOf G x, v ∈ pre) →
         (∀ pre x post, done' = pre ++ x :: post → ∀ v ∈ depsOf G x, v ∈ pre)
  nodup : done.Nodup → done'.Nodup

theorem many_ok (f : List Nat → Nat → Except PyExc (List Nat)) (path : List Nat)
    (hf : ∀ done v done', f done v = .ok done' → Post G path done v done')
    (vs done done' : List Nat) (h : visitMany f done vs = .ok done') : PostMany G path done vs done' := by
  induction vs generalizing done with
  | nil =>
    simp only [visitMany, Except.ok.injEq] at h; subst h
    exact ⟨fun _ h => h, by simp, id, fun c hc => Or.inl hc, fun _ _ h => h, id, id⟩
  | cons v r ih =>
    simp only [visitMany] at h
    cases hv : f done v with
    | error e => rw [hv] at h; cases h
    | ok d =>
      rw [hv] at h
      have p1 := hf _ _ _ hv
      have p2 := ih d h
      refine ⟨fun x hx => p2.grows x (p1.grows x hx), ?_, fun hc => p2.closed (p1.closed hc), ?_,
        fun p hp hn => p2.avoid p hp (p1.avoid p hp hn), fun ht => p2.topo (p1.topo ht), fun hn => p2.nodup (p1.nodup hn)⟩
      · intro x hx
        rcases List.mem_cons.1 hx with rfl | hx
        · exact p2.grows _ p1.mem
        · exact p2.mem x hx
      · intro c hc
        rcases p2.fresh c hc with h1 | ⟨w, hw, hr⟩
        · rcases p1.fresh c h1 with h2 | h2
          · exact Or.inl h2
          · exact Or.inr ⟨v, by simp, h2⟩
        · exact Or.inr ⟨w, by simp [hw], hr⟩

theorem topo_snoc (done : List Nat) (u : Nat)
    (ht : ∀ pre x post, done = pre ++ x :: post → ∀ v ∈ depsOf G x, v ∈ pre)
    (hd : ∀ v ∈ depsOf G u, v ∈ done) :
    ∀ pre x post, done ++ [u] = pre ++ x :: post → ∀ v ∈ depsOf G x, v ∈ pre := by
  intro pre x post h v hv
  rcases List.eq_nil_or_concat post with rfl | ⟨post', y, rfl⟩
  · -- x is the new last element
    have : done = pre ∧ u = x := by
      have := List.append_inj' h (by simp)
      exact ⟨this.1, by simpa using this.2⟩
    rw [← this.1]; exact hd v (this.2 ▸ hv)
  · have h' : done ++ [u] = (pre ++ x :: post') ++ [y] := by simpa [List.append_assoc] using h
    have := List.append_inj' h' (by simp)
    exact ht pre x post' this.1 v hv

theorem visit_ok (fuel : Nat) (path done : List Nat) (u : Nat) (done' : List Nat)
    (h : visit G fuel path done u = .ok done') : Post G path done u done' := by
  induction fuel generalizing path done u done' with
  | zero => simp [visit] at h
  | succ n ih =>
    simp only [visit] at h
    by_cases hu : u ∈ done
    · simp only [hu, ↓reduceIte, Except.ok.injEq] at h; subst h
      exact ⟨fun _ h => h, hu, id, fun c hc => Or.inl hc, fun _ _ h => h, id, id⟩
    · simp only [hu, ↓reduceIte] at h
      by_cases hp : u ∈ path
      · simp [hp] at h
      · simp only [hp, ↓reduceIte] at h
        cases hm : visitMany (visit G n (u :: path)) done (depsOf G u) with
        | error e => rw [hm] at h; cases h
        | ok d =>
          rw [hm] at h
          simp only [Except.ok.injEq] at h; subst h
          have pm := many_ok (visit G n (u :: path)) (u :: path) (fun a b c hc => ih _ _ _ _ hc) _ _ _ hm
          have hud : u ∉ d := pm.avoid u (by simp) hu
          refine ⟨fun x hx => List.mem_append_left _ (pm.grows x hx), by simp, ?_, ?_, ?_, ?_, ?_⟩
          · intro hc x hx v hv
            rcases List.mem_append.1 hx with hx | hx
            · exact List.mem_append_left _ (pm.closed hc x hx v hv)
            · simp only [List.mem_singleton] at hx; subst hx
              exact List.mem_append_left _ (pm.mem v hv)
          · intro c hc
            rcases List.mem_append.1 hc with hc | hc
            · rcases pm.fresh c hc with h1 | ⟨v, hv, hr⟩
              · exact Or.inl h1
              · exact Or.inr (.step hv hr)
            · simp only [List.mem_singleton] at hc; subst hc; exact Or.inr (.refl _)
          · intro p hp' hn hc
            rcases List.mem_append.1 hc with hc | hc
            · exact pm.avoid p (List.mem_cons_of_mem _ hp') hn hc
            · simp only [List.mem_singleton] at hc; subst hc; exact hp hp'
          · intro ht
            exact topo_snoc d u (pm.topo ht) pm.mem
          · intro hn
            rw [List.nodup_append]
            exact ⟨pm.nodup hn, by simp, by intro a ha b hb; simp only [List.mem_singleton] at hb; subst hb; rintro rfl; exact hud ha⟩

/-! ### closure -/

/-- **The slice is closed and exact**: a successful translation from an entry cell registers exactly the cells the
    entry transitively depends on. -/
theorem slice_closed (fuel e : Nat) (ctx : List Nat) (h : translateFrom G fuel e = .ok ctx) (c : Nat) :
    c ∈ ctx ↔ Reach G e c := by
  have p := visit_ok fuel [] [] e ctx h
  constructor
  · intro hc; rcases p.fresh c hc with h | h
    · cases h
    · exact h
  · intro hr
    exact closed_reach (p.closed (by intro u hu; cases hu)) p.mem hr

/-! ### cycles -/

/-- a successful translation orders its members topologically, hence none of them lies on a cycle -/
theorem ok_no_cycle (fuel e : Nat) (ctx : List Nat) (h : translateFrom G fuel e = .ok ctx) (c : Nat)
    (hc : Reach G e c) : ¬ ReachPlus G c c := by
  have p := visit_ok fuel [] [] e ctx h
  have hclosed : Closed G ctx := p.closed (by intro u hu; cases hu)
  have htopo := p.topo (by intro pre x post h; simp at h)
  have hnd : ctx.Nodup := p.nodup List.nodup_nil
  -- index of a member; dependencies have strictly smaller index
  have key : ∀ a b, a ∈ ctx → ReachPlus G a b → List.idxOf b ctx < List.idxOf a ctx := by
    intro a b ha hab
    obtain ⟨v, hv, hr⟩ := hab
    have hvctx : v ∈ ctx := hclosed a ha v hv
    have step : ∀ x y, x ∈ ctx → y ∈ depsOf G x → List.idxOf y ctx < List.idxOf x ctx := by
      intro x y hx hy
      obtain ⟨pre, post, hsplit⟩ := List.append_of_mem hx
      have hy' := htopo pre x post hsplit y hy
      have hxpre : x ∉ pre := by
        intro hxp
        rw [hsplit] at hnd
        have := List.nodup_append.1 hnd
        exact this.2.2 x hxp x (by simp) rfl
      rw [hsplit, List.idxOf_append_of_mem hy', List.idxOf_append_of_notMem hxpre]
      have := List.idxOf_lt_length_of_mem hy'
      simp only [List.idxOf_cons_self, Nat.add_zero]
      exact this
    have le : ∀ x y, Reach G x y → x ∈ ctx → List.idxOf y ctx ≤ List.idxOf x ctx := by
      intro x y hxy
      induction hxy with
      | refl => intro _; exact Nat.le_refl _
      | step hw _ ih => intro hx; exact Nat.le_trans (ih (hclosed _ hx _ hw)) (Nat.le_of_lt (step _ _ hx hw))
    exact Nat.lt_of_le_of_lt (le v b hr hvctx) (step a v ha hv)
  intro hcyc
  have hcctx : c ∈ ctx := closed_reach hclosed p.mem hc
  exact Nat.lt_irrefl _ (key c c hcctx hcyc)

/-- a parser exception from the descent means a cell on the current dependency path was met again: a cycle -/
theorem parser_cycle (fuel : Nat) (path done : List Nat) (u : Nat)
    (hpath : ∀ p ∈ path, ReachPlus G p u)
    (h : visit G fuel path done u = .error .parser) : ∃ c, Reach G u c ∧ ReachPlus G c c := by
  induction fuel generalizing path done u with
  | zero => simp [visit] at h
  | succ n ih =>
    simp only [visit] at h
    by_cases hu : u ∈ done
    · simp [hu] at h
    · simp only [hu, ↓reduceIte] at h
      by_cases hp : u ∈ path
      · exact ⟨u, .refl _, hpath u hp⟩
      · simp only [hp, ↓reduceIte] at h
        -- the error comes from one of the dependencies
        have : ∀ (vs d : List Nat), (∀ v ∈ vs, v ∈ depsOf G u) →
            visitMany (visit G n (u :: path)) d vs = .error .parser → ∃ c, Reach G u c ∧ ReachPlus G c c := by
          intro vs
          induction vs with
          | nil => intro d _ h; simp [visitMany] at h
          | cons v r ihr =>
            intro d hsub h
            simp only [visitMany] at h
            cases hv : visit G n (u :: path) d v with
            | ok d' => rw [hv] at h; exact ihr d' (fun x hx => hsub x (by simp [hx])) h
            | error e =>
              rw [hv] at h
              simp only [Except.error.injEq] at h; subst h
              have hvd : v ∈ depsOf G u := hsub v (by simp)
              obtain ⟨c, hc1, hc2⟩ := ih (u :: path) d v (by
                intro p hp'
                rcases List.mem_cons.1 hp' with rfl | hp'
                · exact ⟨v, hvd, .refl _⟩
                · exact (hpath p hp').trans_reach (.step hvd (.refl _))) hv
              exact ⟨c, .step hvd hc1, hc2⟩
        cases hm : visitMany (visit G n (u :: path)) done (depsOf G u) with
        | ok d => rw [hm] at h; cases h
        | error e =>
          rw [hm] at h
          simp only [Except.error.injEq] at h; subst h
          exact this _ _ (fun _ h => h) hm

/-- the only exceptions the descent itself produces are the parser exception and recursion exhaustion -/
theorem visit_err_kind (fuel : Nat) (path done : List Nat) (u : Nat) (x : PyExc) (h : visit G fuel path done u = .error x) :
    x = .parser ∨ x = .recursionError := by
  induction fuel generalizing path done u x with
  | zero => simp [visit] at h; exact Or.inr h.symm
  | succ n ih =>
    simp only [visit] at h
    by_cases hu : u ∈ done
    · simp [hu] at h
    · simp only [hu, ↓reduceIte] at h
      by_cases hp : u ∈ path
      · simp only [hp, ↓reduceIte, Except.error.injEq] at h; exact Or.inl h.symm
      · simp only [hp, ↓reduceIte] at h
        have many : ∀ (vs d : List Nat) (x : PyExc), visitMany (visit G n (u :: path)) d vs = .error x →
            x = .parser ∨ x = .recursionError := by
          intro vs
          induction vs with
          | nil => intro d x h; simp [visitMany] at h
          | cons v r ihr =>
            intro d x h
            simp only [visitMany] at h
            cases hv : visit G n (u :: path) d v with
            | ok d' => rw [hv] at h; exact ihr d' x h
            | error e => rw [hv] at h; simp only [Except.error.injEq] at h; subst h; exact ih _ _ _ _ hv
        cases hm : visitMany (visit G n (u :: path)) done (depsOf G u) with
        | ok d => rw [hm] at h; cases h
        | error e => rw [hm] at h; simp only [Except.error.injEq] at h; subst h; exact many _ _ _ hm

/-- **Cycles are rejected, and only cycles**: whenever the translation from an entry cell ends (with enough recursion
    depth it always does, see `enough_fuel`), it ends with the parser exception exactly when the entry depends on a cycle. -/
theorem cycle_rejected (fuel e : Nat) (hne : translateFrom G fuel e ≠ .error .recursionError) :
    translateFrom G fuel e = .error .parser ↔ ∃ c, Reach G e c ∧ ReachPlus G c c := by
  constructor
  · intro h; exact parser_cycle fuel [] [] e (by intro p hp; cases hp) h
  · rintro ⟨c, hc, hcyc⟩
    cases h : translateFrom G fuel e with
    | ok ctx => exact absurd hcyc (ok_no_cycle fuel e ctx h c hc)
    | error x =>
      rcases visit_err_kind fuel [] [] e x h with rfl | rfl
      · rfl
      · exact absurd h hne

/-! ### termination within the recursion budget -/

theorem nodup_subset_length {l m : List Nat} (hn : l.Nodup) (hs : ∀ x ∈ l, x ∈ m) : l.length ≤ m.length :=
  (List.subperm_of_subset hn hs).length_le

/-- with a recursion budget larger than the number of cells the descent never runs out of depth: the in-progress path
    never repeats a cell -/
theorem enough_fuel_aux (nodes : List Nat) (hdeps : ∀ u ∈ nodes, ∀ v ∈ depsOf G u, v ∈ nodes)
    (fuel : Nat) (path done : List Nat) (u : Nat) (hu : u ∈ nodes) (hp : path.Nodup) (hps : ∀ p ∈ path, p ∈ nodes)
    (hf : nodes.length < fuel + path.length) : visit G fuel path done u ≠ .error .recursionError := by
  induction fuel generalizing path done u with
  | zero =>
    have := nodup_subset_length hp hps
    omega
  | succ n ih =>
    simp only [visit]
    by_cases hud : u ∈ done
    · simp [hud]
    · simp only [hud, ↓reduceIte]
      by_cases hup : u ∈ path
      · simp [hup]
      · simp only [hup, ↓reduceIte]
        have many : ∀ (vs d : List Nat), (∀ v ∈ vs, v ∈ nodes) →
            visitMany (visit G n (u :: path)) d vs ≠ .error .recursionError := by
          intro vs
          induction vs with
          | nil => intro d _; simp [visitMany]
          | cons v r ihr =>
            intro d hsub
            simp only [visitMany]
            cases hv : visit G n (u :: path) d v with
            | ok d' => exact ihr d' (fun x hx => hsub x (by simp [hx]))
            | error e =>
              intro h
              simp only [Except.error.injEq] at h; subst h
              exact ih (u :: path) d v (hsub v (by simp)) (List.nodup_cons.2 ⟨hup, hp⟩)
                (by intro p hp'; rcases List.mem_cons.1 hp' with rfl | h; exacts [hu, hps p h])
                (by simp only [List.length_cons]; omega) hv
        cases hm : visitMany (visit G n (u :: path)) done (depsOf G u) with
        | ok d => simp
        | error e =>
          intro h
          simp only [Except.error.injEq] at h; subst h
          exact many _ _ (hdeps u hu) hm

theorem enough_fuel (nodes : List Nat) (hdeps : ∀ u ∈ nodes, ∀ v ∈ depsOf G u, v ∈ nodes) (e : Nat) (he : e ∈ nodes)
    (fuel : Nat) (hf : nodes.length < fuel) : translateFrom G fuel e ≠ .error .recursionError :=
  enough_fuel_aux nodes hdeps fuel [] [] e he List.nodup_nil (by intro p hp; cases hp) (by simpa using hf)

/-- **Translation from an entry cell is total**: a closed slice or the parser exception — decided by whether the entry
    depends on a cycle. -/
theorem translate_total (nodes : List Nat) (hdeps : ∀ u ∈ nodes, ∀ v ∈ depsOf G u, v ∈ nodes) (e : Nat) (he : e ∈ nodes)
    (fuel : Nat) (hf : nodes.length < fuel) :
    ((∃ ctx, translateFrom G fuel e = .ok ctx ∧ ∀ c, c ∈ ctx ↔ Reach G e c) ∧ ¬ ∃ c, Reach G e c ∧ ReachPlus G c c) ∨
    (translateFrom G fuel e = .error .parser ∧ ∃ c, Reach G e c ∧ ReachPlus G c c) := by
  have hne := enough_fuel nodes hdeps e he fuel hf
  cases h : translateFrom G fuel e with
  | ok ctx =>
    left
    exact ⟨⟨ctx, rfl, slice_closed fuel e ctx h⟩, fun ⟨c, hc, hcyc⟩ => ok_no_cycle fuel e ctx h c hc hcyc⟩
  | error x =>
    right
    rcases visit_err_kind fuel [] [] e x h with rfl | rfl
    · exact ⟨rfl, (cycle_rejected (G := G) fuel e hne).1 h⟩
    · exact absurd h hne

/-! ### the slice is faithful -/

/-- the cells a formula reads -/
def refs : XExpr → List Nat
  | .lit _ => []
  | .ref i => [i]
  | .div a b | .add a b | .mul a b | .cat a b | .eq a b | .sum2 a b | .left a b | .iferror a b | .if2 a b => refs a ++ refs b
  | .if3 c t f => refs c ++ refs t ++ refs f
  | .ifsNil => []
  | .ifsCons c v r => refs c ++ refs v ++ refs r

/-- the value of a formula depends on the environment only at the cells it reads -/
theorem evalX_congr (env env' : Nat → Res) (e : XExpr) (h : ∀ i ∈ refs e, env i = env' i) : evalX env e = evalX env' e := by
  induction e with
  | lit v => rfl
  | ref i => simp only [evalX]; exact h i (by simp [refs])
  | ifsNil => rfl
  | div a b iha ihb | add a b iha ihb | mul a b iha ihb | cat a b iha ihb | eq a b iha ihb | sum2 a b iha ihb
  | left a b iha ihb | iferror a b iha ihb | if2 a b iha ihb =>
    simp only [evalX]
    rw [iha (fun i hi => h i (by simp [refs, hi])), ihb (fun i hi => h i (by simp [refs, hi]))]
  | if3 c t f ihc iht ihf =>
    simp only [evalX]
    rw [ihc (fun i hi => h i (by simp [refs, hi])), iht (fun i hi => h i (by simp [refs, hi])),
      ihf (fun i hi => h i (by simp [refs, hi]))]
  | ifsCons c v r ihc ihv ihr =>
    simp only [evalX]
    rw [ihc (fun i hi => h i (by simp [refs, hi])), ihv (fun i hi => h i (by simp [refs, hi])),
      ihr (fun i hi => h i (by simp [refs, hi]))]

/-- **The slice is faithful**: the value of a cell is determined by the formulas of the cells it transitively depends
    on.  Two classes (e.g. the slice and the whole-workbook translation) whose members agree on everything reachable from
    `u` compute the same value for `u`, under any overrides and any recursion budget. -/
theorem slice_faithful (body body' : Nat → Option XExpr) (ov : Nat → Option Val)
    (hG : ∀ u, depsOf G u = match body u with | some e => refs e | none => [])
    (fuel u : Nat) (h : ∀ c, Reach G u c → body' c = body c) :
    cellValueF body' ov fuel u = cellValueF body ov fuel u := by
  induction fuel generalizing u with
  | zero => rfl
  | succ n ih =>
    simp only [cellValueF]
    cases hov : ov u with
    | some v => rfl
    | none =>
      rw [h u (.refl u)]
      cases hb : body u with
      | none => rfl
      | some e =>
        simp only
        apply evalX_congr
        intro i hi
        have hdep : i ∈ depsOf G u := by rw [hG u, hb]; exact hi
        exact ih i (fun c hc => h c (.step hdep hc))

/-- the class translated from an entry cell: only the registered members have a method -/
def sliceBody (body : Nat → Option XExpr) (ctx : List Nat) : Nat → Option XExpr :=
  fun c => if c ∈ ctx then body c else none

/-- **C03, slice vs whole.**  After a successful translation from `e`, the slice class computes for the entry and for
    every cell it depends on the same value as the whole-workbook class does. -/
theorem slice_eq_whole (body : Nat → Option XExpr) (ov : Nat → Option Val)
    (hG : ∀ u, depsOf G u = match body u with | some e => refs e | none => [])
    (fuelT e : Nat) (ctx : List Nat) (ht : translateFrom G fuelT e = .ok ctx) (c : Nat) (hc : Reach G e c) (fuel : Nat) :
    cellValueF (sliceBody body ctx) ov fuel c = cellValueF body ov fuel c := by
  apply slice_faithful body (sliceBody body ctx) ov hG
  intro d hd
  have : d ∈ ctx := (slice_closed fuelT e ctx ht d).2 (hc.trans hd)
  simp [sliceBody, this]

/-! ### non-vacuity -/

/-- a diamond with a shared dependency: 1 → {2, 3}, 2 → {4}, 3 → {4, 5}; and a 3-cycle 7 → 8 → 9 → 7 reached from 6 -/
private def gEx : DepGraph := [(1, [2, 3]), (2, [4]), (3, [4, 5]), (6, [1, 7]), (7, [8]), (8, [9]), (9, [7])]
example : translateFrom gEx 20 1 = .ok [4, 2, 5, 3, 1] := by decide
example : translateFrom gEx 20 6 = .error .parser := by decide
example : translateFrom gEx 20 7 = .error .parser := by decide
example : translateAll gEx 20 [1, 2, 3, 4, 5] = .ok [4, 2, 5, 3, 1] := by decide

end E2P.C03
