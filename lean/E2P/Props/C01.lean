/-
  Property C01 — formula operators keep their Excel meaning (precedence, sign, %, &).

  Proved here:
  * **C01_main**: for EVERY stratified expression - i.e. every reading the rule "% tightest, then sign, then * /, then + -,
    then &, then comparisons, equal levels to the left, brackets override" allows, of any length and nesting - grouping the
    token sequence it prints to returns exactly that expression (`C01_main`, `C01_main_model`), and a token sequence has
    at most one stratified reading (`C01_unambiguous`); so whenever the model's grouping succeeds it returns THE Excel reading;
  * the grouping never drops, reorders or invents a token and puts brackets exactly where the formula has them
    (`group_exact`, for every token sequence);
  * the complete precedence / associativity table for every ordered pair of binary operators, every sign position and
    every % position, as kernel-evaluated finite statements over ALL operators (`pair_table`, `sign_table`, `pct_table`);
  * a blank operand counts as 0 in arithmetic; a numeric literal denotes the nearest double (from the value lemmas of C17).
  Not proved in Lean: that the bracket structure the real translator reads off the token tree is the bracket matching of the
  token sequence (true for derivations, C05), and the value-level semantics of CPython's operators (modelled, Tie B).
-/
import E2P.Model.Ops
import E2P.Lemmas.OpsMain
import Mathlib.Data.List.Basic
namespace E2P.C01
open E2P

/-! ### the grouping is exact on the token sequence -/

theorem group_exact_all (fuel : Nat) :
    (∀ toks e rest, pPost fuel toks = some (e, rest) → e.flat ++ rest = toks) ∧
    (∀ e0 toks e rest, pPct fuel e0 toks = some (e, rest) → e.flat ++ rest = e0.flat ++ toks) ∧
    (∀ toks e rest, pUnary fuel toks = some (e, rest) → e.flat ++ rest = toks) ∧
    (∀ k toks e rest, pLevel fuel k toks = some (e, rest) → e.flat ++ rest = toks) ∧
    (∀ k l toks e rest, pLoop fuel k l toks = some (e, rest) → e.flat ++ rest = l.flat ++ toks) := by
  induction fuel with
  | zero => simp [pPost, pPct, pUnary, pLevel, pLoop]
  | succ n ih =>
    obtain ⟨ihPost, ihPct, ihUn, ihLv, ihLoop⟩ := ih
    refine ⟨?_, ?_, ?_, ?_, ?_⟩
    · intro toks e rest h
      cases toks with
      | nil => simp [pPost] at h
      | cons t ts =>
        cases t with
        | atom a => simp only [pPost] at h; simpa [Ex.flat] using ihPct _ _ _ _ h
        | lp =>
          simp only [pPost] at h
          cases hl : pLevel n 4 ts with
          | none => rw [hl] at h; simp at h
          | some p =>
            obtain ⟨e1, r1⟩ := p
            rw [hl] at h
            cases r1 with
            | nil => simp at h
            | cons x xs =>
              cases x <;> simp at h
              have h1 := ihLv _ _ _ _ hl
              have h2 := ihPct _ _ _ _ h
              rw [h2, ← h1]; simp [Ex.flat]
        | rp => simp [pPost] at h
        | pct => simp [pPost] at h
        | op o => simp [pPost] at h
    · intro e0 toks e rest h
      cases toks with
      | nil => simp only [pPct, Option.some.injEq, Prod.mk.injEq] at h; obtain ⟨rfl, rfl⟩ := h; rfl
      | cons t ts =>
        cases t with
        | pct => simp only [pPct] at h; have := ihPct _ _ _ _ h; rw [this]; simp [Ex.flat]
        | atom a => simp only [pPct, Option.some.injEq, Prod.mk.injEq] at h; obtain ⟨rfl, rfl⟩ := h; rfl
        | lp => simp only [pPct, Option.some.injEq, Prod.mk.injEq] at h; obtain ⟨rfl, rfl⟩ := h; rfl
        | rp => simp only [pPct, Option.some.injEq, Prod.mk.injEq] at h; obtain ⟨rfl, rfl⟩ := h; rfl
        | op o => simp only [pPct, Option.some.injEq, Prod.mk.injEq] at h; obtain ⟨rfl, rfl⟩ := h; rfl
    · intro toks e rest h
      have post : pPost n toks = some (e, rest) → e.flat ++ rest = toks := ihPost _ _ _
      cases toks with
      | nil => simp only [pUnary] at h; exact post h
      | cons t ts =>
        cases t with
        | op o =>
          cases o with
          | add =>
            simp only [pUnary, Option.map_eq_some_iff, Prod.mk.injEq, Prod.exists] at h
            obtain ⟨e1, r1, h1, rfl, rfl⟩ := h
            simpa [Ex.flat] using ihUn _ _ _ h1
          | sub =>
            simp only [pUnary, Option.map_eq_some_iff, Prod.mk.injEq, Prod.exists] at h
            obtain ⟨e1, r1, h1, rfl, rfl⟩ := h
            simpa [Ex.flat] using ihUn _ _ _ h1
          | mul => simp only [pUnary] at h; exact post h
          | div => simp only [pUnary] at h; exact post h
          | cat => simp only [pUnary] at h; exact post h
          | cmp c => simp only [pUnary] at h; exact post h
        | atom a => simp only [pUnary] at h; exact post h
        | lp => simp only [pUnary] at h; exact post h
        | rp => simp only [pUnary] at h; exact post h
        | pct => simp only [pUnary] at h; exact post h
    · intro k toks e rest h
      cases k with
      | zero => simp only [pLevel] at h; exact ihUn _ _ _ h
      | succ k =>
        simp only [pLevel] at h
        cases hl : pLevel n k toks with
        | none => rw [hl] at h; simp at h
        | some p =>
          obtain ⟨l, r'⟩ := p
          rw [hl] at h
          have h1 := ihLv _ _ _ _ hl
          have h2 := ihLoop _ _ _ _ _ h
          rw [h2, h1]
    · intro k l toks e rest h
      cases toks with
      | nil => simp only [pLoop, Option.some.injEq, Prod.mk.injEq] at h; obtain ⟨rfl, rfl⟩ := h; rfl
      | cons t ts =>
        cases t with
        | op o =>
          simp only [pLoop] at h
          by_cases hk : o.level = k
          · simp only [hk, ↓reduceIte] at h
            cases hl : pLevel n (k - 1) ts with
            | none => rw [hl] at h; simp at h
            | some p =>
              obtain ⟨rhs, r'⟩ := p
              rw [hl] at h
              have h1 := ihLv _ _ _ _ hl
              have h2 := ihLoop _ _ _ _ _ h
              rw [h2, ← h1]; simp [Ex.flat]
          · simp only [hk, ↓reduceIte, Option.some.injEq, Prod.mk.injEq] at h; obtain ⟨rfl, rfl⟩ := h; rfl
        | atom a => simp only [pLoop, Option.some.injEq, Prod.mk.injEq] at h; obtain ⟨rfl, rfl⟩ := h; rfl
        | lp => simp only [pLoop, Option.some.injEq, Prod.mk.injEq] at h; obtain ⟨rfl, rfl⟩ := h; rfl
        | rp => simp only [pLoop, Option.some.injEq, Prod.mk.injEq] at h; obtain ⟨rfl, rfl⟩ := h; rfl
        | pct => simp only [pLoop, Option.some.injEq, Prod.mk.injEq] at h; obtain ⟨rfl, rfl⟩ := h; rfl

/-- **Exactness**: the emitted expression, printed back, is the formula's own token sequence — same operands, same
    operators, same order, brackets exactly where the formula has them.  Grouping adds structure, never changes content. -/
theorem group_exact (toks : List Tk) (e : Ex) (h : groupTokens toks = some e) : e.flat = toks := by
  unfold groupTokens at h
  cases hl : pLevel (4 * toks.length + 8) 4 toks with
  | none => rw [hl] at h; simp at h
  | some p =>
    obtain ⟨e', r⟩ := p
    rw [hl] at h
    cases r with
    | nil =>
      simp only [Option.some.injEq] at h; subst h
      simpa using (group_exact_all _).2.2.2.1 _ _ _ _ hl
    | cons x xs => simp at h

/-! ### the precedence / associativity table, for ALL operators (finite, kernel-evaluated) -/

def allOps : List BinOp :=
  [.add, .sub, .mul, .div, .cat, .cmp .eq, .cmp .ne, .cmp .lt, .cmp .le, .cmp .gt, .cmp .ge]

/-- what Excel demands for `a o₁ b o₂ c`: the tighter operator groups first; equal levels group to the left -/
def expectedPair (o1 o2 : BinOp) : Ex :=
  if o1.level ≤ o2.level then .bin o2 (.bin o1 (.atom 0) (.atom 1)) (.atom 2)
  else .bin o1 (.atom 0) (.bin o2 (.atom 1) (.atom 2))

/-- every ordered pair of binary operators groups as Excel demands -/
theorem pair_table : ∀ o1 ∈ allOps, ∀ o2 ∈ allOps,
    groupTokens [.atom 0, .op o1, .atom 1, .op o2, .atom 2] = some (expectedPair o1 o2) := by
  decide +kernel

/-- three operators of one level associate to the left; a bracket overrides -/
theorem left_assoc_table : ∀ o ∈ allOps,
    groupTokens [.atom 0, .op o, .atom 1, .op o, .atom 2, .op o, .atom 3] =
      some (.bin o (.bin o (.bin o (.atom 0) (.atom 1)) (.atom 2)) (.atom 3)) ∧
    groupTokens [.atom 0, .op o, .lp, .atom 1, .op o, .atom 2, .rp] =
      some (.bin o (.atom 0) (.paren (.bin o (.atom 1) (.atom 2)))) := by
  decide +kernel

/-- a unary sign binds tighter than every binary operator, on either side of it, and % binds tighter than the sign -/
theorem sign_table : ∀ o ∈ allOps,
    groupTokens [.op .sub, .atom 0, .op o, .atom 1] = some (.bin o (.neg (.atom 0)) (.atom 1)) ∧
    groupTokens [.atom 0, .op o, .op .sub, .atom 1] = some (.bin o (.atom 0) (.neg (.atom 1))) ∧
    groupTokens [.op .add, .op .sub, .atom 0, .op o, .atom 1] = some (.bin o (.pos (.neg (.atom 0))) (.atom 1)) ∧
    groupTokens [.op .sub, .atom 0, .pct, .op o, .atom 1] = some (.bin o (.neg (.pct (.atom 0))) (.atom 1)) := by
  decide +kernel

/-- % applies to the operand it follows only, before any binary operator -/
theorem pct_table : ∀ o ∈ allOps,
    groupTokens [.atom 0, .op o, .atom 1, .pct] = some (.bin o (.atom 0) (.pct (.atom 1))) ∧
    groupTokens [.atom 0, .pct, .op o, .atom 1] = some (.bin o (.pct (.atom 0)) (.atom 1)) ∧
    groupTokens [.atom 0, .pct, .pct, .op o, .atom 1] = some (.bin o (.pct (.pct (.atom 0))) (.atom 1)) := by
  decide +kernel

/-- malformed sequences are rejected, not regrouped -/
theorem malformed_rejected :
    groupTokens [.atom 0, .op .add] = none ∧ groupTokens [.atom 0, .atom 1] = none ∧ groupTokens [.lp, .atom 0] = none ∧
    groupTokens [.atom 0, .rp] = none ∧ groupTokens [.op .mul, .atom 0] = none ∧ groupTokens [.pct] = none ∧ groupTokens [] = none := by
  decide +kernel

/-! ### operand values -/

/-- a blank operand counts as 0 in arithmetic -/
theorem blank_is_zero (o : BinOp) (ho : o = .add ∨ o = .sub ∨ o = .mul ∨ o = .div) (v : Val) :
    evalBin o .blank v = evalBin o (.int 0) v ∧ evalBin o v .blank = evalBin o v (.int 0) := by
  rcases ho with rfl | rfl | rfl | rfl <;> cases v <;> simp [evalBin, pyAdd, pySub, pyMul, pyTrueDiv, numOf]

theorem blank_sign : pyNeg .blank = pyNeg (.int 0) ∧ pyPos .blank = .ok (.int 0) ∧ pctVal .blank = pctVal (.int 0) := by
  simp [pyNeg, pyPos, pctVal, pyTrueDiv, numOf, valOfNum]

/-- bracketing does not change a value; it only groups -/
theorem paren_transparent (env : Nat → Res) (e : Ex) : evalEx env (.paren e) = evalEx env e := rfl

/-! non-vacuity: =-2+3 is 1, =1+2=3 is TRUE, =1+2&3 is "33", =2+3*4 is 14, =10-2-3 is 5 -/
def envEx : Nat → Res
  | 0 => .ok (.int 1) | 1 => .ok (.int 2) | 2 => .ok (.int 3) | 3 => .ok (.int 4) | 4 => .ok (.int 10) | _ => .ok .blank
def valOf (toks : List Tk) : Option (Option Int × Option (List Char) × Option Bool) :=
  (groupTokens toks).map fun e => match evalEx envEx e with
    | .ok (.int z) => (some z, none, none) | .ok (.str s) => (none, some s, none) | .ok (.bool b) => (none, none, some b) | _ => (none, none, none)
example : valOf [.op .sub, .atom 1, .op .add, .atom 2] = some (some 1, none, none) ∧
    valOf [.atom 0, .op .add, .atom 1, .op (.cmp .eq), .atom 2] = some (none, none, some true) ∧
    valOf [.atom 0, .op .add, .atom 1, .op .cat, .atom 2] = some (none, some "33".toList, none) ∧
    valOf [.atom 1, .op .add, .atom 2, .op .mul, .atom 3] = some (some 14, none, none) ∧
    valOf [.atom 4, .op .sub, .atom 1, .op .sub, .atom 2] = some (some 5, none, none) := ⟨rfl, rfl, rfl, rfl, rfl⟩

/-! ### full strength: every stratified expression, any length, any nesting -/

/-- **C01_main.**  If `e` is a stratified expression (`shape e = some a`: % applied to operands only, signs to signed
    operands, every binary node's left child no looser and its right child strictly tighter than the node - which is
    precisely "% tightest, then sign, then * /, then + -, then &, then comparisons, left associative, brackets override"),
    then grouping the tokens `e` prints to returns `e`, for every sufficiently large recursion budget. -/
theorem C01_main (e : Ex) (a : Nat) (h : shape e = some a) :
    ∃ N, ∀ fuel, N ≤ fuel → pLevel fuel 4 e.flat = some (e, []) := by
  have := (claims e).main a h 4 (shape_le_four e a h) [] (by simp [StopBelow]) (e, [])
    (loops_all_stop _ 4 e [] (by simp))
  simpa [Ev] using this

/-- a token sequence has at most one stratified reading: "the value Excel defines" is well defined -/
theorem C01_unambiguous (e₁ e₂ : Ex) (a₁ a₂ : Nat) (h₁ : shape e₁ = some a₁) (h₂ : shape e₂ = some a₂)
    (hf : e₁.flat = e₂.flat) : e₁ = e₂ := by
  obtain ⟨N1, g1⟩ := C01_main e₁ a₁ h₁
  obtain ⟨N2, g2⟩ := C01_main e₂ a₂ h₂
  have x := g1 (max N1 N2) (Nat.le_max_left _ _)
  have y := g2 (max N1 N2) (Nat.le_max_right _ _)
  rw [hf, y] at x
  simpa using x.symm

/-- the model's grouping with its fixed budget: whenever it returns something for the tokens of a stratified `e`, it is `e`;
    and it does return `e` as soon as the budget 4·n+8 reaches the bound of `C01_main` -/
theorem C01_main_model (e : Ex) (a : Nat) (h : shape e = some a) (e' : Ex) (hg : groupTokens e.flat = some e') : e' = e := by
  obtain ⟨N, g⟩ := C01_main e a h
  unfold groupTokens at hg
  cases hl : pLevel (4 * e.flat.length + 8) 4 e.flat with
  | none => rw [hl] at hg; simp at hg
  | some p =>
    obtain ⟨x, r⟩ := p
    rw [hl] at hg
    have hm := pLevel_mono _ N 4 _ _ hl
    rw [g _ (by omega)] at hm
    simp only [Option.some.injEq, Prod.mk.injEq] at hm
    obtain ⟨rfl, rfl⟩ := hm
    simpa using hg.symm

/-- non-vacuity: −2+3·4%−(5−6)&7=8<>9 is stratified (and so are the readings listed in the tables above) -/
example : shape (.bin (.cmp .ne) (.bin (.cmp .eq) (.bin .cat (.bin .sub (.bin .add (.neg (.atom 0)) (.bin .mul (.atom 1) (.pct (.atom 2))))
    (.paren (.bin .sub (.atom 3) (.atom 4)))) (.atom 5)) (.atom 6)) (.atom 7)) = some 4 := by decide
/-- … while a tree that contradicts precedence or left associativity is not -/
example : shape (.bin .mul (.bin .add (.atom 0) (.atom 1)) (.atom 2)) = none ∧
    shape (.bin .sub (.atom 0) (.bin .sub (.atom 1) (.atom 2))) = none ∧ shape (.pct (.neg (.atom 0))) = none := by decide

end E2P.C01
