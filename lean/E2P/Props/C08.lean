/-
  Property C08 — evaluation is pure and repeatable; all query APIs agree.
  Corollaries of the refinement theorem of C04 (`exec_refines`): every output of every history is a function of the
  workbook and of the set-cells calls that precede it, and of nothing else.
-/
import E2P.Props.C04
namespace E2P.C08
open E2P E2P.C04

variable (wb : Workbook) (fuel : Nat) (sizes : List (Nat × Nat))

def isSet : Op → Bool | .set _ => true | _ => false

theorem allWrites_filter (h : List Op) : allWrites (h.filter isSet) = allWrites h := by
  induction h with
  | nil => rfl
  | cons op ops ih => cases op <;> simp [List.filter, isSet, allWrites, ih]

theorem allWriteUids_filter (h : List Op) : allWriteUids (h.filter isSet) = allWriteUids h := by
  induction h with
  | nil => rfl
  | cons op ops ih => cases op <;> simp [List.filter, isSet, allWriteUids, ih]

/-- what a query must return depends on the preceding history only through its set-cells calls -/
theorem specOut_queries_irrelevant (pre pre' : List Op) (hsets : pre.filter isSet = pre'.filter isSet) (op : Op) :
    specOut (bodyOf wb) fuel sizes pre op = specOut (bodyOf wb) fuel sizes pre' op := by
  have h1 : allWrites pre = allWrites pre' := by rw [← allWrites_filter pre, hsets, allWrites_filter]
  have h2 : allWriteUids pre = allWriteUids pre' := by rw [← allWriteUids_filter pre, hsets, allWriteUids_filter]
  have h3 : lastWrite pre = lastWrite pre' := lastWrite_congr pre' pre h1
  cases op <;> simp only [specOut, h2, h3]

theorem specRun_append (pre a b : List Op) :
    specRun (bodyOf wb) fuel sizes pre (a ++ b) = specRun (bodyOf wb) fuel sizes pre a ++ specRun (bodyOf wb) fuel sizes (pre ++ a) b := by
  induction a generalizing pre with
  | nil => simp [specRun]
  | cons op ops ih => simp [specRun, ih, List.append_assoc]

theorem validOps_append (a b : List Op) : ValidOps sizes (a ++ b) ↔ ValidOps sizes a ∧ ValidOps sizes b := by
  unfold ValidOps; rw [allWriteUids_append]
  constructor
  · intro h; exact ⟨fun u hu => h u (List.mem_append_left _ hu), fun u hu => h u (List.mem_append_right _ hu)⟩
  · rintro ⟨h1, h2⟩ u hu; rcases List.mem_append.1 hu with h | h; exacts [h1 u h, h2 u h]

/-- the outputs of the real state machine for `h` followed by one more call `q`: the last output -/
theorem last_output (h : List Op) (q : Op) (hv : ValidOps sizes (h ++ [q])) :
    (run wb fuel (ExecState.init sizes) (h ++ [q])).2.getLast? = some (specOut (bodyOf wb) fuel sizes h q) := by
  rw [exec_refines wb fuel sizes _ hv, specRun_append]
  simp [specRun]

/-- **Purity / order independence / repeatability.**  Two histories with the same set-cells calls — whatever queries,
    however many, in whatever order, through whichever API were interleaved — give the same answer to the same query. -/
theorem query_independent (h h' : List Op) (q : Op) (hsets : h.filter isSet = h'.filter isSet)
    (hv : ValidOps sizes (h ++ [q])) (hv' : ValidOps sizes (h' ++ [q])) :
    (run wb fuel (ExecState.init sizes) (h ++ [q])).2.getLast? =
    (run wb fuel (ExecState.init sizes) (h' ++ [q])).2.getLast? := by
  rw [last_output wb fuel sizes h q hv, last_output wb fuel sizes h' q hv', specOut_queries_irrelevant wb fuel sizes h h' hsets]

theorem accepted_append (a b : List OpA) : accepted (a ++ b) = accepted a ++ accepted b := by
  induction a with
  | nil => rfl
  | cons x xs ih => cases x <;> simp [accepted, ih]

theorem validOps_query (q : Op) (hq : isSet q = false) : ValidOps sizes [q] := by
  intro u hu
  cases q <;> simp [allWriteUids, isSet] at hu hq

/-- **Purity / order independence for the public API, without a side condition**: two histories of API calls - `set_cells`
    with addresses as the caller writes them (accepted or rejected, anywhere), queries of any kind, any number, any order -
    whose ACCEPTED set-cells batches agree give the same answer to the same query.  In particular a rejected call, like a
    query, changes no later answer. -/
theorem query_independent_calls (titles : List (List Char)) (h h' : List Call) (q : Op) (hq : isSet q = false)
    (hsets : (accepted (h.map (compileCall titles sizes.length))).filter isSet =
      (accepted (h'.map (compileCall titles sizes.length))).filter isSet) :
    (answers (runA wb fuel (ExecState.init sizes) (h.map (compileCall titles sizes.length) ++ [.op q])).2).getLast? =
    (answers (runA wb fuel (ExecState.init sizes) (h'.map (compileCall titles sizes.length) ++ [.op q])).2).getLast? := by
  rw [(runA_accepted wb fuel _ _).2, (runA_accepted wb fuel _ _).2, accepted_append, accepted_append]
  simp only [accepted]
  exact query_independent wb fuel sizes _ _ q hsets
    ((validOps_append sizes _ _).2 ⟨compiled_valid sizes titles h, validOps_query sizes q hq⟩)
    ((validOps_append sizes _ _).2 ⟨compiled_valid sizes titles h', validOps_query sizes q hq⟩)

/-- repeating a query returns the same value -/
theorem query_repeatable (h : List Op) (u : Uid) (hv : ValidOps sizes h) :
    (run wb fuel (ExecState.init sizes) (h ++ [.get u] ++ [.get u])).2.getLast? =
    (run wb fuel (ExecState.init sizes) (h ++ [.get u])).2.getLast? := by
  have v1 : ValidOps sizes (h ++ [.get u]) := (validOps_append sizes _ _).2 ⟨hv, by intro x hx; simp [allWriteUids] at hx⟩
  have v2 : ValidOps sizes (h ++ [.get u] ++ [.get u]) := (validOps_append sizes _ _).2 ⟨v1, by intro x hx; simp [allWriteUids] at hx⟩
  exact query_independent wb fuel sizes (h ++ [.get u]) h (.get u) (by simp [List.filter_append, isSet, List.filter]) v2 v1

/-- querying never changes the overrides or the reported sheet sizes -/
theorem query_pure (st : ExecState) (op : Op) (hq : isSet op = false) :
    (step wb fuel st op).1.cells = st.cells ∧ (step wb fuel st op).1.sizes = st.sizes := by
  have hsync : ∀ s : ExecState, (sync s).cells = s.cells ∧ (sync s).sizes = s.sizes := by
    intro s; unfold sync; split <;> exact ⟨rfl, rfl⟩
  cases op with
  | set b => simp [isSet] at hq
  | get u => exact hsync st
  | sheet s => exact hsync st
  | gets us =>
    simp only [step]
    induction us generalizing st with
    | nil => exact ⟨rfl, rfl⟩
    | cons u r ih =>
      simp only [getCells, getCell]
      have := ih (sync st) rfl
      exact ⟨this.1.trans (hsync st).1, this.2.trans (hsync st).2⟩

/-- the list query equals the single-cell queries, element by element -/
theorem get_cells_eq_map (pre : List Op) (us : List Uid) :
    specOut (bodyOf wb) fuel sizes pre (.gets us) =
      .vals (us.map fun u => match specOut (bodyOf wb) fuel sizes pre (.get u) with | .val r => r | _ => .error .other) := by
  simp [specOut]

/-- **The whole-sheet grid** has exactly one entry per coordinate of the used range extended by the overrides, each equal
    to the single-cell query for that coordinate. -/
theorem sheet_grid (pre : List Op) (s : Nat) :
    ∃ g, specOut (bodyOf wb) fuel sizes pre (.sheet s) = .grid g ∧
      g.length = (extent (sizes.getD s (0, 0)) (allWriteUids pre) s).2 ∧
      (∀ r (hr : r < g.length), (g[r]).length = (extent (sizes.getD s (0, 0)) (allWriteUids pre) s).1 ∧
        ∀ c (hc : c < (g[r]).length), specOut (bodyOf wb) fuel sizes pre (.get ⟨s, c, r⟩) = .val ((g[r])[c])) := by
  refine ⟨_, rfl, by simp [extent], ?_⟩
  intro r hr
  simp only [List.length_map, List.length_range] at hr
  refine ⟨by simp [extent], ?_⟩
  intro c hc
  simp [specOut]

/-- the extent covers the used range and every overridden coordinate of the sheet -/
theorem extent_covers (size : Nat × Nat) (ov : List Uid) (s : Nat) :
    size.1 ≤ (extent size ov s).1 ∧ size.2 ≤ (extent size ov s).2 ∧
      ∀ u ∈ ov, u.sheet = s → u.col < (extent size ov s).1 ∧ u.row < (extent size ov s).2 := by
  induction ov generalizing size with
  | nil => simp [extent]
  | cons u r ih =>
    unfold extent
    rw [List.foldl_cons]
    by_cases h : u.sheet = s
    · simp only [h, ↓reduceIte]
      have := ih (max size.1 (u.col + 1), max size.2 (u.row + 1))
      unfold extent at this
      refine ⟨by have := this.1; simp only at this; omega, by have := this.2.1; simp only at this; omega, ?_⟩
      intro w hw hws
      rcases List.mem_cons.1 hw with rfl | hw
      · have h1 := this.1; have h2 := this.2.1; simp only at h1 h2; omega
      · exact this.2.2 w hw hws
    · simp only [h, ↓reduceIte]
      have := ih size
      unfold extent at this
      refine ⟨this.1, this.2.1, ?_⟩
      intro w hw hws
      rcases List.mem_cons.1 hw with rfl | hw
      · exact absurd hws h
      · exact this.2.2 w hw hws

/-! ### addressing: A1-style / sheet-title addressing denotes the same cell as numeric addressing -/

theorem addressing_equiv (titles : List (List Char)) (t letters : List Char) (row s : Nat)
    (ht : titles.idxOf? t = some s) (hl : letters ≠ [] ∧ letters.all isUpper = true ∧ letters.length ≤ 3) (hr : 0 < row) :
    resolve titles (.a1 t letters row) = resolve titles (.num s (colIndex letters - 1) (row - 1)) ∧
    resolve titles (.named t (colIndex letters - 1) (row - 1)) = resolve titles (.num s (colIndex letters - 1) (row - 1)) := by
  obtain ⟨h1, h2, h3⟩ := hl
  have e1 : letters.isEmpty = false := by cases letters <;> simp_all
  have e3 : ¬ (letters.length > 3) := by omega
  have e4 : ¬ (row = 0) := by omega
  simp [resolve, ht, e1, h2, e3, e4]

/-- an unknown sheet title is rejected, never resolved to some other sheet -/
theorem unknown_title_rejected (titles : List (List Char)) (t letters : List Char) (row c r : Nat) (ht : t ∉ titles) :
    resolve titles (.a1 t letters row) = none ∧ resolve titles (.named t c r) = none := by
  have : titles.idxOf? t = none := by simpa [List.idxOf?_eq_none_iff] using ht
  simp [resolve, this]

end E2P.C08
