/-
  Property C04 — overrides mean edit-the-cell-and-recalculate; the last write wins.
  (C08's statements are corollaries of the same refinement theorem; see Props/C08.)
-/
import E2P.Lemmas.ExecLemmas
import E2P.Model.ExecRej
namespace E2P.C04
open E2P

variable (wb : Workbook) (fuel : Nat) (sizes : List (Nat × Nat))

/-- the formulas of the generated class, as a function of the uid -/
abbrev bodyOf (wb : Workbook) : Nat → Option XExpr := fun k => lookup k wb

theorem getCell_spec (pre : List Op) (st : ExecState) (hi : Inv sizes pre st) (u : Uid) :
    (getCell wb fuel st u).1 = sync st ∧
    (getCell wb fuel st u).2 = recalc (edit (bodyOf wb) (lastWrite pre)) fuel u.code := by
  refine ⟨rfl, ?_⟩
  simp only [getCell, cellValue]
  rw [cellValueF_congr _ _ (lastWrite pre) (sync_args sizes pre st hi)]
  exact override_is_edit _ _ _ _

theorem getCells_spec (pre : List Op) (st : ExecState) (hi : Inv sizes pre st) (us : List Uid) :
    (getCells wb fuel st us).1 = (if us = [] then st else sync st) ∧
    (getCells wb fuel st us).2 = us.map fun u => recalc (edit (bodyOf wb) (lastWrite pre)) fuel u.code := by
  induction us generalizing st with
  | nil => simp [getCells]
  | cons u r ih =>
    have h1 := getCell_spec wb fuel sizes pre st hi u
    have h2 := ih (sync st) (inv_sync sizes pre st hi)
    simp only [getCells]
    rw [show (getCell wb fuel st u) = ((getCell wb fuel st u).1, (getCell wb fuel st u).2) from rfl, h1.1, h1.2]
    simp only [List.map_cons, reduceCtorEq, ↓reduceIte]
    rw [show getCells wb fuel (sync st) r = ((getCells wb fuel (sync st) r).1, (getCells wb fuel (sync st) r).2) from rfl, h2.1, h2.2]
    refine ⟨?_, rfl⟩
    split <;> simp [sync_sync]

theorem step_spec (pre : List Op) (st : ExecState) (hi : Inv sizes pre st) (op : Op)
    (hv : ValidOps sizes [op]) :
    (step wb fuel st op).2 = specOut (bodyOf wb) fuel sizes pre op ∧ Inv sizes (pre ++ [op]) (step wb fuel st op).1 := by
  cases op with
  | set b =>
    refine ⟨rfl, inv_setCells sizes pre st b hi ?_⟩
    intro uv huv
    exact hv uv.1 (by simp [allWriteUids]; exact ⟨uv.2, huv⟩)
  | get u =>
    have h := getCell_spec wb fuel sizes pre st hi u
    refine ⟨by simp only [step, specOut]; rw [h.2], ?_⟩
    simp only [step]
    rw [h.1]
    exact inv_congr sizes pre _ _ (by rw [allWrites_append]; simp [allWrites]) (by rw [allWriteUids_append]; simp [allWriteUids])
      (inv_sync sizes pre st hi)
  | gets us =>
    have h := getCells_spec wb fuel sizes pre st hi us
    refine ⟨by simp only [step, specOut]; rw [h.2], ?_⟩
    simp only [step]
    rw [h.1]
    refine inv_congr sizes pre _ _ (by rw [allWrites_append]; simp [allWrites]) (by rw [allWriteUids_append]; simp [allWriteUids]) ?_
    split
    · exact hi
    · exact inv_sync sizes pre st hi
  | sheet s =>
    refine ⟨?_, ?_⟩
    · simp only [step, getSheet, specOut]
      rw [(hi.sizes s).1]
      simp only [cellValue]
      congr 1
      apply List.map_congr_left; intro r _
      apply List.map_congr_left; intro c _
      rw [cellValueF_congr _ _ (lastWrite pre) (sync_args sizes pre st hi)]
      exact override_is_edit _ _ _ _
    · simp only [step, getSheet]
      exact inv_congr sizes pre _ _ (by rw [allWrites_append]; simp [allWrites]) (by rw [allWriteUids_append]; simp [allWriteUids])
        (inv_sync sizes pre st hi)

theorem validOps_cons (op : Op) (ops : List Op) (h : ValidOps sizes (op :: ops)) :
    ValidOps sizes [op] ∧ ValidOps sizes ops := by
  have e : allWriteUids (op :: ops) = allWriteUids [op] ++ allWriteUids ops := by
    rw [← allWriteUids_append]; rfl
  unfold ValidOps at *
  rw [e] at h
  exact ⟨fun u hu => h u (List.mem_append_left _ hu), fun u hu => h u (List.mem_append_right _ hu)⟩

theorem run_spec_from (pre : List Op) (st : ExecState) (hi : Inv sizes pre st) (ops : List Op) (hv : ValidOps sizes ops) :
    (run wb fuel st ops).2 = specRun (bodyOf wb) fuel sizes pre ops := by
  induction ops generalizing pre st with
  | nil => rfl
  | cons op ops ih =>
    obtain ⟨hv1, hv2⟩ := validOps_cons sizes op ops hv
    obtain ⟨h1, h2⟩ := step_spec wb fuel sizes pre st hi op hv1
    simp only [run, specRun]
    rw [h1, ih (pre ++ [op]) _ h2 hv2]

/-- **C04 (refinement).**  For every workbook, every history of set-cells and query calls (single cell, list of cells,
    whole sheet) on a fresh executor, every output is what a fresh evaluation reports for the workbook in which each
    overridden cell has been replaced by its most recently supplied constant. -/
theorem exec_refines (ops : List Op) (hv : ValidOps sizes ops) :
    (run wb fuel (ExecState.init sizes) ops).2 = specRun (bodyOf wb) fuel sizes [] ops :=
  run_spec_from wb fuel sizes [] _ (inv_init sizes) ops hv

/-! ### the clauses of the property, read off the specification -/

/-- the last write wins: a later value for the same cell replaces the earlier one, in one batch or across batches -/
theorem last_write_wins (h : List Op) (b₁ b₂ : List (Uid × Val)) (u : Uid) (v : Val) :
    lastWrite (h ++ [.set (b₁ ++ (u, v) :: b₂)]) u.code =
      (lookupLast u.code (b₂.map fun uv => (uv.1.code, uv.2))).orElse fun _ => some v := by
  rw [lastWrite_eq, allWrites_append]
  simp only [allWrites, List.map_append, List.map_cons, List.append_nil]
  rw [lookupLast_append, lookupLast_append, lookupLast_cons]
  cases lookupLast u.code (b₂.map fun uv => (uv.1.code, uv.2)) <;> simp

theorem last_write_wins_simple (h : List Op) (u : Uid) (v w : Val) :
    lastWrite (h ++ [.set [(u, v)], .set [(u, w)]]) u.code = some w := by
  rw [lastWrite_eq, allWrites_append]
  simp [allWrites, lookupLast]

/-- an overridden cell evaluates to its constant, whatever its own formula was (its errors included) -/
theorem override_shadows (body : Nat → Option XExpr) (ov : Nat → Option Val) (fuel u : Nat) (v : Val) (h : ov u = some v) :
    recalc (edit body ov) (fuel + 1) u = .ok v := by
  simp [recalc, cellValueF, edit, h, evalX]

/-- … and its own formula does not influence anything: two workbooks that differ only in the overridden cells evaluate alike -/
theorem overridden_formula_irrelevant (body body' : Nat → Option XExpr) (ov : Nat → Option Val)
    (h : ∀ u, ov u = none → body u = body' u) (fuel u : Nat) :
    recalc (edit body ov) fuel u = recalc (edit body' ov) fuel u := by
  have : edit body ov = edit body' ov := by
    funext k; unfold edit; cases hk : ov k with
    | some v => rfl
    | none => simp [h k hk]
  rw [this]

/-- cells not overridden keep their workbook meaning: with no overrides the edited workbook is the workbook -/
theorem no_override_no_change (body : Nat → Option XExpr) : edit body (fun _ => none) = body := by
  funext k; rfl

/-- overrides may target blank cells and cells beyond the used range (no method in the class): they read as the constant,
    and unset ones as blank -/
theorem override_outside (body : Nat → Option XExpr) (ov : Nat → Option Val) (fuel u : Nat) (hb : body u = none) :
    recalc (edit body ov) (fuel + 1) u = match ov u with | some v => .ok v | none => .ok .blank := by
  cases h : ov u <;> simp [recalc, cellValueF, edit, h, hb, evalX]

/-! ### set-cells calls that are rejected -/

/-- a batch with an address that does not resolve (unknown sheet title, bad column letters, row 0) is rejected as a whole:
    the executor - overrides, pending flag, arguments of the instance, reported sheet sizes - is what it was -/
theorem rejected_batch_changes_nothing (titles : List (List Char)) (st : ExecState) (batch : List (Addr × Val))
    (h : ∃ av ∈ batch, resolve titles av.1 = none) :
    setCellsAddr titles st batch = (st, false) := by
  have hr : resolveAll titles batch = none := by
    induction batch with
    | nil => obtain ⟨av, hm, _⟩ := h; cases hm
    | cons av rest ih =>
      obtain ⟨a, v⟩ := av
      obtain ⟨av', hm, hn⟩ := h
      simp only [resolveAll]
      rcases List.mem_cons.mp hm with rfl | hm'
      · simp only at hn; rw [hn]
      · rw [ih ⟨av', hm', hn⟩]; cases resolve titles a <;> rfl
  simp [setCellsAddr, hr]

/-- a batch all of whose addresses resolve is the batch of the resolved cells -/
theorem accepted_batch_is_setCells (titles : List (List Char)) (st : ExecState) (batch : List (Addr × Val))
    (b : List (Uid × Val)) (h : resolveAll titles batch = some b) :
    setCellsAddr titles st batch = (setCells st b, true) := by simp [setCellsAddr, h]

theorem runA_accepted (st : ExecState) (ops : List OpA) :
    (runA wb fuel st ops).1 = (run wb fuel st (accepted ops)).1 ∧
      answers (runA wb fuel st ops).2 = (run wb fuel st (accepted ops)).2 := by
  induction ops generalizing st with
  | nil => simp [runA, run, accepted, answers]
  | cons op ops ih =>
    cases op with
    | op o =>
      obtain ⟨i1, i2⟩ := ih (step wb fuel st o).1
      simp only [runA, stepA, run, accepted, answers]
      exact ⟨i1, by rw [i2]⟩
    | rejected =>
      obtain ⟨i1, i2⟩ := ih st
      simp only [runA, stepA, accepted, answers]
      exact ⟨i1, i2⟩

/-- **Rejected calls are invisible** (every history): with any number of rejected set-cells calls anywhere in it, a history
    answers every query exactly as the history without them does - hence (exec_refines) as a fresh evaluation of the workbook
    edited by the ACCEPTED writes, with the grid extents of the used range extended by the accepted overrides only. -/
theorem exec_refines_with_rejected (ops : List OpA) (hv : ValidOps sizes (accepted ops)) :
    answers (runA wb fuel (ExecState.init sizes) ops).2 = specRun (bodyOf wb) fuel sizes [] (accepted ops) := by
  rw [(runA_accepted wb fuel _ ops).2]
  exact exec_refines wb fuel sizes (accepted ops) hv

/-! ### the public API, without a side condition -/

theorem resolveAllIn_sheets (titles : List (List Char)) (n : Nat) (batch : List (Addr × Val)) (b : List (Uid × Val))
    (h : resolveAllIn titles n batch = some b) : ∀ uv ∈ b, uv.1.sheet < n := by
  induction batch generalizing b with
  | nil => simp only [resolveAllIn, Option.some.injEq] at h; subst h; simp
  | cons av rest ih =>
    obtain ⟨a, v⟩ := av
    simp only [resolveAllIn] at h
    cases hr : resolveIn titles n a with
    | none => rw [hr] at h; simp at h
    | some u =>
      cases hb : resolveAllIn titles n rest with
      | none => rw [hr, hb] at h; simp at h
      | some b' =>
        rw [hr, hb] at h
        simp only [Option.some.injEq] at h
        subst h
        intro uv hm
        rcases List.mem_cons.mp hm with rfl | hm'
        · simp only [resolveIn] at hr
          cases hx : resolve titles a with
          | none => rw [hx] at hr; simp at hr
          | some u' =>
            rw [hx] at hr
            simp only at hr
            split at hr
            · simp only [Option.some.injEq] at hr; subst hr; assumption
            · simp at hr
        · exact ih b' hb uv hm'

/-- every write that the executor ACCEPTS lies on a sheet of the workbook: the side condition of `exec_refines` holds for
    every history of API calls -/
theorem compiled_valid (titles : List (List Char)) (calls : List Call) :
    ValidOps sizes (accepted (calls.map (compileCall titles sizes.length))) := by
  induction calls with
  | nil => intro u hu; simp [accepted, allWriteUids] at hu
  | cons c rest ih =>
    intro u hu
    cases c with
    | setCells batch =>
      simp only [List.map_cons, compileCall] at hu
      cases hb : resolveAllIn titles sizes.length batch with
      | none => rw [hb] at hu; simp only [accepted] at hu; exact ih u hu
      | some b =>
        rw [hb] at hu
        simp only [accepted, allWriteUids, List.mem_append, List.mem_map] at hu
        rcases hu with ⟨uv, hm, rfl⟩ | hu
        · exact resolveAllIn_sheets titles sizes.length batch b hb uv hm
        · exact ih u hu
    | get u' => simp only [List.map_cons, compileCall, accepted, allWriteUids] at hu; exact ih u hu
    | gets us => simp only [List.map_cons, compileCall, accepted, allWriteUids] at hu; exact ih u hu
    | sheet s => simp only [List.map_cons, compileCall, accepted, allWriteUids] at hu; exact ih u hu

/-- **C04 for the public API** (every workbook, every list of sheet titles, every history of `set_cells` calls with
    addresses as the caller writes them - resolvable or not, on a sheet of the workbook or not - and of queries): every
    answer is what a fresh evaluation reports for the workbook edited by the ACCEPTED writes.  No side condition is left. -/
theorem exec_refines_calls (titles : List (List Char)) (calls : List Call) :
    answers (runA wb fuel (ExecState.init sizes) (calls.map (compileCall titles sizes.length))).2 =
      specRun (bodyOf wb) fuel sizes [] (accepted (calls.map (compileCall titles sizes.length))) :=
  exec_refines_with_rejected wb fuel sizes _ (compiled_valid sizes titles calls)

/-- non-vacuity: a sheet number the workbook does not have rejects the batch -/
example : compileCall ["S".toList] 1 (.setCells [(.num 0 5 7, .int 9), (.num 9 0 0, .int 2)]) matches .rejected := by decide

/-- non-vacuity: an unknown title rejects the batch whatever stands before it -/
example : setCellsAddr ["S".toList] (ExecState.init [(2, 2)]) [(.num 0 5 7, .int 9), (.named "nope".toList 0 0, .int 2)] =
    (ExecState.init [(2, 2)], false) :=
  rejected_batch_changes_nothing _ _ _ ⟨(.named "nope".toList 0 0, .int 2), by simp, by decide⟩

/-! ### non-vacuity: A1 = 1, B1 = A1+1, C1 = B1*2, B2 = 1/0, C2 = B2+1; override A1 twice, then the failing B2 -/
private def u (c r : Nat) : Uid := ⟨0, c, r⟩
private def wbEx : Workbook :=
  [((u 0 0).code, .lit (.int 1)), ((u 1 0).code, .add (.ref (u 0 0).code) (.lit (.int 1))),
   ((u 2 0).code, .mul (.ref (u 1 0).code) (.lit (.int 2))), ((u 1 1).code, .div (.lit (.int 1)) (.lit (.int 0))),
   ((u 2 1).code, .add (.ref (u 1 1).code) (.lit (.int 1)))]
private def hist : List Op :=
  [.get (u 2 0), .set [(u 0 0, .int 10)], .set [(u 0 0, .int 30)], .get (u 2 0), .get (u 2 1), .set [(u 1 1, .int 5), (⟨0, 4, 6⟩, .int 7)],
   .gets [u 2 1, u 1 1, ⟨0, 4, 6⟩]]
private def outCode : Out → List (Option Int)
  | .unit => [] | .val (.ok (.int z)) => [some z] | .val _ => [none]
  | .vals rs => rs.map fun r => match r with | .ok (.int z) => some z | _ => none
  | .grid _ => []
example : ((run wbEx 50 (ExecState.init [(3, 2)]) hist).2.map outCode) =
    [[some 4], [], [], [some 62], [none], [], [some 6, some 5, some 7]] := by decide +kernel
example : ValidOps [(3, 2)] hist := by
  intro u hu; simp [hist, allWriteUids, E2P.C04.u] at hu; rcases hu with rfl | rfl | rfl | rfl <;> decide

end E2P.C04
