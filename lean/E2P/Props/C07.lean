/-
  Property C07 — workbook text never becomes executable code.

  Every place where workbook text (constant cells, text literals and wildcard literals of formulas, sheet titles)
  enters the generated module goes through `repr()` (after the repairs recorded in known_findings.txt).  The theorem
  below says that what `repr` writes lexes as exactly ONE string literal denoting exactly the original text, whatever
  characters it contains — so the text can only appear as inert string data.
-/
import E2P.Model.Quote
import Mathlib.Data.List.Basic
namespace E2P.C07
open E2P

theorem hex_roundtrip : ∀ n < 16, hexVal (hexDigit n) = some n := by decide

theorem reprQuote_is_quote (s : List Char) : reprQuote s = '\'' ∨ reprQuote s = '"' := by
  unfold reprQuote; split <;> simp

/-- decoding the escape of one character yields that character and continues with the rest -/
theorem unescape_escChar (q : Char) (hq : q = '\'' ∨ q = '"') (c : Char) (fuel : Nat) (tail : List Char) :
    unescape q (fuel + 1) (escChar q c ++ tail) = (unescape q fuel tail).map fun (v, rest) => (c :: v, rest) := by
  have q1 : q ≠ '\\' := by rcases hq with rfl | rfl <;> decide
  have q2 : q ≠ '\n' := by rcases hq with rfl | rfl <;> decide
  unfold escChar
  by_cases h1 : c = '\\'
  · subst h1
    simp only [↓reduceIte, List.cons_append, List.nil_append, unescape]
    have : ¬ ('\\' = q) := fun e => q1 e.symm
    simp [this]
  · simp only [h1, ↓reduceIte]
    by_cases h2 : c = q
    · subst h2
      simp only [↓reduceIte, List.cons_append, List.nil_append, unescape]
      have e1 : ¬ ('\\' = c) := fun e => q1 e.symm
      simp only [e1, ↓reduceIte]
      rcases hq with rfl | rfl <;> simp
    · simp only [h2, ↓reduceIte]
      by_cases h3 : c = '\n'
      · subst h3
        simp only [↓reduceIte, List.cons_append, List.nil_append, unescape]
        have e1 : ¬ ('\\' = q) := fun e => q1 e.symm
        simp [e1]
      · simp only [h3, ↓reduceIte]
        by_cases h4 : c = '\r'
        · subst h4
          simp only [↓reduceIte, List.cons_append, List.nil_append, unescape]
          have e1 : ¬ ('\\' = q) := fun e => q1 e.symm
          simp [e1]
        · simp only [h4, ↓reduceIte]
          by_cases h5 : c = '\t'
          · subst h5
            simp only [↓reduceIte, List.cons_append, List.nil_append, unescape]
            have e1 : ¬ ('\\' = q) := fun e => q1 e.symm
            simp [e1]
          · simp only [h5, ↓reduceIte]
            by_cases h6 : c.toNat < 32 ∨ c.toNat = 127
            · simp only [h6, ↓reduceIte, List.cons_append, List.nil_append, unescape]
              have e1 : ¬ ('\\' = q) := fun e => q1 e.symm
              have hlt : c.toNat < 128 := by rcases h6 with h | h <;> omega
              have ha := hex_roundtrip (c.toNat / 16) (by omega)
              have hb := hex_roundtrip (c.toNat % 16) (by omega)
              have hc : Char.ofNat (c.toNat / 16 * 16 + c.toNat % 16) = c := by
                rw [Nat.div_add_mod']; exact Char.ofNat_toNat c
              simp [e1, ha, hb, hc]
            · simp only [h6, ↓reduceIte, List.cons_append, List.nil_append, unescape, h2, h3, h1]

theorem unescape_flatMap (q : Char) (hq : q = '\'' ∨ q = '"') (s : List Char) (fuel : Nat) (tail : List Char)
    (hf : s.length < fuel) : unescape q fuel (s.flatMap (escChar q) ++ q :: tail) = some (s, tail) := by
  induction s generalizing fuel with
  | nil =>
    obtain ⟨f, rfl⟩ : ∃ f, fuel = f + 1 := ⟨fuel - 1, by omega⟩
    simp [unescape]
  | cons c s ih =>
    obtain ⟨f, rfl⟩ : ∃ f, fuel = f + 1 := ⟨fuel - 1, by omega⟩
    simp only [List.flatMap_cons, List.append_assoc]
    rw [unescape_escChar q hq c f, ih f (by simp at hf; omega)]
    rfl

theorem escChar_length (q c : Char) : 1 ≤ (escChar q c).length := by
  unfold escChar; (repeat' split) <;> simp

theorem flatMap_length_ge (q : Char) (s : List Char) : s.length ≤ (s.flatMap (escChar q)).length := by
  induction s with
  | nil => simp
  | cons c s ih => simp only [List.flatMap_cons, List.length_append, List.length_cons]; have := escChar_length q c; omega

/-- **`repr` round trip**: for every text `s` and whatever follows it in the module, the characters `repr(s)` writes lex
    as exactly one string literal whose value is `s`, and lexing resumes right after it. -/
theorem quote_roundtrip (s rest : List Char) : pyStringLiteral? (pyRepr s ++ rest) = some (s, rest) := by
  have hq := reprQuote_is_quote s
  unfold pyRepr pyStringLiteral?
  simp only [List.cons_append, List.append_assoc, List.singleton_append]
  rw [if_pos hq]
  apply unescape_flatMap _ hq
  have := flatMap_length_ge (reprQuote s) s
  simp only [List.length_append, List.length_cons]
  omega

/-- the literal ends exactly where `repr` ended it: nothing of the text can close the quote early or leak past it -/
theorem literal_is_one_token (s rest : List Char) :
    (pyStringLiteral? (pyRepr s ++ rest)).map (·.2) = some rest := by
  rw [quote_roundtrip]; rfl

/-! ### non-vacuity: injection attempts stay data -/
example : pyStringLiteral? (pyRepr "'+__import__('os').system('x')+'".toList ++ " + 1".toList)
    = some ("'+__import__('os').system('x')+'".toList, " + 1".toList) := by decide +kernel
example : pyStringLiteral? (pyRepr "a\\".toList) = some ("a\\".toList, []) := by decide +kernel
example : pyRepr "it's".toList = "\"it's\"".toList ∧ pyRepr "say \"hi\"".toList = "'say \"hi\"'".toList ∧
    pyRepr "both ' and \"\n".toList = "'both \\' and \"\\n'".toList := by decide +kernel

end E2P.C07
