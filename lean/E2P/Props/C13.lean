/-
  Property C13 — IF / IFS / IFERROR choose the right branch and contain errors.

  `evalPy errs env (translateX e)` is what the generated class computes for the formula `e` (model of the three
  translators + `_ifs` / `_iferror` / `_find_error_in_list`, tied to the code by the correspondence check);
  `evalX env e` is what the property demands (lazy, first-true, error-containing).  The list of error values the
  runtime scans is *extracted from the working tree* (Generated.RuntimeConsts), so the theorems below are re-checked
  against what the code says now.
-/
import E2P.Model.Branch
import E2P.Spec.BranchSpec
import E2P.Generated.RuntimeConsts
namespace E2P.C13
open E2P

/-- the error list of the rendered class template, as code points -/
def errsTemplate : List (List Char) := E2P.Generated.errorValuesTemplate.map String.toList
/-- the error list of the importable abstract class -/
def errsAbstract : List (List Char) := E2P.Generated.errorValuesAbstract.map String.toList

/-- Every one of the seven Excel error values is in the list the generated runtime scans, and nothing else is. -/
theorem excel_errors_covered_template :
    (∀ e ∈ excelErrors, e ∈ errsTemplate) ∧ (∀ e ∈ errsTemplate, e ∈ excelErrors) := by
  decide

theorem excel_errors_covered_abstract :
    (∀ e ∈ excelErrors, e ∈ errsAbstract) ∧ (∀ e ∈ errsAbstract, e ∈ excelErrors) := by
  decide

theorem isErrVal_congr (errs : List (List Char))
    (h : (∀ e ∈ excelErrors, e ∈ errs) ∧ (∀ e ∈ errs, e ∈ excelErrors)) (v : Val) :
    isErrVal errs v = isErrVal excelErrors v := by
  cases v <;> simp [isErrVal]
  rename_i s
  by_cases hs : s ∈ errs
  · simp [hs, h.2 s hs]
  · have : s ∉ excelErrors := fun h' => hs (h.1 s h')
    simp [hs, this]

section
variable (errs : List (List Char)) (env : Nat → Res)
variable (herr : ∀ v, isErrVal errs v = isErrVal excelErrors v)
include herr

/-- Main theorem: for every formula of the fragment (any nesting depth, any position), the emitted Python
    expression evaluates to the value the property demands — provided the runtime's error list is the Excel one. -/
theorem translate_correct_aux : ∀ e : XExpr, wellFormed e = true →
    evalPy errs env (translateX e) = evalX env e ∧
    evalIfs errs env (translateX.ifsTail e) = (match e with | .ifsCons .. => evalX env e | _ => .ok errNA)
  | .lit v, _ => by simp [translateX, translateX.ifsTail, evalPy, evalIfs, evalX]
  | .ref i, _ => by simp [translateX, translateX.ifsTail, evalPy, evalIfs, evalX]
  | .div a b, hw => by
      simp only [wellFormed, Bool.and_eq_true] at hw
      have ha := (translate_correct_aux a hw.1.1.1).1; have hb := (translate_correct_aux b hw.1.1.2).1
      simp only [translateX, translateX.ifsTail, evalPy, evalIfs, evalX, ha, hb, strict2, opDiv, and_true]
      cases evalX env a <;> cases evalX env b <;> rfl
  | .add a b, hw => by
      simp only [wellFormed, Bool.and_eq_true] at hw
      have ha := (translate_correct_aux a hw.1.1.1).1; have hb := (translate_correct_aux b hw.1.1.2).1
      simp only [translateX, translateX.ifsTail, evalPy, evalIfs, evalX, ha, hb, strict2, opAdd, and_true]
      cases evalX env a <;> cases evalX env b <;> rfl
  | .mul a b, hw => by
      simp only [wellFormed, Bool.and_eq_true] at hw
      have ha := (translate_correct_aux a hw.1.1.1).1; have hb := (translate_correct_aux b hw.1.1.2).1
      simp only [translateX, translateX.ifsTail, evalPy, evalIfs, evalX, ha, hb, strict2, opMul, and_true]
      cases evalX env a <;> cases evalX env b <;> rfl
  | .cat a b, hw => by
      simp only [wellFormed, Bool.and_eq_true] at hw
      have ha := (translate_correct_aux a hw.1.1.1).1; have hb := (translate_correct_aux b hw.1.1.2).1
      simp only [translateX, translateX.ifsTail, evalPy, evalIfs, evalX, ha, hb, strict2, opCat, and_true]
      cases evalX env a <;> cases evalX env b <;> rfl
  | .eq a b, hw => by
      simp only [wellFormed, Bool.and_eq_true] at hw
      have ha := (translate_correct_aux a hw.1.1.1).1; have hb := (translate_correct_aux b hw.1.1.2).1
      simp only [translateX, translateX.ifsTail, evalPy, evalIfs, evalX, ha, hb, strict2, opEq, and_true]
      cases evalX env a <;> cases evalX env b <;> rfl
  | .sum2 a b, hw => by
      simp only [wellFormed, Bool.and_eq_true] at hw
      have ha := (translate_correct_aux a hw.1.1.1).1; have hb := (translate_correct_aux b hw.1.1.2).1
      simp only [translateX, translateX.ifsTail, evalPy, evalIfs, evalX, ha, hb, strict2, opSum, and_true]
      cases evalX env a <;> cases evalX env b <;> rfl
  | .left a b, hw => by
      simp only [wellFormed, Bool.and_eq_true] at hw
      have ha := (translate_correct_aux a hw.1.1.1).1; have hb := (translate_correct_aux b hw.1.1.2).1
      simp only [translateX, translateX.ifsTail, evalPy, evalIfs, evalX, ha, hb, strict2, opLeft, and_true]
      cases evalX env a <;> cases evalX env b <;> rfl
  | .if2 c t, hw => by
      simp only [wellFormed, Bool.and_eq_true] at hw
      have hc := (translate_correct_aux c hw.1.1.1).1; have ht := (translate_correct_aux t hw.1.1.2).1
      simp only [translateX, translateX.ifsTail, evalPy, evalIfs, evalX, hc, ht, and_true]
      cases evalX env c <;> simp [bind, Except.bind]
  | .if3 c t f, hw => by
      simp only [wellFormed, Bool.and_eq_true] at hw
      have hc := (translate_correct_aux c hw.1.1.1.1.1).1; have ht := (translate_correct_aux t hw.1.1.1.1.2).1
      have hf := (translate_correct_aux f hw.1.1.1.2).1
      simp only [translateX, translateX.ifsTail, evalPy, evalIfs, evalX, hc, ht, hf, and_true]
      cases evalX env c <;> simp [bind, Except.bind]
  | .ifsNil, _ => by simp [translateX, translateX.ifsTail, evalPy, evalIfs, evalX]
  | .ifsCons c v rest, hw => by
      simp only [wellFormed, Bool.and_eq_true] at hw
      have hc := (translate_correct_aux c hw.1.1.1.1.1).1; have hv := (translate_correct_aux v hw.1.1.1.1.2).1
      have hr := (translate_correct_aux rest hw.1.2).2
      have hchain := hw.2
      have key : evalIfs errs env (.cons (translateX c) (.cons (translateX v) (translateX.ifsTail rest)))
          = evalX env (.ifsCons c v rest) := by
        simp only [evalIfs, evalX, hc, hv, herr]
        cases hcv : evalX env c with
        | error e => simp [bind, Except.bind]
        | ok cv =>
          simp only [bind, Except.bind]
          by_cases h1 : isErrVal excelErrors cv = true
          · simp [h1]
          · simp only [h1]
            by_cases h2 : truthy cv = true
            · simp [h2]
            · simp only [h2]
              cases rest with
              | ifsCons c' v' r' =>
                simp only [translateX.ifsTail] at hr ⊢
                simpa using hr
              | ifsNil => simp [translateX.ifsTail, evalX, evalIfs]
              | _ => simp [wellFormed.isChain] at hchain
      exact ⟨by simpa [translateX, evalPy] using key, by simpa [translateX.ifsTail] using key⟩
  | .iferror a b, hw => by
      simp only [wellFormed, Bool.and_eq_true] at hw
      have ha := (translate_correct_aux a hw.1.1.1).1; have hb := (translate_correct_aux b hw.1.1.2).1
      simp only [translateX, translateX.ifsTail, evalPy, evalIfs, evalX, ha, hb, herr, and_true]
      cases evalX env a with
      | ok v => rfl
      | error e => cases e <;> rfl

end

/-- **C13, full strength.**  With the error list extracted from the rendered class template: every well-formed formula
    of the fragment, at any nesting depth, evaluates in the generated class to the value the property demands. -/
theorem C13_main (env : Nat → Res) (e : XExpr) (hw : wellFormed e = true) :
    evalPy errsTemplate env (translateX e) = evalX env e :=
  (translate_correct_aux errsTemplate env (isErrVal_congr _ excel_errors_covered_template) e hw).1

/-- the same for a hand-written subclass of the importable abstract class -/
theorem C13_main_abstract (env : Nat → Res) (e : XExpr) (hw : wellFormed e = true) :
    evalPy errsAbstract env (translateX e) = evalX env e :=
  (translate_correct_aux errsAbstract env (isErrVal_congr _ excel_errors_covered_abstract) e hw).1

/-! ### The clauses of the property, read off the specification `evalX` (what C13_main transfers to the code) -/

/-- IF evaluates its condition and then only the chosen branch -/
theorem if_lazy (env : Nat → Res) (c t f : XExpr) (cv : Val) (hc : evalX env c = .ok cv) :
    evalX env (.if3 c t f) = if truthy cv then evalX env t else evalX env f := by
  simp [evalX, hc]

/-- … the unchosen branch may fail without consequence -/
theorem if_unchosen_branch_irrelevant (env : Nat → Res) (c t f f' : XExpr) (cv : Val)
    (hc : evalX env c = .ok cv) (ht : truthy cv = true) :
    evalX env (.if3 c t f) = evalX env (.if3 c t f') := by
  simp [evalX, hc, ht]

/-- an omitted else-branch is FALSE -/
theorem if_omitted_else (env : Nat → Res) (c t : XExpr) (cv : Val) (hc : evalX env c = .ok cv)
    (hf : truthy cv = false) : evalX env (.if2 c t) = .ok (.bool false) := by
  simp [evalX, hc, hf]

/-- the argument list of an IFS as (condition, value) pairs -/
def ifsOf : List (XExpr × XExpr) → XExpr
  | [] => .ifsNil
  | (c, v) :: ps => .ifsCons c v (ifsOf ps)

theorem ifsOf_wellFormed (ps : List (XExpr × XExpr))
    (h : ∀ p ∈ ps, wellFormed p.1 = true ∧ wellFormed p.2 = true ∧
      wellFormed.isNil p.1 = false ∧ wellFormed.isNil p.2 = false) :
    wellFormed (ifsOf ps) = true ∧ wellFormed.isChain (ifsOf ps) = true := by
  induction ps with
  | nil => simp [ifsOf, wellFormed, wellFormed.isChain]
  | cons p ps ih =>
    obtain ⟨c, v⟩ := p
    have hp := h (c, v) (by simp)
    have := ih (fun q hq => h q (by simp [hq]))
    have hchain : wellFormed.isChain (ifsOf ps) = true := this.2
    simp [ifsOf, wellFormed, hp.1, hp.2.1, hp.2.2.1, hp.2.2.2, this.1, hchain]
    simp [wellFormed.isChain]

/-- IFS returns the value paired with the first true condition: all earlier conditions evaluated to false
    (non-error) values, the k-th is true; later pairs are never looked at -/
theorem ifs_first_true (env : Nat → Res) (pre post : List (XExpr × XExpr)) (c v : XExpr) (cv : Val)
    (hpre : ∀ p ∈ pre, ∃ pv, evalX env p.1 = .ok pv ∧ truthy pv = false ∧ isErrVal excelErrors pv = false)
    (hc : evalX env c = .ok cv) (ht : truthy cv = true) (he : isErrVal excelErrors cv = false) :
    evalX env (ifsOf (pre ++ (c, v) :: post)) = evalX env v := by
  induction pre with
  | nil => simp [ifsOf, evalX, hc, ht, he]
  | cons p pre ih =>
    obtain ⟨pc, pv'⟩ := p
    obtain ⟨pv, h1, h2, h3⟩ := hpre (pc, pv') (by simp)
    have := ih (fun q hq => hpre q (by simp [hq]))
    simp [ifsOf, evalX, h1, h2, h3, this]

/-- IFS with no true condition is #N/A -/
theorem ifs_none_na (env : Nat → Res) (ps : List (XExpr × XExpr))
    (h : ∀ p ∈ ps, ∃ pv, evalX env p.1 = .ok pv ∧ truthy pv = false ∧ isErrVal excelErrors pv = false) :
    evalX env (ifsOf ps) = .ok errNA := by
  induction ps with
  | nil => simp [ifsOf, evalX]
  | cons p ps ih =>
    obtain ⟨pc, pv'⟩ := p
    obtain ⟨pv, h1, h2, h3⟩ := h (pc, pv') (by simp)
    have := ih (fun q hq => h q (by simp [hq]))
    simp [ifsOf, evalX, h1, h2, h3, this]

/-- IFERROR: the first argument's value when it is not an error value … -/
theorem iferror_value (env : Nat → Res) (a b : XExpr) (v : Val) (ha : evalX env a = .ok v)
    (hv : isErrVal excelErrors v = false) : evalX env (.iferror a b) = .ok v := by
  simp [evalX, ha, hv]

/-- … the fallback when it is one of the seven Excel error values … -/
theorem iferror_errval (env : Nat → Res) (a b : XExpr) (s : List Char) (ha : evalX env a = .ok (.str s))
    (hs : s ∈ excelErrors) : evalX env (.iferror a b) = evalX env b := by
  have : isErrVal excelErrors (.str s) = true := by simpa [isErrVal] using hs
  simp [evalX, ha, this]

/-- … and the fallback when its evaluation fails (any modelled exception) -/
theorem iferror_failure (env : Nat → Res) (a b : XExpr) (e : PyExc) (ha : evalX env a = .error e)
    (he : e ≠ .unmodelled) : evalX env (.iferror a b) = evalX env b := by
  cases e <;> simp_all [evalX]

/-- the fallback is not evaluated when it is not needed: a failing fallback does not matter -/
theorem iferror_fallback_lazy (env : Nat → Res) (a b b' : XExpr) (v : Val) (ha : evalX env a = .ok v)
    (hv : isErrVal excelErrors v = false) : evalX env (.iferror a b) = evalX env (.iferror a b') := by
  simp [evalX, ha, hv]

/-! ### Non-vacuity: concrete formulas that meet the hypotheses, evaluated through the *model of the code* -/

private def envEx : Nat → Res
  | 0 => .ok (.int 1) | 1 => .ok (.int 0) | 2 => .error .zeroDiv | 3 => .ok (.str "#NULL!".toList) | _ => .ok .blank

/-- =IFERROR(5,1/0) is 5;  =IFS(A1,1,A2,1/0) is 1;  =IFS(A2,1/0,A1,7) is 7;  =IFERROR(A4,9) with A4 = #NULL! is 9;
    =1+IF(A2,1/0,IFERROR(A3,2)) is 3 -/
example :
    evalPy errsTemplate envEx (translateX (.iferror (.lit (.int 5)) (.div (.lit (.int 1)) (.lit (.int 0))))) = .ok (.int 5) ∧
    evalPy errsTemplate envEx (translateX (ifsOf [(.ref 0, .lit (.int 1)), (.ref 1, .div (.lit (.int 1)) (.lit (.int 0)))])) = .ok (.int 1) ∧
    evalPy errsTemplate envEx (translateX (ifsOf [(.ref 1, .div (.lit (.int 1)) (.lit (.int 0))), (.ref 0, .lit (.int 7))])) = .ok (.int 7) ∧
    evalPy errsTemplate envEx (translateX (.iferror (.ref 3) (.lit (.int 9)))) = .ok (.int 9) ∧
    evalPy errsTemplate envEx (translateX (.add (.lit (.int 1))
      (.if3 (.ref 1) (.div (.lit (.int 1)) (.lit (.int 0))) (.iferror (.ref 2) (.lit (.int 2)))))) = .ok (.int 3) :=
  ⟨rfl, rfl, rfl, rfl, rfl⟩

example : wellFormed (.add (.lit (.int 1))
    (.if3 (.ref 1) (.div (.lit (.int 1)) (.lit (.int 0))) (.iferror (.ref 2) (.lit (.int 2))))) = true := by decide

end E2P.C13
