import E2P.Model.Branch
import E2P.Spec.BranchSpec
import E2P.Generated.RuntimeConsts
namespace E2P.C13
open E2P
theorem placeholder : True := trivial
end E2P.C13
