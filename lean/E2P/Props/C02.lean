/-
  Property C02 — every reference form denotes exactly the intended cells of the intended sheet.
-/
import E2P.Model.Refs
import E2P.Lemmas.LookupCols
import Mathlib.Data.List.Basic
import Mathlib.Data.List.Nodup
import E2P.Props.C14
import E2P.Lemmas.LexSpell
import E2P.Generated.Grammar
namespace E2P.C02
open E2P

/-! ### areas: exactly the coordinates of the rectangle, each once, row-major -/

theorem matrix_rows (book : List SheetData) (s c1 r1 c2 r2 : Nat) :
    (getMatrix book s c1 r1 c2 r2).length = r2 + 1 - r1 := by simp [getMatrix]

theorem matrix_entry (book : List SheetData) (s c1 r1 c2 r2 i j : Nat) (hi : i < r2 + 1 - r1) (hj : j < c2 + 1 - c1) :
    ((getMatrix book s c1 r1 c2 r2)[i]?.bind (·[j]?)) = some (fetch book s (c1 + j) (r1 + i)) := by
  simp [getMatrix, List.getElem?_map, List.getElem?_range', hi, hj]

theorem matrix_row_length (book : List SheetData) (s c1 r1 c2 r2 : Nat) :
    ∀ row ∈ getMatrix book s c1 r1 c2 r2, row.length = c2 + 1 - c1 := by
  intro row h; simp only [getMatrix, List.mem_map] at h; obtain ⟨r, _, rfl⟩ := h; simp

/-- row-major: the flattened area is the coordinates (c, r), r1 ≤ r ≤ r2 outer, c1 ≤ c ≤ c2 inner, each exactly once -/
theorem matrix_flatten (book : List SheetData) (s c1 r1 c2 r2 : Nat) :
    (getMatrix book s c1 r1 c2 r2).flatten =
      ((List.range' r1 (r2 + 1 - r1)).flatMap fun r => (List.range' c1 (c2 + 1 - c1)).map fun c => (c, r)).map
        fun cr => fetch book s cr.1 cr.2 := by
  simp [getMatrix, List.flatMap, List.map_flatten, List.map_map, Function.comp_def]

theorem coordinates_nodup (c1 r1 w h : Nat) :
    ((List.range' r1 h).flatMap fun r => (List.range' c1 w).map fun c => (c, r)).Nodup := by
  rw [List.nodup_flatMap]
  refine ⟨fun r _ => List.Nodup.map (fun a b e => by simpa using congrArg Prod.fst e) List.nodup_range', ?_⟩
  apply (List.nodup_range' (step := 1)).pairwise_of_forall_ne
  intro a _ b _ hab
  simp only [Function.onFun, List.disjoint_left, List.mem_map, not_exists, not_and, forall_exists_index, and_imp]
  rintro ⟨x, y⟩ c _ e1 d _ e2
  have h1 := congrArg Prod.snd e1; have h2 := congrArg Prod.snd e2
  simp only at h1 h2
  exact hab (h1.trans h2.symm)

/-- a cell inside the read data is the stored value; blank or never-written cells inside the area, and cells beyond the
    used range, read as blank -/
theorem fetch_spec (book : List SheetData) (s c r : Nat) (sheet : SheetData) (row : List Val)
    (hs : book[s]? = some sheet) (hr : sheet[r]? = some row) :
    fetch book s c r = (row[c]?).getD .blank := by
  simp only [fetch, hs, hr]; cases row[c]? <;> rfl

theorem fetch_outside (book : List SheetData) (s c r : Nat)
    (h : book[s]? = none ∨ (∃ sheet, book[s]? = some sheet ∧ sheet[r]? = none)) : fetch book s c r = .blank := by
  rcases h with h | ⟨sheet, h1, h2⟩ <;> simp [fetch, *]

/-- a whole-column area spans every row of the read sheet and the requested columns, row-major -/
theorem whole_columns_rows (book : List SheetData) (s c1 c2 : Nat) (sheet : SheetData) (hs : book[s]? = some sheet)
    (hne : sheet ≠ []) : (wholeColumns book s c1 c2).length = sheet.length := by
  have : 0 < sheet.length := List.length_pos_iff.2 hne
  simp [wholeColumns, matrix_rows, hs]; omega

/-! ### sheets -/

theorem own_sheet_default (titles : List (List Char)) (own : Nat) : resolveSheet titles own none = some own := rfl

/-- a title that does not exist is rejected — never resolved to some other sheet -/
theorem unknown_title_rejected (titles : List (List Char)) (own : Nat) (t : List Char) (h : t ∉ titles) :
    resolveSheet titles own (some t) = none := by
  simpa [resolveSheet, List.idxOf?_eq_none_iff] using h

theorem known_title_resolves (titles : List (List Char)) (own : Nat) (t : List Char) (i : Nat)
    (h : resolveSheet titles own (some t) = some i) : titles[i]? = some t := by
  simp only [resolveSheet] at h
  induction titles generalizing i with
  | nil => simp [List.idxOf?] at h
  | cons x xs ih =>
    by_cases e : x = t
    · subst e
      simp [List.idxOf?, List.findIdx?_cons] at h; subst h; rfl
    · have hne : (x == t) = false := by simpa using e
      simp only [List.idxOf?, List.findIdx?_cons, hne, Bool.false_eq_true, ↓reduceIte, Option.map_eq_some_iff] at h
      obtain ⟨j, hj, rfl⟩ := h
      simpa using ih j (by simpa [List.idxOf?] using hj)

theorem unquote_cons_ne (c : Char) (rest : List Char) (h : c ≠ '\'') : unquoteTitle (c :: rest) = c :: unquoteTitle rest := by
  cases rest with
  | nil => simp [unquoteTitle]
  | cons d ds => rw [unquoteTitle]; intro cs e1 _; exact h e1

/-- quoting then unquoting a title gives the title back, whatever characters it contains -/
theorem unquote_quote (t : List Char) : unquoteTitle (quoteTitle t) = t := by
  induction t with
  | nil => rfl
  | cons c cs ih =>
    by_cases h : c = '\''
    · subst h; simp [quoteTitle, unquoteTitle, ih]
    · simp only [quoteTitle, h, ↓reduceIte]
      rw [unquote_cons_ne c _ h, ih]

/-! ### columns: letters ↔ numbers for every column -/

theorem col_roundtrip (n : Nat) : colIndex (colLetters n) = n := E2P.C14.col_roundtrip n
theorem col_roundtrip_letters (s : List Char) (hs : s.all isUpper = true) : colLetters (colIndex s) = s :=
  E2P.C14.col_roundtrip_letters s hs

/-! ### uids: distinct coordinates have distinct method names -/

theorem split_underscore (a b x y : List Char) (ha : '_' ∉ a) (hb : '_' ∉ b) (h : a ++ '_' :: x = b ++ '_' :: y) :
    a = b ∧ x = y := by
  induction a generalizing b with
  | nil =>
    cases b with
    | nil => simpa using h
    | cons c cs =>
      simp only [List.nil_append, List.cons_append, List.cons.injEq] at h
      exact absurd (h.1 ▸ List.mem_cons_self) hb
  | cons c cs ih =>
    cases b with
    | nil =>
      simp only [List.nil_append, List.cons_append, List.cons.injEq] at h
      exact absurd (h.1 ▸ List.mem_cons_self) ha
    | cons d ds =>
      simp only [List.cons_append, List.cons.injEq] at h
      obtain ⟨h1, h2⟩ := ih ds (fun m => ha (List.mem_cons_of_mem _ m)) (fun m => hb (List.mem_cons_of_mem _ m)) h.2
      exact ⟨by rw [h.1, h1], h2⟩

theorem toDigits_inj (m n : Nat) (h : Nat.toDigits 10 m = Nat.toDigits 10 n) : m = n := by
  rw [← Nat.ofDigitChars_ten_toDigits (n := m), ← Nat.ofDigitChars_ten_toDigits (n := n), h]

theorem uid_injective (s c r s' c' r' : Nat) (h : uidText s c r = uidText s' c' r') : s = s' ∧ c = c' ∧ r = r' := by
  unfold uidText at h
  simp only [List.cons.injEq, true_and] at h
  obtain ⟨h1, h2⟩ := split_underscore _ _ _ _ Nat.underscore_not_in_toDigits Nat.underscore_not_in_toDigits h
  obtain ⟨h3, h4⟩ := split_underscore _ _ _ _ Nat.underscore_not_in_toDigits Nat.underscore_not_in_toDigits h2
  exact ⟨toDigits_inj _ _ h1, toDigits_inj _ _ h3, toDigits_inj _ _ h4⟩

/-! ### non-vacuity -/
example : getMatrix [[[.int 11, .int 12, .int 13], [.int 21, .int 22]]] 0 1 0 2 2 =
    [[.int 12, .int 13], [.int 22, .blank], [.blank, .blank]] := by rfl
example : unquoteTitle "it''s".toList = "it's".toList ∧ quoteTitle "it's".toList = "it''s".toList := by decide +kernel

/-! ### every way of writing a reference is read back as written (the regex scanners of the lexer) -/

open E2P.Lex in
/-- **A cell reference is read back as written**: for every prefix form (none, `Title!`, `'Ti''tle'!` with any characters in a quoted
    title), every combination of `$` markers, every non-empty run of upper-case column letters and every non-empty run of row
    digits, followed by anything the token's lookahead admits, the scanner of `CellIdentifierToken` returns that title (the formula's
    own sheet without a prefix), those letters, those digits, and leaves exactly the rest. -/
theorem cell_reference_read_back (p : Prefix) (hp : p.wf) (ac ar : Bool) (col row rest : List Char)
    (hc : col ≠ []) (hcu : ∀ x ∈ col, isUp x = true) (hr : row ≠ []) (hrd : ∀ x ∈ row, isDigit x = true)
    (hrest : cellRestOk rest = true) (hf : p = .own → BareFollow rest) :
    cellTok (spellCell p ac col ar row ++ rest) = some (⟨p.title, col, row⟩, rest) :=
  cellTok_spell p hp ac ar col row rest hc hcu hr hrd hrest hf

open E2P.Lex in
/-- **An area is read back as written**: rectangles, row and column ranges, whole-column areas (a corner without row digits), any
    prefix form and `$` markers; the scanner of `MatrixOfCellIdentifiersToken` returns both corners on the named sheet. -/
theorem area_reference_read_back (p : Prefix) (hp : p.wf) (ac1 ar1 ac2 ar2 : Bool) (col1 col2 : List Char) (row1 row2 : Option (List Char))
    (rest : List Char) (hc1 : col1 ≠ []) (hu1 : ∀ x ∈ col1, isUp x = true) (hc2 : col2 ≠ []) (hu2 : ∀ x ∈ col2, isUp x = true)
    (hw1 : RowWf row1) (hw2 : RowWf row2) (hf : AreaFollow rest) :
    matrixTok (spellArea p ac1 col1 ar1 row1 ac2 col2 ar2 row2 ++ rest) =
      some ((⟨p.title, col1, row1.getD []⟩, ⟨p.title, col2, row2.getD []⟩), rest) :=
  matrixTok_spell p hp ac1 ar1 ac2 ar2 col1 col2 row1 row2 rest hc1 hu1 hc2 hu2 hw1 hw2 hf

/-- the letters of every column number qualify as column letters of a spelling (so the two theorems above cover columns A..XFD and beyond) -/
theorem column_letters_qualify (n : Nat) (h : 1 ≤ n) : colLetters n ≠ [] ∧ ∀ x ∈ colLetters n, Lex.isUp x = true := by
  refine ⟨E2P.C14.col_letters_ne_nil n h, ?_⟩
  intro x hx
  have := E2P.C14.col_letters_upper n
  rw [List.all_eq_true] at this
  exact this x hx

/-- the scanners these theorems are about are the ones of this run: the regex sources of the three reference tokens in the
    repository are the ones the scanners were written for (regenerated table) -/
theorem reference_regexes_pinned :
    (Lex.pinned.take 3).all (fun e => E2P.Generated.lexerRegexes.contains e) = true := by decide +kernel

/-- non-vacuity: `'it''s'!$AB$12` followed by `+1`, and the whole-column area `Data!A:$C` followed by `)` -/
example : Lex.cellTok "'it''s'!$AB$12+1".toList = some (⟨some "it's".toList, "AB".toList, "12".toList⟩, "+1".toList) := by decide +kernel
example : Lex.matrixTok "Data!A:$C)".toList = some ((⟨some "Data".toList, ['A'], []⟩, ⟨some "Data".toList, ['C'], []⟩), [')']) := by decide +kernel
example : Lex.spellCell (.quoted "it's".toList) true "AB".toList true "12".toList = "'it''s'!$AB$12".toList := by decide +kernel

end E2P.C02
