/-
  Property C18 — the workbook is read at true coordinates, with true types and sizes.
  The repository's own logic here is an enumeration; the theorems are correspondingly thin and the assurance is mostly
  the correspondence check (sparse layouts × every value type through a real .xlsx file).
-/
import E2P.Model.Read
import E2P.Props.C07
import Mathlib.Data.List.Basic
import Mathlib.Data.List.Nodup
namespace E2P.C18
open E2P

/-- every cell is seen at the coordinates at which openpyxl yielded it, with the value it yielded (a cell without value
    is blank) -/
theorem read_coords (book : List (List (List (Option Val)))) (s c r : Nat) (rows : List (List (Option Val)))
    (row : List (Option Val)) (hs : book[s]? = some rows) (hr : rows[r]? = some row) :
    fetch (book.map parseSheet) s c r = ((row[c]?).map fun o => o.getD .blank).getD .blank := by
  simp only [fetch, List.getElem?_map, hs, Option.map_some, parseSheet, hr]
  cases row[c]? <;> rfl

theorem foldl_max_ge (rows : List (List (Option Val))) (m : Nat) : m ≤ rows.foldl (fun m r => max m r.length) m := by
  induction rows generalizing m with
  | nil => exact Nat.le_refl _
  | cons r rs ih => exact Nat.le_trans (Nat.le_max_left _ _) (ih _)

theorem foldl_max_mem (rows : List (List (Option Val))) (m : Nat) :
    ∀ r ∈ rows, r.length ≤ rows.foldl (fun m r => max m r.length) m := by
  induction rows generalizing m with
  | nil => intro r h; cases h
  | cons x xs ih =>
    intro r h
    rcases List.mem_cons.1 h with rfl | h
    · exact Nat.le_trans (Nat.le_max_right _ _) (foldl_max_ge xs _)
    · exact ih _ r h

/-- the reported size bounds every row and is attained: `last_row` is the number of rows, `last_column` the greatest row length -/
theorem sizes_spec (rows : List (List (Option Val))) :
    (sheetSize rows).2 = rows.length ∧ (∀ r ∈ rows, r.length ≤ (sheetSize rows).1) ∧
      (rows ≠ [] → ∃ r ∈ rows, r.length = (sheetSize rows).1) := by
  refine ⟨rfl, foldl_max_mem rows 0, ?_⟩
  intro hne
  have key : ∀ (rows : List (List (Option Val))) (m : Nat),
      rows.foldl (fun m r => max m r.length) m = m ∨ ∃ r ∈ rows, r.length = rows.foldl (fun m r => max m r.length) m := by
    intro rows
    induction rows with
    | nil => intro m; exact Or.inl rfl
    | cons x xs ih =>
      intro m
      simp only [List.foldl_cons]
      rcases ih (max m x.length) with h | ⟨r, hr, hl⟩
      · rw [h]
        rcases Nat.le_total m x.length with hm | hm
        · right; exact ⟨x, by simp, by rw [Nat.max_eq_right hm]⟩
        · left; exact Nat.max_eq_left hm
      · right; exact ⟨r, List.mem_cons_of_mem _ hr, hl⟩
  rcases key rows 0 with h | h
  · cases rows with
    | nil => exact absurd rfl hne
    | cons x xs =>
      have hx := foldl_max_mem (x :: xs) 0 x (by simp)
      simp only [sheetSize, maxRowLen]
      rw [h] at hx
      exact ⟨x, by simp, by rw [h]; omega⟩
  · exact h

/-- cells outside the reported size read as blank -/
theorem outside_size_blank (book : List (List (List (Option Val)))) (s c r : Nat) (rows : List (List (Option Val)))
    (hs : book[s]? = some rows) (h : (sheetSize rows).2 ≤ r ∨ (sheetSize rows).1 ≤ c) :
    fetch (book.map parseSheet) s c r = .blank := by
  simp only [fetch, List.getElem?_map, hs, Option.map_some, parseSheet]
  cases hr : rows[r]? with
  | none => rfl
  | some row =>
    simp only [Option.map_some]
    rcases h with h | h
    · have := (List.getElem?_eq_some_iff.1 hr).1
      simp only [sheetSize] at h; omega
    · have hmem : row ∈ rows := List.mem_of_getElem? hr
      have := (sizes_spec rows).2.1 row hmem
      have : row.length ≤ c := Nat.le_trans this h
      simp [List.getElem?_eq_none this]

/-- titles keep their workbook order -/
theorem titles_in_order (titles : List (List Char)) (hn : titles.Nodup) (i : Nat) (hi : i < titles.length) :
    titleIndex titles titles[i] = some i := by
  simp only [titleIndex]
  rw [List.idxOf?_eq_some_iff]
  refine ⟨hi, rfl, ?_⟩
  intro j hj h
  have := (List.Nodup.getElem_inj_iff hn (hi := Nat.lt_trans hj hi) (hj := hi)).1 h
  omega

/-- a constant text cell is emitted with repr and therefore evaluates to exactly the stored text (C07) -/
theorem constant_text_value (s : List Char) : pyStringLiteral? (pyRepr s) = some (s, []) := by
  simpa using E2P.C07.quote_roundtrip s []

example : sheetSize [[], [some (.int 1), none, some (.int 3)], [some (.int 2)]] = (3, 3) := by decide

end E2P.C18
