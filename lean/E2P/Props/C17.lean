/-
  C17 — text functions: LEFT / RIGHT / MID cut the text where Excel cuts it, `&` joins its operands in order,
  SEARCH returns the leftmost wildcard occurrence at or after the start position (1-based, case-insensitive),
  VALUE turns a decimal text back into the number.  Property theorems only; the model is `E2P.Model.Text`,
  the declarative side `E2P.Spec.TextSpec`; the VALUE bookkeeping lemmas are in `E2P.Lemmas.TextValue`.
-/
import E2P.Model.Text
import E2P.Spec.TextSpec
import E2P.Lemmas.TextValue
import Batteries.Data.List.Basic

namespace E2P.C17
open E2P

/-! ### 1. LEFT -/

/-- LEFT(t, n) is the first n characters -/
theorem left_spec (t : List Char) (n : Int) (hn : 0 ≤ n) (ht : t ≠ []) :
    leftFn t n = .ok (.str (t.take n.toNat)) := by
  simp [leftFn, Int.not_lt.mpr hn, ht]

/-- a negative count is an error value -/
theorem left_negative (t : List Char) (n : Int) (hn : n < 0) : leftFn t n = .ok errError := by
  simp [leftFn, hn]

/-- on the empty text the result is the blank (which stands for the empty text) -/
theorem left_empty (n : Int) (hn : 0 ≤ n) : leftFn [] n = .ok .blank := by
  simp [leftFn, Int.not_lt.mpr hn]

/-! ### 2. RIGHT -/

/-- dropping all but the last `m` characters = taking `m` characters from the end -/
theorem drop_eq_reverse_take (t : List Char) (m : Nat) :
    t.drop (t.length - m) = (t.reverse.take m).reverse := by
  rw [List.take_reverse]; simp

/-- RIGHT(t, n) is the last n characters -/
theorem right_spec (t : List Char) (n : Int) (hn : 0 ≤ n) (ht : t ≠ []) :
    rightFn t n = .ok (.str (t.reverse.take n.toNat).reverse) := by
  simp [rightFn, Int.not_lt.mpr hn, ht, drop_eq_reverse_take]

theorem right_negative (t : List Char) (n : Int) (hn : n < 0) : rightFn t n = .ok errError := by
  simp [rightFn, hn]

theorem right_empty (n : Int) (hn : 0 ≤ n) : rightFn [] n = .ok .blank := by
  simp [rightFn, Int.not_lt.mpr hn]

/-! ### 3. MID -/

/-- MID(t, k, n) is the n characters from 1-based position k (fewer at the end of the text) -/
theorem mid_spec (t : List Char) (k n : Int) (hk : 1 ≤ k) (hn : 0 ≤ n) (hkt : k ≤ t.length) :
    midFn t k n = .ok (.str ((t.drop (k.toNat - 1)).take n.toNat)) := by
  simp [midFn, Int.not_lt.mpr hk, Int.not_lt.mpr hn, Int.not_lt.mpr hkt]

/-- a start beyond the end gives the blank (the empty text) -/
theorem mid_beyond (t : List Char) (k n : Int) (hk : 1 ≤ k) (hn : 0 ≤ n) (hkt : (t.length : Int) < k) :
    midFn t k n = .ok .blank := by
  simp [midFn, Int.not_lt.mpr hk, Int.not_lt.mpr hn, hkt]

theorem mid_errors (t : List Char) (k n : Int) :
    (k < 1 → midFn t k n = .ok errNum) ∧ (1 ≤ k → n < 0 → midFn t k n = .ok errValue) := by
  constructor
  · intro h; simp [midFn, h]
  · intro hk h; simp [midFn, Int.not_lt.mpr hk, h]

/-! ### agreement with the specification functions, for every argument -/

/-- how a model result shows a specified outcome: a text is the `str` (the empty text may also be the blank),
    an error value is a `#…` text, a position is the integer -/
def Shows (r : Res) : TextOut → Prop
  | .text s => r = .ok (.str s) ∨ (s = [] ∧ r = .ok .blank)
  | .errorValue => ∃ e, r = .ok (.str ('#' :: e))
  | .position p => r = .ok (.int p)

theorem left_agrees (t : List Char) (n : Int) : Shows (leftFn t n) (specLeft t n) := by
  unfold leftFn specLeft
  by_cases hn : n < 0
  · simp only [hn, if_true, Shows]; exact ⟨_, rfl⟩
  · by_cases ht : t = []
    · subst ht; simp [hn, Shows]
    · simp [hn, ht, Shows]

theorem right_agrees (t : List Char) (n : Int) : Shows (rightFn t n) (specRight t n) := by
  unfold rightFn specRight
  by_cases hn : n < 0
  · simp only [hn, if_true, Shows]; exact ⟨_, rfl⟩
  · by_cases ht : t = []
    · subst ht; simp [hn, Shows]
    · simp [hn, ht, Shows, drop_eq_reverse_take]

theorem mid_agrees (t : List Char) (k n : Int) : Shows (midFn t k n) (specMid t k n) := by
  unfold midFn specMid
  by_cases hk : k < 1
  · simp only [hk, if_true, true_or, Shows]; exact ⟨_, rfl⟩
  · by_cases hn : n < 0
    · simp only [hk, hn, if_true, if_false, or_true, Shows]; exact ⟨_, rfl⟩
    · by_cases hkt : (t.length : Int) < k
      · simp only [hk, hn, hkt, if_true, if_false, or_self, Shows]
        right; refine ⟨?_, trivial⟩
        rw [List.drop_of_length_le (by omega)]; simp
      · simp [hk, hn, hkt, Shows]

/-! ### 4. LEFT(t, n) & MID(t, n+1, LEN(t)) rebuilds t -/

theorem rebuild (t : List Char) (n : Int) (h0 : 0 ≤ n) (hlt : n < t.length) :
    ∃ a b, leftFn t n = .ok (.str a) ∧ midFn t (n + 1) t.length = .ok (.str b) ∧ a ++ b = t := by
  have ht : t ≠ [] := by rintro rfl; simp at hlt; omega
  refine ⟨t.take n.toNat, t.drop n.toNat, ?_, ?_, List.take_append_drop _ _⟩
  · simp [leftFn, Int.not_lt.mpr h0, ht]
  · have h1 : ¬ (n + 1 < 1) := by omega
    have h2 : ¬ ((t.length : Int) < n + 1) := by omega
    have h3 : (n + 1).toNat - 1 = n.toNat := by omega
    have h4 : ¬ ((t.length : Int) < 0) := by omega
    simp only [midFn, h1, h2, h3, h4, if_false, Int.toNat_natCast]
    rw [List.take_of_length_le (by simp)]

/-- likewise LEFT(t, n) & RIGHT(t, LEN(t) - n) -/
theorem rebuild_right (t : List Char) (n : Int) (h0 : 0 ≤ n) (hlt : n < t.length) :
    ∃ a b, leftFn t n = .ok (.str a) ∧ rightFn t (t.length - n) = .ok (.str b) ∧ a ++ b = t := by
  have ht : t ≠ [] := by rintro rfl; simp at hlt; omega
  refine ⟨t.take n.toNat, t.drop n.toNat, ?_, ?_, List.take_append_drop _ _⟩
  · simp [leftFn, Int.not_lt.mpr h0, ht]
  · have h1 : ¬ ((t.length : Int) - n < 0) := by omega
    have h2 : t.length - ((t.length : Int) - n).toNat = n.toNat := by omega
    simp [rightFn, h1, ht, h2]

/-! ### 5. `&` / CONCATENATE -/

theorem mapM_strOfVal_str (ss : List (List Char)) : (ss.map Val.str).mapM strOfVal = some ss := by
  induction ss with
  | nil => rfl
  | cons s ss ih => simp [List.mapM_cons, ih, strOfVal]

/-- text operands are joined in order -/
theorem concat_texts (ss : List (List Char)) : concatFn (ss.map Val.str) = .ok (.str ss.flatten) := by
  unfold concatFn; rw [mapM_strOfVal_str]

/-- the join of two operand lists is the join of the first followed by the join of the second
    (and is outside the model exactly when one of them is) -/
theorem concat_append (xs ys : List Val) :
    concatFn (xs ++ ys) =
      match concatFn xs, concatFn ys with
      | .ok (.str a), .ok (.str b) => .ok (.str (a ++ b))
      | _, _ => .error .unmodelled := by
  unfold concatFn
  rw [List.mapM_append]
  cases hxs : xs.mapM strOfVal <;> cases hys : ys.mapM strOfVal <;> simp

theorem concat_append_ok (xs ys : List Val) (a b : List Char)
    (hx : concatFn xs = .ok (.str a)) (hy : concatFn ys = .ok (.str b)) :
    concatFn (xs ++ ys) = .ok (.str (a ++ b)) := by
  rw [concat_append, hx, hy]

/-- an integer operand contributes its decimal numeral -/
theorem concat_int (a : List Char) (z : Int) :
    concatFn [.str a, .int z] = .ok (.str (a ++ (toString z).toList)) := by
  simp [concatFn, List.mapM_cons, strOfVal]

/-! ### 6. the executable wildcard matcher decides "the pattern matches some prefix" -/

theorem matchPre_star_of (ps : List Pat) (xs : List Char) (h : matchPre ps xs = true) :
    matchPre (.star :: ps) xs = true := by
  cases xs with
  | nil => rw [matchPre]; exact h
  | cons x xs => rw [matchPre, h]; rfl

theorem matchPre_star_cons (ps : List Pat) (x : Char) (xs : List Char)
    (h : matchPre (.star :: ps) xs = true) : matchPre (.star :: ps) (x :: xs) = true := by
  rw [matchPre, h, Bool.or_true]

theorem matchPre_sound (ps : List Pat) (xs : List Char) :
    matchPre ps xs = true → ∃ m, m <+: xs ∧ PMatch ps m := by
  fun_induction matchPre ps xs with
  | case1 xs => intro _; exact ⟨[], List.nil_prefix, .nil⟩
  | case2 c ps x xs ih =>
    intro h
    rw [Bool.and_eq_true] at h
    obtain ⟨m, hm, hp⟩ := ih h.2
    exact ⟨x :: m, (List.cons_prefix_cons).mpr ⟨rfl, hm⟩, .lit h.1 hp⟩
  | case3 c ps => intro h; cases h
  | case4 ps x xs ih =>
    intro h
    obtain ⟨m, hm, hp⟩ := ih h
    exact ⟨x :: m, (List.cons_prefix_cons).mpr ⟨rfl, hm⟩, .any hp⟩
  | case5 ps => intro h; cases h
  | case6 ps ih =>
    intro h
    obtain ⟨m, hm, hp⟩ := ih h
    exact ⟨m, hm, .star [] m rfl hp⟩
  | case7 ps x xs ih1 ih2 =>
    intro h
    rw [Bool.or_eq_true] at h
    rcases h with h | h
    · obtain ⟨m, hm, hp⟩ := ih1 h
      exact ⟨m, hm, .star [] m rfl hp⟩
    · obtain ⟨m, hm, hp⟩ := ih2 h
      cases hp with
      | star run rest he hr =>
        refine ⟨x :: m, (List.cons_prefix_cons).mpr ⟨rfl, hm⟩, .star (x :: run) rest ?_ hr⟩
        rw [he]; rfl

theorem matchPre_complete (ps : List Pat) (m : List Char) (hp : PMatch ps m) :
    ∀ xs, m <+: xs → matchPre ps xs = true := by
  induction hp with
  | nil => intro xs _; rw [matchPre]
  | @lit c x ps m hc _ ih =>
    intro xs hx
    cases xs with
    | nil => simp at hx
    | cons y ys =>
      obtain ⟨rfl, hm⟩ := (List.cons_prefix_cons).mp hx
      rw [matchPre, hc, ih ys hm]; rfl
  | @any x ps m _ ih =>
    intro xs hx
    cases xs with
    | nil => simp at hx
    | cons y ys =>
      obtain ⟨rfl, hm⟩ := (List.cons_prefix_cons).mp hx
      rw [matchPre, ih ys hm]
  | @star ps m run rest he _ ih =>
    subst he
    induction run with
    | nil => intro xs hx; exact matchPre_star_of ps xs (ih xs hx)
    | cons r run ihr =>
      intro xs hx
      cases xs with
      | nil => simp at hx
      | cons y ys =>
        obtain ⟨rfl, hm⟩ := (List.cons_prefix_cons).mp hx
        exact matchPre_star_cons ps _ ys (ihr ys hm)

/-- `matchPre` is true exactly when the pattern matches (declaratively) some prefix of the text -/
theorem matchPre_iff (ps : List Pat) (xs : List Char) :
    matchPre ps xs = true ↔ ∃ m, m <+: xs ∧ PMatch ps m :=
  ⟨matchPre_sound ps xs, fun ⟨m, hm, hp⟩ => matchPre_complete ps m hp xs hm⟩

/-- an occurrence at `p`, in executable form -/
theorem occursAt_iff (ps : List Pat) (t : List Char) (p : Nat) :
    OccursAt ps t p ↔ p ≤ t.length ∧ matchPre ps (t.drop p) = true := by
  unfold OccursAt; rw [matchPre_iff]

/-! ### 7. SEARCH returns the leftmost occurrence at or after the start -/

/-- a returned position is in range, matches, and no earlier position from `pos` on matches -/
theorem searchFrom_some (ps : List Pat) (rest : List Char) (pos p : Nat)
    (h : searchFrom ps rest pos = some p) :
    pos ≤ p ∧ p - pos ≤ rest.length ∧ matchPre ps (rest.drop (p - pos)) = true ∧
      ∀ q, pos ≤ q → q < p → matchPre ps (rest.drop (q - pos)) = false := by
  induction rest generalizing pos with
  | nil =>
    rw [searchFrom] at h
    split at h
    · rename_i hm
      cases h
      refine ⟨Nat.le_refl _, by simp, by simpa using hm, fun q h1 h2 => by omega⟩
    · cases h
  | cons x xs ih =>
    rw [searchFrom] at h
    split at h
    · rename_i hm
      cases h
      refine ⟨Nat.le_refl _, by simp, by simpa using hm, fun q h1 h2 => by omega⟩
    · rename_i hm
      obtain ⟨h1, h2, h3, h4⟩ := ih (pos + 1) h
      have e : p - pos = (p - (pos + 1)) + 1 := by omega
      refine ⟨by omega, by simp only [List.length_cons]; omega, ?_, ?_⟩
      · rw [e, List.drop_succ_cons]; exact h3
      · intro q hq1 hq2
        by_cases hq : q = pos
        · subst hq; simpa using hm
        · have e' : q - pos = (q - (pos + 1)) + 1 := by omega
          rw [e', List.drop_succ_cons]; exact h4 q (by omega) hq2

/-- no result: the pattern matches at no position of the rest (the end position included) -/
theorem searchFrom_none (ps : List Pat) (rest : List Char) (pos : Nat)
    (h : searchFrom ps rest pos = none) :
    ∀ i, i ≤ rest.length → matchPre ps (rest.drop i) = false := by
  induction rest generalizing pos with
  | nil =>
    rw [searchFrom] at h
    split at h
    · cases h
    · rename_i hm; intro i _; simpa using hm
  | cons x xs ih =>
    rw [searchFrom] at h
    split at h
    · cases h
    · rename_i hm
      intro i hi
      cases i with
      | zero => simpa using hm
      | succ j => rw [List.drop_succ_cons]; exact ih (pos + 1) h j (by simpa using hi)

/-- converse of `searchFrom_some`: the least matching position is what `searchFrom` returns -/
theorem searchFrom_eq_some (ps : List Pat) (rest : List Char) (pos p : Nat)
    (h1 : pos ≤ p) (h2 : p - pos ≤ rest.length) (h3 : matchPre ps (rest.drop (p - pos)) = true)
    (h4 : ∀ q, pos ≤ q → q < p → matchPre ps (rest.drop (q - pos)) = false) :
    searchFrom ps rest pos = some p := by
  cases hs : searchFrom ps rest pos with
  | none => have := searchFrom_none ps rest pos hs _ h2; rw [h3] at this; cases this
  | some p' =>
    obtain ⟨g1, g2, g3, g4⟩ := searchFrom_some ps rest pos p' hs
    rcases Nat.lt_trichotomy p' p with hlt | heq | hgt
    · have := h4 p' g1 hlt; rw [g3] at this; cases this
    · rw [heq]
    · have := g4 p h1 hgt; rw [h3] at this; cases this

/-- SEARCH with an in-range start is `searchFrom` on the rest of the text -/
theorem searchFn_eq (f t : List Char) (s : Int) (hf : asciiOnly f = true) (ht : asciiOnly t = true)
    (h1 : 1 ≤ s) (h2 : s ≤ t.length) :
    searchFn f t (some s) =
      match searchFrom (parsePat f) (t.drop (s.toNat - 1)) (s.toNat - 1) with
      | some p => .ok (.int (p + 1))
      | none => .ok errValue := by
  have hs0 : s ≠ 0 := by omega
  have hc : ¬ ((t.length : Int) < s ∨ s ≤ 0) := by omega
  simp only [searchFn, hf, ht, Bool.and_self, Bool.not_true, Bool.false_eq_true, if_false, hs0, hc]
  rfl

/-- `search_spec`, found: SEARCH(f, t, s) = P exactly when P is the least position ≥ s (1-based, at most
    LEN(t) + 1) at which the pattern `f` occurs in `t` -/
theorem search_found (f t : List Char) (s P : Int) (hf : asciiOnly f = true) (ht : asciiOnly t = true)
    (h1 : 1 ≤ s) (h2 : s ≤ t.length) :
    searchFn f t (some s) = .ok (.int P) ↔
      (s ≤ P ∧ P ≤ t.length + 1 ∧ OccursAt (parsePat f) t (P.toNat - 1) ∧
        ∀ q : Int, s ≤ q → q < P → ¬ OccursAt (parsePat f) t (q.toNat - 1)) := by
  rw [searchFn_eq f t s hf ht h1 h2]
  have hlen : (t.drop (s.toNat - 1)).length = t.length - (s.toNat - 1) := List.length_drop
  constructor
  · intro h
    cases hs : searchFrom (parsePat f) (t.drop (s.toNat - 1)) (s.toNat - 1) with
    | none => rw [hs] at h; cases h
    | some p =>
      rw [hs] at h
      have hP : P = (p : Int) + 1 := by injection h with h; injection h with h; exact h.symm
      obtain ⟨g1, g2, g3, g4⟩ := searchFrom_some _ _ _ _ hs
      rw [hlen] at g2
      rw [List.drop_drop] at g3
      have hp : P.toNat - 1 = p := by omega
      have e : s.toNat - 1 + (p - (s.toNat - 1)) = p := by omega
      rw [e] at g3
      refine ⟨by omega, by omega, ?_, ?_⟩
      · rw [hp, occursAt_iff]; exact ⟨by omega, g3⟩
      · intro q hq1 hq2 hocc
        rw [occursAt_iff] at hocc
        have := g4 (q.toNat - 1) (by omega) (by omega)
        rw [List.drop_drop] at this
        have e' : s.toNat - 1 + (q.toNat - 1 - (s.toNat - 1)) = q.toNat - 1 := by omega
        rw [e', hocc.2] at this; cases this
  · rintro ⟨g1, g2, g3, g4⟩
    rw [occursAt_iff] at g3
    have : searchFrom (parsePat f) (t.drop (s.toNat - 1)) (s.toNat - 1) = some (P.toNat - 1) := by
      apply searchFrom_eq_some
      · omega
      · rw [hlen]; omega
      · rw [List.drop_drop]
        have e : s.toNat - 1 + (P.toNat - 1 - (s.toNat - 1)) = P.toNat - 1 := by omega
        rw [e]; exact g3.2
      · intro q hq1 hq2
        rw [List.drop_drop]
        have e : s.toNat - 1 + (q - (s.toNat - 1)) = q := by omega
        rw [e]
        have := g4 ((q : Int) + 1) (by omega) (by omega)
        rw [occursAt_iff] at this
        have e2 : ((q : Int) + 1).toNat - 1 = q := by omega
        rw [e2] at this
        cases hm : matchPre (parsePat f) (t.drop q) with
        | false => rfl
        | true => exact absurd ⟨by omega, hm⟩ this
    rw [this]
    have : ((P.toNat - 1 : Nat) : Int) + 1 = P := by omega
    simp only [this]

/-- `search_spec`, not found: SEARCH(f, t, s) = #VALUE! exactly when the pattern occurs at no position ≥ s -/
theorem search_not_found (f t : List Char) (s : Int) (hf : asciiOnly f = true) (ht : asciiOnly t = true)
    (h1 : 1 ≤ s) (h2 : s ≤ t.length) :
    searchFn f t (some s) = .ok errValue ↔
      ∀ q : Int, s ≤ q → ¬ OccursAt (parsePat f) t (q.toNat - 1) := by
  rw [searchFn_eq f t s hf ht h1 h2]
  have hlen : (t.drop (s.toNat - 1)).length = t.length - (s.toNat - 1) := List.length_drop
  constructor
  · intro h q hq hocc
    cases hs : searchFrom (parsePat f) (t.drop (s.toNat - 1)) (s.toNat - 1) with
    | some p => rw [hs] at h; cases h
    | none =>
      rw [occursAt_iff] at hocc
      have := searchFrom_none _ _ _ hs (q.toNat - 1 - (s.toNat - 1)) (by rw [hlen]; omega)
      rw [List.drop_drop] at this
      have e : s.toNat - 1 + (q.toNat - 1 - (s.toNat - 1)) = q.toNat - 1 := by omega
      rw [e, hocc.2] at this; cases this
  · intro h
    cases hs : searchFrom (parsePat f) (t.drop (s.toNat - 1)) (s.toNat - 1) with
    | none => rfl
    | some p =>
      exfalso
      obtain ⟨g1, g2, g3, g4⟩ := searchFrom_some _ _ _ _ hs
      rw [hlen] at g2
      rw [List.drop_drop] at g3
      have e : s.toNat - 1 + (p - (s.toNat - 1)) = p := by omega
      rw [e] at g3
      apply h ((p : Int) + 1) (by omega)
      rw [occursAt_iff]
      have e2 : ((p : Int) + 1).toNat - 1 = p := by omega
      rw [e2]; exact ⟨by omega, g3⟩

/-- with an in-range start SEARCH yields a position or #VALUE!, nothing else -/
theorem search_total (f t : List Char) (s : Int) (hf : asciiOnly f = true) (ht : asciiOnly t = true)
    (h1 : 1 ≤ s) (h2 : s ≤ t.length) :
    (∃ P : Int, searchFn f t (some s) = .ok (.int P)) ∨ searchFn f t (some s) = .ok errValue := by
  rw [searchFn_eq f t s hf ht h1 h2]
  cases searchFrom (parsePat f) (t.drop (s.toNat - 1)) (s.toNat - 1) with
  | none => exact Or.inr rfl
  | some p => exact Or.inl ⟨_, rfl⟩

/-- a start outside 1 … LEN(t) (other than the 0 that stands for "omitted") is #VALUE! -/
theorem search_start_out_of_range (f t : List Char) (s : Int) (hf : asciiOnly f = true)
    (ht : asciiOnly t = true) (h : s ≤ 0 ∨ (t.length : Int) < s) (hs0 : s ≠ 0) :
    searchFn f t (some s) = .ok errValue := by
  have hc : ((t.length : Int) < s ∨ s ≤ 0) := h.symm
  simp only [searchFn, hf, ht, Bool.and_self, Bool.not_true, Bool.false_eq_true, if_false, hs0, hc, if_true]

/-- an omitted start is 1 -/
theorem search_default_start (f t : List Char) : searchFn f t none = searchFn f t (some 1) := by
  simp [searchFn]

/-- so is a start of 0 -/
theorem search_zero_start (f t : List Char) : searchFn f t (some 0) = searchFn f t (some 1) := by
  simp [searchFn]

/-! ### 8. a pattern without `?`, `*`, `~` is a case-insensitive substring search -/

/-- no wildcard and no escape character -/
def Plain (f : List Char) : Prop := ∀ c ∈ f, c ≠ '?' ∧ c ≠ '*' ∧ c ≠ '~'

theorem parsePat_plain (f : List Char) (h : Plain f) : parsePat f = f.map Pat.lit := by
  unfold Plain at h
  fun_induction parsePat f with
  | case1 => rfl
  | case2 c rest _ _ => exact absurd rfl (h '~' (by simp)).2.2
  | case3 c rest _ _ => exact absurd rfl (h '~' (by simp)).2.2
  | case4 rest _ => exact absurd rfl (h '?' (by simp)).1
  | case5 rest _ => exact absurd rfl (h '*' (by simp)).2.1
  | case6 c rest _ _ _ ih =>
    rw [List.map_cons, ih (fun c hc => h c (List.mem_cons_of_mem _ hc))]

/-- a run of literals matches exactly the texts equal to it character by character, ignoring ASCII case -/
theorem pmatch_lits_forall₂ (f m : List Char) :
    PMatch (f.map Pat.lit) m ↔ List.Forall₂ (fun c x => ciEq c x = true) f m := by
  induction f generalizing m with
  | nil =>
    constructor
    · intro h; cases h; exact .nil
    · intro h; cases h; exact .nil
  | cons c f ih =>
    constructor
    · intro h
      cases h with
      | lit hc hp => exact .cons hc ((ih _).mp hp)
    · intro h
      cases h with
      | cons hc hp => exact .lit hc ((ih _).mpr hp)

/-- the same with lower-cased copies -/
theorem pmatch_lits (f m : List Char) :
    PMatch (f.map Pat.lit) m ↔ f.map lowerAscii = m.map lowerAscii := by
  induction f generalizing m with
  | nil =>
    constructor
    · intro h; cases h; rfl
    · intro h
      cases m with
      | nil => exact .nil
      | cons x xs => simp at h
  | cons c f ih =>
    constructor
    · intro h
      cases h with
      | lit hc hp =>
        rw [List.map_cons, List.map_cons, (ih _).mp hp]
        simp only [ciEq, beq_iff_eq] at hc
        rw [hc]
    · intro h
      cases m with
      | nil => simp at h
      | cons x xs =>
        rw [List.map_cons, List.map_cons] at h
        injection h with h1 h2
        exact .lit (by simp [ciEq, h1]) ((ih _).mpr h2)

/-- a plain pattern occurs at `p` iff the |f| characters of `t` from `p` on are `f` up to ASCII case -/
theorem occursAt_plain (f t : List Char) (p : Nat) (h : Plain f) :
    OccursAt (parsePat f) t p ↔
      p + f.length ≤ t.length ∧ ((t.drop p).take f.length).map lowerAscii = f.map lowerAscii := by
  rw [parsePat_plain f h]
  unfold OccursAt
  constructor
  · rintro ⟨hp, m, hm, hpm⟩
    rw [pmatch_lits] at hpm
    have hl : f.length = m.length := by simpa using congrArg List.length hpm
    have hle := hm.length_le
    rw [List.length_drop] at hle
    rw [List.prefix_iff_eq_take] at hm
    refine ⟨by omega, ?_⟩
    rw [hl, ← hm, hpm]
  · rintro ⟨hp, he⟩
    exact ⟨by omega, _, List.take_prefix _ _, (pmatch_lits _ _).mpr he.symm⟩

/-! ### 9. VALUE -/

/-- VALUE of a digit string is the integer it denotes (leading zeros allowed) -/
theorem value_int (ds : List Char) (h : allDigits ds = true) :
    valueFn ds = .ok (.int (digitsVal ds 0)) :=
  TextValue.valueFn_digits h

/-- digit strings are inside the numeric-text model and carry no white space -/
theorem digits_modelled (ds : List Char) (h : allDigits ds = true) :
    numTextModelled ds = true ∧ stripWs ds = ds :=
  ⟨(TextValue.decText_digits h).modelled, (TextValue.decText_digits h).stripWs⟩

/-- VALUE of `ip.fp` is the double nearest to the decimal `ip fp × 10^(-|fp|)` -/
theorem value_decimal (ip fp : List Char) (hi : allDigits ip = true) (hf : allDigits fp = true) :
    valueFn (ip ++ '.' :: fp) =
      .ok (.flt (rn (decimal false (digitsVal (ip ++ fp) 0) (-(fp.length : Int))))) :=
  TextValue.valueFn_decimal hi hf

/-! ### non-vacuity -/

/-- SEARCH("B","abc") = 2 -/
example : searchFn "B".toList "abc".toList none = .ok (.int 2) := by
  simp [searchFn, asciiOnly, searchFrom, parsePat, matchPre, ciEq, lowerAscii]
/-- SEARCH("a*c","xabcac",3) = 5 -/
example : searchFn "a*c".toList "xabcac".toList (some 3) = .ok (.int 5) := by
  simp [searchFn, asciiOnly, searchFrom, parsePat, matchPre, ciEq, lowerAscii]
/-- SEARCH("a?c","xabcac") = 2 -/
example : searchFn "a?c".toList "xabcac".toList none = .ok (.int 2) := by
  simp [searchFn, asciiOnly, searchFrom, parsePat, matchPre, ciEq, lowerAscii]
/-- SEARCH("~*","a*b") = 2: an escaped star is a literal -/
example : searchFn "~*".toList "a*b".toList none = .ok (.int 2) := by
  simp [searchFn, asciiOnly, searchFrom, parsePat, matchPre, ciEq, lowerAscii]
/-- SEARCH("z","abc") = #VALUE! -/
example : searchFn "z".toList "abc".toList none = .ok errValue := by
  simp [searchFn, asciiOnly, searchFrom, parsePat, matchPre, ciEq, lowerAscii]
/-- LEFT("hello",2) & MID("hello",3,5) = "hello" -/
example : leftFn "hello".toList 2 = .ok (.str "he".toList) ∧
    midFn "hello".toList 3 5 = .ok (.str "llo".toList) ∧
    concatFn [.str "he".toList, .str "llo".toList] = .ok (.str "hello".toList) := ⟨rfl, rfl, rfl⟩
/-- RIGHT("hello",2) = "lo" -/
example : rightFn "hello".toList 2 = .ok (.str "lo".toList) := rfl
/-- "ab" & -5 = "ab-5" -/
example : concatFn [.str "ab".toList, .int (-5)] = .ok (.str "ab-5".toList) := rfl
/-- the right-hand side of `search_found` is inhabited: "a*c" occurs in "xabcac" at 0-based position 4 -/
example : OccursAt (parsePat "a*c".toList) "xabcac".toList 4 :=
  (occursAt_iff _ _ _).mpr ⟨by decide, by simp [parsePat, matchPre, ciEq, lowerAscii]⟩
/-- "ab" is a plain pattern -/
example : Plain "ab".toList := by unfold Plain; decide
/-- VALUE("0123") = 123 -/
example : valueFn "0123".toList = .ok (.int 123) := by
  rw [value_int _ (by decide)]; rfl
/-- VALUE("12.50") is the double nearest to 1250 × 10⁻² -/
example : valueFn "12.50".toList = .ok (.flt (rn (decimal false 1250 (-2)))) :=
  value_decimal "12".toList "50".toList (by decide) (by decide)

end E2P.C17
