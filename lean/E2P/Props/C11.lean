/-
  Property C11 — aggregates fold exactly the numeric cells of their arguments.
-/
import E2P.Spec.AggSpec
import E2P.Lemmas.Dec15Round
import E2P.Generated.RuntimeConsts
namespace E2P.C11
open E2P

/-! ### flattening and the numeric filter -/

theorem flatten_append (xs ys : List Val) : flattenL (xs ++ ys) = flattenL xs ++ flattenL ys := by
  induction xs with
  | nil => simp [flattenL]
  | cons x xs ih => simp [flattenL, ih]

/-- an area (list of rows, each a list of cells) contributes the concatenation of its rows: row-major order -/
theorem flatten_area (rows : List Val) : flattenL [.list rows] = flattenL rows := by
  simp [flattenL, flattenV]

theorem flatten_scalar (v : Val) (h : ∀ vs, v ≠ .list vs) : flattenL [v] = [v] := by
  cases v <;> simp_all [flattenL, flattenV]

theorem numericCells_append (X Y : List Val) : numericCells (X ++ Y) = numericCells X ++ numericCells Y := by
  simp [numericCells, flatten_append]

/-- the cells folded are exactly the numeric ones, each once per mention, in order: a sublist that keeps every number -/
theorem numericCells_sublist (args : List Val) : (numericCells args).Sublist (flattenL args) :=
  List.filter_sublist

theorem numericCells_mem (args : List Val) (v : Val) :
    v ∈ numericCells args ↔ v ∈ flattenL args ∧ isNumeric v = true := by
  simp [numericCells]

theorem numericCells_length (args : List Val) : (numericCells args).length = (flattenL args).countP isNumeric := by
  simp [numericCells, List.countP_eq_length_filter]

theorem text_bool_blank_ignored (v : Val) (h : match v with | .str _ | .bool _ | .blank => True | _ => False) :
    isNumeric v = false := by
  cases v <;> simp_all [isNumeric]

theorem onlyNumeric_false (l : List Val) : onlyNumeric false l = l.filter isNumeric := by
  simp [onlyNumeric]

/-! ### SUM -/

theorem ratSum_append (l₁ l₂ : List Val) : ratSum (l₁ ++ l₂) = ratSum l₁ + ratSum l₂ := by
  induction l₁ with
  | nil => simp [ratSum]
  | cons v vs ih => simp [ratSum, ih, add_assoc]

theorem allExactFrom_append (acc : ℚ) (l₁ l₂ : List Val) :
    allExactFrom acc (l₁ ++ l₂) = (allExactFrom acc l₁ && allExactFrom (acc + ratSum l₁) l₂) := by
  induction l₁ generalizing acc with
  | nil => simp [allExactFrom, ratSum]
  | cons v vs ih => simp [allExactFrom, ratSum, ih, add_assoc, Bool.and_assoc]

theorem allExactFrom_last (acc : ℚ) (l : List Val) (h : allExactFrom acc l = true) (hacc : rn acc = acc) :
    rn (acc + ratSum l) = acc + ratSum l := by
  induction l generalizing acc with
  | nil => simpa [ratSum] using hacc
  | cons v vs ih =>
    simp only [allExactFrom, Bool.and_eq_true, beq_iff_eq] at h
    have := ih _ h.2 h.1.2
    simpa [ratSum, add_assoc] using this

/-- the kind of a number -/
def isInt : Val → Bool | .int _ => true | _ => false

theorem pyAdd_exact (a v : Val) (ha : isNumeric a = true) (hv : isNumeric v = true)
    (h1 : rn (ratOf a) = ratOf a) (h2 : rn (ratOf v) = ratOf v) (h3 : rn (ratOf a + ratOf v) = ratOf a + ratOf v) :
    ∃ r, pyAdd a v = .ok r ∧ isNumeric r = true ∧ ratOf r = ratOf a + ratOf v ∧ isInt r = (isInt a && isInt v) := by
  cases a <;> simp [isNumeric] at ha <;> cases v <;> simp [isNumeric] at hv <;>
    simp_all [pyAdd, numOf, ratOf, isInt, isNumeric, Num.toRat, fadd]

theorem sumFold_exact (acc : Val) (l : List Val) (hacc : isNumeric acc = true) (hl : ∀ v ∈ l, isNumeric v = true)
    (hr : rn (ratOf acc) = ratOf acc) (h : allExactFrom (ratOf acc) l = true) :
    ∃ r, sumFold acc l = .ok r ∧ isNumeric r = true ∧ ratOf r = ratOf acc + ratSum l ∧
      isInt r = (isInt acc && allInt l) := by
  induction l generalizing acc with
  | nil => exact ⟨acc, by simp [sumFold, ratSum, hacc, allInt]⟩
  | cons v vs ih =>
    simp only [allExactFrom, Bool.and_eq_true, beq_iff_eq] at h
    obtain ⟨r, e1, e2, e3, e4⟩ := pyAdd_exact acc v hacc (hl v (by simp)) hr h.1.1 h.1.2
    obtain ⟨r', f1, f2, f3, f4⟩ := ih r e2 (fun w hw => hl w (by simp [hw])) (by rw [e3]; exact h.1.2)
      (by rw [e3]; exact h.2)
    refine ⟨r', by simp [sumFold, e1, f1], f2, by rw [f3, e3]; simp [ratSum, add_assoc], ?_⟩
    rw [f4, e4]
    cases v <;> simp [isInt, allInt, Bool.and_assoc]

theorem intSum_ratSum (l : List Val) (h : allInt l = true) (a : Int) :
    ((l.foldl (fun a v => a + intOf0 v) a : Int) : ℚ) = (a : ℚ) + ratSum l := by
  induction l generalizing a with
  | nil => simp [ratSum]
  | cons v vs ih =>
    cases v <;> simp [allInt] at h
    rename_i z
    have := ih (by simpa [allInt] using h) (a + z)
    simp only [List.foldl_cons, ratSum, ratOf]
    rw [show intOf0 (Val.int z) = z from rfl, this]
    push_cast; ring

/-- a number is determined by its kind and its exact value -/
theorem num_ext (r : Val) (l : List Val) (hr : isNumeric r = true) (hv : ratOf r = ratSum l)
    (hk : isInt r = allInt l) : r = exactSum l := by
  unfold exactSum
  cases r <;> simp [isNumeric] at hr
  · rename_i z
    have : allInt l = true := by simpa [isInt] using hk.symm
    rw [if_pos this]
    congr 1
    have h2 := intSum_ratSum l this 0
    simp only [Int.cast_zero, zero_add] at h2
    have h3 : (z : ℚ) = ((l.foldl (fun a v => a + intOf0 v) 0 : ℤ) : ℚ) := by rw [h2]; simpa [ratOf] using hv
    exact_mod_cast h3
  · rename_i q
    have : allInt l = false := by simpa [isInt] using hk.symm
    rw [if_neg (by simp [this])]
    simp [ratOf] at hv
    rw [hv]

/-- **SUM** over any mix of areas and scalars is the exact sum of the numeric cells (an int when all are ints, else the
    double with exactly that value), provided no partial sum needs rounding. -/
theorem sum_spec (args : List Val) (h : allExact (numericCells args) = true) :
    sumCall args = .ok (specSum args) := by
  unfold sumCall sumF specSum
  rw [onlyNumeric_false]
  have hl : ∀ v ∈ (flattenL args).filter isNumeric, isNumeric v = true := by simp
  obtain ⟨r, e1, e2, e3, e4⟩ := sumFold_exact (.int 0) _ (by simp [isNumeric]) hl
    (by simp [ratOf, rn_zero]) (by simpa [ratOf, allExact, numericCells] using h)
  rw [e1]
  congr 1
  exact num_ext r _ e2 (by simpa [ratOf, numericCells] using e3) (by simpa [isInt, numericCells] using e4)

theorem exactSum_isNumeric (l : List Val) : isNumeric (exactSum l) = true := by
  unfold exactSum; split <;> simp [isNumeric]

theorem ratOf_exactSum (l : List Val) : ratOf (exactSum l) = ratSum l := by
  unfold exactSum
  split
  · rename_i h
    have := intSum_ratSum l h 0
    simpa [ratOf] using this
  · simp [ratOf]

theorem isInt_exactSum (l : List Val) : isInt (exactSum l) = allInt l := by
  unfold exactSum
  split <;> simp_all [isInt]

/-- **The result does not depend on how the cells are split into areas**: SUM(X,Y) = SUM(X) + SUM(Y). -/
theorem sum_split (X Y : List Val) (h : allExact (numericCells (X ++ Y)) = true)
    (hY : allExact (numericCells Y) = true) :
    sumCall (X ++ Y) = (do let a ← sumCall X; let b ← sumCall Y; pyAdd a b) := by
  rw [numericCells_append] at h
  unfold allExact at h hY
  rw [allExactFrom_append, Bool.and_eq_true] at h
  have hX : allExact (numericCells X) = true := h.1
  rw [sum_spec X hX, sum_spec Y hY, sum_spec (X ++ Y) (by unfold allExact; rw [numericCells_append, allExactFrom_append]; simpa [h.1] using h.2)]
  simp only [bind, Except.bind, specSum]
  have rX := allExactFrom_last 0 _ h.1 rn_zero
  have rY := allExactFrom_last 0 _ hY rn_zero
  have rXY := allExactFrom_last _ _ h.2 rX
  simp only [zero_add] at rX rY rXY
  obtain ⟨r, e1, e2, e3, e4⟩ := pyAdd_exact (exactSum (numericCells X)) (exactSum (numericCells Y))
    (exactSum_isNumeric _) (exactSum_isNumeric _) (by rw [ratOf_exactSum]; exact rX) (by rw [ratOf_exactSum]; exact rY)
    (by rw [ratOf_exactSum, ratOf_exactSum]; exact rXY)
  rw [e1]
  congr 1
  symm
  apply num_ext r _ e2
  · rw [e3, ratOf_exactSum, ratOf_exactSum, numericCells_append, ratSum_append]
  · rw [e4, isInt_exactSum, isInt_exactSum, numericCells_append]; simp [allInt]

/-! ### AVERAGE -/

theorem rn_natCast_small (n : ℕ) (hn : n < 2 ^ 53) : rn (n : ℚ) = n := by
  rcases Nat.eq_zero_or_pos n with h | h
  · simp [h, rn_zero]
  · have hq : (0 : ℚ) < n := by exact_mod_cast h
    rw [rn_pos _ hq]
    have hnum : ((n : ℚ)).num.natAbs = n := by simp
    have hden : ((n : ℚ)).den = 1 := by simp
    rw [hnum, hden]
    set e := ilog2 n 1 - ((53 : ℕ) - 1 : ℤ) with he
    have hle := ilog2_le n 1 h (by norm_num)
    simp only [Nat.cast_one, div_one] at hle
    have hlt : (2 : ℚ) ^ ilog2 n 1 < 2 ^ (53 : ℤ) := lt_of_le_of_lt hle (by exact_mod_cast hn)
    have hi : ilog2 n 1 < 53 := (zpow_lt_zpow_iff_right₀ (by norm_num : (1 : ℚ) < 2)).1 hlt
    have he0 : e ≤ 0 := by omega
    obtain ⟨k, hk⟩ : ∃ k : ℕ, e = -(k : ℤ) := ⟨(-e).toNat, by omega⟩
    have key : ((n * 2 ^ k : ℕ) : ℚ) * (2 : ℚ) ^ e = n := by
      rw [hk, zpow_neg, zpow_natCast]; push_cast; field_simp
    have := roundSig_eq 2 (by norm_num) ilog2 53 n 1 (by norm_num) (n * 2 ^ k) (by
      rw [← he]
      simp only [Nat.cast_ofNat, Nat.cast_one, div_one]
      rw [key]; simp; positivity)
    rw [this, ← he]
    simpa using key

/-- **AVERAGE** is the exact sum divided by the number of numeric cells, rounded once (correctly) to a double. -/
theorem average_spec (args : List Val) (h : allExact (numericCells args) = true)
    (hne : numericCells args ≠ []) (hlen : (numericCells args).length < 2 ^ 53) :
    (averageCall args).toOption = specAverage args := by
  have hne' : (onlyNumeric false (flattenL args)).isEmpty = false := by
    rw [onlyNumeric_false]; simpa [numericCells] using hne
  have hs := sum_spec args h
  unfold sumCall at hs
  unfold averageCall averageF
  rw [hne', hs]
  simp only [Bool.false_eq_true, ↓reduceIte, specSum]
  have hlen' : (onlyNumeric false (flattenL args)).length = (numericCells args).length := by
    rw [onlyNumeric_false]; rfl
  rw [hlen']
  set l := numericCells args with hl
  have hpos : 0 < l.length := List.length_pos_iff.2 hne
  have hq : ((l.length : ℤ) : ℚ) ≠ 0 := by exact_mod_cast hpos.ne'
  have rS := allExactFrom_last 0 _ h rn_zero
  simp only [zero_add] at rS
  have rN : rn ((l.length : ℤ) : ℚ) = ((l.length : ℤ) : ℚ) := by
    have := rn_natCast_small l.length hlen
    exact_mod_cast this
  unfold specAverage
  rw [← hl]
  cases hcase : l with
  | nil => exact absurd hcase hne
  | cons v vs =>
    rw [← hcase]
    unfold exactSum
    split
    · rename_i hint
      have := intSum_ratSum l hint 0
      simp only [Int.cast_zero, zero_add] at this
      simp [pyTrueDiv, numOf, Num.toRat, hne, Except.toOption, this]
    · have rN' := rn_natCast_small l.length hlen
      simp [pyTrueDiv, numOf, Num.toRat, hne, Except.toOption, fdiv, rS, rN']

/-! ### MIN / MAX -/

theorem minFold_spec (best : Val) (l : List Val) : IsMin (minFold best l) (best :: l) := by
  induction l generalizing best with
  | nil => simp [minFold, IsMin]
  | cons v vs ih =>
    obtain ⟨h1, h2⟩ := ih (if ratOf v < ratOf best then v else best)
    refine ⟨?_, ?_⟩
    · simp only [minFold]
      rcases List.mem_cons.1 h1 with h | h
      · rw [h]; split <;> simp
      · simp [h]
    · intro w hw
      simp only [minFold]
      have hb := h2 _ (List.mem_cons_self)
      rcases List.mem_cons.1 hw with rfl | hw
      · refine le_trans hb ?_; split <;> [exact le_of_lt ‹_›; exact le_refl _]
      · rcases List.mem_cons.1 hw with rfl | hw
        · refine le_trans hb ?_; split <;> [exact le_refl _; exact not_lt.1 ‹_›]
        · exact h2 _ (List.mem_cons_of_mem _ hw)

theorem maxFold_spec (best : Val) (l : List Val) : IsMax (maxFold best l) (best :: l) := by
  induction l generalizing best with
  | nil => simp [maxFold, IsMax]
  | cons v vs ih =>
    obtain ⟨h1, h2⟩ := ih (if ratOf best < ratOf v then v else best)
    refine ⟨?_, ?_⟩
    · simp only [maxFold]
      rcases List.mem_cons.1 h1 with h | h
      · rw [h]; split <;> simp
      · simp [h]
    · intro w hw
      simp only [maxFold]
      have hb := h2 _ (List.mem_cons_self)
      rcases List.mem_cons.1 hw with rfl | hw
      · refine le_trans ?_ hb; split <;> [exact le_of_lt ‹_›; exact le_refl _]
      · rcases List.mem_cons.1 hw with rfl | hw
        · refine le_trans ?_ hb; split <;> [exact le_refl _; exact not_lt.1 ‹_›]
        · exact h2 _ (List.mem_cons_of_mem _ hw)

theorem findError_none (errs : List (List Char)) (l : List Val) (h : ∀ v ∈ l, isErrVal errs v = false) :
    findError errs l = none := by
  simp [findError, List.find?_eq_none]; intro v hv; simp [h v hv]

/-- **MIN**: an element of the numeric cells that is ≤ every numeric cell (exact comparison of ints and doubles). -/
theorem min_spec (errs : List (List Char)) (args : List Val) (hne : numericCells args ≠ [])
    (herr : ∀ v ∈ flattenL args, isErrVal errs v = false) :
    ∃ m, minCall errs args = .ok m ∧ IsMin m (numericCells args) := by
  unfold minCall minF
  rw [findError_none errs _ herr, onlyNumeric_false]
  change numericCells args ≠ [] at hne
  cases h : (flattenL args).filter isNumeric with
  | nil => exact absurd h hne
  | cons v vs => exact ⟨_, rfl, by rw [numericCells, h]; exact minFold_spec v vs⟩

theorem max_spec (errs : List (List Char)) (args : List Val) (hne : numericCells args ≠ [])
    (herr : ∀ v ∈ flattenL args, isErrVal errs v = false) :
    ∃ m, maxCall errs args = .ok m ∧ IsMax m (numericCells args) := by
  unfold maxCall maxF
  have herr' : ∀ v ∈ onlyNumeric false (flattenL args), isErrVal errs v = false := by
    intro v hv; rw [onlyNumeric_false] at hv; exact herr v (List.mem_filter.1 hv).1
  rw [findError_none errs _ herr', onlyNumeric_false, onlyNumeric_false, List.filter_filter]
  simp only [Bool.and_self]
  change numericCells args ≠ [] at hne
  cases h : (flattenL args).filter isNumeric with
  | nil => exact absurd h hne
  | cons v vs => exact ⟨_, rfl, by rw [numericCells, h]; exact maxFold_spec v vs⟩

/-! ### COUNT, COUNTBLANK, AND, OR -/

theorem flatten_scalars (cells : List Val) (hc : ∀ v ∈ cells, ∀ vs, v ≠ .list vs) : flattenL cells = cells := by
  induction cells with
  | nil => simp [flattenL]
  | cons c cs ih =>
    have h1 := flatten_scalar c (hc c (by simp))
    simp only [flattenL, List.append_nil] at h1
    simp [flattenL, h1, ih (fun v hv => hc v (by simp [hv]))]

/-- **COUNT** over areas and cell references (no date-times): the number of numeric cells -/
theorem count_spec (matrices cells : List Val) (hc : ∀ v ∈ cells, ∀ vs, v ≠ .list vs)
    (hd : onlyDatetime (flattenL matrices ++ cells) = []) :
    countF matrices [] cells = specCount (matrices ++ cells) := by
  have hcells := flatten_scalars cells hc
  unfold countF specCount numericCells
  rw [flatten_append, hcells]
  simp only [List.append_nil, hd, onlyNumeric_false]
  simp [onlyBool, onlyNumeric]

/-- **COUNTBLANK** counts exactly the blank and empty-text cells -/
theorem countblank_spec (errs : List (List Char)) (args : List Val)
    (herr : ∀ v ∈ flattenL args, isErrVal errs v = false) :
    countBlankCall errs args = .ok (.int (specCountBlank args)) := by
  simp [countBlankCall, countBlankF, findError_none errs _ herr, specCountBlank]

theorem isBlankish_iff (v : Val) : isBlankish v = true ↔ v = .blank ∨ v = .none ∨ v = .str [] := by
  cases v <;> simp [isBlankish]

/-- **AND / OR** are the conjunction / disjunction of the truth values of the flattened arguments -/
theorem and_spec (args : List Val) : andCall args = true ↔ ∀ v ∈ flattenL args, truthy v = true := by
  simp [andCall, andF]

theorem or_spec (args : List Val) : orCall args = true ↔ ∃ v ∈ flattenL args, truthy v = true := by
  simp [orCall, orF]

/-! ### a sufficient condition for exactness that does not mention partial sums -/

/-- Non-vacuity: SUM(A1:B2, 4, C1:C2) with text, a boolean and a blank inside the areas and a fraction: 1 + 2.5 + 4 - 3 -/
example :
    let args : List Val := [.list [.list [.int 1, .str "x".toList], .list [.flt (5/2), .bool true]], .int 4,
      .list [.list [.blank], .list [.int (-3)]]]
    allExact (numericCells args) = true ∧ (sumCall args).toOption.map ratOf = some (9/2) ∧
      (sumCall args).toOption.map isInt = some false := by
  decide +kernel

end E2P.C11
