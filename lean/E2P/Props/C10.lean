/-
  C10 — comparisons are exact and lawful.

  Property theorems only.  `P` is the external text → number parser (`int(str)` / `float(str)`):
  every statement holds for an arbitrary `P`, so nothing here depends on how CPython parses
  numeric-looking text.
-/
import E2P.Model.Compare
import E2P.Spec.CompareSpec
import Mathlib.Algebra.Order.Ring.Rat
import Mathlib.Order.Defs.LinearOrder

namespace E2P.C10
open E2P

variable (P : List Char → Option Num)

/-- exactly one of three booleans -/
def exactlyOne (x y z : Bool) : Prop :=
  (x = true ∧ y = false ∧ z = false) ∨ (x = false ∧ y = true ∧ z = false) ∨ (x = false ∧ y = false ∧ z = true)

/-- the five laws of the statement, for the results of the six operators on (l, r) and of `>` on (r, l) -/
structure Lawful (lt eq gt le ge ne gtSwapped : Bool) : Prop where
  trichotomy : exactlyOne lt eq gt
  ne_not_eq : ne = !eq
  le_not_gt : le = !gt
  ge_not_lt : ge = !lt
  lt_iff_swapped_gt : lt = gtSwapped

section order
variable {α : Type} [LinearOrder α]

theorem onOrd_lawful (a b : α) :
    Lawful (CmpOp.lt.onOrd a b) (CmpOp.eq.onOrd a b) (CmpOp.gt.onOrd a b) (CmpOp.le.onOrd a b)
      (CmpOp.ge.onOrd a b) (CmpOp.ne.onOrd a b) (CmpOp.gt.onOrd b a) := by
  rcases lt_trichotomy a b with h | h | h
  · have h1 : ¬ b < a := lt_asymm h
    have h2 : a ≠ b := ne_of_lt h
    constructor <;> simp [CmpOp.onOrd, exactlyOne, h, h1, h2]
  · subst h
    constructor <;> simp [CmpOp.onOrd, exactlyOne]
  · have h1 : ¬ a < b := lt_asymm h
    have h2 : a ≠ b := (ne_of_lt h).symm
    constructor <;> simp [CmpOp.onOrd, exactlyOne, h, h1, h2]

end order

/-! ### texts: code-point order is a strict linear order -/

theorem isEmpty_decide (s : List Char) : s.isEmpty = decide (s = []) := by
  cases s <;> simp

theorem strLt_irrefl (a : List Char) : strLt a a = false := by
  induction a with
  | nil => rfl
  | cons c cs ih => simp [strLt, ih]

theorem strLt_tri (a b : List Char) :
    (strLt a b = true ∧ a ≠ b ∧ strLt b a = false) ∨ (strLt a b = false ∧ a = b ∧ strLt b a = false) ∨
    (strLt a b = false ∧ a ≠ b ∧ strLt b a = true) := by
  induction a generalizing b with
  | nil => cases b <;> simp [strLt]
  | cons c cs ih =>
    cases b with
    | nil => simp [strLt]
    | cons d ds =>
      rcases Nat.lt_trichotomy c.toNat d.toNat with h | h | h
      · have hne : c ≠ d := fun e => by subst e; omega
        have h' : ¬ d.toNat < c.toNat := by omega
        left; simp [strLt, h, h', hne]
      · have hcd : c = d := Char.toNat_inj.mp h
        subst hcd
        rcases ih ds with ⟨h1, h2, h3⟩ | ⟨h1, h2, h3⟩ | ⟨h1, h2, h3⟩
        · left; simp [strLt, h1, h2, h3]
        · right; left; subst h2; simp [strLt, strLt_irrefl]
        · right; right; simp [strLt, h1, h2, h3]
      · have hne : c ≠ d := fun e => by subst e; omega
        have h' : ¬ c.toNat < d.toNat := by omega
        right; right; simp [strLt, h, h', hne]

theorem strCmp_lawful (a b : List Char) :
    Lawful (strCmp .lt a b) (strCmp .eq a b) (strCmp .gt a b) (strCmp .le a b)
      (strCmp .ge a b) (strCmp .ne a b) (strCmp .gt b a) := by
  rcases strLt_tri a b with ⟨h1, h2, h3⟩ | ⟨h1, h2, h3⟩ | ⟨h1, h2, h3⟩
  · constructor <;> simp [strCmp, exactlyOne, h1, h2, h3]
  · subst h2; constructor <;> simp [strCmp, exactlyOne, strLt_irrefl]
  · constructor <;> simp [strCmp, exactlyOne, h1, h2, h3]

/-! ### what `compare` computes on each kind -/

/-- numbers (integers of any size, finite floats, booleans): the exact order of ℚ -/
theorem cmp_exact (op : CmpOp) (a b : Val) (x y : Rat) (ha : numVal a = some x) (hb : numVal b = some y) :
    compare P op a b = some (op.onOrd x y) := by
  cases a <;> cases b <;> simp_all [numVal, compare, toNumber, isBlank, isStr, Num.cmp, Num.toRat]

/-- two texts: numeric order when both parse as numbers, else code-point order -/
theorem cmp_text (op : CmpOp) (a b : List Char) :
    compare P op (.str a) (.str b) =
      match P a, P b with
      | some x, some y => some (op.onOrd x.toRat y.toRat)
      | _, _ => some (strCmp op a b) := by
  unfold compare
  cases hx : P a <;> cases hy : P b <;> simp [toNumber, isBlank, isStr, hx, hy, rawCompare, Num.cmp]

/-- dates and date-times: the order of their microsecond timestamps -/
theorem cmp_dates (op : CmpOp) (a b : Val) (x y : Int) (ha : stamp? a = some x) (hb : stamp? b = some y) :
    compare P op a b = some (op.onOrd x y) := by
  cases a <;> cases b <;> simp_all [stamp?, compare, toNumber, isBlank, isStr, rawCompare]

/-- **model = spec**: wherever the statement fixes a value, the comparison ladder returns it. -/
theorem spec_sound (op : CmpOp) (l r : Val) (b : Bool) (h : specCompare op l r = some b) :
    compare P op l r = some b := by
  cases l <;> cases r <;>
    simp_all [specCompare, compare, toNumber, isBlank, isStr, rawCompare, blankOp, blankEq, blankLt, stamp?,
      numVal, Num.cmp, Num.toRat, CmpOp.swap] <;>
    subst h <;> cases op <;> simp [CmpOp.onOrd] <;> (try split) <;> (try simp_all) <;> exact isEmpty_decide _

/-! ### the laws, for any two operands of one kind -/

inductive Kind where
  | number | text | date | blank
  deriving DecidableEq

def kindOf : Val → Option Kind
  | .int _ | .flt _ | .bool _ => some .number
  | .str _ => some .text
  | .date _ | .dt _ _ => some .date
  | .blank => some .blank
  | _ => none

theorem cmp_blank_blank (op : CmpOp) : compare P op .blank .blank = some (op.onOrd (0 : Rat) 0) := by
  simp [compare, toNumber, isBlank, isStr, Num.cmp, Num.toRat]

/-- For any two operands of one kind (numbers, texts, dates / date-times, blanks) every operator returns a
    boolean, exactly one of `<`, `=`, `>` holds, `<>` negates `=`, `<=` negates `>`, `>=` negates `<`,
    and `l < r` exactly when `r > l`. -/
theorem lawful (l r : Val) (k : Kind) (hl : kindOf l = some k) (hr : kindOf r = some k) :
    ∃ lt eq gt le ge ne gt', compare P .lt l r = some lt ∧ compare P .eq l r = some eq ∧
      compare P .gt l r = some gt ∧ compare P .le l r = some le ∧ compare P .ge l r = some ge ∧
      compare P .ne l r = some ne ∧ compare P .gt r l = some gt' ∧ Lawful lt eq gt le ge ne gt' := by
  cases k with
  | number =>
    obtain ⟨x, hx⟩ : ∃ x, numVal l = some x := by cases l <;> simp_all [kindOf, numVal]
    obtain ⟨y, hy⟩ : ∃ y, numVal r = some y := by cases r <;> simp_all [kindOf, numVal]
    exact ⟨_, _, _, _, _, _, _, cmp_exact P _ l r x y hx hy, cmp_exact P _ l r x y hx hy, cmp_exact P _ l r x y hx hy,
      cmp_exact P _ l r x y hx hy, cmp_exact P _ l r x y hx hy, cmp_exact P _ l r x y hx hy,
      cmp_exact P _ r l y x hy hx, onOrd_lawful x y⟩
  | text =>
    obtain ⟨a, rfl⟩ : ∃ a, l = .str a := by cases l <;> simp_all [kindOf]
    obtain ⟨b, rfl⟩ : ∃ b, r = .str b := by cases r <;> simp_all [kindOf]
    simp only [cmp_text]
    cases hx : P a <;> cases hy : P b <;> simp only [] <;>
      first
      | exact ⟨_, _, _, _, _, _, _, rfl, rfl, rfl, rfl, rfl, rfl, rfl, strCmp_lawful a b⟩
      | exact ⟨_, _, _, _, _, _, _, rfl, rfl, rfl, rfl, rfl, rfl, rfl, onOrd_lawful _ _⟩
  | date =>
    obtain ⟨x, hx⟩ : ∃ x, stamp? l = some x := by cases l <;> simp_all [kindOf, stamp?]
    obtain ⟨y, hy⟩ : ∃ y, stamp? r = some y := by cases r <;> simp_all [kindOf, stamp?]
    exact ⟨_, _, _, _, _, _, _, cmp_dates P _ l r x y hx hy, cmp_dates P _ l r x y hx hy, cmp_dates P _ l r x y hx hy,
      cmp_dates P _ l r x y hx hy, cmp_dates P _ l r x y hx hy, cmp_dates P _ l r x y hx hy,
      cmp_dates P _ r l y x hy hx, onOrd_lawful x y⟩
  | blank =>
    obtain rfl : l = .blank := by cases l <;> simp_all [kindOf]
    obtain rfl : r = .blank := by cases r <;> simp_all [kindOf]
    exact ⟨_, _, _, _, _, _, _, cmp_blank_blank P _, cmp_blank_blank P _, cmp_blank_blank P _, cmp_blank_blank P _,
      cmp_blank_blank P _, cmp_blank_blank P _, cmp_blank_blank P _, onOrd_lawful (0 : Rat) 0⟩

/-! ### the blank cell and dates -/

theorem blank_eq_zero : compare P .eq .blank (.int 0) = some true := spec_sound P _ _ _ _ (by decide)
theorem blank_eq_zero_float : compare P .eq .blank (.flt 0) = some true := spec_sound P _ _ _ _ (by decide)
theorem blank_eq_empty_text : compare P .eq .blank (.str []) = some true := spec_sound P _ _ _ _ (by decide)
theorem blank_ne_empty_text : compare P .ne .blank (.str []) = some false := spec_sound P _ _ _ _ (by decide)
theorem blank_eq_false : compare P .eq .blank (.bool false) = some true := spec_sound P _ _ _ _ (by decide)

theorem blank_lt_positive (q : Rat) (h : 0 < q) : compare P .lt .blank (.flt q) = some true := by
  apply spec_sound
  have : ¬ q < 0 := by exact not_lt.mpr (le_of_lt h)
  simp [specCompare, stamp?, numVal, isBlank, this, CmpOp.onOrd, h]

theorem blank_lt_positive_int (z : Int) (h : 0 < z) : compare P .lt .blank (.int z) = some true := by
  apply spec_sound
  have h' : (0 : Rat) < (z : Rat) := by exact_mod_cast h
  have : ¬ (z : Rat) < 0 := not_lt.mpr (le_of_lt h')
  simp [specCompare, stamp?, numVal, isBlank, this, CmpOp.onOrd, h']

theorem blank_lt_text (s : List Char) (h : s ≠ []) : compare P .lt .blank (.str s) = some true := by
  apply spec_sound
  cases s <;> simp_all [specCompare, CmpOp.onOrd]

theorem text_gt_blank (s : List Char) (h : s ≠ []) : compare P .gt (.str s) .blank = some true := by
  apply spec_sound
  cases s <;> simp_all [specCompare, CmpOp.onOrd]

theorem blank_lt_date (o : Int) : compare P .lt .blank (.date o) = some true := spec_sound P _ _ _ _ (by simp [specCompare, CmpOp.onOrd])
theorem blank_lt_datetime (o : Int) (u : Nat) : compare P .lt .blank (.dt o u) = some true :=
  spec_sound P _ _ _ _ (by simp [specCompare, CmpOp.onOrd])

/-- a date equals the date-time at its midnight -/
theorem date_eq_midnight (o : Int) : compare P .eq (.date o) (.dt o 0) = some true := by
  apply spec_sound; simp [specCompare, stamp?, CmpOp.onOrd]

/-! ### non-vacuity: the hypotheses are met by concrete operands, and the ladder is not constant -/

example : numVal (.flt (3/2)) = some (3/2) ∧ numVal (.int (2^70 + 1)) = some (((2^70 + 1 : Int) : Rat)) := by
  constructor <;> rfl
example : compare (fun _ => none) .lt (.flt (6/5)) (.flt (3/2)) = some true := by decide +kernel
example : compare (fun _ => none) .eq (.flt (6/5)) (.flt (3/2)) = some false := by decide +kernel
example : compare (fun _ => none) .lt (.int (2^70)) (.flt ((2^70 : Int) + 1/2)) = some true := by decide +kernel
example : kindOf (.str ['a']) = some .text ∧ kindOf (.dt 5 7) = some .date := by decide

end E2P.C10
