/-
  C14 — lookup and reference functions return the addressed element.  Property theorems only.
-/
import E2P.Model.Lookup
import E2P.Spec.LookupSpec

namespace E2P.C14
open E2P

/-! ### exact matching: the first row whose key equals the lookup value -/

theorem scanExact_spec (ci : Bool) (k : LKind) (lookup : Val) (keys : List Val) (i : Nat) :
    scanExact ci k lookup keys i =
      (keys.findIdx? fun key => eligible k key && keyEq ci key lookup).map (· + i + 1) := by
  induction keys generalizing i with
  | nil => simp [scanExact]
  | cons key rest ih =>
    simp only [scanExact, List.findIdx?_cons]
    by_cases h : (eligible k key && keyEq ci key lookup) = true
    · simp [h]
    · simp only [h, Bool.false_eq_true, if_false, ih (i + 1)]
      cases List.findIdx? (fun key => eligible k key && keyEq ci key lookup) rest <;> simp <;> omega

/-- on a key column of the lookup value's kind, eligibility filters nothing -/
theorem findIdx_eligible (ci : Bool) (k : LKind) (lookup : Val) (keys : List Val)
    (h : keys.all (eligible k) = true) :
    (keys.findIdx? fun key => eligible k key && keyEq ci key lookup) =
      keys.findIdx? fun key => keyEq ci key lookup := by
  induction keys with
  | nil => rfl
  | cons key rest ih =>
    simp only [List.all_cons, Bool.and_eq_true] at h
    simp [List.findIdx?_cons, h.1, ih h.2]

/-- **MATCH(v, keys, 0)** = 1-based position of the first key equal to `v`, else #N/A -/
theorem match_exact_first (lookup : Val) (rows keys : List Val) (hk : keysOf rows = some keys)
    (he : allEligible lookup keys = true) (ht : textsModelled (lookup :: keys) = true) :
    matchFn lookup (.list rows) 0 = .ok (idxOrNA (specFirstEqual true lookup keys)) := by
  unfold allEligible at he
  cases hkind : lkind lookup with
  | none => simp [hkind] at he
  | some k =>
    simp only [hkind, Bool.and_eq_true] at he
    simp only [matchFn, hkind, hk, ht, Bool.not_true, Bool.false_eq_true, if_false, if_true]
    rw [scanExact_spec, findIdx_eligible _ _ _ _ he.2]
    simp only [specFirstEqual]
    cases List.findIdx? (fun key => keyEq true key lookup) keys <;> simp

/-- the position returned by an exact scan holds an equal key, and no earlier key is equal -/
theorem first_equal_is_first (ci : Bool) (lookup : Val) (keys : List Val) (i : Nat)
    (h : specFirstEqual ci lookup keys = some i) :
    ∃ j, i = j + 1 ∧ (∃ key, keys[j]? = some key ∧ keyEq ci key lookup = true) ∧
      ∀ j' key', j' < j → keys[j']? = some key' → keyEq ci key' lookup = false := by
  unfold specFirstEqual at h
  cases hf : List.findIdx? (fun key => keyEq ci key lookup) keys with
  | none => simp [hf] at h
  | some j =>
    simp [hf] at h
    refine ⟨j, by omega, ?_, ?_⟩
    · have := List.findIdx?_eq_some_iff_getElem.mp hf
      obtain ⟨hlt, hp, _⟩ := this
      exact ⟨keys[j], by simp [hlt], hp⟩
    · intro j' key' hj' hk'
      have := List.findIdx?_eq_some_iff_getElem.mp hf
      obtain ⟨hlt, _, hall⟩ := this
      have hlt' : j' < keys.length := by omega
      have e : keys[j'] = key' := by
        have : keys[j']? = some keys[j'] := by simp [hlt']
        rw [this] at hk'; exact Option.some.inj hk'
      have := hall j' hj'
      rw [e] at this
      simpa using this

/-- nothing is found exactly when no key equals the lookup value: the answer is then #N/A -/
theorem not_found_iff (ci : Bool) (lookup : Val) (keys : List Val) :
    specFirstEqual ci lookup keys = none ↔ ∀ key ∈ keys, keyEq ci key lookup = false := by
  unfold specFirstEqual
  cases hf : List.findIdx? (fun key => keyEq ci key lookup) keys with
  | none =>
    simp only [Option.map_none, true_iff]
    intro key hkey
    have := List.findIdx?_eq_none_iff.mp hf key hkey
    simpa using this
  | some j =>
    simp only [Option.map_some, reduceCtorEq, false_iff]
    intro hall
    have := List.findIdx?_eq_some_iff_getElem.mp hf
    obtain ⟨hlt, hp, _⟩ := this
    have := hall keys[j] (List.getElem_mem hlt)
    simp [hp] at this

/-! ### approximate matching: the scan keeps the longest prefix of acceptable keys -/

theorem scanApprox_takeWhile (ok : Val → Bool) (k : LKind) (keys : List Val) (i : Nat) (last : Option Nat)
    (h : keys.all (eligible k) = true) :
    scanApprox ok k keys i last =
      if (keys.takeWhile ok).length = 0 then last else some (i + (keys.takeWhile ok).length) := by
  induction keys generalizing i last with
  | nil => simp [scanApprox]
  | cons key rest ih =>
    simp only [List.all_cons, Bool.and_eq_true] at h
    simp only [scanApprox, h.1, if_true, List.takeWhile_cons]
    by_cases hok : ok key = true
    · simp only [hok, if_true, List.length_cons, ih (i + 1) (some (i + 1)) h.2]
      split <;> simp <;> omega
    · simp [hok]

/-- on ascending keys the acceptable keys form a prefix: every key after the first unacceptable one is
    unacceptable too (`ok` = "key ≤ lookup"; follows from transitivity of ≤).  Then the scan result is the
    **last** row whose key is not greater than the lookup value — the last row of the column when the
    lookup value exceeds every key. -/
theorem approx_is_last_ok (ok : Val → Bool) (k : LKind) (keys : List Val)
    (h : keys.all (eligible k) = true)
    (hprefix : ∀ i j ki kj, i < j → keys[i]? = some ki → keys[j]? = some kj → ok kj = true → ok ki = true) :
    ∀ r, scanApprox ok k keys 0 none = r →
      (match r with
       | none => ∀ key ∈ keys, ok key = false
       | some n => 1 ≤ n ∧ n ≤ keys.length ∧ (∀ j key, j < n → keys[j]? = some key → ok key = true) ∧
                   (∀ j key, n ≤ j → keys[j]? = some key → ok key = false)) := by
  intro r hr
  rw [scanApprox_takeWhile ok k keys 0 none h] at hr
  have hlen := List.length_takeWhile_le ok keys
  by_cases h0 : (keys.takeWhile ok).length = 0
  · simp only [h0, if_true] at hr
    subst hr
    simp only
    intro key hkey
    -- the first key is not ok, hence (prefix property) none is
    cases keys with
    | nil => simp at hkey
    | cons k0 rest =>
      have hk0 : ok k0 = false := by
        by_cases c : ok k0 = true
        · simp [List.takeWhile_cons, c] at h0
        · simpa using c
      obtain ⟨j, hj, hjk⟩ := List.getElem_of_mem hkey
      cases j with
      | zero => simp at hjk; rw [← hjk]; exact hk0
      | succ j' =>
        by_cases c : ok key = true
        · have := hprefix 0 (j' + 1) k0 key (by omega) (by simp) (by simp [hj, hjk]) c
          rw [hk0] at this; cases this
        · simpa using c
  · simp only [h0, if_false, Nat.zero_add] at hr
    subst hr
    simp only
    refine ⟨by omega, hlen, ?_, ?_⟩
    · intro j key hj hkey
      have hj' : j < (keys.takeWhile ok).length := hj
      have e : (keys.takeWhile ok)[j]? = keys[j]? := by
        rw [List.getElem?_eq_getElem hj', List.getElem?_eq_getElem (by omega)]
        congr 1
        exact List.getElem_takeWhile ..
      have hm : (keys.takeWhile ok)[j] ∈ keys.takeWhile ok := List.getElem_mem hj'
      have := (List.mem_takeWhile_imp hm)
      rw [List.getElem?_eq_getElem hj'] at e
      rw [← e] at hkey
      rw [← Option.some.inj hkey]; exact this
    · intro j key hj hkey
      -- key at position n (the first one not taken) is not ok; everything later is not ok by the prefix property
      have hjlt : j < keys.length := by
        by_contra c
        rw [List.getElem?_eq_none (by omega)] at hkey; cases hkey
      by_cases c : ok key = true
      · exfalso
        have hn : (keys.takeWhile ok).length < keys.length := by omega
        have hnot : ok keys[(keys.takeWhile ok).length] = false := by
          have := List.takeWhile_ne_nil_iff_exists_getElem.mp  (by exact (fun h => h0 (by simp [h])) : keys.takeWhile ok ≠ [])
          simpa using List.not_of_length_takeWhile_lt hn
        by_cases hje : j = (keys.takeWhile ok).length
        · subst hje
          rw [List.getElem?_eq_getElem hjlt] at hkey
          rw [Option.some.inj hkey] at hnot
          rw [hnot] at c; cases c
        · have := hprefix (keys.takeWhile ok).length j _ key (by omega) (List.getElem?_eq_getElem hn) hkey c
          rw [hnot] at this; cases this
      · simpa using c

/-! ### column letters: bijective base 26 -/

/-- letters → number → letters is checked over the whole range Excel has (1 … 16384) by kernel evaluation;
    the finite table is the property's own quantifier ("every column 1..16384") -/
theorem address_columns_roundtrip :
    (List.range 16384).all (fun i => colIndex (colLetters (i + 1)) == i + 1 && (colLetters (i + 1)).all isUpper) = true := by
  decide +kernel

theorem address_spec (r : Int) (c : Nat) :
    addressFn r (c : Int) = .ok (.str (['$'] ++ colLetters c ++ ['$'] ++ (toString r).toList)) := by
  simp [addressFn]

/-! ### non-vacuity -/
example : matchFn (.int 5) (.list [.list [.int 1], .list [.flt 5], .list [.int 9]]) 0 = .ok (.int 2) := by decide +kernel
example : matchFn (.int 10) (.list [.list [.int 1], .list [.flt 5], .list [.int 9]]) 1 = .ok (.int 3) := by decide +kernel
example : xmatchFn (.int 2) (.list [.list [.int 1], .list [.int 2], .list [.int 2]]) 0 (-1) = .ok (.int 3) := by decide +kernel
example : colLetters 26 = ['Z'] ∧ colLetters 27 = ['A', 'A'] ∧ colLetters 16384 = ['X', 'F', 'D'] := by decide +kernel

end E2P.C14
