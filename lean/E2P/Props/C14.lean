/-
  C14 — lookup and reference functions return the addressed element.  Property theorems only
  (helper lemmas: E2P/Lemmas/LookupOrder, LookupScan, LookupIndex, LookupCols).
-/
import E2P.Model.Lookup
import E2P.Spec.LookupSpec
import E2P.Lemmas.LookupOrder
import E2P.Lemmas.LookupScan
import E2P.Lemmas.LookupIndex
import E2P.Lemmas.LookupCols
import E2P.Lemmas.LookupBin
import E2P.Lemmas.LookupBinApprox

namespace E2P.C14
open E2P

/-! ### exact matching: the first row whose key equals the lookup value -/

theorem scanExact_spec (ci : Bool) (k : LKind) (lookup : Val) (keys : List Val) (i : Nat) :
    scanExact ci k lookup keys i =
      (keys.findIdx? fun key => eligible k key && keyEq ci key lookup).map (· + i + 1) := by
  induction keys generalizing i with
  | nil => simp [scanExact]
  | cons key rest ih =>
    simp only [scanExact, List.findIdx?_cons]
    by_cases h : (eligible k key && keyEq ci key lookup) = true
    · simp [h]
    · simp only [h, Bool.false_eq_true, if_false, ih (i + 1)]
      cases List.findIdx? (fun key => eligible k key && keyEq ci key lookup) rest with
      | none => simp
      | some j => simp; omega

/-- on a key column of the lookup value's kind, eligibility filters nothing -/
theorem findIdx_eligible (ci : Bool) (k : LKind) (lookup : Val) (keys : List Val)
    (h : keys.all (eligible k) = true) :
    (keys.findIdx? fun key => eligible k key && keyEq ci key lookup) =
      keys.findIdx? fun key => keyEq ci key lookup := by
  induction keys with
  | nil => rfl
  | cons key rest ih =>
    simp only [List.all_cons, Bool.and_eq_true] at h
    simp [List.findIdx?_cons, h.1, ih h.2]

/-- **MATCH(v, keys, 0)** = 1-based position of the first key equal to `v`, else #N/A -/
theorem match_exact_first (lookup : Val) (rows keys : List Val) (hk : keysOf rows = some keys)
    (he : allEligible lookup keys = true) (ht : textsModelled (lookup :: keys) = true) :
    matchFn lookup (.list rows) 0 = .ok (idxOrNA (specFirstEqual true lookup keys)) := by
  unfold allEligible at he
  cases hkind : lkind lookup with
  | none => simp [hkind] at he
  | some k =>
    simp only [hkind, Bool.and_eq_true] at he
    have hlk : lookupKind lookup = some k := by cases lookup <;> simp_all [lookupKind]
    simp only [matchFn, hlk, hk, ht, Bool.not_true, Bool.false_eq_true, if_false, if_true]
    rw [scanExact_spec, findIdx_eligible _ _ _ _ he.2]
    simp only [specFirstEqual]

/-- the position returned by an exact scan holds an equal key, and no earlier key is equal -/
theorem first_equal_is_first (ci : Bool) (lookup : Val) (keys : List Val) (i : Nat)
    (h : specFirstEqual ci lookup keys = some i) :
    ∃ j, i = j + 1 ∧ (∃ key, keys[j]? = some key ∧ keyEq ci key lookup = true) ∧
      ∀ j' key', j' < j → keys[j']? = some key' → keyEq ci key' lookup = false := by
  unfold specFirstEqual at h
  cases hf : List.findIdx? (fun key => keyEq ci key lookup) keys with
  | none => simp [hf] at h
  | some j =>
    simp [hf] at h
    refine ⟨j, by omega, ?_, ?_⟩
    · have := List.findIdx?_eq_some_iff_getElem.mp hf
      obtain ⟨hlt, hp, _⟩ := this
      exact ⟨keys[j], by simp [hlt], hp⟩
    · intro j' key' hj' hk'
      have := List.findIdx?_eq_some_iff_getElem.mp hf
      obtain ⟨hlt, _, hall⟩ := this
      have hlt' : j' < keys.length := by omega
      have e : keys[j'] = key' := by
        have : keys[j']? = some keys[j'] := by simp [hlt']
        rw [this] at hk'; exact Option.some.inj hk'
      have := hall j' hj'
      rw [e] at this
      simpa using this

/-- nothing is found exactly when no key equals the lookup value: the answer is then #N/A -/
theorem not_found_iff (ci : Bool) (lookup : Val) (keys : List Val) :
    specFirstEqual ci lookup keys = none ↔ ∀ key ∈ keys, keyEq ci key lookup = false := by
  unfold specFirstEqual
  cases hf : List.findIdx? (fun key => keyEq ci key lookup) keys with
  | none =>
    simp only [Option.map_none, true_iff]
    intro key hkey
    have := List.findIdx?_eq_none_iff.mp hf key hkey
    simpa using this
  | some j =>
    simp only [Option.map_some, reduceCtorEq, false_iff]
    intro hall
    have := List.findIdx?_eq_some_iff_getElem.mp hf
    obtain ⟨hlt, hp, _⟩ := this
    have := hall keys[j] (List.getElem_mem hlt)
    simp [hp] at this

/-! ### approximate matching: the scan keeps the longest prefix of acceptable keys -/

theorem scanApprox_takeWhile (ok : Val → Bool) (k : LKind) (keys : List Val) (i : Nat) (last : Option Nat)
    (h : keys.all (eligible k) = true) :
    scanApprox ok k keys i last =
      if (keys.takeWhile ok).length = 0 then last else some (i + (keys.takeWhile ok).length) := by
  induction keys generalizing i last with
  | nil => simp [scanApprox]
  | cons key rest ih =>
    simp only [List.all_cons, Bool.and_eq_true] at h
    simp only [scanApprox, h.1, if_true, List.takeWhile_cons]
    by_cases hok : ok key = true
    · simp only [hok, if_true, List.length_cons, ih (i + 1) (some (i + 1)) h.2]
      have hne : ¬ ((List.takeWhile ok rest).length + 1 = 0) := by omega
      rw [if_neg hne]
      by_cases h0 : (List.takeWhile ok rest).length = 0
      · rw [if_pos h0, h0]
      · rw [if_neg h0]; congr 1; omega
    · simp [hok]

/-- on ascending keys the acceptable keys form a prefix: every key after the first unacceptable one is
    unacceptable too (`ok` = "key ≤ lookup"; follows from transitivity of ≤, see `match_approx_last_le`).
    Then the scan result is the **last** row whose key is not greater than the lookup value — the last row
    of the column when the lookup value exceeds every key. -/
theorem approx_is_last_ok (ok : Val → Bool) (k : LKind) (keys : List Val)
    (h : keys.all (eligible k) = true)
    (hprefix : ∀ (i j : Nat) ki kj, i < j → keys[i]? = some ki → keys[j]? = some kj → ok kj = true → ok ki = true) :
    ∀ r, scanApprox ok k keys 0 none = r →
      (match r with
       | none => ∀ key ∈ keys, ok key = false
       | some n => 1 ≤ n ∧ n ≤ keys.length ∧ (∀ j key, j < n → keys[j]? = some key → ok key = true) ∧
                   (∀ j key, n ≤ j → keys[j]? = some key → ok key = false)) := by
  intro r hr
  rw [scanApprox_takeWhile ok k keys 0 none h] at hr
  have hlen := LookupOrder.length_takeWhile_le ok keys
  -- every key at or after the end of the prefix is unacceptable
  have hafter : ∀ j key, (keys.takeWhile ok).length ≤ j → keys[j]? = some key → ok key = false := by
    intro j key hj hkey
    obtain ⟨hjlt, _⟩ := List.getElem?_eq_some_iff.mp hkey
    have hn : (keys.takeWhile ok).length < keys.length := by omega
    have hb := LookupOrder.takeWhile_boundary_false ok keys _ (List.getElem?_eq_getElem hn)
    by_cases hje : j = (keys.takeWhile ok).length
    · subst hje
      exact LookupOrder.takeWhile_boundary_false ok keys key hkey
    · cases c : ok key with
      | false => rfl
      | true =>
        have := hprefix (keys.takeWhile ok).length j _ key (by omega) (List.getElem?_eq_getElem hn) hkey c
        rw [hb] at this; cases this
  by_cases h0 : (keys.takeWhile ok).length = 0
  · simp only [h0, if_true] at hr
    subst hr
    intro key hkey
    obtain ⟨j, hj, hjk⟩ := List.getElem_of_mem hkey
    exact hafter j key (by omega) (by rw [List.getElem?_eq_getElem hj, hjk])
  · simp only [h0, if_false, Nat.zero_add] at hr
    subst hr
    exact ⟨by omega, hlen, LookupOrder.takeWhile_getElem?_true ok keys, hafter⟩

/-- **MATCH(v, keys, 1)** on ascending keys = 1-based position of the last key not greater than `v`, else #N/A.
    (`keyLe` is transitive on keys of one kind — numbers: the order of ℚ; texts: the code-point order of the
    lower-cased texts — hence on an ascending column the keys ≤ `v` form a prefix, whose end the scan returns.) -/
theorem match_approx_last_le (lookup : Val) (rows keys : List Val) (hk : keysOf rows = some keys)
    (he : allEligible lookup keys = true) (ht : textsModelled (lookup :: keys) = true)
    (hs : sortedAsc true keys = true) :
    matchFn lookup (.list rows) 1 = .ok (idxOrNA (specLastLe true lookup keys)) := by
  obtain ⟨k, hkind, hnbl, hel⟩ := (LookupScan.allEligible_iff lookup keys).mp he
  have hlk : lookupKind lookup = some k := by cases lookup <;> simp_all [lookupKind]
  have hall : keys.all (eligible k) = true := List.all_eq_true.mpr hel
  have h10 : ¬ ((1 : Int) = 0) := by decide
  have h01 : (0 : Int) < 1 := by decide
  simp only [matchFn, hlk, hk, ht, Bool.not_true, Bool.false_eq_true, if_false, h10, h01, if_true]
  rw [scanApprox_takeWhile _ k keys 0 none hall,
    LookupOrder.specLastLe_eq_prefix true k lookup hkind keys
      (fun x hx => LookupOrder.kind_of_eligible k x (hel x hx)) hs]
  simp only [Nat.zero_add]

/-- the lookup value is not smaller than any key: MATCH(v, keys, 1) is the last row of the column
    (ascending order is not even needed for this case) -/
theorem match_approx_above_all (lookup : Val) (rows keys : List Val) (hk : keysOf rows = some keys)
    (he : allEligible lookup keys = true) (ht : textsModelled (lookup :: keys) = true)
    (hall : ∀ key ∈ keys, keyLe true key lookup = true) (hne : keys ≠ []) :
    matchFn lookup (.list rows) 1 = .ok (.int keys.length) := by
  obtain ⟨k, hkind, hnbl, hel⟩ := (LookupScan.allEligible_iff lookup keys).mp he
  have hlk : lookupKind lookup = some k := by cases lookup <;> simp_all [lookupKind]
  have hall' : keys.all (eligible k) = true := List.all_eq_true.mpr hel
  have h10 : ¬ ((1 : Int) = 0) := by decide
  have h01 : (0 : Int) < 1 := by decide
  have hlen : keys.length ≠ 0 := fun h => hne (List.length_eq_zero_iff.mp h)
  simp only [matchFn, hlk, hk, ht, Bool.not_true, Bool.false_eq_true, if_false, h10, h01, if_true]
  rw [scanApprox_takeWhile _ k keys 0 none hall',
    LookupOrder.takeWhile_eq_self (fun key => keyLe true key lookup) keys hall, if_neg hlen]
  simp only [Nat.zero_add, idxOrNA]

/-! ### XMATCH, linear search modes -/

/-- **XMATCH(v, keys, 0, 1)**: first to last — the first equal key -/
theorem xmatch_first (lookup : Val) (rows keys : List Val) (hk : keysOf rows = some keys)
    (he : allEligible lookup keys = true) (ht : textsModelled (lookup :: keys) = true) :
    xmatchFn lookup (.list rows) 0 1 = .ok (idxOrNA (specFirstEqual true lookup keys)) := by
  simp only [xmatchFn, if_true]
  exact match_exact_first lookup rows keys hk he ht

/-- **XMATCH(v, keys, 0, -1)**: last to first — the last equal key -/
theorem xmatch_last (lookup : Val) (rows keys : List Val) (hk : keysOf rows = some keys)
    (he : allEligible lookup keys = true) (ht : textsModelled (lookup :: keys) = true) :
    xmatchFn lookup (.list rows) 0 (-1) = .ok (idxOrNA (specLastEqual true lookup keys)) := by
  have hm := match_exact_first lookup rows.reverse keys.reverse (LookupScan.keysOf_reverse rows keys hk)
    (by rw [LookupScan.allEligible_reverse]; exact he) (by rw [LookupScan.textsModelled_reverse]; exact ht)
  have hlen := LookupScan.keysOf_length rows keys hk
  have h1 : ¬ ((-1 : Int) = 1) := by decide
  simp only [xmatchFn, h1, if_false, if_true, hm, specFirstEqual, specLastEqual]
  cases hf : List.findIdx? (fun key => keyEq true key lookup) keys.reverse with
  | none => rfl
  | some j =>
    obtain ⟨hj, _, _⟩ := List.findIdx?_eq_some_iff_getElem.mp hf
    rw [List.length_reverse] at hj
    simp only [Option.map_some, idxOrNA]
    congr 2
    omega

/-! ### VLOOKUP: the result cell of the row found (texts are compared case-sensitively by `_vlookup`) -/

/-- **VLOOKUP(v, table, col, FALSE)** = the `col`-th cell of the first row whose key equals `v`, else #N/A -/
theorem vlookup_exact_first (lookup : Val) (rows keys : List Val) (col : Int) (hk : keysOf rows = some keys)
    (he : allEligible lookup keys = true) (ht : textsModelled (lookup :: keys) = true) (hc : 1 ≤ col)
    (hw : ∀ row ∈ rows, ∃ cells, row = .list cells ∧ col.toNat ≤ cells.length) :
    match specFirstEqual false lookup keys with
    | none => vlookupFn lookup (.list rows) col (.bool false) = .ok errNA
    | some i => ∃ cells v, rows[i - 1]? = some (.list cells) ∧ cells[col.toNat - 1]? = some v ∧
        vlookupFn lookup (.list rows) col (.bool false) = .ok v := by
  obtain ⟨k, hkind, hnbl, hel⟩ := (LookupScan.allEligible_iff lookup keys).mp he
  have hlk : lookupKind lookup = some k := by cases lookup <;> simp_all [lookupKind]
  have hve : ∀ key ∈ keys, vEligible lookup key = true :=
    fun key hkey => LookupScan.vEligible_of_eligible lookup key k hkind (hel key hkey)
  have hfn : vlookupFn lookup (.list rows) col (.bool false) = vlookupExact lookup col rows := by
    simp [vlookupFn, hlk, LookupScan.keysOf_filterMap rows keys hk, ht, truthy]
  rw [hfn, LookupScan.vlookupExact_spec lookup col rows keys hk hve]
  unfold specFirstEqual
  cases hf : List.findIdx? (fun key => keyEq false key lookup) keys with
  | none => rfl
  | some j =>
    obtain ⟨hj, _, _⟩ := List.findIdx?_eq_some_iff_getElem.mp hf
    have hj' : j < rows.length := by rw [LookupScan.keysOf_length rows keys hk]; exact hj
    obtain ⟨cells, hrow, hcw⟩ := hw rows[j] (List.getElem_mem hj')
    obtain ⟨v, hv1, hv2⟩ := LookupScan.rowCol_ok cells col hc hcw
    refine ⟨cells, v, ?_, hv1, ?_⟩
    · simp [hj', hrow]
    · simp [List.getD_eq_getElem?_getD, hj', hrow, hv2]

/-- **VLOOKUP(v, table, col, TRUE)** on ascending keys = the `col`-th cell of the last row whose key is not
    greater than `v`, else #N/A -/
theorem vlookup_approx_last_le (lookup : Val) (rows keys : List Val) (col : Int) (hk : keysOf rows = some keys)
    (he : allEligible lookup keys = true) (ht : textsModelled (lookup :: keys) = true) (hc : 1 ≤ col)
    (hw : ∀ row ∈ rows, ∃ cells, row = .list cells ∧ col.toNat ≤ cells.length)
    (hs : sortedAsc false keys = true) :
    match specLastLe false lookup keys with
    | none => vlookupFn lookup (.list rows) col (.bool true) = .ok errNA
    | some i => ∃ cells v, rows[i - 1]? = some (.list cells) ∧ cells[col.toNat - 1]? = some v ∧
        vlookupFn lookup (.list rows) col (.bool true) = .ok v := by
  obtain ⟨k, hkind, hnbl, hel⟩ := (LookupScan.allEligible_iff lookup keys).mp he
  have hlk : lookupKind lookup = some k := by cases lookup <;> simp_all [lookupKind]
  have hve : ∀ key ∈ keys, vEligible lookup key = true :=
    fun key hkey => LookupScan.vEligible_of_eligible lookup key k hkind (hel key hkey)
  have hfn : vlookupFn lookup (.list rows) col (.bool true) = vlookupApprox lookup col rows (.ok errNA) := by
    simp [vlookupFn, hlk, LookupScan.keysOf_filterMap rows keys hk, ht, truthy]
  have hrc : ∀ row ∈ rows, ∃ v, rowCol row col = .ok v := by
    intro row hrow
    obtain ⟨cells, rfl, hcw⟩ := hw row hrow
    obtain ⟨v, _, hv⟩ := LookupScan.rowCol_ok cells col hc hcw
    exact ⟨v, hv⟩
  rw [hfn, LookupScan.vlookupApprox_spec lookup col rows keys (.ok errNA) hk hve hrc,
    LookupOrder.specLastLe_eq_prefix false k lookup hkind keys
      (fun x hx => LookupOrder.kind_of_eligible k x (hel x hx)) hs]
  have hlen := LookupOrder.length_takeWhile_le (fun key => keyLe false key lookup) keys
  cases hn : (List.takeWhile (fun key => keyLe false key lookup) keys).length with
  | zero => rfl
  | succ n =>
    rw [hn] at hlen
    have hn' : n < rows.length := by rw [LookupScan.keysOf_length rows keys hk]; omega
    obtain ⟨cells, hrow, hcw⟩ := hw rows[n] (List.getElem_mem hn')
    obtain ⟨v, hv1, hv2⟩ := LookupScan.rowCol_ok cells col hc hcw
    simp only [Nat.succ_ne_zero, if_false]
    refine ⟨cells, v, ?_, hv1, ?_⟩
    · simp [hn', hrow]
    · simp [List.getD_eq_getElem?_getD, hn', hrow, hv2]

/-! ### INDEX -/

/-- **INDEX(area, r, c)** with both indices ≥ 1 = the cell in row `r`, column `c` of the rectangular area;
    '#REF!' when `r` or `c` is outside (`specIndex`).  The cells are not one-element lists (a cell is a scalar;
    `_index` would unwrap a one-element list result). -/
theorem index_spec (rs : List (List Val)) (w : Nat) (r c : Int) (hne : rs ≠ [])
    (hrect : ∀ row ∈ rs, row.length = w) (hr : 1 ≤ r) (hc : 1 ≤ c)
    (hcells : ∀ row ∈ rs, ∀ x ∈ row, ∀ y, x ≠ .list [y]) :
    ∃ v, specIndex rs r c = some v ∧ indexFn (.list (rs.map .list)) (.int r) (.int c) = .ok v := by
  unfold indexFn
  simp only [reduceCtorEq, and_false, if_false]
  rw [LookupIndex.asRows_map _ (fun _ => by rfl) rs]
  simp only [LookupIndex.isEmpty_false rs hne, Bool.false_eq_true, if_false,
    LookupIndex.headD_length rs w hne hrect]
  have hr0 : ¬ r < 0 := by omega
  have hc0 : ¬ c < 0 := by omega
  have hr1 : r ≠ 0 := by omega
  have hc1 : c ≠ 0 := by omega
  simp only [specIndex, hr0, hc0, hr1, hc1, or_self, if_false, decide_false, Bool.false_or]
  generalize hi : (r - 1).toNat = i
  generalize hj : (c - 1).toNat = j
  by_cases hrl : (rs.length : Int) < r
  · have : rs[i]? = none := by
      rw [List.getElem?_eq_none_iff]; omega
    simp [hrl, this]
  · have hlt : i < rs.length := by omega
    have hrow : rs[i]? = some rs[i] := List.getElem?_eq_getElem hlt
    have hmem : rs[i] ∈ rs := List.getElem_mem hlt
    generalize rs[i] = row at hrow hmem
    have hw := hrect row hmem
    simp only [hrl, hrow, decide_false, Bool.false_or]
    by_cases hcl : (w : Int) < c
    · have : row[j]? = none := by
        rw [List.getElem?_eq_none_iff]; omega
      simp [hcl, this]
    · have hlt' : j < row.length := by omega
      have hcell : row[j]? = some row[j] := List.getElem?_eq_getElem hlt'
      have hmem' : row[j] ∈ row := List.getElem_mem hlt'
      generalize row[j] = v at hcell hmem'
      have hv := hcells row hmem v hmem'
      refine ⟨v, by simp [hcell], ?_⟩
      simp only [hcl, decide_false, Bool.false_eq_true, if_false, List.mapM_cons, List.mapM_nil, hcell,
        Option.pure_def, Option.bind_eq_bind, Option.bind_some]
      cases v with
      | list l =>
        match l, hv with
        | [], _ => rfl
        | [y], hv => exact absurd rfl (hv y)
        | _ :: _ :: _, _ => rfl
      | _ => rfl

/-- a negative row or column number: '#REF!' -/
theorem index_negative_ref (rs : List (List Val)) (r c : Int) (h : r < 0 ∨ c < 0) :
    indexFn (.list (rs.map .list)) (.int r) (.int c) = .ok errRef := by
  unfold indexFn
  simp only [reduceCtorEq, and_false, if_false]
  rw [LookupIndex.asRows_map _ (fun _ => by rfl) rs]
  simp only
  split
  · rfl
  · rcases h with h | h <;> simp [h]

/-- a row or column number beyond the area: '#REF!' -/
theorem index_outside_ref (rs : List (List Val)) (w : Nat) (r c : Int) (hne : rs ≠ [])
    (hrect : ∀ row ∈ rs, row.length = w) (h : (rs.length : Int) < r ∨ (w : Int) < c) :
    indexFn (.list (rs.map .list)) (.int r) (.int c) = .ok errRef := by
  unfold indexFn
  simp only [reduceCtorEq, and_false, if_false]
  rw [LookupIndex.asRows_map _ (fun _ => by rfl) rs]
  simp only [LookupIndex.isEmpty_false rs hne, Bool.false_eq_true, if_false,
    LookupIndex.headD_length rs w hne hrect]
  rcases h with h | h <;> simp [h]

/-- **INDEX(column, i)** with one index over a column vector = its `i`-th element
    (a one-cell column takes the index as a column number; the cell must then not be a one-element list) -/
theorem index_column (vals : List Val) (i : Int) (h1 : 1 ≤ i) (h2 : i ≤ vals.length)
    (hlen : 2 ≤ vals.length ∨ ∀ v ∈ vals, ∀ y, v ≠ .list [y]) :
    ∃ v, vals[(i - 1).toNat]? = some v ∧
      indexFn (.list (vals.map fun v => .list [v])) (.int i) .none = .ok v := by
  have hmm : (vals.map fun v => Val.list [v]) = (vals.map fun v => [v]).map Val.list := by
    simp [List.map_map, Function.comp_def]
  rw [hmm]
  generalize hj : (i - 1).toNat = j
  have hlt : j < vals.length := by omega
  refine ⟨vals[j], List.getElem?_eq_getElem hlt, ?_⟩
  have hemp : (vals.map fun v => [v]).isEmpty = false := by
    cases vals with
    | nil => simp at hlt
    | cons a t => rfl
  unfold indexFn
  simp only [and_true]
  rw [LookupIndex.asRows_map _ (fun _ => by rfl)]
  simp only [hemp, Bool.false_eq_true, if_false, List.length_map]
  by_cases hl1 : vals.length = 1
  · obtain ⟨a, rfl⟩ := List.length_eq_one_iff.mp hl1
    have hi : i = 1 := by simp at h2; omega
    have hj0 : j = 0 := by simp at hlt; exact hlt
    subst hi hj0
    have ha : ∀ y, a ≠ .list [y] := by
      rcases hlen with h | h
      · simp at h
      · exact h a (by simp)
    simp only [List.length_cons, List.length_nil, if_true]
    simp only [List.map_cons, List.map_nil, List.headD_cons, List.length_cons, List.length_nil]
    have hp : (fun cs : List Val => if (1 : Int) = 0 then some (Val.list cs) else cs[((1 : Int) - 1).toNat]?) =
        fun cs => cs[0]? := by
      funext cs; simp
    rw [if_neg (by decide), hp]
    simp only [List.mapM_cons, List.mapM_nil, Option.pure_def, Option.bind_eq_bind, Option.bind_some,
      List.getElem?_cons_zero, List.getElem_cons_zero]
    cases a with
    | list l =>
      match l, ha with
      | [], _ => rfl
      | [y], ha => exact absurd rfl (ha y)
      | _ :: _ :: _, _ => rfl
    | _ => rfl
  · have hi0 : ¬ i < 0 := by omega
    have hi1 : i ≠ 0 := by omega
    have hi2 : ¬ (vals.length : Int) < i := by omega
    have hrow : (List.map (fun v => [v]) vals)[j]? = some [vals[j]] := by
      simp [hlt]
    simp only [hl1, if_false, hi0, hi1, hi2, decide_false, Bool.or_false, Bool.false_eq_true, hj, hrow,
      List.mapM_cons, List.mapM_nil, Option.pure_def, Option.bind_eq_bind, Option.bind_some]
    rfl

/-- **INDEX(values, MATCH(v, keys, 0))**: the value next to the first key equal to `v` -/
theorem index_match (lookup : Val) (krows keys vals : List Val) (i : Nat)
    (hk : keysOf krows = some keys) (he : allEligible lookup keys = true)
    (ht : textsModelled (lookup :: keys) = true) (hv : vals.length = keys.length)
    (hlen : 2 ≤ keys.length ∨ ∀ v ∈ vals, ∀ y, v ≠ .list [y])
    (hs : specFirstEqual true lookup keys = some i) :
    ∃ v, vals[i - 1]? = some v ∧
      matchFn lookup (.list krows) 0 = .ok (.int i) ∧
      indexFn (.list (vals.map fun v => .list [v])) (.int i) .none = .ok v ∧
      (matchFn lookup (.list krows) 0 >>= fun m => indexFn (.list (vals.map fun v => .list [v])) m .none) = .ok v := by
  have hm : matchFn lookup (.list krows) 0 = .ok (.int i) := by
    rw [match_exact_first lookup krows keys hk he ht, hs]; rfl
  obtain ⟨j, hij, ⟨key, hkey, _⟩, _⟩ := first_equal_is_first true lookup keys i hs
  obtain ⟨hj, _⟩ := List.getElem?_eq_some_iff.mp hkey
  obtain ⟨v, hv1, hv2⟩ := index_column vals (i : Int) (by omega) (by omega) (by rw [hv]; exact hlen)
  have hidx : ((i : Int) - 1).toNat = i - 1 := by omega
  rw [hidx] at hv1
  refine ⟨v, hv1, hm, hv2, ?_⟩
  rw [hm]
  exact hv2

/-! ### column letters: bijective base 26 -/

/-- letters → number → letters is checked over the whole range Excel has (1 … 16384) by kernel evaluation;
    the finite table is the property's own quantifier ("every column 1..16384") -/
theorem address_columns_roundtrip :
    (List.range 16384).all (fun i => colIndex (colLetters (i + 1)) == i + 1 && (colLetters (i + 1)).all isUpper) = true := by
  decide +kernel

/-- … and for every column number, without a bound: number → letters → number -/
theorem col_roundtrip (n : Nat) : colIndex (colLetters n) = n := by
  have := LookupCols.colIndex_aux n n [] (Nat.le_refl n)
  simpa [colLetters, colIndex] using this

/-- the letters of a column number are upper-case letters, and there is at least one for `n ≥ 1` -/
theorem col_letters_upper (n : Nat) : (colLetters n).all isUpper = true :=
  LookupCols.aux_all_upper n n [] rfl

theorem col_letters_ne_nil (n : Nat) (h : 1 ≤ n) : colLetters n ≠ [] := by
  intro e
  have := col_roundtrip n
  rw [e] at this
  simp [colIndex] at this
  omega

/-- letters → number → letters, for every non-empty word of upper-case letters -/
theorem col_roundtrip_letters (s : List Char) (hs : s.all isUpper = true) : colLetters (colIndex s) = s := by
  have := LookupCols.aux_colIndex s hs (colIndex s) [] (Nat.le_refl _)
  simpa [colLetters] using this

theorem address_spec (r : Int) (c : Nat) :
    addressFn r (c : Int) = .ok (.str (['$'] ++ colLetters c ++ ['$'] ++ (toString r).toList)) := by
  simp [addressFn]

/-! ### XMATCH, binary search modes -/

open E2P.LookupBin in
/-- **XMATCH(v, keys, 0, 2)** on keys that ascend strictly and **XMATCH(v, keys, 0, -2)** on keys that descend strictly (numbers, or
texts in code point order - `_binary_search` lower-cases nothing): the position of the row whose key equals the lookup value,
else #N/A; no exception, whatever the length of the column -/
theorem xmatch_binary_exact (lookup : Val) (rows keys : List Val) (kd : LKind) (sm : Int) (hsm : sm = 2 ∨ sm = -2)
    (hk : keysOf rows = some keys) (hne : keys ≠ []) (hv : lkind lookup = some kd) (hkd : ∀ k ∈ keys, lkind k = some kd)
    (hnb : ∀ k ∈ lookup :: keys, k ≠ .blank)
    (hs : ∀ (i j : Nat) ki kj, i < j → keys[i]? = some ki → keys[j]? = some kj → Before (decide (sm = -2)) ki kj) :
    ∃ r, xmatchFn lookup (.list rows) 0 sm = .ok r ∧
      (∀ (i : Nat) k, keys[i]? = some k → BsEq k lookup → r = .int ((i : Int) + 1)) ∧
      ((∀ k ∈ keys, ¬ BsEq k lookup) → r = errNA) := by
  have hok := ok_of_sorted kd keys lookup (decide (sm = -2)) hv hkd hnb hs
  obtain ⟨e, ns, nl, hbs, hres⟩ := binarySearch_spec keys lookup (decide (sm = -2)) hok hne
  have h1 : ¬ sm = 1 := by omega
  have h2 : ¬ sm = -1 := by omega
  have hall : (lookup :: keys).all bsOperand = true := by
    rw [List.all_eq_true]
    intro k hkm
    have hb := hnb k hkm
    have hkk : lkind k = some kd := by
      rcases List.mem_cons.mp hkm with rfl | hkm
      · exact hv
      · exact hkd k hkm
    cases k <;> simp_all [bsOperand]
  have h01 : ¬ ((0 : Int) = -1) := by decide
  have h02 : ¬ ((0 : Int) = 1) := by decide
  refine ⟨if e = -1 then errNA else .int (e + 1), ?_, ?_, ?_⟩
  · simp only [xmatchFn, h1, h2, if_false, hsm, if_true, hk, hall, Bool.not_true, Bool.false_eq_true, hbs, h01, h02]
  · intro i k hi heq
    rcases hres with ⟨_, hside⟩ | ⟨he0, ke, hke, hkeq⟩
    · exfalso
      rcases hside i k hi with hL | hR
      · unfold Lside at hL
        cases hd : decide (sm = -2) <;> rw [hd] at hL <;> simp only [Bool.false_eq_true, if_false, if_true] at hL
        · rw [heq.1] at hL; cases hL
        · rw [heq.2] at hL; cases hL
      · unfold Rside at hR
        cases hd : decide (sm = -2) <;> rw [hd] at hR <;> simp only [Bool.false_eq_true, if_false, if_true] at hR
        · rw [heq.2] at hR; cases hR
        · rw [heq.1] at hR; cases hR
    · have hne1 : ¬ e = -1 := by omega
      rw [if_neg hne1]
      congr 1
      by_cases hlt : i < e.toNat
      · exfalso
        have hb := hs i e.toNat k ke hlt hi hke
        unfold Before at hb
        cases hd : decide (sm = -2) <;> rw [hd] at hb <;> simp only [Bool.false_eq_true, if_false, if_true] at hb
        · exact not_lt_of_eq k ke lookup heq hkeq hb
        · exact not_lt_of_eq ke k lookup hkeq heq hb
      · by_cases hgt : e.toNat < i
        · exfalso
          have hb := hs e.toNat i ke k hgt hke hi
          unfold Before at hb
          cases hd : decide (sm = -2) <;> rw [hd] at hb <;> simp only [Bool.false_eq_true, if_false, if_true] at hb
          · exact not_lt_of_eq ke k lookup hkeq heq hb
          · exact not_lt_of_eq k ke lookup heq hkeq hb
        · omega
  · intro hnone
    rcases hres with ⟨he, _⟩ | ⟨_, ke, hke, hkeq⟩
    · rw [if_pos he]
    · exact absurd hkeq (hnone ke (List.mem_of_getElem? hke))

open E2P.LookupBin in
/-- the same with the hypotheses as the checks the driver evaluates, and the result as the specification `specBinExact` -/
theorem xmatch_binary_spec (lookup : Val) (rows keys : List Val) (sm : Int) (hsm : sm = 2 ∨ sm = -2)
    (hk : keysOf rows = some keys) (hne : keys.isEmpty = false) (hkind : sameKind lookup keys = true)
    (hs : strictlyRuns (sm == -2) keys = true) :
    xmatchFn lookup (.list rows) 0 sm = .ok (idxOrNA (specBinExact lookup keys)) := by
  simp only [sameKind, Bool.and_eq_true, List.all_eq_true, beq_iff_eq] at hkind
  have hkl : ∀ k, bsKey k = true → (lkind k).isSome = true ∧ k ≠ .blank := by
    intro k hb; cases k <;> simp_all [bsKey]
  obtain ⟨kd, hv⟩ := Option.isSome_iff_exists.mp (hkl lookup hkind.1).1
  have hdec : (sm == -2) = decide (sm = -2) := rfl
  rw [hdec] at hs
  obtain ⟨r, hr, hpos, hna⟩ := xmatch_binary_exact lookup rows keys kd sm hsm hk (by cases keys <;> simp_all) hv
    (fun k hkm => by rw [(hkind.2 k hkm).2, hv])
    (fun k hkm => by
      rcases List.mem_cons.mp hkm with rfl | hkm
      · exact (hkl _ hkind.1).2
      · exact (hkl k (hkind.2 k hkm).1).2)
    (strictlyRuns_before _ keys hs)
  rw [hr]
  congr 1
  unfold specBinExact
  cases hf : keys.findIdx? (fun k => bsEqB k lookup) with
  | none =>
    rw [List.findIdx?_eq_none_iff] at hf
    simp only [Option.map_none, idxOrNA]
    apply hna
    intro k hkm heq
    have := hf k hkm
    simp [bsEqB, heq.1, heq.2] at this
  | some i =>
    obtain ⟨hi, hp, _⟩ := List.findIdx?_eq_some_iff_getElem.mp hf
    simp only [Option.map_some, idxOrNA]
    have := hpos i keys[i] (List.getElem?_eq_getElem hi) (by
      simp only [bsEqB, Bool.and_eq_true, beq_iff_eq] at hp
      exact hp)
    rw [this]
    congr 1

open E2P.LookupBin in
/-- **XMATCH(v, keys, -1, 2)** ("exact match or next smaller", binary search) on keys that ascend strictly: the position of the LAST
key that is not greater than the lookup value, #N/A when every key is greater -/
theorem xmatch_binary_next_smaller (lookup : Val) (rows keys : List Val) (kd : LKind)
    (hk : keysOf rows = some keys) (hne : keys ≠ []) (hv : lkind lookup = some kd) (hkd : ∀ k ∈ keys, lkind k = some kd)
    (hnb : ∀ k ∈ lookup :: keys, k ≠ .blank)
    (hs : ∀ (i j : Nat) ki kj, i < j → keys[i]? = some ki → keys[j]? = some kj → Before false ki kj) :
    ∃ r, xmatchFn lookup (.list rows) (-1) 2 = .ok r ∧
      (∀ (i : Nat) k, keys[i]? = some k → bsLt lookup k = some false →
        (∀ (j : Nat) kj, keys[j]? = some kj → i < j → bsLt lookup kj = some true) → r = .int ((i : Int) + 1)) ∧
      ((∀ k ∈ keys, bsLt lookup k = some true) → r = errNA) := by
  have hok := ok_of_sorted kd keys lookup false hv hkd hnb hs
  obtain ⟨e, ns, nl, hbs, hres⟩ := binarySearch_track keys lookup hok hne
  have hall : (lookup :: keys).all bsOperand = true := by
    rw [List.all_eq_true]
    intro k hkm
    have hb := hnb k hkm
    have hkk : lkind k = some kd := by
      rcases List.mem_cons.mp hkm with rfl | hkm
      · exact hv
      · exact hkd k hkm
    cases k <;> simp_all [bsOperand]
  have hd : decide ((2 : Int) = -2) = false := by decide
  refine ⟨if ns = -1 then errNA else .int (ns + 1), ?_, ?_, ?_⟩
  · have h1 : ¬ ((2 : Int) = 1) := by decide
    have h2 : ¬ ((2 : Int) = -1) := by decide
    simp only [xmatchFn, h1, h2, if_false, true_or, if_true, hk, hall, Bool.not_true, Bool.false_eq_true, hd, hbs]
  · intro i k hi hle hafter
    rcases hres with ⟨_, f, hf0, hfl, hcut, hns, _⟩ | ⟨he0, hns, _, ke, hke, hkeq⟩
    · have hc := hcut i k hi
      unfold Lside Rside at hc
      simp only [Bool.false_eq_true, if_false] at hc
      have hif : (i : Int) < f := by
        by_contra hcon
        have := hc.2 (by omega)
        rw [hle] at this; cases this
      have hi1 : (i : Int) = f - 1 := by
        by_contra hcon
        have hj : (f - 1).toNat < keys.length := by omega
        have hcj := hcut (f - 1).toNat keys[(f - 1).toNat] (List.getElem?_eq_getElem hj)
        unfold Lside at hcj
        simp only [Bool.false_eq_true, if_false] at hcj
        have hL := hcj.1 (by omega)
        have hR := hafter (f - 1).toNat keys[(f - 1).toNat] (List.getElem?_eq_getElem hj) (by omega)
        rw [bsLt_asymm _ _ hL] at hR; cases hR
      have : ¬ ns = -1 := by omega
      rw [if_neg this, hns]
      congr 1
      omega
    · have : ¬ ns = -1 := by omega
      rw [if_neg this, hns]
      congr 2
      by_cases hlt : i < e.toNat
      · exfalso
        have := hafter e.toNat ke hke hlt
        rw [hkeq.2] at this; cases this
      · by_cases hgt : e.toNat < i
        · exfalso
          have hb := hs e.toNat i ke k hgt hke hi
          unfold Before at hb
          simp only [Bool.false_eq_true, if_false] at hb
          have := bsEq_lt_transfer ke lookup k hkeq hb
          rw [hle] at this; cases this
        · omega
  · intro hallgt
    rcases hres with ⟨_, f, hf0, hfl, hcut, hns, _⟩ | ⟨he0, _, _, ke, hke, hkeq⟩
    · have hf : f = 0 := by
        by_contra hcon
        have hj : (f - 1).toNat < keys.length := by omega
        have hcj := hcut (f - 1).toNat keys[(f - 1).toNat] (List.getElem?_eq_getElem hj)
        unfold Lside at hcj
        simp only [Bool.false_eq_true, if_false] at hcj
        have hL := hcj.1 (by omega)
        have hR := hallgt keys[(f - 1).toNat] (List.getElem_mem hj)
        rw [bsLt_asymm _ _ hL] at hR; cases hR
      have : ns = -1 := by omega
      rw [if_pos this]
    · exfalso
      have := hallgt ke (List.mem_of_getElem? hke)
      rw [hkeq.2] at this; cases this

open E2P.LookupBin in
/-- **XMATCH(v, keys, 1, 2)** ("exact match or next larger", binary search) on keys that ascend strictly: the position of the FIRST
key that is not smaller than the lookup value, #N/A when every key is smaller -/
theorem xmatch_binary_next_larger (lookup : Val) (rows keys : List Val) (kd : LKind)
    (hk : keysOf rows = some keys) (hne : keys ≠ []) (hv : lkind lookup = some kd) (hkd : ∀ k ∈ keys, lkind k = some kd)
    (hnb : ∀ k ∈ lookup :: keys, k ≠ .blank)
    (hs : ∀ (i j : Nat) ki kj, i < j → keys[i]? = some ki → keys[j]? = some kj → Before false ki kj) :
    ∃ r, xmatchFn lookup (.list rows) 1 2 = .ok r ∧
      (∀ (i : Nat) k, keys[i]? = some k → bsLt k lookup = some false →
        (∀ (j : Nat) kj, keys[j]? = some kj → j < i → bsLt kj lookup = some true) → r = .int ((i : Int) + 1)) ∧
      ((∀ k ∈ keys, bsLt k lookup = some true) → r = errNA) := by
  have hok := ok_of_sorted kd keys lookup false hv hkd hnb hs
  obtain ⟨e, ns, nl, hbs, hres⟩ := binarySearch_track keys lookup hok hne
  have hall : (lookup :: keys).all bsOperand = true := by
    rw [List.all_eq_true]
    intro k hkm
    have hb := hnb k hkm
    have hkk : lkind k = some kd := by
      rcases List.mem_cons.mp hkm with rfl | hkm
      · exact hv
      · exact hkd k hkm
    cases k <;> simp_all [bsOperand]
  have hd : decide ((2 : Int) = -2) = false := by decide
  refine ⟨if nl = -1 then errNA else .int (nl + 1), ?_, ?_, ?_⟩
  · have h1 : ¬ ((2 : Int) = 1) := by decide
    have h2 : ¬ ((2 : Int) = -1) := by decide
    have h3 : ¬ ((1 : Int) = -1) := by decide
    simp only [xmatchFn, h1, h2, h3, if_false, true_or, if_true, hk, hall, Bool.not_true, Bool.false_eq_true, hd, hbs]
  · intro i k hi hge hbefore
    have hilen : i < keys.length := (List.getElem?_eq_some_iff.mp hi).1
    rcases hres with ⟨_, f, hf0, hfl, hcut, _, hnl⟩ | ⟨he0, _, hnl, ke, hke, hkeq⟩
    · have hc := hcut i k hi
      unfold Lside Rside at hc
      simp only [Bool.false_eq_true, if_false] at hc
      have hfi : f ≤ (i : Int) := by
        by_contra hcon
        have := hc.1 (by omega)
        rw [hge] at this; cases this
      have hi1 : (i : Int) = f := by
        by_contra hcon
        have hj : f.toNat < keys.length := by omega
        have hcj := hcut f.toNat keys[f.toNat] (List.getElem?_eq_getElem hj)
        unfold Rside at hcj
        simp only [Bool.false_eq_true, if_false] at hcj
        have hR := hcj.2 (by omega)
        have hL := hbefore f.toNat keys[f.toNat] (List.getElem?_eq_getElem hj) (by omega)
        rw [bsLt_asymm _ _ hR] at hL; cases hL
      have hfl' : ¬ f = (keys.length : Int) := by omega
      rw [hnl, if_neg hfl']
      have : ¬ f = -1 := by omega
      rw [if_neg this]
      congr 1
      omega
    · have : ¬ nl = -1 := by omega
      rw [if_neg this, hnl]
      congr 2
      by_cases hgt : e.toNat < i
      · exfalso
        have := hbefore e.toNat ke hke hgt
        rw [hkeq.1] at this; cases this
      · by_cases hlt : i < e.toNat
        · exfalso
          have hb := hs i e.toNat k ke hlt hi hke
          unfold Before at hb
          simp only [Bool.false_eq_true, if_false] at hb
          have := bsEq_gt_transfer ke lookup k hkeq hb
          rw [hge] at this; cases this
        · omega
  · intro hallst
    rcases hres with ⟨_, f, hf0, hfl, hcut, _, hnl⟩ | ⟨he0, _, _, ke, hke, hkeq⟩
    · have hf : f = (keys.length : Int) := by
        by_contra hcon
        have hj : f.toNat < keys.length := by omega
        have hcj := hcut f.toNat keys[f.toNat] (List.getElem?_eq_getElem hj)
        unfold Rside at hcj
        simp only [Bool.false_eq_true, if_false] at hcj
        have hR := hcj.2 (by omega)
        have hL := hallst keys[f.toNat] (List.getElem_mem hj)
        rw [bsLt_asymm _ _ hR] at hL; cases hL
      rw [hnl, if_pos hf]
      simp
    · exfalso
      have := hallst ke (List.mem_of_getElem? hke)
      rw [hkeq.1] at this; cases this


open E2P.LookupBin in
/-- **XMATCH(v, keys, -1, -2)** (binary search on keys that DESCEND strictly): the position of the FIRST key that is not greater than the
lookup value - the largest such key -, #N/A when every key is greater -/
theorem xmatch_binary_desc_next_smaller (lookup : Val) (rows keys : List Val) (kd : LKind)
    (hk : keysOf rows = some keys) (hne : keys ≠ []) (hv : lkind lookup = some kd) (hkd : ∀ k ∈ keys, lkind k = some kd)
    (hnb : ∀ k ∈ lookup :: keys, k ≠ .blank)
    (hs : ∀ (i j : Nat) ki kj, i < j → keys[i]? = some ki → keys[j]? = some kj → Before true ki kj) :
    ∃ r, xmatchFn lookup (.list rows) (-1) (-2) = .ok r ∧
      (∀ (i : Nat) k, keys[i]? = some k → bsLt lookup k = some false →
        (∀ (j : Nat) kj, keys[j]? = some kj → j < i → bsLt lookup kj = some true) → r = .int ((i : Int) + 1)) ∧
      ((∀ k ∈ keys, bsLt lookup k = some true) → r = errNA) := by
  have hok := ok_of_sorted kd keys lookup true hv hkd hnb hs
  obtain ⟨e, ns, nl, hbs, hres⟩ := binarySearch_track_rev keys lookup hok hne
  have hall : (lookup :: keys).all bsOperand = true := by
    rw [List.all_eq_true]
    intro k hkm
    have hb := hnb k hkm
    have hkk : lkind k = some kd := by
      rcases List.mem_cons.mp hkm with rfl | hkm
      · exact hv
      · exact hkd k hkm
    cases k <;> simp_all [bsOperand]
  refine ⟨if ns = -1 then errNA else .int (ns + 1), ?_, ?_, ?_⟩
  · have h1 : ¬ ((-2 : Int) = 1) := by decide
    have h2 : ¬ ((-2 : Int) = -1) := by decide
    simp only [xmatchFn, h1, h2, if_false, or_true, if_true, hk, hall, Bool.not_true, Bool.false_eq_true]
    simp only [show (decide True) = true from rfl, hbs]
  · intro i k hi hle hbefore
    have hilen : i < keys.length := (List.getElem?_eq_some_iff.mp hi).1
    rcases hres with ⟨_, f, hf0, hfl, hcut, hns, _⟩ | ⟨he0, hns, _, ke, hke, hkeq⟩
    · have hc := hcut i k hi
      unfold Lside Rside at hc
      simp only [if_true] at hc
      have hfi : f ≤ (i : Int) := by
        by_contra hcon
        have := hc.1 (by omega)
        rw [hle] at this; cases this
      have hi1 : (i : Int) = f := by
        by_contra hcon
        have hj : f.toNat < keys.length := by omega
        have hcj := hcut f.toNat keys[f.toNat] (List.getElem?_eq_getElem hj)
        unfold Rside at hcj
        simp only [if_true] at hcj
        have hR := hcj.2 (by omega)
        have hL := hbefore f.toNat keys[f.toNat] (List.getElem?_eq_getElem hj) (by omega)
        rw [bsLt_asymm _ _ hR] at hL; cases hL
      have hfl' : ¬ f = (keys.length : Int) := by omega
      rw [hns, if_neg hfl']
      have : ¬ f = -1 := by omega
      rw [if_neg this]
      congr 1
      omega
    · have : ¬ ns = -1 := by omega
      rw [if_neg this, hns]
      congr 2
      by_cases hgt : e.toNat < i
      · exfalso
        have := hbefore e.toNat ke hke hgt
        rw [hkeq.2] at this; cases this
      · by_cases hlt : i < e.toNat
        · exfalso
          have hb := hs i e.toNat k ke hlt hi hke
          unfold Before at hb
          simp only [if_true] at hb
          have := bsEq_lt_transfer ke lookup k hkeq hb
          rw [hle] at this; cases this
        · omega
  · intro hallgt
    rcases hres with ⟨_, f, hf0, hfl, hcut, hns, _⟩ | ⟨he0, _, _, ke, hke, hkeq⟩
    · have hf : f = (keys.length : Int) := by
        by_contra hcon
        have hj : f.toNat < keys.length := by omega
        have hcj := hcut f.toNat keys[f.toNat] (List.getElem?_eq_getElem hj)
        unfold Rside at hcj
        simp only [if_true] at hcj
        have hR := hcj.2 (by omega)
        have hL := hallgt keys[f.toNat] (List.getElem_mem hj)
        rw [bsLt_asymm _ _ hR] at hL; cases hL
      rw [hns, if_pos hf]
      simp
    · exfalso
      have := hallgt ke (List.mem_of_getElem? hke)
      rw [hkeq.2] at this; cases this

open E2P.LookupBin in
/-- **XMATCH(v, keys, 1, -2)** (binary search on keys that DESCEND strictly): the position of the LAST key that is not smaller than the
lookup value - the smallest such key -, #N/A when every key is smaller -/
theorem xmatch_binary_desc_next_larger (lookup : Val) (rows keys : List Val) (kd : LKind)
    (hk : keysOf rows = some keys) (hne : keys ≠ []) (hv : lkind lookup = some kd) (hkd : ∀ k ∈ keys, lkind k = some kd)
    (hnb : ∀ k ∈ lookup :: keys, k ≠ .blank)
    (hs : ∀ (i j : Nat) ki kj, i < j → keys[i]? = some ki → keys[j]? = some kj → Before true ki kj) :
    ∃ r, xmatchFn lookup (.list rows) 1 (-2) = .ok r ∧
      (∀ (i : Nat) k, keys[i]? = some k → bsLt k lookup = some false →
        (∀ (j : Nat) kj, keys[j]? = some kj → i < j → bsLt kj lookup = some true) → r = .int ((i : Int) + 1)) ∧
      ((∀ k ∈ keys, bsLt k lookup = some true) → r = errNA) := by
  have hok := ok_of_sorted kd keys lookup true hv hkd hnb hs
  obtain ⟨e, ns, nl, hbs, hres⟩ := binarySearch_track_rev keys lookup hok hne
  have hall : (lookup :: keys).all bsOperand = true := by
    rw [List.all_eq_true]
    intro k hkm
    have hb := hnb k hkm
    have hkk : lkind k = some kd := by
      rcases List.mem_cons.mp hkm with rfl | hkm
      · exact hv
      · exact hkd k hkm
    cases k <;> simp_all [bsOperand]
  refine ⟨if nl = -1 then errNA else .int (nl + 1), ?_, ?_, ?_⟩
  · have h1 : ¬ ((-2 : Int) = 1) := by decide
    have h2 : ¬ ((-2 : Int) = -1) := by decide
    have h3 : ¬ ((1 : Int) = -1) := by decide
    simp only [xmatchFn, h1, h2, h3, if_false, or_true, if_true, hk, hall, Bool.not_true, Bool.false_eq_true]
    simp only [show (decide True) = true from rfl, hbs]
  · intro i k hi hge hafter
    rcases hres with ⟨_, f, hf0, hfl, hcut, _, hnl⟩ | ⟨he0, _, hnl, ke, hke, hkeq⟩
    · have hc := hcut i k hi
      unfold Lside Rside at hc
      simp only [if_true] at hc
      have hif : (i : Int) < f := by
        by_contra hcon
        have := hc.2 (by omega)
        rw [hge] at this; cases this
      have hi1 : (i : Int) = f - 1 := by
        by_contra hcon
        have hj : (f - 1).toNat < keys.length := by omega
        have hcj := hcut (f - 1).toNat keys[(f - 1).toNat] (List.getElem?_eq_getElem hj)
        unfold Lside at hcj
        simp only [if_true] at hcj
        have hL := hcj.1 (by omega)
        have hR := hafter (f - 1).toNat keys[(f - 1).toNat] (List.getElem?_eq_getElem hj) (by omega)
        rw [bsLt_asymm _ _ hL] at hR; cases hR
      have : ¬ nl = -1 := by omega
      rw [if_neg this, hnl]
      congr 1
      omega
    · have : ¬ nl = -1 := by omega
      rw [if_neg this, hnl]
      congr 2
      by_cases hlt : i < e.toNat
      · exfalso
        have := hafter e.toNat ke hke hlt
        rw [hkeq.1] at this; cases this
      · by_cases hgt : e.toNat < i
        · exfalso
          have hb := hs e.toNat i ke k hgt hke hi
          unfold Before at hb
          simp only [if_true] at hb
          have := bsEq_gt_transfer ke lookup k hkeq hb
          rw [hge] at this; cases this
        · omega
  · intro hallst
    rcases hres with ⟨_, f, hf0, hfl, hcut, _, hnl⟩ | ⟨he0, _, _, ke, hke, hkeq⟩
    · have hf : f = 0 := by
        by_contra hcon
        have hj : (f - 1).toNat < keys.length := by omega
        have hcj := hcut (f - 1).toNat keys[(f - 1).toNat] (List.getElem?_eq_getElem hj)
        unfold Lside at hcj
        simp only [if_true] at hcj
        have hL := hcj.1 (by omega)
        have hR := hallst keys[(f - 1).toNat] (List.getElem_mem hj)
        rw [bsLt_asymm _ _ hL] at hR; cases hR
      have : nl = -1 := by omega
      rw [if_pos this]
    · exfalso
      have := hallst ke (List.mem_of_getElem? hke)
      rw [hkeq.1] at this; cases this

/-! ### non-vacuity -/
example : matchFn (.int 5) (.list [.list [.int 1], .list [.flt 5], .list [.int 9]]) 0 = .ok (.int 2) := by rfl
example : matchFn (.int 10) (.list [.list [.int 1], .list [.flt 5], .list [.int 9]]) 1 = .ok (.int 3) := by rfl
example : xmatchFn (.int 2) (.list [.list [.int 1], .list [.int 2], .list [.int 2]]) 0 (-1) = .ok (.int 3) := by rfl
example : vlookupFn (.str ['b']) (.list [.list [.str ['a'], .int 1], .list [.str ['b'], .int 2]]) 2 (.bool false) =
    .ok (.int 2) := by rfl
example : indexFn (.list [.list [.int 1, .int 2], .list [.int 3, .int 4]]) (.int 2) (.int 1) = .ok (.int 3) := by rfl
example : indexFn (.list [.list [.int 1, .int 2], .list [.int 3, .int 4]]) (.int 3) (.int 1) = .ok errRef := by rfl
-- the hypotheses of the theorems can be met
example : matchFn (.int 6) (.list [.list [.int 1], .list [.flt 5], .list [.int 9]]) 1 = .ok (.int 2) :=
  match_approx_last_le (.int 6) _ [.int 1, .flt 5, .int 9] rfl rfl rfl rfl
example : xmatchFn (.str ['b']) (.list [.list [.str ['B']], .list [.str ['a']], .list [.str ['b']]]) 0 (-1) =
    .ok (.int 3) :=
  xmatch_last (.str ['b']) _ [.str ['B'], .str ['a'], .str ['b']] rfl rfl rfl
example : ∃ v, indexFn (.list [.list [.int 7], .list [.int 8]]) (.int 2) .none = .ok v :=
  (index_match (.int 5) [.list [.int 4], .list [.int 5]] [.int 4, .int 5] [.int 7, .int 8] 2 rfl rfl rfl rfl
    (Or.inl (Nat.le_refl 2)) rfl).elim fun v h => ⟨v, h.2.2.1⟩
open E2P.LookupBin in
example : xmatchFn (.str ['f','i','g']) (.list [.list [.str ['p']], .list [.str ['f','i','g']], .list [.str ['a']]]) 0 (-2) = .ok (.int 2) := by
  simp [xmatchFn, keysOf, rowKey, lkind, bsOperand, binarySearch, bsLoop, pyLt, pyGt, bsLt, strLt]
open E2P.LookupBin in
-- the hypotheses of xmatch_binary_exact can be met: a descending text column
example : ∃ r, xmatchFn (.str ['f']) (.list [.list [.str ['p']], .list [.str ['f']], .list [.str ['a']]]) 0 (-2) = .ok r ∧ r = .int 2 := by
  obtain ⟨r, h1, h2, _⟩ := xmatch_binary_exact (.str ['f']) [.list [.str ['p']], .list [.str ['f']], .list [.str ['a']]]
    [.str ['p'], .str ['f'], .str ['a']] .str (-2) (Or.inr rfl) rfl (by simp) rfl (by simp [lkind]) (by simp)
    (by
      intro i j ki kj hij hi hj
      have hj3 : j < 3 := (List.getElem?_eq_some_iff.mp hj).1
      have : (i = 0 ∧ j = 1) ∨ (i = 0 ∧ j = 2) ∨ (i = 1 ∧ j = 2) := by omega
      rcases this with ⟨rfl, rfl⟩ | ⟨rfl, rfl⟩ | ⟨rfl, rfl⟩ <;> simp at hi hj <;> subst hi <;> subst hj <;> rfl)
  exact ⟨r, h1, h2 1 (.str ['f']) rfl (by constructor <;> rfl)⟩
example : xmatchFn (.int 9) (.list [.list [.int 1], .list [.flt 5], .list [.int 9]]) 0 2 = .ok (.int 3) :=
  xmatch_binary_spec (.int 9) _ [.int 1, .flt 5, .int 9] 2 (Or.inl rfl) rfl rfl rfl (by decide +kernel)
open E2P.LookupBin in
-- non-vacuity: 7 between 5 and 9 in an ascending column: the next smaller key is the 2nd, the next larger the 3rd
example : ∃ r, xmatchFn (.int 7) (.list [.list [.int 1], .list [.int 5], .list [.int 9]]) (-1) 2 = .ok r ∧ r = .int 2 := by
  obtain ⟨r, h1, h2, _⟩ := xmatch_binary_next_smaller (.int 7) [.list [.int 1], .list [.int 5], .list [.int 9]]
    [.int 1, .int 5, .int 9] .num rfl (by simp) rfl (by simp [lkind]) (by simp)
    (by
      intro i j ki kj hij hi hj
      have hj3 : j < 3 := (List.getElem?_eq_some_iff.mp hj).1
      have : (i = 0 ∧ j = 1) ∨ (i = 0 ∧ j = 2) ∨ (i = 1 ∧ j = 2) := by omega
      rcases this with ⟨rfl, rfl⟩ | ⟨rfl, rfl⟩ | ⟨rfl, rfl⟩ <;> simp at hi hj <;> subst hi <;> subst hj <;> (unfold Before; decide +kernel))
  refine ⟨r, h1, h2 1 (.int 5) rfl (by decide +kernel) ?_⟩
  intro j kj hj hlt
  have hj3 : j < 3 := (List.getElem?_eq_some_iff.mp hj).1
  have : j = 2 := by omega
  subst this
  simp at hj; subst hj
  decide +kernel
open E2P.LookupBin in
-- 7 in the descending column 9, 5, 1: the first key not greater than 7 is the 2nd
example : ∃ r, xmatchFn (.int 7) (.list [.list [.int 9], .list [.int 5], .list [.int 1]]) (-1) (-2) = .ok r ∧ r = .int 2 := by
  obtain ⟨r, h1, h2, _⟩ := xmatch_binary_desc_next_smaller (.int 7) [.list [.int 9], .list [.int 5], .list [.int 1]]
    [.int 9, .int 5, .int 1] .num rfl (by simp) rfl (by simp [lkind]) (by simp)
    (by
      intro i j ki kj hij hi hj
      have hj3 : j < 3 := (List.getElem?_eq_some_iff.mp hj).1
      have : (i = 0 ∧ j = 1) ∨ (i = 0 ∧ j = 2) ∨ (i = 1 ∧ j = 2) := by omega
      rcases this with ⟨rfl, rfl⟩ | ⟨rfl, rfl⟩ | ⟨rfl, rfl⟩ <;> simp at hi hj <;> subst hi <;> subst hj <;> (unfold Before; decide +kernel))
  refine ⟨r, h1, h2 1 (.int 5) rfl (by decide +kernel) ?_⟩
  intro j kj hj hlt
  have : j = 0 := by omega
  subst this
  simp at hj; subst hj
  decide +kernel
example : colLetters 26 = ['Z'] ∧ colLetters 27 = ['A', 'A'] ∧ colLetters 16384 = ['X', 'F', 'D'] := by decide +kernel

end E2P.C14
