/-
  E2P.Lemmas.LookupOrder — the order `keyLe` on keys of one kind is transitive and total; on an ascending
  key column the keys not greater than the lookup value form a prefix (helper lemmas for property C14).
-/
import E2P.Model.Lookup
import E2P.Spec.LookupSpec
namespace E2P.LookupOrder
open E2P

/-! ### code-point order on texts is a strict total order -/

theorem strLt_irrefl (a : List Char) : strLt a a = false := by
  induction a with
  | nil => rfl
  | cons c cs ih => simp [strLt, ih]

theorem strLt_tri (a b : List Char) :
    (strLt a b = true ∧ a ≠ b ∧ strLt b a = false) ∨ (strLt a b = false ∧ a = b ∧ strLt b a = false) ∨
    (strLt a b = false ∧ a ≠ b ∧ strLt b a = true) := by
  induction a generalizing b with
  | nil => cases b <;> simp [strLt]
  | cons c cs ih =>
    cases b with
    | nil => simp [strLt]
    | cons d ds =>
      rcases Nat.lt_trichotomy c.toNat d.toNat with h | h | h
      · have hne : c ≠ d := fun e => by subst e; omega
        have h' : ¬ d.toNat < c.toNat := by omega
        left; simp [strLt, h, h', hne]
      · have hcd : c = d := Char.toNat_inj.mp h
        subst hcd
        rcases ih ds with ⟨h1, h2, h3⟩ | ⟨h1, h2, h3⟩ | ⟨h1, h2, h3⟩
        · left; simp [strLt, h1, h2, h3]
        · right; left; subst h2; simp [strLt, strLt_irrefl]
        · right; right; simp [strLt, h1, h2, h3]
      · have hne : c ≠ d := fun e => by subst e; omega
        have h' : ¬ c.toNat < d.toNat := by omega
        right; right; simp [strLt, h, h', hne]

theorem strLt_trans : ∀ (a b c : List Char), strLt a b = true → strLt b c = true → strLt a c = true
  | [], [], _, h, _ => by simp [strLt] at h
  | [], _ :: _, [], _, h => by simp [strLt] at h
  | [], _ :: _, _ :: _, _, _ => by simp [strLt]
  | _ :: _, [], _, h, _ => by simp [strLt] at h
  | _ :: _, _ :: _, [], _, h => by simp [strLt] at h
  | x :: xs, y :: ys, z :: zs, h1, h2 => by
    have ih := strLt_trans xs ys zs
    simp only [strLt] at h1 h2 ⊢
    by_cases hxy : x.toNat < y.toNat
    · by_cases hyz : y.toNat < z.toNat
      · simp [show x.toNat < z.toNat by omega]
      · by_cases hzy : z.toNat < y.toNat
        · simp [hyz, hzy] at h2
        · simp [show x.toNat < z.toNat by omega]
    · by_cases hyx : y.toNat < x.toNat
      · simp [hxy, hyx] at h1
      · simp only [hxy, hyx, if_false] at h1
        by_cases hyz : y.toNat < z.toNat
        · simp [show x.toNat < z.toNat by omega]
        · by_cases hzy : z.toNat < y.toNat
          · simp [hyz, hzy] at h2
          · simp only [hyz, hzy, if_false] at h2
            simp [show ¬ x.toNat < z.toNat by omega, show ¬ z.toNat < x.toNat by omega, ih h1 h2]

/-- `a ≤ b` on texts -/
theorem strLe_trans (a b c : List Char) (h1 : strLt b a = false) (h2 : strLt c b = false) : strLt c a = false := by
  cases h : strLt c a with
  | false => rfl
  | true =>
    rcases strLt_tri a b with ⟨t1, _, _⟩ | ⟨_, t2, _⟩ | ⟨_, _, t3⟩
    · rw [strLt_trans c a b h t1] at h2; cases h2
    · subst t2; rw [h] at h2; cases h2
    · rw [t3] at h1; cases h1

theorem strLe_total (a b : List Char) : strLt b a = false ∨ strLt a b = false := by
  rcases strLt_tri a b with ⟨_, _, t⟩ | ⟨t, _, _⟩ | ⟨t, _, _⟩
  · exact Or.inl t
  · exact Or.inr t
  · exact Or.inr t

/-! ### `keyLe` on keys of one kind -/

theorem keyLe_num (ci : Bool) (a b : Val) (ha : lkind a = some .num) :
    keyLe ci a b = decide (lnum a ≤ lnum b) := by
  cases a <;> simp [lkind] at ha <;> simp [keyLe]

theorem keyLe_num' (ci : Bool) (a b : Val) (hb : lkind b = some .num) :
    keyLe ci a b = decide (lnum a ≤ lnum b) := by
  cases b <;> simp [lkind] at hb <;> cases a <;> simp [keyLe]

theorem str_of_kind (a : Val) (ha : lkind a = some .str) : ∃ s, a = .str s := by
  cases a <;> simp [lkind] at ha
  exact ⟨_, rfl⟩

theorem keyLe_trans (ci : Bool) (k : LKind) (a b c : Val) (ha : lkind a = some k) (hb : lkind b = some k)
    (hc : lkind c = some k) (h1 : keyLe ci a b = true) (h2 : keyLe ci b c = true) : keyLe ci a c = true := by
  cases k with
  | num =>
    rw [keyLe_num ci _ _ ha] at h1 ⊢
    rw [keyLe_num ci _ _ hb] at h2
    simp only [decide_eq_true_eq] at h1 h2 ⊢
    exact Rat.le_trans h1 h2
  | str =>
    obtain ⟨x, rfl⟩ := str_of_kind a ha
    obtain ⟨y, rfl⟩ := str_of_kind b hb
    obtain ⟨z, rfl⟩ := str_of_kind c hc
    cases ci <;> simp only [keyLe, if_true, if_false, Bool.false_eq_true, Bool.not_eq_true'] at h1 h2 ⊢
    · exact strLe_trans _ _ _ h1 h2
    · exact strLe_trans _ _ _ h1 h2

theorem keyLe_total (ci : Bool) (k : LKind) (a b : Val) (ha : lkind a = some k) (hb : lkind b = some k) :
    keyLe ci a b = true ∨ keyLe ci b a = true := by
  cases k with
  | num =>
    rw [keyLe_num ci _ _ ha, keyLe_num ci _ _ hb]
    simp only [decide_eq_true_eq]
    exact Rat.le_total
  | str =>
    obtain ⟨x, rfl⟩ := str_of_kind a ha
    obtain ⟨y, rfl⟩ := str_of_kind b hb
    cases ci <;> simp only [keyLe, if_true, if_false, Bool.false_eq_true, Bool.not_eq_true']
    · exact strLe_total _ _
    · exact strLe_total _ _

theorem kind_of_eligible (k : LKind) (v : Val) (h : eligible k v = true) : lkind v = some k := by
  cases v <;> simp_all [eligible]

/-! ### ascending key columns -/

theorem sortedAsc_tail (ci : Bool) (a : Val) (rest : List Val) (h : sortedAsc ci (a :: rest) = true) :
    sortedAsc ci rest = true := by
  cases rest with
  | nil => rfl
  | cons b r => simp only [sortedAsc, Bool.and_eq_true] at h; exact h.2

theorem sorted_head_le (ci : Bool) (k : LKind) (rest : List Val) :
    ∀ (a : Val), lkind a = some k → (∀ x ∈ rest, lkind x = some k) → sortedAsc ci (a :: rest) = true →
      ∀ x ∈ rest, keyLe ci a x = true := by
  induction rest with
  | nil => intro a _ _ _ x hx; cases hx
  | cons b r ih =>
    intro a ha hk hs x hx
    simp only [sortedAsc, Bool.and_eq_true] at hs
    have hb : lkind b = some k := hk b (by simp)
    rcases List.mem_cons.mp hx with rfl | hx'
    · exact hs.1
    · have := ih b hb (fun y hy => hk y (List.mem_cons_of_mem _ hy)) hs.2 x hx'
      exact keyLe_trans ci k a b x ha hb (hk x hx) hs.1 this

/-- on ascending keys of the lookup value's kind, no key after the first one greater than the lookup value
    is ≤ the lookup value -/
theorem dropWhile_all_gt (ci : Bool) (k : LKind) (lookup : Val) (hl : lkind lookup = some k) (keys : List Val)
    (hk : ∀ x ∈ keys, lkind x = some k) (hs : sortedAsc ci keys = true) :
    ∀ x ∈ keys.dropWhile (fun key => keyLe ci key lookup), keyLe ci x lookup = false := by
  induction keys with
  | nil => intro x hx; simp at hx
  | cons a rest ih =>
    have ha : lkind a = some k := hk a (by simp)
    have hk' : ∀ x ∈ rest, lkind x = some k := fun y hy => hk y (List.mem_cons_of_mem _ hy)
    by_cases hok : keyLe ci a lookup = true
    · simp only [List.dropWhile_cons, hok, if_true]
      exact ih hk' (sortedAsc_tail ci a rest hs)
    · simp only [List.dropWhile_cons, hok, Bool.false_eq_true, if_false]
      intro x hx
      rcases List.mem_cons.mp hx with rfl | hx'
      · simpa using hok
      · cases hx2 : keyLe ci x lookup with
        | false => rfl
        | true =>
          exact absurd (keyLe_trans ci k a x lookup ha (hk' x hx') hl
            (sorted_head_le ci k rest a ha hk' hs x hx') hx2) hok

/-! ### the last element satisfying a prefix-closed predicate -/

theorem of_mem_takeWhile {α : Type} (p : α → Bool) (l : List α) : ∀ x ∈ l.takeWhile p, p x = true := by
  induction l with
  | nil => intro x hx; simp at hx
  | cons a r ih =>
    intro x hx
    by_cases ha : p a = true
    · simp only [List.takeWhile_cons, ha, if_true] at hx
      rcases List.mem_cons.mp hx with rfl | hx'
      · exact ha
      · exact ih x hx'
    · simp [ha] at hx

theorem length_takeWhile_le {α : Type} (p : α → Bool) (l : List α) : (l.takeWhile p).length ≤ l.length := by
  induction l with
  | nil => simp
  | cons a r ih =>
    by_cases ha : p a = true
    · simp only [List.takeWhile_cons, ha, if_true, List.length_cons]; omega
    · simp [ha]

theorem takeWhile_eq_self {α : Type} (p : α → Bool) (l : List α) (h : ∀ x ∈ l, p x = true) : l.takeWhile p = l := by
  induction l with
  | nil => rfl
  | cons a r ih =>
    simp only [List.takeWhile_cons, h a (by simp), if_true]
    rw [ih fun x hx => h x (List.mem_cons_of_mem _ hx)]

/-- the elements before the end of the `takeWhile` prefix satisfy the predicate -/
theorem takeWhile_getElem?_true {α : Type} (p : α → Bool) (l : List α) :
    ∀ j x, j < (l.takeWhile p).length → l[j]? = some x → p x = true := by
  induction l with
  | nil => intro j x hj; simp at hj
  | cons a r ih =>
    intro j x hj hx
    by_cases ha : p a = true
    · simp only [List.takeWhile_cons, ha, if_true, List.length_cons] at hj
      cases j with
      | zero => simp at hx; rw [← hx]; exact ha
      | succ j' => exact ih j' x (by omega) (by simpa using hx)
    · simp [ha] at hj

/-- the element right after the `takeWhile` prefix does not -/
theorem takeWhile_boundary_false {α : Type} (p : α → Bool) (l : List α) :
    ∀ x, l[(l.takeWhile p).length]? = some x → p x = false := by
  induction l with
  | nil => intro x hx; simp at hx
  | cons a r ih =>
    intro x hx
    by_cases ha : p a = true
    · simp only [List.takeWhile_cons, ha, if_true, List.length_cons, List.getElem?_cons_succ] at hx
      exact ih x hx
    · simp only [List.takeWhile_cons, ha, Bool.false_eq_true, if_false, List.length_nil,
        List.getElem?_cons_zero, Option.some.injEq] at hx
      rw [← hx]; simpa using ha

theorem reverse_findIdx?_prefix {α : Type} (p : α → Bool) (l : List α) (h : ∀ x ∈ l.dropWhile p, p x = false) :
    (l.reverse.findIdx? p).map (fun i => l.length - i) =
      if (l.takeWhile p).length = 0 then none else some (l.takeWhile p).length := by
  have hl : l.takeWhile p ++ l.dropWhile p = l := List.takeWhile_append_dropWhile
  have ht : ∀ x ∈ l.takeWhile p, p x = true := of_mem_takeWhile p l
  generalize l.takeWhile p = t at *
  generalize l.dropWhile p = d at *
  subst hl
  have hd : d.reverse.findIdx? p = none := by
    rw [List.findIdx?_eq_none_iff]; intro x hx; simp [h x (List.mem_reverse.mp hx)]
  rw [List.reverse_append, List.findIdx?_append, hd, Option.none_or]
  rcases List.eq_nil_or_concat t with rfl | ⟨t', z, rfl⟩
  · simp
  · have hz : p z = true := ht z (by simp)
    simp [List.findIdx?_cons, hz]
    omega

/-- on ascending keys, "the last key ≤ lookup" is the end of the prefix of keys ≤ lookup -/
theorem specLastLe_eq_prefix (ci : Bool) (k : LKind) (lookup : Val) (hl : lkind lookup = some k) (keys : List Val)
    (hk : ∀ x ∈ keys, lkind x = some k) (hs : sortedAsc ci keys = true) :
    specLastLe ci lookup keys =
      if (keys.takeWhile fun key => keyLe ci key lookup).length = 0 then none
      else some (keys.takeWhile fun key => keyLe ci key lookup).length :=
  reverse_findIdx?_prefix _ keys (dropWhile_all_gt ci k lookup hl keys hk hs)

end E2P.LookupOrder
