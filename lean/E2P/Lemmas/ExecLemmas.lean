import E2P.Spec.ExecSpec
import Mathlib.Data.List.Basic
/-!
  Lemmas about the dict model, the override plumbing and the executor state machine (C04, C08).
-/
namespace E2P

/-! ### dicts as association lists -/

theorem lookup_dictSet {α} (k k' : Nat) (v : α) (d : List (Nat × α)) :
    lookup k' (dictSet k v d) = if k = k' then some v else lookup k' d := by
  induction d with
  | nil => simp [dictSet, lookup]
  | cons kv r ih =>
    obtain ⟨a, b⟩ := kv
    by_cases h : a = k
    · subst h; simp only [dictSet, lookup, ↓reduceIte]; split <;> rfl
    · by_cases h2 : a = k'
      · subst h2
        have : ¬ k = a := fun e => h e.symm
        simp [dictSet, lookup, h, this]
      · simp [dictSet, lookup, h, h2, ih]

/-- the last pair with key `u` -/
def lookupLast {α} (u : Nat) (l : List (Nat × α)) : Option α := (l.reverse.find? fun kv => kv.1 = u).map (·.2)

theorem lookupLast_nil {α} (u : Nat) : lookupLast u ([] : List (Nat × α)) = none := rfl

theorem lookupLast_append {α} (u : Nat) (l₁ l₂ : List (Nat × α)) :
    lookupLast u (l₁ ++ l₂) = (lookupLast u l₂).orElse fun _ => lookupLast u l₁ := by
  unfold lookupLast
  rw [List.reverse_append, List.find?_append]
  cases h : List.find? (fun kv => decide (kv.1 = u)) l₂.reverse <;> simp

theorem lookupLast_cons {α} (u : Nat) (kv : Nat × α) (l : List (Nat × α)) :
    lookupLast u (kv :: l) = (lookupLast u l).orElse fun _ => if kv.1 = u then some kv.2 else none := by
  have := lookupLast_append u [kv] l
  simp only [List.singleton_append] at this
  rw [this]
  congr 1
  funext _
  unfold lookupLast
  by_cases h : kv.1 = u <;> simp [h]

theorem lookup_foldl_dictSet {α} (u : Nat) (l : List (Nat × α)) (d : List (Nat × α)) :
    lookup u (l.foldl (fun d kv => dictSet kv.1 kv.2 d) d) = (lookupLast u l).orElse fun _ => lookup u d := by
  induction l generalizing d with
  | nil => simp [lookupLast]
  | cons kv r ih =>
    rw [List.foldl_cons, ih, lookupLast_cons, lookup_dictSet]
    cases lookupLast u r <;> simp
    by_cases h : kv.1 = u <;> simp [h]

theorem lookup_dictMerge {α} (u : Nat) (old new : List (Nat × α)) :
    lookup u (dictMerge old new) = (lookupLast u new).orElse fun _ => lookup u old :=
  lookup_foldl_dictSet u new old

/-- no key occurs twice -/
def NodupKeys {α} (d : List (Nat × α)) : Prop := (d.map (·.1)).Nodup

theorem keys_dictSet {α} (k : Nat) (v : α) (d : List (Nat × α)) :
    ∀ x, x ∈ (dictSet k v d).map (·.1) ↔ x = k ∨ x ∈ d.map (·.1) := by
  induction d with
  | nil => simp [dictSet]
  | cons kv r ih =>
    intro x
    by_cases h : kv.1 = k
    · simp [dictSet, h]
    · simp only [dictSet, h, ↓reduceIte, List.map_cons, List.mem_cons, ih x]
      tauto

theorem nodupKeys_dictSet {α} (k : Nat) (v : α) (d : List (Nat × α)) (h : NodupKeys d) : NodupKeys (dictSet k v d) := by
  unfold NodupKeys at *
  induction d with
  | nil => simp [dictSet]
  | cons kv r ih =>
    rw [List.map_cons, List.nodup_cons] at h
    by_cases hk : kv.1 = k
    · simp only [dictSet, hk, ↓reduceIte, List.map_cons, List.nodup_cons]
      exact ⟨by rw [← hk]; exact h.1, h.2⟩
    · simp only [dictSet, hk, ↓reduceIte, List.map_cons, List.nodup_cons]
      refine ⟨?_, ih h.2⟩
      rw [keys_dictSet]
      rintro (e | e)
      · exact hk e
      · exact h.1 e

theorem nodupKeys_foldl {α} (l : List (Nat × α)) (d : List (Nat × α)) (h : NodupKeys d) :
    NodupKeys (l.foldl (fun d kv => dictSet kv.1 kv.2 d) d) := by
  induction l generalizing d with
  | nil => simpa
  | cons kv r ih => exact ih _ (nodupKeys_dictSet _ _ _ h)

theorem lookupLast_eq_lookup {α} (u : Nat) (d : List (Nat × α)) (h : NodupKeys d) : lookupLast u d = lookup u d := by
  unfold NodupKeys at h
  induction d with
  | nil => simp [lookupLast, lookup]
  | cons kv r ih =>
    rw [List.map_cons, List.nodup_cons] at h
    rw [lookupLast_cons, ih h.2]
    by_cases hk : kv.1 = u
    · have : lookup u r = none := by
        subst hk
        have hn := h.1
        clear ih h
        induction r with
        | nil => rfl
        | cons kv' r' ih' =>
          simp only [List.map_cons, List.mem_cons, not_or] at hn
          have : ¬ kv'.1 = kv.1 := fun e => hn.1 e.symm
          simp [lookup, this, ih' hn.2]
      simp [lookup, hk, this]
    · cases h' : lookup u r <;> simp [lookup, hk, h']

/-! ### overrides are edits -/

/-- **An override means: edit the cell and recalculate.**  Evaluating with the override map is evaluating, without
    overrides, the workbook in which each overridden cell holds its constant; in particular the overridden cell's own
    formula is never evaluated (it does not occur on the right-hand side). -/
theorem override_is_edit (body : Nat → Option XExpr) (ov : Nat → Option Val) (fuel u : Nat) :
    cellValueF body ov fuel u = recalc (edit body ov) fuel u := by
  unfold recalc
  induction fuel generalizing u with
  | zero => rfl
  | succ n ih =>
    have hfun : cellValueF body ov n = cellValueF (edit body ov) (fun _ => none) n := funext ih
    cases h : ov u with
    | some v => simp [cellValueF, edit, h, evalX]
    | none =>
      cases hb : body u with
      | some e => simp [cellValueF, edit, h, hb, hfun]
      | none => simp [cellValueF, edit, h, hb]

theorem cellValueF_congr (body : Nat → Option XExpr) (ov ov' : Nat → Option Val) (h : ∀ u, ov u = ov' u) (fuel u : Nat) :
    cellValueF body ov fuel u = cellValueF body ov' fuel u := by
  have : ov = ov' := funext h
  rw [this]

/-! ### the state machine -/

theorem allWrites_append (h₁ h₂ : List Op) : allWrites (h₁ ++ h₂) = allWrites h₁ ++ allWrites h₂ := by
  induction h₁ with
  | nil => rfl
  | cons op ops ih => cases op <;> simp [allWrites, ih]

theorem allWriteUids_append (h₁ h₂ : List Op) : allWriteUids (h₁ ++ h₂) = allWriteUids h₁ ++ allWriteUids h₂ := by
  induction h₁ with
  | nil => rfl
  | cons op ops ih => cases op <;> simp [allWriteUids, ih]

theorem lastWrite_eq (h : List Op) (u : Nat) : lastWrite h u = lookupLast u (allWrites h) := rfl

/-- the invariant tying the executor state to the history that produced it -/
structure Inv (sizes : List (Nat × Nat)) (pre : List Op) (st : ExecState) : Prop where
  cells : ∀ u, lookup u st.cells = lastWrite pre u
  nodup : NodupKeys st.cells
  sub : ∀ u, lookup u st.args ≠ none → lookup u st.cells ≠ none
  clean : st.dirty = false → ∀ u, lookup u st.args = lookup u st.cells
  sizes : ∀ s, st.sizes.getD s (0, 0) = extent (sizes.getD s (0, 0)) (allWriteUids pre) s ∧ st.sizes.length = sizes.length

theorem inv_init (sizes : List (Nat × Nat)) : Inv sizes [] (ExecState.init sizes) :=
  ⟨fun u => by simp [ExecState.init, lookup, lastWrite, allWrites], by simp [NodupKeys, ExecState.init],
   fun u h => by simp [ExecState.init, lookup] at h, fun _ u => rfl,
   fun s => by simp [ExecState.init, extent, allWriteUids]⟩

/-- after the replay the instance's argument map is the last-write map of the history -/
theorem sync_args (sizes : List (Nat × Nat)) (pre : List Op) (st : ExecState) (hi : Inv sizes pre st) (u : Nat) :
    lookup u (sync st).args = lastWrite pre u := by
  unfold sync
  by_cases hd : st.dirty = true
  · simp only [hd, ↓reduceIte]
    rw [lookup_dictMerge, lookupLast_eq_lookup _ _ hi.nodup, ← hi.cells u]
    cases h : lookup u st.cells with
    | some v => simp
    | none =>
      have := hi.sub u
      rw [h] at this
      simp only [ne_eq, not_true_eq_false, imp_false, not_not] at this
      simp [this]
  · have hd' : st.dirty = false := by simpa using hd
    simp only [hd', Bool.false_eq_true, ↓reduceIte]
    rw [hi.clean hd' u, hi.cells u]

theorem inv_sync (sizes : List (Nat × Nat)) (pre : List Op) (st : ExecState) (hi : Inv sizes pre st) :
    Inv sizes pre (sync st) := by
  have ha := sync_args sizes pre st hi
  have e1 : (sync st).cells = st.cells := by unfold sync; split <;> rfl
  have e2 : (sync st).sizes = st.sizes := by unfold sync; split <;> rfl
  refine ⟨by rw [e1]; exact hi.cells, by rw [e1]; exact hi.nodup, ?_, ?_, by rw [e2]; exact hi.sizes⟩
  · intro u h; rw [e1, hi.cells u, ← ha u]; exact h
  · intro _ u; rw [e1, hi.cells u, ha u]

theorem sync_sync (st : ExecState) : sync (sync st) = sync st := by
  unfold sync; by_cases h : st.dirty = true <;> simp [h]

theorem inv_congr (sizes : List (Nat × Nat)) (pre pre' : List Op) (st : ExecState)
    (h1 : allWrites pre' = allWrites pre) (h2 : allWriteUids pre' = allWriteUids pre) (hi : Inv sizes pre st) :
    Inv sizes pre' st :=
  ⟨fun u => by rw [lastWrite_eq, h1]; exact hi.cells u, hi.nodup, hi.sub, hi.clean, fun s => by rw [h2]; exact hi.sizes s⟩

theorem lastWrite_congr (pre pre' : List Op) (h1 : allWrites pre' = allWrites pre) : lastWrite pre' = lastWrite pre := by
  funext u; rw [lastWrite_eq, lastWrite_eq, h1]

/-- every override targets an existing sheet (the real `set_cells` raises IndexError / KeyError otherwise) -/
def ValidOps (sizes : List (Nat × Nat)) (ops : List Op) : Prop := ∀ u ∈ allWriteUids ops, u.sheet < sizes.length

theorem growSize_length (sz : List (Nat × Nat)) (u : Uid) : (growSize sz u).length = sz.length := by
  simp [growSize]

theorem growSize_getD (sz : List (Nat × Nat)) (u : Uid) (s : Nat) (hu : u.sheet < sz.length) :
    (growSize sz u).getD s (0, 0) =
      if u.sheet = s then (max (sz.getD s (0, 0)).1 (u.col + 1), max (sz.getD s (0, 0)).2 (u.row + 1)) else sz.getD s (0, 0) := by
  unfold growSize
  by_cases hs : s < sz.length
  · simp only [List.getD_eq_getElem?_getD, List.getElem?_mapIdx, List.getElem?_eq_getElem hs, Option.map_some, Option.getD_some]
    by_cases e : u.sheet = s
    · simp [e]
    · have : ¬ s = u.sheet := fun h => e h.symm
      simp [e, this]
  · have e : ¬ u.sheet = s := by omega
    simp [List.getD_eq_getElem?_getD, List.getElem?_mapIdx, List.getElem?_eq_none (Nat.le_of_not_lt hs), e]

theorem foldl_growSize (us : List Uid) (sz : List (Nat × Nat)) (s : Nat) (hv : ∀ u ∈ us, u.sheet < sz.length) :
    (us.foldl growSize sz).getD s (0, 0) = extent (sz.getD s (0, 0)) us s ∧ (us.foldl growSize sz).length = sz.length := by
  induction us generalizing sz with
  | nil => simp [extent]
  | cons u r ih =>
    have hu := hv u (by simp)
    have := ih (growSize sz u) (fun w hw => by rw [growSize_length]; exact hv w (by simp [hw]))
    rw [List.foldl_cons, this.1, this.2, growSize_length, growSize_getD _ _ _ hu]
    refine ⟨?_, rfl⟩
    unfold extent
    rw [List.foldl_cons]

theorem extent_append (size : Nat × Nat) (a b : List Uid) (s : Nat) :
    extent size (a ++ b) s = extent (extent size a s) b s := by
  unfold extent; rw [List.foldl_append]

theorem inv_setCells (sizes : List (Nat × Nat)) (pre : List Op) (st : ExecState) (b : List (Uid × Val))
    (hi : Inv sizes pre st) (hv : ∀ uv ∈ b, uv.1.sheet < sizes.length) :
    Inv sizes (pre ++ [.set b]) (setCells st b) := by
  have hw : allWrites (pre ++ [.set b]) = allWrites pre ++ b.map (fun uv => (uv.1.code, uv.2)) := by
    rw [allWrites_append]; simp [allWrites]
  have hu : allWriteUids (pre ++ [.set b]) = allWriteUids pre ++ b.map (·.1) := by
    rw [allWriteUids_append]; simp [allWriteUids]
  have hcells : (setCells st b).cells = (b.map (fun uv => (uv.1.code, uv.2))).foldl (fun d kv => dictSet kv.1 kv.2 d) st.cells := by
    simp [setCells, List.foldl_map]
  have hlook : ∀ u, lookup u (setCells st b).cells = lastWrite (pre ++ [.set b]) u := by
    intro u
    rw [hcells, lookup_foldl_dictSet, lastWrite_eq, hw, lookupLast_append, hi.cells u, lastWrite_eq]
  refine ⟨hlook, by rw [hcells]; exact nodupKeys_foldl _ _ hi.nodup, ?_, ?_, ?_⟩
  · intro u h
    have h1 : (setCells st b).args = st.args := rfl
    rw [h1] at h
    have h2 := hi.sub u h
    rw [hcells, lookup_foldl_dictSet]
    cases lookupLast u (b.map fun uv => (uv.1.code, uv.2)) <;> simpa using h2
  · intro h; simp [setCells] at h
  · intro s
    have hsz : (setCells st b).sizes = (b.map (·.1)).foldl growSize st.sizes := by simp [setCells, List.foldl_map]
    have hlen := (hi.sizes s).2
    have := foldl_growSize (b.map (·.1)) st.sizes s (by
      intro u hu'
      obtain ⟨uv, huv, rfl⟩ := List.mem_map.1 hu'
      rw [hlen]; exact hv uv huv)
    rw [hsz, this.1, this.2, hu, extent_append, (hi.sizes s).1]
    exact ⟨rfl, hlen⟩

end E2P
