/-
  Helper lemmas about the calendar model (E2P.Model.Calendar).
-/
import E2P.Model.Calendar
namespace E2P

theorem isLeap_iff (y : Int) : isLeap y = true ↔ (y % 4 = 0 ∧ (y % 100 ≠ 0 ∨ y % 400 = 0)) := by
  simp [isLeap]

theorem daysBeforeYear_def (y : Int) :
    daysBeforeYear y = (y - 1) * 365 + (y - 1) / 4 - (y - 1) / 100 + (y - 1) / 400 := rfl

theorem daysBeforeYear_succ (y : Int) : daysBeforeYear (y + 1) = daysBeforeYear y + yearLen y := by
  rw [daysBeforeYear_def, daysBeforeYear_def]
  unfold yearLen
  by_cases h4 : y % 4 = 0 <;> by_cases h100 : y % 100 = 0 <;> by_cases h400 : y % 400 = 0 <;>
    simp [isLeap, h4, h100, h400] <;> omega

theorem yearLen_bounds (y : Int) : 365 ≤ yearLen y ∧ yearLen y ≤ 366 := by
  unfold yearLen; split <;> omega

/-- the year found by `yearOf` contains the ordinal -/
theorem yearOf_spec (n : Int) : daysBeforeYear (yearOf n) < n ∧ n ≤ daysBeforeYear (yearOf n + 1) := by
  by_cases h1 : n ≤ daysBeforeYear ((n - 1) * 400 / 146097 + 1)
  · have hy : yearOf n = (n - 1) * 400 / 146097 + 1 - 1 := by simp [yearOf, h1]
    rw [hy]
    rw [daysBeforeYear_def] at h1
    rw [daysBeforeYear_def, daysBeforeYear_def]
    constructor <;> omega
  · by_cases h2 : n ≤ daysBeforeYear ((n - 1) * 400 / 146097 + 1 + 1)
    · have hy : yearOf n = (n - 1) * 400 / 146097 + 1 := by simp [yearOf, h1, h2]
      rw [hy]
      exact ⟨by omega, h2⟩
    · have hy : yearOf n = (n - 1) * 400 / 146097 + 1 + 1 := by simp [yearOf, h1, h2]
      rw [hy]
      rw [daysBeforeYear_def] at h1 h2
      rw [daysBeforeYear_def, daysBeforeYear_def]
      constructor <;> omega

theorem daysBeforeYear_mono {y y' : Int} (h : y + 1 ≤ y') : daysBeforeYear (y + 1) ≤ daysBeforeYear y' := by
  rw [daysBeforeYear_def, daysBeforeYear_def]; omega

/-- the year containing an ordinal is unique -/
theorem year_unique {n y y' : Int} (h1 : daysBeforeYear y < n) (h2 : n ≤ daysBeforeYear (y + 1))
    (h1' : daysBeforeYear y' < n) (h2' : n ≤ daysBeforeYear (y' + 1)) : y = y' := by
  rcases Int.lt_trichotomy y y' with h | h | h
  · have := daysBeforeYear_mono (y := y) (y' := y') (by omega); omega
  · exact h
  · have := daysBeforeYear_mono (y := y') (y' := y) (by omega); omega

theorem month_cases {m : Int} (h1 : 1 ≤ m) (h2 : m ≤ 12) :
    m = 1 ∨ m = 2 ∨ m = 3 ∨ m = 4 ∨ m = 5 ∨ m = 6 ∨ m = 7 ∨ m = 8 ∨ m = 9 ∨ m = 10 ∨ m = 11 ∨ m = 12 := by
  omega

/-- a valid day of a month lies inside its year -/
theorem dayOfYear_bounds {y m d : Int} (h : validYMD y m d) :
    1 ≤ daysBeforeMonth y m + d ∧ daysBeforeMonth y m + d ≤ yearLen y := by
  obtain ⟨h1, h2, h3, h4⟩ := h
  rcases month_cases h1 h2 with rfl | rfl | rfl | rfl | rfl | rfl | rfl | rfl | rfl | rfl | rfl | rfl <;>
    by_cases hl : isLeap y = true <;>
    simp [daysBeforeMonth, daysInMonth, yearLen, hl] at * <;> omega

theorem yearOf_ordinal {y m d : Int} (h : validYMD y m d) : yearOf (ordinal y m d) = y := by
  have hb := dayOfYear_bounds h
  have hs := yearOf_spec (ordinal y m d)
  have hsucc := daysBeforeYear_succ y
  exact year_unique hs.1 hs.2 (by unfold ordinal; omega) (by unfold ordinal; omega)

theorem monthOfDay_ordinal {y m d : Int} (h : validYMD y m d) : monthOfDay y (daysBeforeMonth y m + d) = m := by
  obtain ⟨h1, h2, h3, h4⟩ := h
  rcases month_cases h1 h2 with rfl | rfl | rfl | rfl | rfl | rfl | rfl | rfl | rfl | rfl | rfl | rfl <;>
    by_cases hl : isLeap y = true <;>
    simp [monthOfDay, daysBeforeMonth, daysInMonth, hl] at * <;> omega

/-- civil date → ordinal → civil date is the identity on valid dates -/
theorem ofOrdinal_ordinal {y m d : Int} (h : validYMD y m d) : ofOrdinal (ordinal y m d) = ⟨y, m, d⟩ := by
  have hy := yearOf_ordinal h
  have hm := monthOfDay_ordinal h
  unfold ofOrdinal
  simp only [hy]
  have ht : ordinal y m d - daysBeforeYear y = daysBeforeMonth y m + d := by unfold ordinal; omega
  rw [ht, hm]
  congr 1; omega

theorem month_exists (y t : Int) (h1 : 1 ≤ t) (h2 : t ≤ yearLen y) :
    ∃ k : Int, 1 ≤ k ∧ k ≤ 12 ∧ daysBeforeMonth y k < t ∧ t ≤ daysBeforeMonth y k + daysInMonth y k := by
  by_cases hl : isLeap y = true
  · simp only [yearLen, hl, if_true] at h2
    have : t ≤ 31 ∨ (31 < t ∧ t ≤ 60) ∨ (60 < t ∧ t ≤ 91) ∨ (91 < t ∧ t ≤ 121) ∨ (121 < t ∧ t ≤ 152) ∨
        (152 < t ∧ t ≤ 182) ∨ (182 < t ∧ t ≤ 213) ∨ (213 < t ∧ t ≤ 244) ∨ (244 < t ∧ t ≤ 274) ∨
        (274 < t ∧ t ≤ 305) ∨ (305 < t ∧ t ≤ 335) ∨ (335 < t ∧ t ≤ 366) := by omega
    rcases this with h | h | h | h | h | h | h | h | h | h | h | h
    · exact ⟨1, by simp [daysBeforeMonth, daysInMonth, hl]; omega⟩
    · exact ⟨2, by simp [daysBeforeMonth, daysInMonth, hl]; omega⟩
    · exact ⟨3, by simp [daysBeforeMonth, daysInMonth, hl]; omega⟩
    · exact ⟨4, by simp [daysBeforeMonth, daysInMonth, hl]; omega⟩
    · exact ⟨5, by simp [daysBeforeMonth, daysInMonth, hl]; omega⟩
    · exact ⟨6, by simp [daysBeforeMonth, daysInMonth, hl]; omega⟩
    · exact ⟨7, by simp [daysBeforeMonth, daysInMonth, hl]; omega⟩
    · exact ⟨8, by simp [daysBeforeMonth, daysInMonth, hl]; omega⟩
    · exact ⟨9, by simp [daysBeforeMonth, daysInMonth, hl]; omega⟩
    · exact ⟨10, by simp [daysBeforeMonth, daysInMonth, hl]; omega⟩
    · exact ⟨11, by simp [daysBeforeMonth, daysInMonth, hl]; omega⟩
    · exact ⟨12, by simp [daysBeforeMonth, daysInMonth, hl]; omega⟩
  · simp only [yearLen, hl] at h2
    have : t ≤ 31 ∨ (31 < t ∧ t ≤ 59) ∨ (59 < t ∧ t ≤ 90) ∨ (90 < t ∧ t ≤ 120) ∨ (120 < t ∧ t ≤ 151) ∨
        (151 < t ∧ t ≤ 181) ∨ (181 < t ∧ t ≤ 212) ∨ (212 < t ∧ t ≤ 243) ∨ (243 < t ∧ t ≤ 273) ∨
        (273 < t ∧ t ≤ 304) ∨ (304 < t ∧ t ≤ 334) ∨ (334 < t ∧ t ≤ 365) := by
      have : t ≤ 365 := by simpa using h2
      omega
    rcases this with h | h | h | h | h | h | h | h | h | h | h | h
    · exact ⟨1, by simp [daysBeforeMonth, daysInMonth, hl]; omega⟩
    · exact ⟨2, by simp [daysBeforeMonth, daysInMonth, hl]; omega⟩
    · exact ⟨3, by simp [daysBeforeMonth, daysInMonth, hl]; omega⟩
    · exact ⟨4, by simp [daysBeforeMonth, daysInMonth, hl]; omega⟩
    · exact ⟨5, by simp [daysBeforeMonth, daysInMonth, hl]; omega⟩
    · exact ⟨6, by simp [daysBeforeMonth, daysInMonth, hl]; omega⟩
    · exact ⟨7, by simp [daysBeforeMonth, daysInMonth, hl]; omega⟩
    · exact ⟨8, by simp [daysBeforeMonth, daysInMonth, hl]; omega⟩
    · exact ⟨9, by simp [daysBeforeMonth, daysInMonth, hl]; omega⟩
    · exact ⟨10, by simp [daysBeforeMonth, daysInMonth, hl]; omega⟩
    · exact ⟨11, by simp [daysBeforeMonth, daysInMonth, hl]; omega⟩
    · exact ⟨12, by simp [daysBeforeMonth, daysInMonth, hl]; omega⟩

/-- `monthOfDay` finds the month containing the `t`-th day of the year -/
theorem monthOfDay_spec (y t : Int) (h1 : 1 ≤ t) (h2 : t ≤ yearLen y) :
    1 ≤ monthOfDay y t ∧ monthOfDay y t ≤ 12 ∧ daysBeforeMonth y (monthOfDay y t) < t ∧
      t ≤ daysBeforeMonth y (monthOfDay y t) + daysInMonth y (monthOfDay y t) := by
  obtain ⟨k, hk1, hk2, hk3, hk4⟩ := month_exists y t h1 h2
  have hv : validYMD y k (t - daysBeforeMonth y k) := ⟨hk1, hk2, by omega, by omega⟩
  have := monthOfDay_ordinal hv
  have e : daysBeforeMonth y k + (t - daysBeforeMonth y k) = t := by omega
  rw [e] at this
  rw [this]
  exact ⟨hk1, hk2, hk3, hk4⟩

/-- ordinal → civil date → ordinal is the identity, and the civil date is valid -/
theorem ordinal_ofOrdinal (n : Int) :
    validYMD (ofOrdinal n).y (ofOrdinal n).m (ofOrdinal n).d ∧
      ordinal (ofOrdinal n).y (ofOrdinal n).m (ofOrdinal n).d = n := by
  have hs := yearOf_spec n
  have hsucc := daysBeforeYear_succ (yearOf n)
  have hm := monthOfDay_spec (yearOf n) (n - daysBeforeYear (yearOf n)) (by omega) (by omega)
  unfold ofOrdinal validYMD ordinal
  simp only
  refine ⟨⟨hm.1, hm.2.1, by omega, by omega⟩, by omega⟩

end E2P
