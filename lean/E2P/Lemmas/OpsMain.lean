import E2P.Lemmas.OpsEv
/-!
  The main lemma of C01: for every *stratified* expression (one whose shape already respects Excel's precedence and
  left associativity — the ONLY readings the grammar "% tightest, sign, * /, + -, &, comparisons, left to right" allows),
  grouping its printed token sequence gives the expression back, whatever follows it, as long as what follows cannot
  extend it.
-/
namespace E2P

def isPostShape : Ex → Bool
  | .atom _ | .paren _ => true
  | .pct e => isPostShape e
  | _ => false

/-- `some a`: the expression is stratified and `a` is the loosest level it occupies (0 = operand with signs / %);
    `none`: its shape contradicts precedence or associativity (e.g. `bin * (bin + a b) c` without brackets) -/
def shape : Ex → Option Nat
  | .atom _ => some 0
  | .paren e => (shape e).map fun _ => 0
  | .pct e => if isPostShape e && shape e == some 0 then some 0 else none
  | .neg e | .pos e => if shape e == some 0 then some 0 else none
  | .bin o l r =>
    match shape l, shape r with
    | some a, some b => if a ≤ o.level && b < o.level then some o.level else none
    | _, _ => none

/-- what may follow an expression of level `a` without extending it: nothing, a closing bracket, or an operator
    that does not bind tighter than level `a` -/
def StopBelow (a : Nat) (rest : List Tk) : Prop :=
  match rest.head? with
  | none => True
  | some .rp => True
  | some (.op o) => a ≤ o.level
  | _ => False

/-- running the loops of levels m, m+1, …, k in this order from the accumulator `acc` on `rest` ends in `res` -/
inductive Loops : Nat → Nat → Ex → List Tk → Ex × List Tk → Prop
  | done {m k acc rest} : k < m → Loops m k acc rest (acc, rest)
  | step {m k acc rest acc' rest' res} : m ≤ k → Ev (fun f => pLoop f m acc rest) (acc', rest') →
      Loops (m + 1) k acc' rest' res → Loops m k acc rest res

theorem ev_level_of_loops_aux (toks : List Tk) (m k : Nat) (acc : Ex) (rest : List Tk) (res : Ex × List Tk)
    (h2 : Loops m k acc rest res) : ∀ j, m = j + 1 → j ≤ k → Ev (fun f => pLevel f j toks) (acc, rest) →
      Ev (fun f => pLevel f k toks) res := by
  induction h2 with
  | @done m' k' _ _ hlt =>
    intro j hm hjk h1
    have : j = k' := by omega
    subst this; exact h1
  | step hle hev _ ih =>
    intro j hm hjk h1
    subst hm
    exact ih (j + 1) rfl hle (ev_level_succ j toks _ _ _ h1 hev)

theorem ev_level_of_loops (j k : Nat) (toks : List Tk) (acc : Ex) (rest : List Tk) (res : Ex × List Tk)
    (h1 : Ev (fun f => pLevel f j toks) (acc, rest)) (h2 : Loops (j + 1) k acc rest res) (hjk : j ≤ k) :
    Ev (fun f => pLevel f k toks) res :=
  ev_level_of_loops_aux toks (j + 1) k acc rest res h2 j rfl hjk h1

/-- loops whose levels are all below the level of the next operator (or when no operator follows) change nothing -/
theorem loops_all_stop (m k : Nat) (acc : Ex) (rest : List Tk) (h : ∀ o, rest.head? = some (.op o) → k < o.level) :
    Loops m k acc rest (acc, rest) := by
  by_cases hlt : k < m
  · exact .done hlt
  · have hle : m ≤ k := by omega
    obtain ⟨d, hd⟩ : ∃ d, k = m + d := ⟨k - m, by omega⟩
    induction d generalizing m with
    | zero =>
      exact .step hle (ev_loop_stop m acc rest (fun o ho => by have := h o ho; omega)) (.done (by omega))
    | succ d ih =>
      refine .step hle (ev_loop_stop m acc rest (fun o ho => by have := h o ho; omega)) ?_
      exact ih (m + 1) (by omega) (by omega) (by omega)

theorem loops_skip (m j k : Nat) (acc : Ex) (rest : List Tk) (res : Ex × List Tk) (hmj : m ≤ j)
    (h : ∀ o, rest.head? = some (.op o) → j ≤ o.level) (hl : Loops j k acc rest res) : Loops m k acc rest res := by
  obtain ⟨d, hd⟩ : ∃ d, j = m + d := ⟨j - m, by omega⟩
  induction d generalizing m with
  | zero => simp at hd; subst hd; exact hl
  | succ d ih =>
    by_cases hk : k < m
    · -- then j > k as well: both are `done`
      cases hl with
      | done _ => exact .done hk
      | step hle _ _ => omega
    · refine .step (by omega) (ev_loop_stop m acc rest (fun o ho => by have := h o ho; omega)) ?_
      exact ih (m + 1) (by omega) (by omega)

/-! ### the induction over the expression -/

theorem flat_post_cons (e : Ex) (h : isPostShape e = true) :
    ∃ t ts, e.flat = t :: ts ∧ t ≠ .op .add ∧ t ≠ .op .sub := by
  induction e with
  | atom a => exact ⟨.atom a, [], rfl, by simp, by simp⟩
  | paren e _ => exact ⟨.lp, e.flat ++ [.rp], rfl, by simp, by simp⟩
  | pct e ih =>
    simp only [isPostShape] at h
    obtain ⟨t, ts, h1, h2, h3⟩ := ih h
    exact ⟨t, ts ++ [.pct], by simp [Ex.flat, h1], h2, h3⟩
  | neg e _ => simp [isPostShape] at h
  | pos e _ => simp [isPostShape] at h
  | bin o l r _ _ => simp [isPostShape] at h

theorem flat_head_post (e : Ex) (h : isPostShape e = true) (rest : List Tk) :
    (e.flat ++ rest).head? ≠ some (.op .add) ∧ (e.flat ++ rest).head? ≠ some (.op .sub) := by
  obtain ⟨t, ts, h1, h2, h3⟩ := flat_post_cons e h
  rw [h1]
  simp only [List.cons_append, List.head?_cons, ne_eq, Option.some.injEq]
  exact ⟨h2, h3⟩

theorem shape_zero_cases (e : Ex) (h : shape e = some 0) :
    (isPostShape e = true) ∨ (∃ e', e = .neg e' ∧ shape e' = some 0) ∨ (∃ e', e = .pos e' ∧ shape e' = some 0) := by
  cases e with
  | atom a => left; rfl
  | paren e => left; rfl
  | pct e =>
    left
    simp only [shape] at h
    split at h
    · rename_i hc; simp only [Bool.and_eq_true] at hc; simp [isPostShape, hc.1]
    · cases h
  | neg e => right; left; simp only [shape] at h; split at h <;> simp_all
  | pos e => right; right; simp only [shape] at h; split at h <;> simp_all
  | bin o l r =>
    exfalso
    simp only [shape] at h
    split at h
    · split at h
      · simp only [Option.some.injEq] at h; cases o <;> simp [BinOp.level] at h
      · cases h
    · cases h

/-- the three facts proved together by induction on the expression -/
structure Claims (e : Ex) : Prop where
  /-- grouping at level k what e prints to, followed by `rest`, continues as the loops of the levels ≥ e's own would from e -/
  main : ∀ a, shape e = some a → ∀ k, a ≤ k → ∀ rest, StopBelow a rest → ∀ res, Loops (max a 1) k e rest res →
    Ev (fun f => pLevel f k (e.flat ++ rest)) res
  post : isPostShape e = true → shape e = some 0 → ∀ rest res, Ev (fun f => pPct f e rest) res →
    Ev (fun f => pPost f (e.flat ++ rest)) res
  unary : shape e = some 0 → ∀ rest, rest.head? ≠ some .pct → Ev (fun f => pUnary f (e.flat ++ rest)) (e, rest)

theorem stop_not_pct (a : Nat) (rest : List Tk) (h : StopBelow a rest) : rest.head? ≠ some .pct := by
  intro e; simp [StopBelow, e] at h

theorem main_of_unary (e : Ex) (hu : ∀ rest, rest.head? ≠ some .pct → Ev (fun f => pUnary f (e.flat ++ rest)) (e, rest))
    (k : Nat) (rest : List Tk) (hs : StopBelow 0 rest) (res : Ex × List Tk) (hl : Loops 1 k e rest res) :
    Ev (fun f => pLevel f k (e.flat ++ rest)) res :=
  ev_level_of_loops 0 k _ e rest res (ev_level_zero _ _ (hu rest (stop_not_pct 0 rest hs))) hl (Nat.zero_le _)

theorem claims (e : Ex) : Claims e := by
  induction e with
  | atom a =>
    have hpost : ∀ rest res, Ev (fun f => pPct f (.atom a) rest) res → Ev (fun f => pPost f ((Ex.atom a).flat ++ rest)) res :=
      fun rest res h => by simpa [Ex.flat] using ev_post_atom a rest res h
    have hun : ∀ rest, rest.head? ≠ some .pct → Ev (fun f => pUnary f ((Ex.atom a).flat ++ rest)) (.atom a, rest) :=
      fun rest hr => ev_unary_post _ _ (by simp [Ex.flat]) (hpost rest _ (ev_pct_stop _ _ hr))
    refine ⟨?_, fun _ _ => hpost, fun _ => hun⟩
    intro a' ha k _ rest hs res hl
    simp only [shape, Option.some.injEq] at ha; subst ha
    exact main_of_unary _ hun k rest hs res hl
  | paren e ih =>
    have hpost : shape (.paren e) = some 0 → ∀ rest res, Ev (fun f => pPct f (.paren e) rest) res →
        Ev (fun f => pPost f ((Ex.paren e).flat ++ rest)) res := by
      intro hsh rest res h
      simp only [shape, Option.map_eq_some_iff] at hsh
      obtain ⟨a, ha, _⟩ := hsh
      have hinner : Ev (fun f => pLevel f 4 (e.flat ++ .rp :: rest)) (e, .rp :: rest) := by
        have hle : a ≤ 4 := by
          clear ih h
          induction e generalizing a with
          | atom _ => simp [shape] at ha; omega
          | paren _ _ => simp only [shape, Option.map_eq_some_iff] at ha; obtain ⟨_, _, rfl⟩ := ha; omega
          | pct _ _ => simp only [shape] at ha; split at ha <;> simp_all
          | neg _ _ => simp only [shape] at ha; split at ha <;> simp_all
          | pos _ _ => simp only [shape] at ha; split at ha <;> simp_all
          | bin o _ _ _ _ =>
            simp only [shape] at ha
            split at ha
            · split at ha
              · simp only [Option.some.injEq] at ha; subst ha; cases o <;> simp [BinOp.level]
              · cases ha
            · cases ha
        exact ih.main a ha 4 hle (.rp :: rest) (by simp [StopBelow]) _ (loops_all_stop _ _ _ _ (by simp))
      have := ev_post_paren e (e.flat ++ .rp :: rest) rest res hinner h
      simpa [Ex.flat, List.append_assoc] using this
    have hun : shape (.paren e) = some 0 → ∀ rest, rest.head? ≠ some .pct →
        Ev (fun f => pUnary f ((Ex.paren e).flat ++ rest)) (.paren e, rest) :=
      fun hsh rest hr => ev_unary_post _ _ (by simp [Ex.flat]) (hpost hsh rest _ (ev_pct_stop _ _ hr))
    refine ⟨?_, fun _ => hpost, hun⟩
    intro a' ha k _ rest hs res hl
    have h0 : a' = 0 := by simp only [shape, Option.map_eq_some_iff] at ha; obtain ⟨_, _, rfl⟩ := ha; rfl
    subst h0
    exact main_of_unary _ (hun ha) k rest hs res hl
  | pct e ih =>
    have hsub : shape (.pct e) = some 0 → isPostShape e = true ∧ shape e = some 0 := by
      intro h; simp only [shape] at h; split at h
      · rename_i hc; simpa [Bool.and_eq_true] using hc
      · cases h
    have hpost : shape (.pct e) = some 0 → ∀ rest res, Ev (fun f => pPct f (.pct e) rest) res →
        Ev (fun f => pPost f ((Ex.pct e).flat ++ rest)) res := by
      intro hsh rest res h
      obtain ⟨h1, h2⟩ := hsub hsh
      have := ih.post h1 h2 (.pct :: rest) res (ev_pct_step e rest res h)
      simpa [Ex.flat, List.append_assoc] using this
    have hun : shape (.pct e) = some 0 → ∀ rest, rest.head? ≠ some .pct →
        Ev (fun f => pUnary f ((Ex.pct e).flat ++ rest)) (.pct e, rest) := by
      intro hsh rest hr
      obtain ⟨h1, _⟩ := hsub hsh
      have hh := flat_head_post (.pct e) (by simpa [isPostShape] using h1) rest
      exact ev_unary_post _ _ hh (hpost hsh rest _ (ev_pct_stop _ _ hr))
    refine ⟨?_, fun _ => hpost, hun⟩
    intro a' ha k _ rest hs res hl
    have h0 : a' = 0 := by simp only [shape] at ha; split at ha <;> simp_all
    subst h0
    exact main_of_unary _ (hun ha) k rest hs res hl
  | neg e ih =>
    have hsub : shape (.neg e) = some 0 → shape e = some 0 := by
      intro h; simp only [shape] at h; split at h <;> simp_all
    have hun : shape (.neg e) = some 0 → ∀ rest, rest.head? ≠ some .pct →
        Ev (fun f => pUnary f ((Ex.neg e).flat ++ rest)) (.neg e, rest) := by
      intro hsh rest hr
      simpa [Ex.flat] using ev_unary_neg _ _ _ (ih.unary (hsub hsh) rest hr)
    refine ⟨?_, fun h => by simp [isPostShape] at h, hun⟩
    intro a' ha k _ rest hs res hl
    have h0 : a' = 0 := by simp only [shape] at ha; split at ha <;> simp_all
    subst h0
    exact main_of_unary _ (hun ha) k rest hs res hl
  | pos e ih =>
    have hsub : shape (.pos e) = some 0 → shape e = some 0 := by
      intro h; simp only [shape] at h; split at h <;> simp_all
    have hun : shape (.pos e) = some 0 → ∀ rest, rest.head? ≠ some .pct →
        Ev (fun f => pUnary f ((Ex.pos e).flat ++ rest)) (.pos e, rest) := by
      intro hsh rest hr
      simpa [Ex.flat] using ev_unary_pos _ _ _ (ih.unary (hsub hsh) rest hr)
    refine ⟨?_, fun h => by simp [isPostShape] at h, hun⟩
    intro a' ha k _ rest hs res hl
    have h0 : a' = 0 := by simp only [shape] at ha; split at ha <;> simp_all
    subst h0
    exact main_of_unary _ (hun ha) k rest hs res hl
  | bin o l r ihl ihr =>
    refine ⟨?_, fun h => by simp [isPostShape] at h, ?_⟩
    · intro a' ha k hak rest hs res hl
      -- decompose the shape
      simp only [shape] at ha
      cases hsl : shape l with
      | none => simp [hsl] at ha
      | some a =>
        cases hsr : shape r with
        | none => simp [hsl, hsr] at ha
        | some b =>
          simp only [hsl, hsr] at ha
          split at ha
          · rename_i hc
            simp only [Bool.and_eq_true, decide_eq_true_eq] at hc
            simp only [Option.some.injEq] at ha
            subst ha
            obtain ⟨hal, hbr⟩ := hc
            have hj1 : 1 ≤ o.level := by cases o <;> simp [BinOp.level]
            have hmax : max o.level 1 = o.level := by omega
            rw [hmax] at hl
            -- what follows r cannot extend it below level j: r is grouped alone at level j-1
            have hstop_r : ∀ o', rest.head? = some (.op o') → o.level ≤ o'.level := by
              intro o' ho'; simp [StopBelow, ho'] at hs; exact hs
            have hr_alone : Ev (fun f => pLevel f (o.level - 1) (r.flat ++ rest)) (r, rest) := by
              apply ihr.main b hsr (o.level - 1) (by omega) rest
              · cases hh : rest.head? with
                | none => simp [StopBelow, hh]
                | some t =>
                  cases t with
                  | op o' => have := hstop_r o' hh; simp [StopBelow, hh]; omega
                  | rp => simp [StopBelow, hh]
                  | _ => simp [StopBelow, hh] at hs
              · exact loops_all_stop _ _ _ _ (fun o' ho' => by have := hstop_r o' ho'; omega)
            -- the loop of level j, started from l on `op o :: r ++ rest`, takes r and continues from `bin o l r`
            cases hl with
            | done hlt => omega
            | step hle hev hrest =>
              have hloop : Ev (fun f => pLoop f o.level l (.op o :: (r.flat ++ rest))) _ :=
                ev_loop_match o.level o l r (r.flat ++ rest) rest _ rfl hr_alone hev
              have hl' : Loops (max a 1) k l (.op o :: (r.flat ++ rest)) res := by
                apply loops_skip (max a 1) o.level k l _ res (by omega) (by intro o' ho'; simp at ho'; subst ho'; exact Nat.le_refl _)
                exact .step hle hloop hrest
              have := ihl.main a hsl k (by omega) (.op o :: (r.flat ++ rest)) (by simp [StopBelow]; exact hal) res hl'
              simpa [Ex.flat, List.append_assoc] using this
          · cases ha
    · intro h
      exfalso
      simp only [shape] at h
      split at h
      · split at h
        · simp only [Option.some.injEq] at h; cases o <;> simp [BinOp.level] at h
        · cases h
      · cases h

end E2P

namespace E2P

theorem shape_le_four (e : Ex) (a : Nat) (h : shape e = some a) : a ≤ 4 := by
  cases e with
  | atom _ => simp [shape] at h; omega
  | paren _ => simp only [shape, Option.map_eq_some_iff] at h; obtain ⟨_, _, rfl⟩ := h; omega
  | pct _ => simp only [shape] at h; split at h <;> simp_all <;> omega
  | neg _ => simp only [shape] at h; split at h <;> simp_all <;> omega
  | pos _ => simp only [shape] at h; split at h <;> simp_all <;> omega
  | bin o _ _ =>
    simp only [shape] at h
    split at h
    · split at h
      · simp only [Option.some.injEq] at h; subst h; cases o <;> simp [BinOp.level]
      · cases h
    · cases h

/-- a larger recursion budget never changes a result that was already obtained -/
theorem mono_all (fuel : Nat) :
    (∀ toks r, pPost fuel toks = some r → pPost (fuel + 1) toks = some r) ∧
    (∀ e0 toks r, pPct fuel e0 toks = some r → pPct (fuel + 1) e0 toks = some r) ∧
    (∀ toks r, pUnary fuel toks = some r → pUnary (fuel + 1) toks = some r) ∧
    (∀ k toks r, pLevel fuel k toks = some r → pLevel (fuel + 1) k toks = some r) ∧
    (∀ k l toks r, pLoop fuel k l toks = some r → pLoop (fuel + 1) k l toks = some r) := by
  induction fuel with
  | zero =>
    refine ⟨?_, ?_, ?_, ?_, ?_⟩
    · intro toks r h; simp [pPost] at h
    · intro e0 toks r h; simp [pPct] at h
    · intro toks r h; simp [pUnary] at h
    · intro k toks r h; simp [pLevel] at h
    · intro k l toks r h; simp [pLoop] at h
  | succ n ih =>
    obtain ⟨ihPost, ihPct, ihUn, ihLv, ihLoop⟩ := ih
    refine ⟨?_, ?_, ?_, ?_, ?_⟩
    · intro toks r h
      cases toks with
      | nil => simp [pPost] at h
      | cons t ts =>
        cases t with
        | atom a => simp only [pPost] at h ⊢; exact ihPct _ _ _ h
        | lp =>
          simp only [pPost] at h ⊢
          cases hl : pLevel n 4 ts with
          | none => rw [hl] at h; simp at h
          | some p =>
            obtain ⟨e1, r1⟩ := p
            rw [hl] at h
            rw [ihLv _ _ _ hl]
            cases r1 with
            | nil => simp at h
            | cons x xs => cases x <;> simp at h ⊢; exact ihPct _ _ _ h
        | rp => simp [pPost] at h
        | pct => simp [pPost] at h
        | op o => simp [pPost] at h
    · intro e0 toks r h
      cases toks with
      | nil => simpa [pPct] using h
      | cons t ts =>
        cases t with
        | pct => simp only [pPct] at h ⊢; exact ihPct _ _ _ h
        | atom a => simpa [pPct] using h
        | lp => simpa [pPct] using h
        | rp => simpa [pPct] using h
        | op o => simpa [pPct] using h
    · intro toks r h
      cases toks with
      | nil => simp only [pUnary] at h ⊢; exact ihPost _ _ h
      | cons t ts =>
        cases t with
        | op o =>
          cases o with
          | add =>
            simp only [pUnary, Option.map_eq_some_iff] at h ⊢
            obtain ⟨p, hp, rfl⟩ := h
            exact ⟨p, ihUn _ _ hp, rfl⟩
          | sub =>
            simp only [pUnary, Option.map_eq_some_iff] at h ⊢
            obtain ⟨p, hp, rfl⟩ := h
            exact ⟨p, ihUn _ _ hp, rfl⟩
          | mul => simp only [pUnary] at h ⊢; exact ihPost _ _ h
          | div => simp only [pUnary] at h ⊢; exact ihPost _ _ h
          | cat => simp only [pUnary] at h ⊢; exact ihPost _ _ h
          | cmp c => simp only [pUnary] at h ⊢; exact ihPost _ _ h
        | atom a => simp only [pUnary] at h ⊢; exact ihPost _ _ h
        | lp => simp only [pUnary] at h ⊢; exact ihPost _ _ h
        | rp => simp only [pUnary] at h ⊢; exact ihPost _ _ h
        | pct => simp only [pUnary] at h ⊢; exact ihPost _ _ h
    · intro k toks r h
      cases k with
      | zero => simp only [pLevel] at h ⊢; exact ihUn _ _ h
      | succ k =>
        simp only [pLevel] at h ⊢
        cases hl : pLevel n k toks with
        | none => rw [hl] at h; simp at h
        | some p =>
          obtain ⟨l, r'⟩ := p
          rw [hl] at h
          rw [ihLv _ _ _ hl]
          exact ihLoop _ _ _ _ h
    · intro k l toks r h
      cases toks with
      | nil => simpa [pLoop] using h
      | cons t ts =>
        cases t with
        | op o =>
          simp only [pLoop] at h ⊢
          by_cases hk : o.level = k
          · simp only [hk, ↓reduceIte] at h ⊢
            cases hl : pLevel n (k - 1) ts with
            | none => rw [hl] at h; simp at h
            | some p =>
              obtain ⟨rhs, r'⟩ := p
              rw [hl] at h
              rw [ihLv _ _ _ hl]
              exact ihLoop _ _ _ _ h
          · simpa [hk] using h
        | atom a => simpa [pLoop] using h
        | lp => simpa [pLoop] using h
        | rp => simpa [pLoop] using h
        | pct => simpa [pLoop] using h

theorem pLevel_mono (fuel d k : Nat) (toks : List Tk) (r : Ex × List Tk) (h : pLevel fuel k toks = some r) :
    pLevel (fuel + d) k toks = some r := by
  induction d with
  | zero => exact h
  | succ d ih => exact (mono_all (fuel + d)).2.2.2.1 k toks r ih

end E2P
