/-
  E2P.Lemmas.PegMemo — the memo table of `CompositeBaseToken.get` is transparent.

  * `pegGet_mono`: a result other than depth exhaustion does not change when the depth budget grows;
  * `MemoOK`: every entry of the table, read for the suffix of the ORIGINAL token list that has the stored length, is the
    result of the plain (un-memoised) `get` on that suffix;
  * `pegGetM_sim`: started from a table that is `MemoOK`, the memoised `get` returns what the plain `get` returns and
    leaves a table that is `MemoOK` - on every suffix of the original token list (all calls of one `AstBuilder.parse`
    are on such suffixes: `yield_exact`).
-/
import E2P.Model.PegMemo
import E2P.Props.C05
namespace E2P.PegMemo
open E2P E2P.C05

variable (G : Grammar)

/-! ### more depth never changes a result -/

def Mono (getF getF' : String → List Tok → PRes) : Prop := ∀ c t, getF c t ≠ .depth → getF' c t = getF c t

theorem seq_mono (getF getF' : String → List Tok → PRes) (hm : Mono getF getF') (syms : List String) (toks : List Tok)
    (h : seqMatch G getF syms toks ≠ .depth) : seqMatch G getF' syms toks = seqMatch G getF syms toks := by
  induction syms generalizing toks with
  | nil => simp [seqMatch]
  | cons sym syms ih =>
    cases toks with
    | nil => simp [seqMatch]
    | cons t ts =>
      simp only [seqMatch] at h ⊢
      by_cases h1 : (sym == t.1) = true
      · simp only [h1, ↓reduceIte] at h ⊢
        rw [ih ts (by intro e; rw [e] at h; exact h rfl)]
      · simp only [h1, Bool.false_eq_true, ↓reduceIte] at h ⊢
        by_cases h2 : G.composites.contains sym = true
        · simp only [h2, ↓reduceIte] at h ⊢
          have hg : getF sym (t :: ts) ≠ .depth := by intro e; rw [e] at h; exact h rfl
          rw [hm _ _ hg]
          cases hgv : getF sym (t :: ts) with
          | ok tree rest =>
            rw [hgv] at h; simp only at h ⊢
            rw [ih rest (by intro e; rw [e] at h; exact h rfl)]
          | none => rfl
          | raise => rfl
          | depth => exact absurd hgv hg
        · simp only [h2, Bool.false_eq_true, ↓reduceIte]

theorem trySets_mono (getF getF' : String → List Tok → PRes) (hm : Mono getF getF') (cls : String) (toks : List Tok)
    (sets : List (List String)) (saw : Bool) (h : trySets G getF cls toks sets saw ≠ .depth) :
    trySets G getF' cls toks sets saw = trySets G getF cls toks sets saw := by
  induction sets generalizing saw with
  | nil => simp [trySets]
  | cons set sets ih =>
    simp only [trySets] at h ⊢
    have hs : seqMatch G getF set toks ≠ .depth := by intro e; rw [e] at h; exact h rfl
    rw [seq_mono G getF getF' hm set toks hs]
    cases hsv : seqMatch G getF set toks with
    | done kids rest m =>
      rw [hsv] at h; simp only at h ⊢
      by_cases he : set.isEmpty = true
      · simp only [he, ↓reduceIte] at h ⊢; exact ih _ h
      · simp only [he, Bool.false_eq_true, ↓reduceIte]
    | fail m => rw [hsv] at h; simp only at h ⊢; exact ih _ h
    | raise => rfl
    | depth => exact absurd hsv hs

theorem pegGet_mono_succ (f : Nat) : Mono (pegGet G f) (pegGet G (f + 1)) := by
  induction f with
  | zero => intro c t h; simp [pegGet] at h
  | succ n ih =>
    intro c t h
    simp only [pegGet] at h
    show trySets G (pegGet G (n + 1)) c t (G.setsOf c) false = pegGet G (n + 1) c t
    simp only [pegGet]
    exact trySets_mono G _ _ ih c t _ _ h

theorem pegGet_mono (f f' : Nat) (hle : f ≤ f') : Mono (pegGet G f) (pegGet G f') := by
  induction hle with
  | refl => intro c t _; rfl
  | step _ ih =>
    intro c t h
    have e := ih c t h
    rw [← e]
    exact pegGet_mono_succ G _ c t (by rw [e]; exact h)

/-- two depth budgets that both suffice give the same result -/
theorem pegGet_agree (f f' : Nat) (c : String) (t : List Tok) (h : pegGet G f c t ≠ .depth) (h' : pegGet G f' c t ≠ .depth) :
    pegGet G f c t = pegGet G f' c t := by
  rcases Nat.le_total f f' with hle | hle
  · exact (pegGet_mono G f f' hle c t h).symm
  · exact pegGet_mono G f' f hle c t h'

/-! ### the table invariant and the simulation -/

variable (orig : List Tok)

/-- every entry is the plain result on the suffix of the original token list that has the stored length -/
def MemoOK (s : MemoSt) : Prop :=
  ∀ c n r, s.find (c, n) = some r →
    r ≠ .depth ∧ ∀ toks : List Tok, toks <:+ orig → toks.length = n → ∃ f, pegGet G f c toks = r

theorem memoOK_empty : MemoOK G orig MemoSt.empty := by
  intro c n r h; simp [MemoSt.find, MemoSt.empty] at h

theorem memoOK_calls (s : MemoSt) (l : List (String × Nat)) (h : MemoOK G orig s) : MemoOK G orig { s with log := l } := h

theorem memoOK_insert (s : MemoSt) (c : String) (toks : List Tok) (r : PRes) (h : MemoOK G orig s)
    (hr : r ≠ .depth) (hv : ∃ f, pegGet G f c toks = r) (hsuf : toks <:+ orig) :
    MemoOK G orig { s with memo := ((c, toks.length), r) :: s.memo } := by
  intro c' n' r' hf
  simp only [MemoSt.find, List.lookup_cons] at hf
  by_cases hk : ((c', n') == (c, toks.length)) = true
  · simp only [hk] at hf
    cases hf
    have hk' : c' = c ∧ n' = toks.length := by simpa using hk
    obtain ⟨rfl, rfl⟩ := hk'
    refine ⟨hr, ?_⟩
    intro toks' hsuf' hlen
    have : toks' = toks := by
      rcases List.suffix_or_suffix_of_suffix hsuf' hsuf with h1 | h1
      · exact h1.eq_of_length hlen
      · exact (h1.eq_of_length hlen.symm).symm
    rw [this]; exact hv
  · have hk2 : ((c', n') == (c, toks.length)) = false := by simpa using hk
    simp only [hk2] at hf
    exact h c' n' r' hf

/-- the memoised function follows the plain one and keeps the table sound -/
def Sim (getF : String → List Tok → PRes) (getFM : String → List Tok → MemoSt → PRes × MemoSt) : Prop :=
  ∀ c toks s, toks <:+ orig → MemoOK G orig s → getF c toks ≠ .depth →
    (getFM c toks s).1 = getF c toks ∧ MemoOK G orig (getFM c toks s).2

theorem suffix_of_exact (getF : String → List Tok → PRes) (hx : Exact getF) (c : String) (toks : List Tok) (t : PTree)
    (rest : List Tok) (h : getF c toks = .ok t rest) (hsuf : toks <:+ orig) : rest <:+ orig :=
  List.IsSuffix.trans ⟨t.leaves, hx c toks t rest h⟩ hsuf

theorem seq_sim (getF : String → List Tok → PRes) (getFM : String → List Tok → MemoSt → PRes × MemoSt)
    (hs : Sim G orig getF getFM) (hx : Exact getF) (syms : List String) (toks : List Tok) (s : MemoSt)
    (hsuf : toks <:+ orig) (hok : MemoOK G orig s) (hnd : seqMatch G getF syms toks ≠ .depth) :
    (seqMatchM G getFM syms toks s).1 = seqMatch G getF syms toks ∧ MemoOK G orig (seqMatchM G getFM syms toks s).2 := by
  induction syms generalizing toks s with
  | nil => simp [seqMatch, seqMatchM, hok]
  | cons sym syms ih =>
    cases toks with
    | nil => simp [seqMatch, seqMatchM, hok]
    | cons t ts =>
      have hts : ts <:+ orig := List.IsSuffix.trans (List.suffix_cons t ts) hsuf
      simp only [seqMatch, seqMatchM] at hnd ⊢
      by_cases h1 : (sym == t.1) = true
      · simp only [h1, ↓reduceIte] at hnd ⊢
        have hnd' : seqMatch G getF syms ts ≠ .depth := by intro e; rw [e] at hnd; exact hnd rfl
        obtain ⟨e1, e2⟩ := ih ts s hts hok hnd'
        rcases hm : seqMatchM G getFM syms ts s with ⟨r, s'⟩
        rw [hm] at e1 e2
        simp only at e1 e2
        rw [← e1]
        cases r <;> simp_all
      · simp only [h1, Bool.false_eq_true, ↓reduceIte] at hnd ⊢
        by_cases h2 : G.composites.contains sym = true
        · simp only [h2, ↓reduceIte] at hnd ⊢
          have hg : getF sym (t :: ts) ≠ .depth := by intro e; rw [e] at hnd; exact hnd rfl
          obtain ⟨g1, g2⟩ := hs sym (t :: ts) s hsuf hok hg
          rcases hgm : getFM sym (t :: ts) s with ⟨r, s1⟩
          rw [hgm] at g1 g2
          simp only at g1 g2
          rw [← g1] at hnd ⊢
          cases r with
          | ok tree rest =>
            simp only at hnd ⊢
            have hrs : rest <:+ orig := suffix_of_exact orig getF hx sym (t :: ts) tree rest g1.symm hsuf
            have hnd' : seqMatch G getF syms rest ≠ .depth := by intro e; rw [e] at hnd; exact hnd rfl
            obtain ⟨e1, e2⟩ := ih rest s1 hrs g2 hnd'
            rcases hm : seqMatchM G getFM syms rest s1 with ⟨r', s'⟩
            rw [hm] at e1 e2
            simp only at e1 e2
            rw [← e1]
            cases r' <;> simp_all
          | none => exact ⟨rfl, g2⟩
          | raise => exact ⟨rfl, g2⟩
          | depth => exact absurd g1.symm hg
        · simp only [h2, Bool.false_eq_true, ↓reduceIte]
          exact ⟨trivial, hok⟩

theorem trySets_sim (getF : String → List Tok → PRes) (getFM : String → List Tok → MemoSt → PRes × MemoSt)
    (hs : Sim G orig getF getFM) (hx : Exact getF) (cls : String) (toks : List Tok) (sets : List (List String))
    (saw : Bool) (s : MemoSt) (hsuf : toks <:+ orig) (hok : MemoOK G orig s)
    (hnd : trySets G getF cls toks sets saw ≠ .depth) :
    (trySetsM G getFM cls toks sets saw s).1 = trySets G getF cls toks sets saw ∧
      MemoOK G orig (trySetsM G getFM cls toks sets saw s).2 := by
  induction sets generalizing saw s with
  | nil => simp [trySets, trySetsM, hok]
  | cons set sets ih =>
    simp only [trySets, trySetsM] at hnd ⊢
    have hq : seqMatch G getF set toks ≠ .depth := by intro e; rw [e] at hnd; exact hnd rfl
    obtain ⟨e1, e2⟩ := seq_sim G orig getF getFM hs hx set toks s hsuf hok hq
    rcases hm : seqMatchM G getFM set toks s with ⟨r, s'⟩
    rw [hm] at e1 e2
    simp only at e1 e2
    rw [← e1] at hnd ⊢
    cases r with
    | done kids rest m =>
      simp only at hnd ⊢
      by_cases he : set.isEmpty = true
      · simp only [he, ↓reduceIte] at hnd ⊢; exact ih _ s' e2 hnd
      · simp only [he, Bool.false_eq_true, ↓reduceIte]; exact ⟨trivial, e2⟩
    | fail m => simp only at hnd ⊢; exact ih _ s' e2 hnd
    | raise => exact ⟨rfl, e2⟩
    | depth => exact absurd e1.symm hq

/-- **The table is transparent** (one level): the memoised `get` with depth budget `f` returns, on every suffix of the
    original token list and from every sound table, what the plain `get` with that budget returns, and the table stays
    sound. -/
theorem pegGetM_sim (f : Nat) : Sim G orig (pegGet G f) (pegGetM G f) := by
  induction f with
  | zero => intro c toks s _ _ h; simp [pegGet] at h
  | succ n ih =>
    intro c toks s hsuf hok hnd
    simp only [pegGetM]
    cases hf : s.find (c, toks.length) with
    | some r =>
      simp only
      obtain ⟨hr, hv⟩ := hok c toks.length r hf
      obtain ⟨f', hv'⟩ := hv toks hsuf rfl
      refine ⟨?_, hok⟩
      rw [← hv']
      exact pegGet_agree G f' (n + 1) c toks (by rw [hv']; exact hr) hnd
    | none =>
      simp only
      have hnd' : trySets G (pegGet G n) c toks (G.setsOf c) false ≠ .depth := by simpa only [pegGet] using hnd
      obtain ⟨e1, e2⟩ := trySets_sim G orig (pegGet G n) (pegGetM G n) ih (yield_exact G n) c toks (G.setsOf c) false
        { s with log := (c, toks.length) :: s.log } hsuf (memoOK_calls G orig s _ hok) hnd'
      rcases hm : trySetsM G (pegGetM G n) c toks (G.setsOf c) false { s with log := (c, toks.length) :: s.log } with ⟨r, s'⟩
      rw [hm] at e1 e2
      simp only at e1 e2
      have hpg : pegGet G (n + 1) c toks = r := by simp only [pegGet]; exact e1.symm
      cases r with
      | ok t rest =>
        exact ⟨hpg.symm, memoOK_insert G orig s' c toks _ e2 (by simp) ⟨n + 1, hpg⟩ hsuf⟩
      | none =>
        exact ⟨hpg.symm, memoOK_insert G orig s' c toks _ e2 (by simp) ⟨n + 1, hpg⟩ hsuf⟩
      | raise => exact ⟨hpg.symm, e2⟩
      | depth => exact absurd hpg hnd

end E2P.PegMemo
