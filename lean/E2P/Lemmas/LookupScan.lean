/-
  E2P.Lemmas.LookupScan — key columns (`keysOf`), and what the `_vlookup` scans compute
  (helper lemmas for property C14).
-/
import E2P.Model.Lookup
import E2P.Spec.LookupSpec
namespace E2P.LookupScan
open E2P

/-! ### the key column of a list of rows -/

theorem keysOf_nil (keys : List Val) : keysOf [] = some keys ↔ keys = [] := by
  simp [keysOf, eq_comm]

theorem keysOf_cons (row : Val) (rest keys : List Val) :
    keysOf (row :: rest) = some keys ↔
      ∃ key krest, rowKey row = some key ∧ keysOf rest = some krest ∧ keys = key :: krest := by
  unfold keysOf
  rw [List.mapM_cons]
  cases h1 : rowKey row with
  | none => simp
  | some key =>
    cases h2 : List.mapM rowKey rest with
    | none => simp
    | some krest => simp [eq_comm]

theorem keysOf_iff_map (rows keys : List Val) : keysOf rows = some keys ↔ rows.map rowKey = keys.map some := by
  induction rows generalizing keys with
  | nil => rw [keysOf_nil]; cases keys <;> simp
  | cons row rest ih =>
    rw [keysOf_cons]
    constructor
    · rintro ⟨key, krest, h1, h2, rfl⟩
      simp [h1, (ih krest).mp h2]
    · intro h
      cases keys with
      | nil => simp at h
      | cons key krest =>
        simp only [List.map_cons, List.cons.injEq] at h
        exact ⟨key, krest, h.1, (ih krest).mpr h.2, rfl⟩

theorem keysOf_length (rows keys : List Val) (h : keysOf rows = some keys) : rows.length = keys.length := by
  have := congrArg List.length ((keysOf_iff_map rows keys).mp h)
  simpa using this

theorem keysOf_reverse (rows keys : List Val) (h : keysOf rows = some keys) :
    keysOf rows.reverse = some keys.reverse := by
  rw [keysOf_iff_map] at h ⊢
  rw [List.map_reverse, List.map_reverse, h]

theorem keysOf_filterMap (rows keys : List Val) (h : keysOf rows = some keys) : rows.filterMap rowKey = keys := by
  induction rows generalizing keys with
  | nil => rw [keysOf_nil] at h; simp [h]
  | cons row rest ih =>
    obtain ⟨key, krest, h1, h2, rfl⟩ := (keysOf_cons _ _ _).mp h
    simp [h1, ih krest h2]

theorem keysOf_col (vals : List Val) : keysOf (vals.map fun v => .list [v]) = some vals := by
  rw [keysOf_iff_map]
  simp [Function.comp_def, rowKey]

/-! ### eligibility -/

theorem allEligible_iff (lookup : Val) (keys : List Val) :
    allEligible lookup keys = true ↔
      ∃ k, lkind lookup = some k ∧ lookup ≠ .blank ∧ ∀ key ∈ keys, eligible k key = true := by
  unfold allEligible
  cases h : lkind lookup with
  | none => simp
  | some k =>
    cases lookup <;> simp_all

theorem allEligible_reverse (lookup : Val) (keys : List Val) :
    allEligible lookup keys.reverse = allEligible lookup keys := by
  unfold allEligible
  cases lkind lookup <;> simp

theorem textsModelled_reverse (lookup : Val) (keys : List Val) :
    textsModelled (lookup :: keys.reverse) = textsModelled (lookup :: keys) := by
  simp [textsModelled]

/-- on the domain of the property (`allEligible`) `_vlookup` looks at every row -/
theorem vEligible_of_eligible (lookup key : Val) (k : LKind) (hl : lkind lookup = some k)
    (he : eligible k key = true) : vEligible lookup key = true := by
  cases k <;> cases key <;> simp_all [vEligible, eligible]

/-- `vEligible` and `eligible` differ only on blank keys -/
theorem vEligible_eq_eligible (lookup key : Val) (k : LKind) (hl : lkind lookup = some k) (hb : key ≠ .blank) :
    vEligible lookup key = eligible k key := by
  cases k <;> cases key <;> simp_all [vEligible, eligible]

/-! ### the result cell of a row -/

theorem rowCol_ok (cells : List Val) (col : Int) (hc : 1 ≤ col) (hw : col.toNat ≤ cells.length) :
    ∃ v, cells[col.toNat - 1]? = some v ∧ rowCol (.list cells) col = .ok v := by
  have hlt : col.toNat - 1 < cells.length := by omega
  refine ⟨cells[col.toNat - 1], by simp [hlt], ?_⟩
  have h1 : ¬ col < 1 := by omega
  have h2 : (0 : Int) ≤ col - 1 := by omega
  have h3 : (col - 1).toNat = col.toNat - 1 := by omega
  simp [rowCol, h1, nth?, h3, hlt, hc]

/-! ### the scans of `_vlookup` -/

theorem vlookupExact_spec (lookup : Val) (col : Int) (rows : List Val) :
    ∀ keys, keysOf rows = some keys → (∀ key ∈ keys, vEligible lookup key = true) →
      vlookupExact lookup col rows =
        match keys.findIdx? (fun key => keyEq false key lookup) with
        | none => .ok errNA
        | some j => rowCol (rows.getD j .blank) col := by
  induction rows with
  | nil => intro keys h _; rw [keysOf_nil] at h; subst h; simp [vlookupExact]
  | cons row rest ih =>
    intro keys h he
    obtain ⟨key, krest, h1, h2, rfl⟩ := (keysOf_cons _ _ _).mp h
    have hek : vEligible lookup key = true := he key (by simp)
    have ih' := ih krest h2 (fun x hx => he x (List.mem_cons_of_mem _ hx))
    simp only [vlookupExact, h1, hek, Bool.true_and, List.findIdx?_cons]
    by_cases hp : keyEq false key lookup = true
    · simp [hp]
    · simp only [hp, Bool.false_eq_true, if_false, ih']
      cases List.findIdx? (fun key => keyEq false key lookup) krest <;> simp

theorem vlookupApprox_spec (lookup : Val) (col : Int) (rows : List Val) :
    ∀ keys last, keysOf rows = some keys → (∀ key ∈ keys, vEligible lookup key = true) →
      (∀ row ∈ rows, ∃ v, rowCol row col = .ok v) →
      vlookupApprox lookup col rows last =
        match (keys.takeWhile fun key => keyLe false key lookup).length with
        | 0 => last
        | n + 1 => rowCol (rows.getD n .blank) col := by
  induction rows with
  | nil => intro keys last h _ _; rw [keysOf_nil] at h; subst h; simp [vlookupApprox]
  | cons row rest ih =>
    intro keys last h he hrc
    obtain ⟨key, krest, h1, h2, rfl⟩ := (keysOf_cons _ _ _).mp h
    have hek : vEligible lookup key = true := he key (by simp)
    obtain ⟨v, hv⟩ := hrc row (by simp)
    have ih' := fun last => ih krest last h2 (fun x hx => he x (List.mem_cons_of_mem _ hx))
      (fun r hr => hrc r (List.mem_cons_of_mem _ hr))
    simp only [vlookupApprox, h1, hek, if_true, List.takeWhile_cons]
    by_cases hp : keyLe false key lookup = true
    · simp only [hp, if_true, hv, ih', List.length_cons]
      cases (List.takeWhile (fun key => keyLe false key lookup) krest).length <;> simp [hv]
    · simp [hp]

end E2P.LookupScan
