/-
  E2P.Lemmas.LookupIndex — reading a list of rows back as an area (helper lemmas for property C14).
-/
import E2P.Model.Lookup
namespace E2P.LookupIndex
open E2P

/-- a list of `Val.list` rows is read back as the area it was built from -/
theorem asRows_map (f : Val → Option (List Val)) (hf : ∀ cs, f (.list cs) = some cs) (rs : List (List Val)) :
    (rs.map Val.list).mapM f = some rs := by
  induction rs with
  | nil => rfl
  | cons r rest ih => rw [List.map_cons, List.mapM_cons, ih, hf]; rfl

theorem headD_length (rs : List (List Val)) (w : Nat) (hne : rs ≠ []) (hrect : ∀ row ∈ rs, row.length = w) :
    (rs.headD []).length = w := by
  cases rs with
  | nil => exact absurd rfl hne
  | cons a r => exact hrect a (by simp)

theorem isEmpty_false (rs : List (List Val)) (hne : rs ≠ []) : rs.isEmpty = false := by
  cases rs <;> simp_all

end E2P.LookupIndex
