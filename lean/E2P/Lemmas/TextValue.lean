/-
  E2P.Lemmas.TextValue — bookkeeping for VALUE on decimal texts (helper lemmas for property C17):
  a text made of digits and points that begins and ends with a digit is inside the numeric-text model,
  is left alone by `stripWs` and `splitSign`, and `splitAt1` cuts it at its first point.
-/
import E2P.Model.Text
namespace E2P.TextValue
open E2P

theorem isDigit_bounds (c : Char) (h : isDigit c = true) : 48 ≤ c.toNat ∧ c.toNat ≤ 57 := by
  have h0 : '0'.toNat = 48 := by decide
  have h9 : '9'.toNat = 57 := by decide
  simpa [isDigit, h0, h9] using h

theorem ne_of_toNat_ne {c d : Char} (h : c.toNat ≠ d.toNat) : c ≠ d := fun e => h (e ▸ rfl)

theorem isWs_digit (c : Char) (h : isDigit c = true) : isWs c = false := by
  have hb := isDigit_bounds c h
  have e1 : c ≠ ' ' := ne_of_toNat_ne (by have : ' '.toNat = 32 := by decide
                                          omega)
  have e2 : c ≠ '\t' := ne_of_toNat_ne (by have : '\t'.toNat = 9 := by decide
                                           omega)
  have e3 : c ≠ '\n' := ne_of_toNat_ne (by have : '\n'.toNat = 10 := by decide
                                           omega)
  have e4 : c ≠ '\r' := ne_of_toNat_ne (by have : '\r'.toNat = 13 := by decide
                                           omega)
  have e5 : c.toNat ≠ 11 := by omega
  have e6 : c.toNat ≠ 12 := by omega
  simp [isWs, e1, e2, e3, e4, e5, e6]

theorem stripWs_id (s : List Char) (h1 : ∀ c, s.head? = some c → isWs c = false)
    (h2 : ∀ c, s.getLast? = some c → isWs c = false) : stripWs s = s := by
  cases s with
  | nil => rfl
  | cons a r =>
    have ha : isWs a = false := h1 a rfl
    unfold stripWs
    rw [List.dropWhile_cons_of_neg (by simp [ha])]
    cases hr : (a :: r).reverse with
    | nil => simp at hr
    | cons b r' =>
      have hb : isWs b = false := by
        apply h2
        rw [← List.head?_reverse, hr]; rfl
      rw [List.dropWhile_cons_of_neg (by simp [hb]), ← hr, List.reverse_reverse]

theorem splitSign_id (s : List Char) (h : ∀ c, s.head? = some c → c ≠ '-' ∧ c ≠ '+') :
    splitSign s = (false, s) := by
  cases s with
  | nil => rfl
  | cons c r =>
    obtain ⟨h1, h2⟩ := h c rfl
    unfold splitSign
    split
    · rename_i e; injection e with e; exact absurd e h1
    · rename_i e; injection e with e; exact absurd e h2
    · rfl

theorem splitAt1_none (p : Char → Bool) (s : List Char) (h : ∀ c ∈ s, p c = false) :
    splitAt1 p s = (s, none) := by
  induction s with
  | nil => rfl
  | cons c r ih =>
    rw [splitAt1, h c (by simp), ih (fun d hd => h d (List.mem_cons_of_mem _ hd))]; rfl

theorem splitAt1_append (p : Char → Bool) (a b : List Char) (x : Char) (h : ∀ c ∈ a, p c = false)
    (hx : p x = true) : splitAt1 p (a ++ x :: b) = (a, some b) := by
  induction a with
  | nil => simp [splitAt1, hx]
  | cons c r ih =>
    rw [List.cons_append, splitAt1, h c (by simp), ih (fun d hd => h d (List.mem_cons_of_mem _ hd))]; rfl


/-- a text of digits and points that begins and ends with a digit -/
structure DecText (s : List Char) : Prop where
  chars : ∀ c ∈ s, isDigit c = true ∨ c = '.'
  first : ∃ d, s.head? = some d ∧ isDigit d = true
  last : ∃ d, s.getLast? = some d ∧ isDigit d = true

theorem lowerAscii_digit (c : Char) (h : isDigit c = true) : lowerAscii c = c := by
  have hb := isDigit_bounds c h
  have hA : 'A'.toNat = 65 := by decide
  unfold lowerAscii
  rw [if_neg]
  simp only [hA, Bool.and_eq_true, decide_eq_true_eq]; omega

theorem DecText.stripWs {s : List Char} (h : DecText s) : stripWs s = s := by
  apply stripWs_id
  · intro c hc
    obtain ⟨d, hd, hdig⟩ := h.first
    rw [hd] at hc; cases hc; exact isWs_digit _ hdig
  · intro c hc
    obtain ⟨d, hd, hdig⟩ := h.last
    rw [hd] at hc; cases hc; exact isWs_digit _ hdig

theorem DecText.splitSign {s : List Char} (h : DecText s) : splitSign s = (false, s) := by
  apply splitSign_id
  intro c hc
  obtain ⟨d, hd, hdig⟩ := h.first
  rw [hd] at hc; cases hc
  have hb := isDigit_bounds _ hdig
  constructor
  · exact ne_of_toNat_ne (by have : '-'.toNat = 45 := by decide
                             omega)
  · exact ne_of_toNat_ne (by have : '+'.toNat = 43 := by decide
                             omega)

theorem DecText.modelled {s : List Char} (h : DecText s) : numTextModelled s = true := by
  unfold numTextModelled
  rw [h.stripWs, h.splitSign]
  rw [Bool.and_eq_true]
  constructor
  · rw [List.all_eq_true]
    intro c hc
    rcases h.chars c hc with hd | rfl
    · have hb := isDigit_bounds c hd
      have e1 : c ≠ '_' := ne_of_toNat_ne (by have : '_'.toNat = 95 := by decide
                                              omega)
      have e2 : c.toNat < 128 := by omega
      have e3 : 32 ≤ c.toNat := by omega
      simp [e1, e2, e3]
    · decide
  · obtain ⟨d, hd, hdig⟩ := h.first
    cases s with
    | nil => cases hd
    | cons c r =>
      cases hd
      have hb := isDigit_bounds _ hdig
      have ei : d ≠ 'i' := ne_of_toNat_ne (by have : 'i'.toNat = 105 := by decide
                                              omega)
      have en : d ≠ 'n' := ne_of_toNat_ne (by have : 'n'.toNat = 110 := by decide
                                              omega)
      have e1 : "inf".toList = ['i', 'n', 'f'] := rfl
      have e2 : "infinity".toList = ['i', 'n', 'f', 'i', 'n', 'i', 't', 'y'] := rfl
      have e3 : "nan".toList = ['n', 'a', 'n'] := rfl
      simp [lowerAscii_digit _ hdig, e1, e2, e3, ei, en]


theorem allDigits_iff (s : List Char) : allDigits s = true ↔ s ≠ [] ∧ ∀ c ∈ s, isDigit c = true := by
  cases s <;> simp [allDigits]

theorem decText_digits {ds : List Char} (h : allDigits ds = true) : DecText ds := by
  obtain ⟨hne, hall⟩ := (allDigits_iff ds).mp h
  refine ⟨fun c hc => Or.inl (hall c hc), ?_, ?_⟩
  · cases ds with
    | nil => exact absurd rfl hne
    | cons c r => exact ⟨c, rfl, hall c (by simp)⟩
  · exact ⟨ds.getLast hne, List.getLast?_eq_some_getLast hne, hall _ (List.getLast_mem hne)⟩

theorem decText_decimal {ip fp : List Char} (hi : allDigits ip = true) (hf : allDigits fp = true) :
    DecText (ip ++ '.' :: fp) := by
  obtain ⟨hine, hiall⟩ := (allDigits_iff ip).mp hi
  obtain ⟨hfne, hfall⟩ := (allDigits_iff fp).mp hf
  refine ⟨?_, ?_, ?_⟩
  · intro c hc
    rw [List.mem_append, List.mem_cons] at hc
    rcases hc with hc | rfl | hc
    · exact Or.inl (hiall c hc)
    · exact Or.inr rfl
    · exact Or.inl (hfall c hc)
  · cases ip with
    | nil => exact absurd rfl hine
    | cons c r => exact ⟨c, rfl, hiall c (by simp)⟩
  · refine ⟨fp.getLast hfne, ?_, hfall _ (List.getLast_mem hfne)⟩
    have : ip ++ '.' :: fp = (ip ++ ['.']) ++ fp := by simp
    rw [this, List.getLast?_append, List.getLast?_eq_some_getLast hfne]; rfl

theorem pyInt_decText {s : List Char} (h : DecText s) :
    pyInt? s = if allDigits s then some (digitsVal s 0 : Int) else none := by
  unfold pyInt?
  rw [h.stripWs, h.splitSign]
  simp

theorem valueFn_digits {ds : List Char} (h : allDigits ds = true) :
    valueFn ds = .ok (.int (digitsVal ds 0)) := by
  have hd := decText_digits h
  simp only [valueFn, hd.modelled, hd.stripWs, pyInt_decText hd, h, Bool.not_true, Bool.false_eq_true,
    if_false, if_true]

theorem isDigit_ne {c d : Char} (h : isDigit c = true) (hd : d.toNat < 48 ∨ 57 < d.toNat) : c ≠ d := by
  have hb := isDigit_bounds c h
  exact ne_of_toNat_ne (by omega)

theorem pyFloat_decimal {ip fp : List Char} (hi : allDigits ip = true) (hf : allDigits fp = true) :
    pyFloat? (ip ++ '.' :: fp) =
      some (rn (decimal false (digitsVal (ip ++ fp) 0) (-(fp.length : Int)))) := by
  have hd := decText_decimal hi hf
  obtain ⟨hine, hiall⟩ := (allDigits_iff ip).mp hi
  obtain ⟨hfne, hfall⟩ := (allDigits_iff fp).mp hf
  have hdot : ∀ c, isDigit c = true ∨ c = '.' → (c == 'e' || c == 'E') = false := by
    intro c hc
    rcases hc with hc | rfl
    · have e1 : c ≠ 'e' := isDigit_ne hc (by decide)
      have e2 : c ≠ 'E' := isDigit_ne hc (by decide)
      simp [e1, e2]
    · decide
  have hsp1 : splitAt1 (fun c => c == 'e' || c == 'E') (ip ++ '.' :: fp) = (ip ++ '.' :: fp, none) :=
    splitAt1_none _ _ (fun c hc => hdot c (hd.chars c hc))
  have hsp2 : splitAt1 (· == '.') (ip ++ '.' :: fp) = (ip, some fp) :=
    splitAt1_append _ _ _ _ (fun c hc => by
      have : c ≠ '.' := isDigit_ne (hiall c hc) (by decide)
      simp [this]) (by simp)
  have ha1 : ip.all isDigit = true := List.all_eq_true.mpr hiall
  have ha2 : fp.all isDigit = true := List.all_eq_true.mpr hfall
  unfold pyFloat?
  rw [hd.stripWs, hd.splitSign]
  simp only [hsp1, hsp2, Option.getD_some, ha1, ha2, Bool.and_self, Bool.true_and]
  have : ip.isEmpty = false := by cases ip <;> simp_all
  simp [this]

theorem valueFn_decimal {ip fp : List Char} (hi : allDigits ip = true) (hf : allDigits fp = true) :
    valueFn (ip ++ '.' :: fp) =
      .ok (.flt (rn (decimal false (digitsVal (ip ++ fp) 0) (-(fp.length : Int))))) := by
  have hd := decText_decimal hi hf
  obtain ⟨hine, hiall⟩ := (allDigits_iff ip).mp hi
  obtain ⟨hfne, hfall⟩ := (allDigits_iff fp).mp hf
  have hnot : allDigits (ip ++ '.' :: fp) = false := by
    have : isDigit '.' = false := by decide
    simp [allDigits, this]
  have hmap : (ip ++ '.' :: fp).map (fun c => if c = ',' then '.' else c) = ip ++ '.' :: fp := by
    conv => rhs; rw [← List.map_id (ip ++ '.' :: fp)]
    apply List.map_congr_left
    intro c hc
    have : c ≠ ',' := by
      rcases hd.chars c hc with h | rfl
      · exact isDigit_ne h (by decide)
      · decide
    simp [this]
  simp only [valueFn, hd.modelled, hd.stripWs, pyInt_decText hd, hnot, hmap, pyFloat_decimal hi hf,
    Bool.not_true, Bool.false_eq_true, if_false]

end E2P.TextValue
