/-
  E2P.Lemmas.LookupBinApprox — the neighbour indices `_binary_search` returns on an ascending column
  (helper lemmas for property C14, XMATCH search mode 2 with match modes -1 and 1).
-/
import E2P.Lemmas.LookupBin
namespace E2P.LookupBin
open E2P E2P.LookupOrder

/-- the loop on an ascending column, with the two neighbour indices tracked: at the end either `exact` is the index of an equal key
(and both neighbours are that index), or there is a cut `f`: the keys before it are smaller, the keys from it on larger, and the
neighbours are the indices next to the cut (clamped to the column, as the loop initialises them) -/
theorem bsLoop_track (keys : List Val) (v : Val) (rev : Bool) (hrev : rev = false) (h : Ok keys v rev) (first last ns nl : Int)
    (h0 : 0 ≤ first) (h1 : last < keys.length) (hfl : first ≤ last + 1)
    (hns : ns = if first = 0 then 0 else first - 1) (hnl : nl = if last = (keys.length : Int) - 1 then (keys.length : Int) - 1 else last + 1)
    (hinv : ∀ (j : Nat) k, keys[j]? = some k → (((j : Int) < first → Lside rev v k) ∧ (last < (j : Int) → Rside rev v k))) :
    ∃ e ns' nl', bsLoop keys v rev first last ns nl = .ok (e, ns', nl') ∧
      ((e = -1 ∧ ∃ f : Int, 0 ≤ f ∧ f ≤ keys.length ∧
          (∀ (j : Nat) k, keys[j]? = some k → (((j : Int) < f → Lside rev v k) ∧ (f ≤ (j : Int) → Rside rev v k))) ∧
          ns' = (if f = 0 then 0 else f - 1) ∧ nl' = (if f = (keys.length : Int) then (keys.length : Int) - 1 else f)) ∨
       (0 ≤ e ∧ ns' = e ∧ nl' = e ∧ ∃ k, keys[e.toNat]? = some k ∧ BsEq k v)) := by
  fun_induction bsLoop keys v rev first last ns nl with
  | case1 first last ns nl hle mid hnone =>
    exfalso
    have : mid.toNat < keys.length := by omega
    rw [List.getElem?_eq_none_iff] at hnone
    omega
  | case2 first last ns nl hle mid k hk lt gt hgt hlt left hleft ih =>
    subst hrev
    rw [pyGt_eq k v (h.nbk _ _ hk) h.nbv] at hgt
    rw [pyLt_eq k v (h.nbk _ _ hk) h.nbv] at hlt
    have hmid : 0 ≤ mid ∧ mid < keys.length := by constructor <;> omega
    apply ih (by omega) h1 (by omega)
    · have : ¬ (mid + 1 = 0) := by omega
      simp [this]
    · simpa using hnl
    · intro j kj hj
      refine ⟨fun hjl => ?_, fun hjl => (hinv j kj hj).2 hjl⟩
      have hL : Lside false v k := by
        unfold Lside
        simp only [Bool.false_eq_true, if_false] at *
        rw [hlt]; simp [left] at hleft; rw [hleft]
      by_cases hjm : (j : Int) = mid
      · have : j = mid.toNat := by omega
        subst this
        rw [hk] at hj; cases hj; exact hL
      · exact h.monoL j mid.toNat kj k (by omega) hj hk hL
  | case3 first last ns nl hle mid k hk lt gt hgt hlt left right hleft hright ih =>
    subst hrev
    rw [pyGt_eq k v (h.nbk _ _ hk) h.nbv] at hgt
    rw [pyLt_eq k v (h.nbk _ _ hk) h.nbv] at hlt
    have hmid : 0 ≤ mid ∧ mid < keys.length := by constructor <;> omega
    apply ih h0 (by omega) (by omega)
    · simpa using hns
    · have : ¬ (mid - 1 = (keys.length : Int) - 1) := by omega
      simp [this]
    · intro j kj hj
      refine ⟨fun hjl => (hinv j kj hj).1 hjl, fun hjl => ?_⟩
      have hR : Rside false v k := by
        unfold Rside
        simp only [Bool.false_eq_true, if_false] at *
        rw [hgt]; simp [right] at hright; rw [hright]
      by_cases hjm : (j : Int) = mid
      · have : j = mid.toNat := by omega
        subst this
        rw [hk] at hj; cases hj; exact hR
      · exact h.monoR mid.toNat j k kj (by omega) hk hj hR
  | case4 first last ns nl hle mid k hk lt gt hgt hlt left right hleft hright =>
    subst hrev
    rw [pyGt_eq k v (h.nbk _ _ hk) h.nbv] at hgt
    rw [pyLt_eq k v (h.nbk _ _ hk) h.nbv] at hlt
    have hmid : 0 ≤ mid ∧ mid < keys.length := by constructor <;> omega
    refine ⟨mid, mid, mid, rfl, Or.inr ⟨hmid.1, rfl, rfl, k, hk, ?_⟩⟩
    unfold BsEq
    simp [left, right] at hleft hright
    simp_all
  | case5 first last ns nl hle mid k hk hno =>
    exfalso
    obtain ⟨⟨r1, e1⟩, ⟨r2, e2⟩⟩ := h.comp mid.toNat k hk
    exact hno r1 r2 (by rw [pyLt_eq k v (h.nbk _ _ hk) h.nbv]; exact e1) (by rw [pyGt_eq k v (h.nbk _ _ hk) h.nbv]; exact e2)
  | case6 first last ns nl hgt =>
    refine ⟨-1, ns, nl, rfl, Or.inl ⟨rfl, first, h0, by omega, ?_, hns, ?_⟩⟩
    · intro j k hj
      exact ⟨(hinv j k hj).1, fun hjf => (hinv j k hj).2 (by omega)⟩
    · rw [hnl]
      have : first = last + 1 := by omega
      split <;> split <;> omega

theorem bsLt_asymm (a b : Val) (h : bsLt a b = some true) : bsLt b a = some false := by
  rw [bsLt_true_iff] at h
  rw [bsLt_false_iff]
  rcases h with ⟨x, y, rfl, rfl, hxy⟩ | ⟨ha, hb, hab⟩
  · refine Or.inl ⟨y, x, rfl, rfl, ?_⟩
    rcases strLt_tri x y with h | h | h
    · exact h.2.2
    · rw [h.1] at hxy; cases hxy
    · rw [h.1] at hxy; cases hxy
  · refine Or.inr ⟨hb, ha, ?_⟩
    intro hba
    exact absurd (lt_trans' hab hba) Rat.lt_irrefl

/-- `_binary_search` on a non-empty ascending column: either `exact` is the index of an equal key and both neighbours are that
index, or there is a cut `f` (keys before it smaller, keys from it on larger) and the neighbours are `f - 1` (-1 when nothing is
smaller) and `f` (-1 when nothing is larger) -/
theorem binarySearch_track (keys : List Val) (v : Val) (h : Ok keys v false) (hne : keys ≠ []) :
    ∃ e ns nl, binarySearch keys v false = .ok (e, ns, nl) ∧
      ((e = -1 ∧ ∃ f : Int, 0 ≤ f ∧ f ≤ keys.length ∧
          (∀ (j : Nat) k, keys[j]? = some k → (((j : Int) < f → Lside false v k) ∧ (f ≤ (j : Int) → Rside false v k))) ∧
          ns = f - 1 ∧ nl = (if f = (keys.length : Int) then -1 else f)) ∨
       (0 ≤ e ∧ ns = e ∧ nl = e ∧ ∃ k, keys[e.toNat]? = some k ∧ BsEq k v)) := by
  have hlen : 0 < keys.length := List.length_pos_iff.mpr hne
  have hemp : keys.isEmpty = false := by cases keys <;> simp_all
  obtain ⟨e, ns', nl', hloop, hres⟩ :=
    bsLoop_track keys v false rfl h 0 ((keys.length : Int) - 1) 0 ((keys.length : Int) - 1) (by omega) (by omega) (by omega)
      (by simp) (by simp)
      (by
        intro j k hj
        have : j < keys.length := (List.getElem?_eq_some_iff.mp hj).1
        exact ⟨fun hh => by omega, fun hh => by omega⟩)
  rcases hres with ⟨he, f, hf0, hfl, hcut, hns, hnl⟩ | ⟨he0, hns, hnl, k, hk, hkeq⟩
  · -- no equal key: the cut
    have hs1 : ns'.toNat < keys.length := by rw [hns]; split <;> omega
    have hs2 : nl'.toNat < keys.length := by rw [hnl]; split <;> omega
    have g1 := pyGt_eq keys[ns'.toNat] v (h.nbk _ _ (List.getElem?_eq_getElem hs1)) h.nbv
    have g2 := pyLt_eq keys[nl'.toNat] v (h.nbk _ _ (List.getElem?_eq_getElem hs2)) h.nbv
    have c1 := hcut ns'.toNat keys[ns'.toNat] (List.getElem?_eq_getElem hs1)
    have c2 := hcut nl'.toNat keys[nl'.toNat] (List.getElem?_eq_getElem hs2)
    unfold Lside Rside at c1 c2
    simp only [Bool.false_eq_true, if_false] at c1 c2
    -- the comparison at ns'
    have e1 : bsLt v keys[ns'.toNat] = some (decide (f = 0)) := by
      by_cases hf : f = 0
      · have : f ≤ ((ns'.toNat : Nat) : Int) := by rw [hns, if_pos hf]; omega
        rw [c1.2 this]; simp [hf]
      · have : ((ns'.toNat : Nat) : Int) < f := by rw [hns, if_neg hf]; omega
        rw [bsLt_asymm _ _ (c1.1 this)]; simp [hf]
    have e2 : bsLt keys[nl'.toNat] v = some (decide (f = (keys.length : Int))) := by
      by_cases hf : f = (keys.length : Int)
      · have : ((nl'.toNat : Nat) : Int) < f := by rw [hnl, if_pos hf]; omega
        rw [c2.1 this]; simp [hf]
      · have : f ≤ ((nl'.toNat : Nat) : Int) := by rw [hnl, if_neg hf]; omega
        rw [bsLt_asymm _ _ (c2.2 this)]; simp [hf]
    refine ⟨e, if decide (f = 0) then -1 else ns', if decide (f = (keys.length : Int)) then -1 else nl', ?_, Or.inl ⟨he, f, hf0, hfl, hcut, ?_, ?_⟩⟩
    · unfold binarySearch
      simp only [hemp, Bool.false_eq_true, if_false, hloop, List.getElem?_eq_getElem hs1, List.getElem?_eq_getElem hs2, g1, g2, e1, e2]
    · rw [hns]; by_cases hf : f = 0 <;> simp [hf]
    · rw [hnl]; by_cases hf : f = (keys.length : Int) <;> simp [hf]
  · -- an equal key
    have hs : e.toNat < keys.length := (List.getElem?_eq_some_iff.mp hk).1
    have hke : keys[e.toNat] = k := by
      have := List.getElem?_eq_getElem hs
      rw [hk] at this; exact (Option.some.inj this).symm
    rw [hns, hnl] at hloop
    have g1 := pyGt_eq k v (h.nbk _ _ hk) h.nbv
    have g2 := pyLt_eq k v (h.nbk _ _ hk) h.nbv
    refine ⟨e, e, e, ?_, Or.inr ⟨he0, rfl, rfl, k, hk, hkeq⟩⟩
    unfold binarySearch
    simp only [hemp, Bool.false_eq_true, if_false, hloop, hk, g1, g2, hkeq.1, hkeq.2]

/-! ### the same on a descending column (`reverse=True`): the roles of the two neighbours are exchanged -/

theorem bsLoop_track_rev (keys : List Val) (v : Val) (rev : Bool) (hrev : rev = true) (h : Ok keys v rev) (first last ns nl : Int)
    (h0 : 0 ≤ first) (h1 : last < keys.length) (hfl : first ≤ last + 1)
    (hns : ns = if last = (keys.length : Int) - 1 then (keys.length : Int) - 1 else last + 1) (hnl : nl = if first = 0 then 0 else first - 1)
    (hinv : ∀ (j : Nat) k, keys[j]? = some k → (((j : Int) < first → Lside rev v k) ∧ (last < (j : Int) → Rside rev v k))) :
    ∃ e ns' nl', bsLoop keys v rev first last ns nl = .ok (e, ns', nl') ∧
      ((e = -1 ∧ ∃ f : Int, 0 ≤ f ∧ f ≤ keys.length ∧
          (∀ (j : Nat) k, keys[j]? = some k → (((j : Int) < f → Lside rev v k) ∧ (f ≤ (j : Int) → Rside rev v k))) ∧
          ns' = (if f = (keys.length : Int) then (keys.length : Int) - 1 else f) ∧ nl' = (if f = 0 then 0 else f - 1)) ∨
       (0 ≤ e ∧ ns' = e ∧ nl' = e ∧ ∃ k, keys[e.toNat]? = some k ∧ BsEq k v)) := by
  fun_induction bsLoop keys v rev first last ns nl with
  | case1 first last ns nl hle mid hnone =>
    exfalso
    have : mid.toNat < keys.length := by omega
    rw [List.getElem?_eq_none_iff] at hnone
    omega
  | case2 first last ns nl hle mid k hk lt gt hgt hlt left hleft ih =>
    subst hrev
    rw [pyGt_eq k v (h.nbk _ _ hk) h.nbv] at hgt
    rw [pyLt_eq k v (h.nbk _ _ hk) h.nbv] at hlt
    have hmid : 0 ≤ mid ∧ mid < keys.length := by constructor <;> omega
    apply ih (by omega) h1 (by omega)
    · simpa using hns
    · have : ¬ (mid + 1 = 0) := by omega
      simp [this]
    · intro j kj hj
      refine ⟨fun hjl => ?_, fun hjl => (hinv j kj hj).2 hjl⟩
      have hL : Lside true v k := by
        unfold Lside
        simp only [if_true] at *
        rw [hgt]; simp [left] at hleft; rw [hleft]
      by_cases hjm : (j : Int) = mid
      · have : j = mid.toNat := by omega
        subst this
        rw [hk] at hj; cases hj; exact hL
      · exact h.monoL j mid.toNat kj k (by omega) hj hk hL
  | case3 first last ns nl hle mid k hk lt gt hgt hlt left right hleft hright ih =>
    subst hrev
    rw [pyGt_eq k v (h.nbk _ _ hk) h.nbv] at hgt
    rw [pyLt_eq k v (h.nbk _ _ hk) h.nbv] at hlt
    have hmid : 0 ≤ mid ∧ mid < keys.length := by constructor <;> omega
    apply ih h0 (by omega) (by omega)
    · have : ¬ (mid - 1 = (keys.length : Int) - 1) := by omega
      simp [this]
    · simpa using hnl
    · intro j kj hj
      refine ⟨fun hjl => (hinv j kj hj).1 hjl, fun hjl => ?_⟩
      have hR : Rside true v k := by
        unfold Rside
        simp only [if_true] at *
        rw [hlt]; simp [right] at hright; rw [hright]
      by_cases hjm : (j : Int) = mid
      · have : j = mid.toNat := by omega
        subst this
        rw [hk] at hj; cases hj; exact hR
      · exact h.monoR mid.toNat j k kj (by omega) hk hj hR
  | case4 first last ns nl hle mid k hk lt gt hgt hlt left right hleft hright =>
    subst hrev
    rw [pyGt_eq k v (h.nbk _ _ hk) h.nbv] at hgt
    rw [pyLt_eq k v (h.nbk _ _ hk) h.nbv] at hlt
    have hmid : 0 ≤ mid ∧ mid < keys.length := by constructor <;> omega
    refine ⟨mid, mid, mid, rfl, Or.inr ⟨hmid.1, rfl, rfl, k, hk, ?_⟩⟩
    unfold BsEq
    simp [left, right] at hleft hright
    simp_all
  | case5 first last ns nl hle mid k hk hno =>
    exfalso
    obtain ⟨⟨r1, e1⟩, ⟨r2, e2⟩⟩ := h.comp mid.toNat k hk
    exact hno r1 r2 (by rw [pyLt_eq k v (h.nbk _ _ hk) h.nbv]; exact e1) (by rw [pyGt_eq k v (h.nbk _ _ hk) h.nbv]; exact e2)
  | case6 first last ns nl hgt =>
    refine ⟨-1, ns, nl, rfl, Or.inl ⟨rfl, first, h0, by omega, ?_, ?_, hnl⟩⟩
    · intro j k hj
      exact ⟨(hinv j k hj).1, fun hjf => (hinv j k hj).2 (by omega)⟩
    · rw [hns]
      have : first = last + 1 := by omega
      split <;> split <;> omega

/-- `_binary_search(..., reverse=True)` on a non-empty descending column: an equal key, or a cut `f` (keys before it larger, keys from
it on smaller) with `next_smallest = f` (-1 when nothing is smaller) and `next_largest = f - 1` (-1 when nothing is larger) -/
theorem binarySearch_track_rev (keys : List Val) (v : Val) (h : Ok keys v true) (hne : keys ≠ []) :
    ∃ e ns nl, binarySearch keys v true = .ok (e, ns, nl) ∧
      ((e = -1 ∧ ∃ f : Int, 0 ≤ f ∧ f ≤ keys.length ∧
          (∀ (j : Nat) k, keys[j]? = some k → (((j : Int) < f → Lside true v k) ∧ (f ≤ (j : Int) → Rside true v k))) ∧
          ns = (if f = (keys.length : Int) then -1 else f) ∧ nl = f - 1) ∨
       (0 ≤ e ∧ ns = e ∧ nl = e ∧ ∃ k, keys[e.toNat]? = some k ∧ BsEq k v)) := by
  have hlen : 0 < keys.length := List.length_pos_iff.mpr hne
  have hemp : keys.isEmpty = false := by cases keys <;> simp_all
  obtain ⟨e, ns', nl', hloop, hres⟩ :=
    bsLoop_track_rev keys v true rfl h 0 ((keys.length : Int) - 1) ((keys.length : Int) - 1) 0 (by omega) (by omega) (by omega)
      (by simp) (by simp)
      (by
        intro j k hj
        have : j < keys.length := (List.getElem?_eq_some_iff.mp hj).1
        exact ⟨fun hh => by omega, fun hh => by omega⟩)
  rcases hres with ⟨he, f, hf0, hfl, hcut, hns, hnl⟩ | ⟨he0, hns, hnl, k, hk, hkeq⟩
  · have hs1 : ns'.toNat < keys.length := by rw [hns]; split <;> omega
    have hs2 : nl'.toNat < keys.length := by rw [hnl]; split <;> omega
    have g1 := pyGt_eq keys[ns'.toNat] v (h.nbk _ _ (List.getElem?_eq_getElem hs1)) h.nbv
    have g2 := pyLt_eq keys[nl'.toNat] v (h.nbk _ _ (List.getElem?_eq_getElem hs2)) h.nbv
    have c1 := hcut ns'.toNat keys[ns'.toNat] (List.getElem?_eq_getElem hs1)
    have c2 := hcut nl'.toNat keys[nl'.toNat] (List.getElem?_eq_getElem hs2)
    unfold Lside Rside at c1 c2
    simp only [if_true] at c1 c2
    have e1 : bsLt v keys[ns'.toNat] = some (decide (f = (keys.length : Int))) := by
      by_cases hf : f = (keys.length : Int)
      · have : ((ns'.toNat : Nat) : Int) < f := by rw [hns, if_pos hf]; omega
        rw [c1.1 this]; simp [hf]
      · have : f ≤ ((ns'.toNat : Nat) : Int) := by rw [hns, if_neg hf]; omega
        rw [bsLt_asymm _ _ (c1.2 this)]; simp [hf]
    have e2 : bsLt keys[nl'.toNat] v = some (decide (f = 0)) := by
      by_cases hf : f = 0
      · have : f ≤ ((nl'.toNat : Nat) : Int) := by rw [hnl, if_pos hf]; omega
        rw [c2.2 this]; simp [hf]
      · have : ((nl'.toNat : Nat) : Int) < f := by rw [hnl, if_neg hf]; omega
        rw [bsLt_asymm _ _ (c2.1 this)]; simp [hf]
    refine ⟨e, if decide (f = (keys.length : Int)) then -1 else ns', if decide (f = 0) then -1 else nl', ?_, Or.inl ⟨he, f, hf0, hfl, hcut, ?_, ?_⟩⟩
    · unfold binarySearch
      simp only [hemp, Bool.false_eq_true, if_false, if_true, hloop, List.getElem?_eq_getElem hs1, List.getElem?_eq_getElem hs2, g1, g2, e1, e2]
    · rw [hns]; by_cases hf : f = (keys.length : Int) <;> simp [hf]
    · rw [hnl]; by_cases hf : f = 0 <;> simp [hf]
  · rw [hns, hnl] at hloop
    have g1 := pyGt_eq k v (h.nbk _ _ hk) h.nbv
    have g2 := pyLt_eq k v (h.nbk _ _ hk) h.nbv
    refine ⟨e, e, e, ?_, Or.inr ⟨he0, rfl, rfl, k, hk, hkeq⟩⟩
    unfold binarySearch
    simp only [hemp, Bool.false_eq_true, if_false, if_true, hloop, hk, g1, g2, hkeq.1, hkeq.2]

/-- a key that equals the value stands where the value stands: what is larger than the key is larger than the value -/
theorem bsEq_lt_transfer (a v b : Val) (h : BsEq a v) (hab : bsLt a b = some true) : bsLt v b = some true := by
  obtain ⟨h1, h2⟩ := h
  rw [bsLt_false_iff] at h1 h2
  rw [bsLt_true_iff] at hab ⊢
  rcases hab with ⟨x, y, rfl, rfl, hxy⟩ | ⟨hka, hkb, hlt⟩
  · rcases h1 with ⟨x', w, hx, rfl, e1⟩ | ⟨hk, _, _⟩
    · cases hx
      rcases h2 with ⟨w', x', hw, hx, e2⟩ | ⟨hk, _, _⟩
      · cases hw; cases hx
        have : x = w := by
          rcases strLt_tri x w with h | h | h
          · rw [h.1] at e1; cases e1
          · exact h.2.1
          · rw [h.2.2] at e2; cases e2
        subst this
        exact Or.inl ⟨x, y, rfl, rfl, hxy⟩
      · simp [lkind] at hk
    · simp [lkind] at hk
  · rcases h1 with ⟨x', w, rfl, _, _⟩ | ⟨_, hkv, n1⟩
    · simp [lkind] at hka
    · rcases h2 with ⟨w', x', rfl, _, _⟩ | ⟨_, _, n2⟩
      · simp [lkind] at hkv
      · have : lnum a = lnum v := Rat.le_antisymm (Rat.not_lt.mp n2) (Rat.not_lt.mp n1)
        exact Or.inr ⟨hkv, hkb, by rw [← this]; exact hlt⟩

/-- the mirror image: what is smaller than the key is smaller than the value -/
theorem bsEq_gt_transfer (a v b : Val) (h : BsEq a v) (hba : bsLt b a = some true) : bsLt b v = some true := by
  obtain ⟨h1, h2⟩ := h
  rw [bsLt_false_iff] at h1 h2
  rw [bsLt_true_iff] at hba ⊢
  rcases hba with ⟨y, x, rfl, rfl, hyx⟩ | ⟨hkb, hka, hlt⟩
  · rcases h1 with ⟨x', w, hx, rfl, e1⟩ | ⟨hk, _, _⟩
    · cases hx
      rcases h2 with ⟨w', x', hw, hx, e2⟩ | ⟨hk, _, _⟩
      · cases hw; cases hx
        have : x = w := by
          rcases strLt_tri x w with h | h | h
          · rw [h.1] at e1; cases e1
          · exact h.2.1
          · rw [h.2.2] at e2; cases e2
        subst this
        exact Or.inl ⟨y, x, rfl, rfl, hyx⟩
      · simp [lkind] at hk
    · simp [lkind] at hk
  · rcases h1 with ⟨x', w, rfl, _, _⟩ | ⟨_, hkv, n1⟩
    · simp [lkind] at hka
    · rcases h2 with ⟨w', x', rfl, _, _⟩ | ⟨_, _, n2⟩
      · simp [lkind] at hkv
      · have : lnum a = lnum v := Rat.le_antisymm (Rat.not_lt.mp n2) (Rat.not_lt.mp n1)
        exact Or.inr ⟨hkb, hkv, by rw [← this]; exact hlt⟩

end E2P.LookupBin
