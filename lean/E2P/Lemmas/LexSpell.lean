import E2P.Lemmas.LexLemmas
/-!
  Round trip of reference spellings through the scanners of `E2P.Model.Lex` (used by `E2P.Props.C02`).
-/
namespace E2P.Lex

theorem span_append (p : Char → Bool) (a b : List Char) (ha : ∀ x ∈ a, p x = true) (hb : ∀ c r, b = c :: r → p c = false) :
    (a ++ b).takeWhile p = a ∧ (a ++ b).dropWhile p = b := by
  induction a with
  | nil =>
    cases b with
    | nil => simp
    | cons c r => have := hb c r rfl; simp [this]
  | cons x xs ih =>
    have hx := ha x (by simp)
    have := ih (fun y hy => ha y (by simp [hy]))
    simp [hx, this]

theorem isUp_ne_dollar (c : Char) (h : isUp c = true) : c ≠ '$' := by
  intro e; subst e; revert h; decide
theorem isUp_not_digit (c : Char) (h : isUp c = true) : isDigit c = false := by
  simp only [isUp, isDigit, Bool.and_eq_true, decide_eq_true_eq] at *
  simp only [Bool.and_eq_false_iff, decide_eq_false_iff_not]; omega
theorem isDigit_not_up (c : Char) (h : isDigit c = true) : isUp c = false := by
  simp only [isUp, isDigit, Bool.and_eq_true, decide_eq_true_eq] at *
  simp only [Bool.and_eq_false_iff, decide_eq_false_iff_not]; omega
theorem isDigit_ne_dollar (c : Char) (h : isDigit c = true) : c ≠ '$' := by
  intro e; subst e; revert h; decide
theorem dollar_not_up : isUp '$' = false := by decide
theorem dollar_not_digit : isDigit '$' = false := by decide
theorem isUp_word (c : Char) (h : isUp c = true) : isWord c = true := by simp [isWord, h]
theorem isDigit_word (c : Char) (h : isDigit c = true) : isWord c = true := by simp [isWord, h]
theorem dollar_not_word : isWord '$' = false := by decide
theorem bang_not_word : isWord '!' = false := by decide
theorem quote_not_word : isWord '\'' = false := by decide

/-- the optional absolute marker -/
def dollar (b : Bool) : List Char := if b then ['$'] else []

theorem optDollar_dollar (b : Bool) (x : List Char) (hx : ∀ c r, x = c :: r → c ≠ '$') : optDollar (dollar b ++ x) = x := by
  cases b with
  | true => simp [dollar, optDollar]
  | false =>
    cases x with
    | nil => simp [dollar, optDollar]
    | cons c r => have := hx c r rfl; simp [dollar, optDollar, this]

/-- the bare spelling `$?COL$?ROW` -/
def spellCellBare (ac : Bool) (col : List Char) (ar : Bool) (row : List Char) : List Char := dollar ac ++ col ++ dollar ar ++ row

theorem cellBody_spell (t : Option (List Char)) (ac ar : Bool) (col row rest : List Char)
    (hc : col ≠ []) (hcu : ∀ x ∈ col, isUp x = true) (hr : row ≠ []) (hrd : ∀ x ∈ row, isDigit x = true) (hrest : cellRestOk rest = true) :
    cellBody t (spellCellBare ac col ar row ++ rest) = some (⟨t, col, row⟩, rest) := by
  obtain ⟨c0, cs, hcol⟩ := List.exists_cons_of_ne_nil hc
  obtain ⟨r0, rs, hrow⟩ := List.exists_cons_of_ne_nil hr
  have hc0 : isUp c0 = true := hcu c0 (by rw [hcol]; simp)
  have hr0 : isDigit r0 = true := hrd r0 (by rw [hrow]; simp)
  have h1 : optDollar (spellCellBare ac col ar row ++ rest) = col ++ (dollar ar ++ (row ++ rest)) := by
    unfold spellCellBare
    have : dollar ac ++ col ++ dollar ar ++ row ++ rest = dollar ac ++ (col ++ (dollar ar ++ (row ++ rest))) := by simp [List.append_assoc]
    rw [this]
    apply optDollar_dollar
    intro c r h
    rw [hcol] at h; simp only [List.cons_append, List.cons.injEq] at h
    rw [← h.1]; exact isUp_ne_dollar c0 hc0
  have h2 := span_append isUp col (dollar ar ++ (row ++ rest)) hcu (by
    intro c r h
    cases ar with
    | true => simp only [dollar, ↓reduceIte, List.cons_append, List.nil_append, List.cons.injEq] at h; rw [← h.1]; exact dollar_not_up
    | false =>
      simp only [dollar, Bool.false_eq_true, ↓reduceIte, List.nil_append] at h
      rw [hrow] at h; simp only [List.cons_append, List.cons.injEq] at h
      rw [← h.1]; exact isDigit_not_up r0 hr0)
  have h3 : optDollar (dollar ar ++ (row ++ rest)) = row ++ rest := by
    apply optDollar_dollar
    intro c r h
    rw [hrow] at h; simp only [List.cons_append, List.cons.injEq] at h
    rw [← h.1]; exact isDigit_ne_dollar r0 hr0
  have hrest' : ∀ c r, rest = c :: r → isDigit c = false := by
    intro c r h
    subst h
    cases r with
    | nil => simpa [cellRestOk] using hrest
    | cons c2 r2 => simp only [cellRestOk, Bool.and_eq_true, Bool.not_eq_eq_eq_not, Bool.not_true] at hrest; exact hrest.1
  have h4 := span_append isDigit row rest hrd hrest'
  unfold cellBody
  simp only [h1, h2.1, h2.2, h3, h4.1, h4.2, hc, hr, ↓reduceIte, hrest]

/-! ### sheet prefixes -/

/-- every `q` doubled -/
def double (q : Char) : List Char → List Char
  | [] => []
  | c :: r => if c = q then q :: q :: double q r else c :: double q r

theorem undouble_double (q : Char) (t : List Char) : undouble q (double q t) = t := by
  induction t with
  | nil => simp [double, undouble]
  | cons c r ih =>
    unfold double
    split
    · rename_i h; subst h
      simp [undouble, ih]
    · rename_i h
      cases hd : double q r with
      | nil =>
        rw [hd] at ih
        simp only [undouble] at ih ⊢
        rw [← ih]
      | cons d ds =>
        rw [hd] at ih
        simp only [undouble, h, false_and, ↓reduceIte, ih]

theorem double_ne_nil (q : Char) (t : List Char) (h : t ≠ []) : double q t ≠ [] := by
  cases t with
  | nil => exact absurd rfl h
  | cons c r => unfold double; split <;> simp

theorem pairedBody_double (q : Char) (t rest : List Char) (hrest : ∀ c r, rest = c :: r → c ≠ q) :
    pairedBody q (double q t ++ q :: rest) = some (double q t, rest) := by
  induction t with
  | nil =>
    simp only [double, List.nil_append]
    unfold pairedBody
    cases rest with
    | nil => simp
    | cons c r => have := hrest c r rfl; simp [this]
  | cons c r ih =>
    unfold double
    split
    · rename_i h; subst h
      simp only [List.cons_append]
      unfold pairedBody
      simp [ih]
    · rename_i h
      simp only [List.cons_append]
      unfold pairedBody
      simp [h, ih]

/-- how the sheet of a reference may be written -/
inductive Prefix where
  | own                              -- no prefix: the formula's own sheet
  | plain (t : List Char)            -- `Title!`
  | quoted (t : List Char)           -- `'Ti''tle'!`

def Prefix.spell : Prefix → List Char
  | .own => []
  | .plain t => t ++ ['!']
  | .quoted t => '\'' :: (double '\'' t ++ ['\'', '!'])

def Prefix.title : Prefix → Option (List Char)
  | .own => none
  | .plain t => some t
  | .quoted t => some t

/-- what the grammar accepts as a written prefix: a plain title is a non-empty run of word characters, a quoted one is any non-empty text -/
def Prefix.wf : Prefix → Prop
  | .own => True
  | .plain t => t ≠ [] ∧ ∀ x ∈ t, isWord x = true
  | .quoted t => t ≠ []

theorem scanPrefix_spell (p : Prefix) (hp : p.wf) (hne : p ≠ .own) (x : List Char) :
    scanPrefix (p.spell ++ x) = some (p.title, x) := by
  cases p with
  | own => exact absurd rfl hne
  | plain t =>
    obtain ⟨hne', hw⟩ := hp
    obtain ⟨c0, cs, ht⟩ := List.exists_cons_of_ne_nil hne'
    have hc0 : c0 ≠ '\'' := by
      intro e
      have := hw c0 (by rw [ht]; simp)
      rw [e] at this; revert this; decide
    have hspan := span_append isWord t ('!' :: x) hw (by intro c r h; simp only [List.cons.injEq] at h; rw [← h.1]; exact bang_not_word)
    have hs : Prefix.spell (.plain t) ++ x = t ++ '!' :: x := by simp [Prefix.spell]
    rw [hs]
    unfold scanPrefix
    rw [ht] at hspan ⊢
    simp only [List.cons_append, hc0, ↓reduceIte]
    simp only [List.cons_append] at hspan
    rw [hspan.2, hspan.1]
    simp [titleOf, Prefix.title]
  | quoted t =>
    have hs : Prefix.spell (.quoted t) ++ x = '\'' :: (double '\'' t ++ '\'' :: ('!' :: x)) := by simp [Prefix.spell]
    rw [hs]
    unfold scanPrefix
    simp only [↓reduceIte]
    rw [pairedBody_double '\'' t ('!' :: x) (by intro c r h; simp only [List.cons.injEq] at h; rw [← h.1]; decide)]
    simp only [↓reduceIte, titleOf, Prefix.title]
    rw [if_pos (double_ne_nil _ _ hp), undouble_double]

/-- a bare reference is not mistaken for a prefixed one when what follows is not a word character or `!` -/
def BareFollow (rest : List Char) : Prop := ∀ c r, rest = c :: r → isWord c = false ∧ c ≠ '!'

theorem scanPrefix_bare (ac ar : Bool) (col row rest : List Char)
    (hc : col ≠ []) (hcu : ∀ x ∈ col, isUp x = true) (hr : row ≠ []) (hrd : ∀ x ∈ row, isDigit x = true) (hf : BareFollow rest) :
    scanPrefix (spellCellBare ac col ar row ++ rest) = none := by
  obtain ⟨c0, cs, hcol⟩ := List.exists_cons_of_ne_nil hc
  have hc0 : isUp c0 = true := hcu c0 (by rw [hcol]; simp)
  have hq : c0 ≠ '\'' := by intro e; rw [e] at hc0; revert hc0; decide
  cases ac with
  | true =>
    simp only [spellCellBare, dollar, ↓reduceIte, List.cons_append, List.nil_append]
    unfold scanPrefix
    have : ('$' : Char) ≠ '\'' := by decide
    simp only [this, ↓reduceIte, List.dropWhile, dollar_not_word]
    simp
  | false =>
    cases ar with
    | true =>
      have hs : spellCellBare false col true row ++ rest = col ++ ('$' :: (row ++ rest)) := by simp [spellCellBare, dollar]
      have hspan := span_append isWord col ('$' :: (row ++ rest)) (fun x hx => isUp_word x (hcu x hx))
        (by intro c r h; simp only [List.cons.injEq] at h; rw [← h.1]; exact dollar_not_word)
      rw [hs]
      rw [hcol] at hspan ⊢
      unfold scanPrefix
      simp only [List.cons_append, hq, ↓reduceIte]
      simp only [List.cons_append] at hspan
      rw [hspan.2]
      simp
    | false =>
      have hs : spellCellBare false col false row ++ rest = (col ++ row) ++ rest := by simp [spellCellBare, dollar]
      have hspan := span_append isWord (col ++ row) rest
        (by intro x hx; rcases List.mem_append.1 hx with h | h
            · exact isUp_word x (hcu x h)
            · exact isDigit_word x (hrd x h))
        (fun c r h => (hf c r h).1)
      rw [hs]
      rw [hcol] at hspan ⊢
      unfold scanPrefix
      simp only [List.cons_append, hq, ↓reduceIte]
      simp only [List.cons_append] at hspan
      rw [hspan.2]
      cases rest with
      | nil => rfl
      | cons c r => have := (hf c r rfl).2; simp [this]

/-- the spelling of a cell reference: optional sheet prefix, optional `$` before the column letters and before the row digits -/
def spellCell (p : Prefix) (ac : Bool) (col : List Char) (ar : Bool) (row : List Char) : List Char := p.spell ++ spellCellBare ac col ar row

/-- **Reading back a cell reference**: whatever prefix form, `$` markers, column letters and row digits a reference is written with, and
    whatever follows it (subject to the lookahead of the token and, for a bare reference, to not continuing into a title), the
    cell scanner returns exactly that title, those letters and digits, and the rest. -/
theorem cellTok_spell (p : Prefix) (hp : p.wf) (ac ar : Bool) (col row rest : List Char)
    (hc : col ≠ []) (hcu : ∀ x ∈ col, isUp x = true) (hr : row ≠ []) (hrd : ∀ x ∈ row, isDigit x = true)
    (hrest : cellRestOk rest = true) (hf : p = .own → BareFollow rest) :
    cellTok (spellCell p ac col ar row ++ rest) = some (⟨p.title, col, row⟩, rest) := by
  unfold cellTok withPrefix spellCell
  by_cases hown : p = .own
  · subst hown
    simp only [Prefix.spell, List.nil_append, Prefix.title]
    rw [scanPrefix_bare ac ar col row rest hc hcu hr hrd (hf rfl)]
    exact cellBody_spell none ac ar col row rest hc hcu hr hrd hrest
  · rw [List.append_assoc, scanPrefix_spell p hp hown]
    simp only
    rw [cellBody_spell p.title ac ar col row rest hc hcu hr hrd hrest]

/-! ### areas -/

/-- the optional row of one corner: `$?digits` or nothing (whole column) -/
def rowPart (ar : Bool) : Option (List Char) → List Char
  | some r => dollar ar ++ r
  | none => []

def RowWf : Option (List Char) → Prop
  | some r => r ≠ [] ∧ ∀ x ∈ r, isDigit x = true
  | none => True

theorem optRow_rowPart (ar : Bool) (row : Option (List Char)) (hw : RowWf row) (x : List Char)
    (hx : ∀ c r, x = c :: r → isDigit c = false ∧ (row = none → c ≠ '$')) :
    (optRow (rowPart ar row ++ x)).2 = (row.getD [], x) := by
  cases row with
  | none =>
    simp only [rowPart, List.nil_append, Option.getD_none]
    unfold optRow
    have h1 : optDollar x = x := by
      cases x with
      | nil => rfl
      | cons c r => have := (hx c r rfl).2 rfl; simp [optDollar, this]
    have h2 : x.takeWhile isDigit = [] := by
      cases x with
      | nil => rfl
      | cons c r => have := (hx c r rfl).1; simp [List.takeWhile, this]
    simp only [h1, h2, ↓reduceIte]
  | some r =>
    obtain ⟨hne, hd⟩ := hw
    obtain ⟨r0, rs, hr⟩ := List.exists_cons_of_ne_nil hne
    have hr0 : isDigit r0 = true := hd r0 (by rw [hr]; simp)
    simp only [rowPart, Option.getD_some]
    unfold optRow
    have h1 : optDollar (dollar ar ++ r ++ x) = r ++ x := by
      rw [List.append_assoc]
      apply optDollar_dollar
      intro c t h
      rw [hr] at h; simp only [List.cons_append, List.cons.injEq] at h
      rw [← h.1]; exact isDigit_ne_dollar r0 hr0
    have h2 := span_append isDigit r x hd (fun c t h => (hx c t h).1)
    simp only [h1, h2.1, h2.2, hne, ↓reduceIte]

/-- one corner of an area: `$?COL` and the optional row -/
def cornerSpell (ac : Bool) (col : List Char) (ar : Bool) (row : Option (List Char)) : List Char := dollar ac ++ col ++ rowPart ar row

/-- what may follow an area for the token to end there: not a digit, not `$`, not an upper-case letter -/
def AreaFollow (rest : List Char) : Prop := ∀ c r, rest = c :: r → isDigit c = false ∧ c ≠ '$' ∧ isUp c = false

theorem rowPart_head_not_up (ar : Bool) (row : Option (List Char)) (hw : RowWf row) (x : List Char) (hx : ∀ c r, x = c :: r → isUp c = false) :
    ∀ c r, rowPart ar row ++ x = c :: r → isUp c = false := by
  intro c r h
  cases row with
  | none => exact hx c r (by simpa [rowPart] using h)
  | some d =>
    obtain ⟨hne, hd⟩ := hw
    obtain ⟨d0, ds, hdd⟩ := List.exists_cons_of_ne_nil hne
    cases ar with
    | true => simp only [rowPart, dollar, ↓reduceIte, List.cons_append, List.nil_append, List.cons.injEq] at h; rw [← h.1]; exact dollar_not_up
    | false =>
      simp only [rowPart, dollar, Bool.false_eq_true, ↓reduceIte, List.nil_append] at h
      rw [hdd] at h; simp only [List.cons_append, List.cons.injEq] at h
      rw [← h.1]; exact isDigit_not_up d0 (hd d0 (by rw [hdd]; simp))

theorem matrixBody_spell (t : Option (List Char)) (ac1 ar1 ac2 ar2 : Bool) (col1 col2 : List Char) (row1 row2 : Option (List Char)) (rest : List Char)
    (hc1 : col1 ≠ []) (hu1 : ∀ x ∈ col1, isUp x = true) (hc2 : col2 ≠ []) (hu2 : ∀ x ∈ col2, isUp x = true)
    (hw1 : RowWf row1) (hw2 : RowWf row2) (hf : AreaFollow rest) :
    matrixBody t (cornerSpell ac1 col1 ar1 row1 ++ ':' :: (cornerSpell ac2 col2 ar2 row2 ++ rest)) =
      some ((⟨t, col1, row1.getD []⟩, ⟨t, col2, row2.getD []⟩), rest) := by
  obtain ⟨a0, as, ha⟩ := List.exists_cons_of_ne_nil hc1
  obtain ⟨b0, bs, hb⟩ := List.exists_cons_of_ne_nil hc2
  have ha0 : isUp a0 = true := hu1 a0 (by rw [ha]; simp)
  have hb0 : isUp b0 = true := hu2 b0 (by rw [hb]; simp)
  have colon_not_up : isUp ':' = false := by decide
  have colon_not_digit : isDigit ':' = false := by decide
  -- first corner
  have e1 : cornerSpell ac1 col1 ar1 row1 ++ ':' :: (cornerSpell ac2 col2 ar2 row2 ++ rest)
      = dollar ac1 ++ (col1 ++ (rowPart ar1 row1 ++ ':' :: (cornerSpell ac2 col2 ar2 row2 ++ rest))) := by simp [cornerSpell, List.append_assoc]
  have h1 : optDollar (dollar ac1 ++ (col1 ++ (rowPart ar1 row1 ++ ':' :: (cornerSpell ac2 col2 ar2 row2 ++ rest))))
      = col1 ++ (rowPart ar1 row1 ++ ':' :: (cornerSpell ac2 col2 ar2 row2 ++ rest)) := by
    apply optDollar_dollar
    intro c r h
    rw [ha] at h; simp only [List.cons_append, List.cons.injEq] at h
    rw [← h.1]; exact isUp_ne_dollar a0 ha0
  have h2 := span_append isUp col1 (rowPart ar1 row1 ++ ':' :: (cornerSpell ac2 col2 ar2 row2 ++ rest)) hu1
    (rowPart_head_not_up ar1 row1 hw1 _ (by intro c r h; simp only [List.cons.injEq] at h; rw [← h.1]; exact colon_not_up))
  have h3 := optRow_rowPart ar1 row1 hw1 (':' :: (cornerSpell ac2 col2 ar2 row2 ++ rest))
    (by intro c r h; simp only [List.cons.injEq] at h; rw [← h.1]; exact ⟨colon_not_digit, fun _ => by decide⟩)
  -- second corner
  have e2 : cornerSpell ac2 col2 ar2 row2 ++ rest = dollar ac2 ++ (col2 ++ (rowPart ar2 row2 ++ rest)) := by simp [cornerSpell, List.append_assoc]
  have h4 : optDollar (dollar ac2 ++ (col2 ++ (rowPart ar2 row2 ++ rest))) = col2 ++ (rowPart ar2 row2 ++ rest) := by
    apply optDollar_dollar
    intro c r h
    rw [hb] at h; simp only [List.cons_append, List.cons.injEq] at h
    rw [← h.1]; exact isUp_ne_dollar b0 hb0
  have h5 := span_append isUp col2 (rowPart ar2 row2 ++ rest) hu2 (rowPart_head_not_up ar2 row2 hw2 _ (fun c r h => (hf c r h).2.2))
  have h6 := optRow_rowPart ar2 row2 hw2 rest (fun c r h => ⟨(hf c r h).1, fun _ => (hf c r h).2.1⟩)
  have h7 : matrixRestOk rest = true := by
    cases rest with
    | nil => rfl
    | cons c r => simp [matrixRestOk, (hf c r rfl).1]
  rw [e1]
  unfold matrixBody
  simp only [h1, h2.1, h2.2, hc1, ↓reduceIte]
  rw [show (optRow (rowPart ar1 row1 ++ ':' :: (cornerSpell ac2 col2 ar2 row2 ++ rest))).2.2 = ':' :: (cornerSpell ac2 col2 ar2 row2 ++ rest) from by rw [h3],
      show (optRow (rowPart ar1 row1 ++ ':' :: (cornerSpell ac2 col2 ar2 row2 ++ rest))).2.1 = row1.getD [] from by rw [h3]]
  simp only [↓reduceIte, e2, h4, h5.1, h5.2, hc2]
  rw [show (optRow (rowPart ar2 row2 ++ rest)).2.2 = rest from by rw [h6], show (optRow (rowPart ar2 row2 ++ rest)).2.1 = row2.getD [] from by rw [h6]]
  simp only [h7, ↓reduceIte]

/-- a bare area is never mistaken for a prefixed one: its first character that is not a word character is `$` or `:` -/
theorem scanPrefix_area (ac1 ar1 : Bool) (col1 : List Char) (row1 : Option (List Char)) (x : List Char)
    (hc1 : col1 ≠ []) (hu1 : ∀ y ∈ col1, isUp y = true) (hw1 : RowWf row1) :
    scanPrefix (cornerSpell ac1 col1 ar1 row1 ++ ':' :: x) = none := by
  obtain ⟨a0, as, ha⟩ := List.exists_cons_of_ne_nil hc1
  have ha0 : isUp a0 = true := hu1 a0 (by rw [ha]; simp)
  have hq : a0 ≠ '\'' := by intro e; rw [e] at ha0; revert ha0; decide
  have colon_not_word : isWord ':' = false := by decide
  cases ac1 with
  | true =>
    simp only [cornerSpell, dollar, ↓reduceIte, List.cons_append, List.nil_append]
    unfold scanPrefix
    have : ('$' : Char) ≠ '\'' := by decide
    simp only [this, ↓reduceIte, List.dropWhile, dollar_not_word]
    simp
  | false =>
    -- the word run is the column letters followed, possibly, by the row digits; then comes `$` or `:`
    have key : ∃ w tail, cornerSpell false col1 ar1 row1 ++ ':' :: x = w ++ tail ∧ (∀ y ∈ w, isWord y = true) ∧
        ∃ c r, tail = c :: r ∧ isWord c = false ∧ c ≠ '!' ∧ w ≠ [] ∧ w.head? = some a0 := by
      cases row1 with
      | none =>
        refine ⟨col1, ':' :: x, by simp [cornerSpell, dollar, rowPart], fun y hy => isUp_word y (hu1 y hy), ':', x, rfl, colon_not_word, by decide, hc1, by rw [ha]; rfl⟩
      | some d =>
        obtain ⟨hne, hd⟩ := hw1
        cases ar1 with
        | true =>
          refine ⟨col1, '$' :: (d ++ ':' :: x), by simp [cornerSpell, dollar, rowPart], fun y hy => isUp_word y (hu1 y hy), '$', _, rfl, dollar_not_word, by decide, hc1, by rw [ha]; rfl⟩
        | false =>
          refine ⟨col1 ++ d, ':' :: x, by simp [cornerSpell, dollar, rowPart], ?_, ':', x, rfl, colon_not_word, by decide, by simp [hc1], by rw [ha]; rfl⟩
          intro y hy
          rcases List.mem_append.1 hy with h | h
          · exact isUp_word y (hu1 y h)
          · exact isDigit_word y (hd y h)
    obtain ⟨w, tail, hs, hw, c, r, ht, hcw, hcb, hwne, hhead⟩ := key
    rw [hs]
    have hspan := span_append isWord w tail hw (by intro c' r' h; rw [ht] at h; simp only [List.cons.injEq] at h; rw [← h.1]; exact hcw)
    obtain ⟨w0, ws, hw0⟩ := List.exists_cons_of_ne_nil hwne
    rw [hw0] at hhead hspan ⊢
    simp only [List.head?_cons, Option.some.injEq] at hhead
    subst hhead
    unfold scanPrefix
    simp only [List.cons_append, hq, ↓reduceIte]
    simp only [List.cons_append] at hspan
    rw [hspan.2, ht]
    simp [hcb]

/-- the spelling of an area: optional sheet prefix, two corners (each `$?COL` and optionally `$?ROW`) around a colon -/
def spellArea (p : Prefix) (ac1 : Bool) (col1 : List Char) (ar1 : Bool) (row1 : Option (List Char))
    (ac2 : Bool) (col2 : List Char) (ar2 : Bool) (row2 : Option (List Char)) : List Char :=
  p.spell ++ (cornerSpell ac1 col1 ar1 row1 ++ ':' :: cornerSpell ac2 col2 ar2 row2)

/-- **Reading back an area**: rectangular areas, row / column ranges and whole-column areas, with any prefix form and any `$` markers -/
theorem matrixTok_spell (p : Prefix) (hp : p.wf) (ac1 ar1 ac2 ar2 : Bool) (col1 col2 : List Char) (row1 row2 : Option (List Char)) (rest : List Char)
    (hc1 : col1 ≠ []) (hu1 : ∀ x ∈ col1, isUp x = true) (hc2 : col2 ≠ []) (hu2 : ∀ x ∈ col2, isUp x = true)
    (hw1 : RowWf row1) (hw2 : RowWf row2) (hf : AreaFollow rest) :
    matrixTok (spellArea p ac1 col1 ar1 row1 ac2 col2 ar2 row2 ++ rest) =
      some ((⟨p.title, col1, row1.getD []⟩, ⟨p.title, col2, row2.getD []⟩), rest) := by
  have hs : spellArea p ac1 col1 ar1 row1 ac2 col2 ar2 row2 ++ rest
      = p.spell ++ (cornerSpell ac1 col1 ar1 row1 ++ ':' :: (cornerSpell ac2 col2 ar2 row2 ++ rest)) := by simp [spellArea, List.append_assoc]
  rw [hs]
  unfold matrixTok withPrefix
  by_cases hown : p = .own
  · subst hown
    simp only [Prefix.spell, List.nil_append, Prefix.title]
    rw [scanPrefix_area ac1 ar1 col1 row1 _ hc1 hu1 hw1]
    exact matrixBody_spell none ac1 ar1 ac2 ar2 col1 col2 row1 row2 rest hc1 hu1 hc2 hu2 hw1 hw2 hf
  · rw [scanPrefix_spell p hp hown]
    simp only
    rw [matrixBody_spell p.title ac1 ar1 ac2 ar2 col1 col2 row1 row2 rest hc1 hu1 hc2 hu2 hw1 hw2 hf]

end E2P.Lex
