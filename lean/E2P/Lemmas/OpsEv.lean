import E2P.Model.Ops
import Mathlib.Data.List.Basic
/-!
  "Eventually" reasoning about the fuel-indexed grouping functions of E2P.Model.Ops: `Ev f r` says that `f fuel = some r`
  for every sufficiently large recursion budget.  One-step lemmas for each function; they let the main induction of
  Props/C01 (printing a stratified expression and grouping it again gives the expression back) avoid fuel arithmetic.
-/
namespace E2P

def Ev {α} (f : Nat → Option α) (r : α) : Prop := ∃ N, ∀ fuel, N ≤ fuel → f fuel = some r

theorem Ev.unique {α} {f : Nat → Option α} {r s : α} (h1 : Ev f r) (h2 : Ev f s) : r = s := by
  obtain ⟨N1, h1⟩ := h1; obtain ⟨N2, h2⟩ := h2
  have a := h1 (max N1 N2) (Nat.le_max_left _ _)
  have b := h2 (max N1 N2) (Nat.le_max_right _ _)
  rw [a] at b; exact Option.some.inj b

/-- shift by one: if `g (n+1)` is computed from `f n`, eventual values transfer -/
theorem Ev.succ {α β} {f : Nat → Option α} {g : Nat → Option β} {r : α} {s : β}
    (hf : Ev f r) (step : ∀ n, f n = some r → g (n + 1) = some s) : Ev g s := by
  obtain ⟨N, h⟩ := hf
  refine ⟨N + 1, fun fuel hle => ?_⟩
  obtain ⟨m, rfl⟩ : ∃ m, fuel = m + 1 := ⟨fuel - 1, by omega⟩
  exact step m (h m (by omega))

theorem Ev.succ2 {α β γ} {f : Nat → Option α} {g : Nat → Option β} {h : Nat → Option γ} {r : α} {s : β} {t : γ}
    (hf : Ev f r) (hg : Ev g s) (step : ∀ n, f n = some r → g n = some s → h (n + 1) = some t) : Ev h t := by
  obtain ⟨N1, h1⟩ := hf; obtain ⟨N2, h2⟩ := hg
  refine ⟨max N1 N2 + 1, fun fuel hle => ?_⟩
  obtain ⟨m, rfl⟩ : ∃ m, fuel = m + 1 := ⟨fuel - 1, by omega⟩
  exact step m (h1 m (by omega)) (h2 m (by omega))

theorem Ev.const {α} {g : Nat → Option α} {s : α} (step : ∀ n, g (n + 1) = some s) : Ev g s :=
  ⟨1, fun fuel hle => by obtain ⟨m, rfl⟩ : ∃ m, fuel = m + 1 := ⟨fuel - 1, by omega⟩; exact step m⟩

/-! ### one step of each function -/

theorem ev_pct_step (e : Ex) (r : List Tk) (res : Ex × List Tk) (h : Ev (fun f => pPct f (.pct e) r) res) :
    Ev (fun f => pPct f e (.pct :: r)) res :=
  h.succ fun n hn => by simpa [pPct] using hn

theorem ev_pct_stop (e : Ex) (r : List Tk) (h : r.head? ≠ some .pct) : Ev (fun f => pPct f e r) (e, r) :=
  Ev.const fun n => by
    cases r with
    | nil => simp [pPct]
    | cons t ts => cases t <;> simp_all [pPct]

theorem ev_post_atom (a : Nat) (r : List Tk) (res : Ex × List Tk) (h : Ev (fun f => pPct f (.atom a) r) res) :
    Ev (fun f => pPost f (.atom a :: r)) res :=
  h.succ fun n hn => by simpa [pPost] using hn

theorem ev_post_paren (e : Ex) (r r' : List Tk) (res : Ex × List Tk)
    (h1 : Ev (fun f => pLevel f 4 r) (e, .rp :: r')) (h2 : Ev (fun f => pPct f (.paren e) r') res) :
    Ev (fun f => pPost f (.lp :: r)) res :=
  Ev.succ2 h1 h2 fun n a b => by simp [pPost, a, b]

theorem ev_unary_neg (r : List Tk) (e : Ex) (r' : List Tk) (h : Ev (fun f => pUnary f r) (e, r')) :
    Ev (fun f => pUnary f (.op .sub :: r)) (.neg e, r') :=
  h.succ fun n hn => by simp [pUnary, hn]

theorem ev_unary_pos (r : List Tk) (e : Ex) (r' : List Tk) (h : Ev (fun f => pUnary f r) (e, r')) :
    Ev (fun f => pUnary f (.op .add :: r)) (.pos e, r') :=
  h.succ fun n hn => by simp [pUnary, hn]

theorem ev_unary_post (r : List Tk) (res : Ex × List Tk) (hne : r.head? ≠ some (.op .add) ∧ r.head? ≠ some (.op .sub))
    (h : Ev (fun f => pPost f r) res) : Ev (fun f => pUnary f r) res :=
  h.succ fun n hn => by
    cases r with
    | nil => simpa [pUnary] using hn
    | cons t ts =>
      cases t with
      | op o => cases o <;> simp_all [pUnary]
      | _ => simpa [pUnary] using hn

theorem ev_level_zero (r : List Tk) (res : Ex × List Tk) (h : Ev (fun f => pUnary f r) res) :
    Ev (fun f => pLevel f 0 r) res :=
  h.succ fun n hn => by simpa [pLevel] using hn

theorem ev_level_succ (k : Nat) (r : List Tk) (l : Ex) (r' : List Tk) (res : Ex × List Tk)
    (h1 : Ev (fun f => pLevel f k r) (l, r')) (h2 : Ev (fun f => pLoop f (k + 1) l r') res) :
    Ev (fun f => pLevel f (k + 1) r) res :=
  Ev.succ2 h1 h2 fun n a b => by simp [pLevel, a, b]

theorem ev_loop_match (k : Nat) (o : BinOp) (l rhs : Ex) (r r' : List Tk) (res : Ex × List Tk) (hk : o.level = k)
    (h1 : Ev (fun f => pLevel f (k - 1) r) (rhs, r')) (h2 : Ev (fun f => pLoop f k (.bin o l rhs) r') res) :
    Ev (fun f => pLoop f k l (.op o :: r)) res :=
  Ev.succ2 h1 h2 fun n a b => by simp [pLoop, hk, a, b]

/-- the loop of level `k` leaves alone whatever does not start with an operator of its level -/
theorem ev_loop_stop (k : Nat) (l : Ex) (r : List Tk) (h : ∀ o, r.head? = some (.op o) → o.level ≠ k) :
    Ev (fun f => pLoop f k l r) (l, r) :=
  Ev.const fun n => by
    cases r with
    | nil => simp [pLoop]
    | cons t ts =>
      cases t with
      | op o => have := h o (by simp); simp [pLoop, this]
      | _ => simp [pLoop]

end E2P
