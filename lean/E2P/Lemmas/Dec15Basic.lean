import Mathlib.Data.Rat.Defs
import Mathlib.Algebra.Order.Ring.Rat
import Mathlib.Algebra.Order.Field.Basic
import Mathlib.Algebra.Order.Field.Power
import Mathlib.Tactic.Linarith
import Mathlib.Tactic.Positivity
import Mathlib.Tactic.NormNum
import Mathlib.Tactic.FieldSimp
import Mathlib.Tactic.Ring
import Mathlib.Data.Nat.Log
import E2P.Model.F53
/-!
  Basic facts about the helper functions of `E2P.Model.F53`, used by `E2P.Lemmas.Dec15`.
-/
namespace E2P

theorem ndigits_spec (n : Nat) (hn : 0 < n) : 10 ^ (ndigits n - 1) ≤ n ∧ n < 10 ^ ndigits n := by
  unfold ndigits
  rw [Nat.toString_eq_repr]
  have hpos : 0 < n.repr.length := Nat.length_repr_pos
  refine ⟨?_, (Nat.length_repr_le_iff hpos).1 le_rfl⟩
  by_cases h1 : n.repr.length = 1
  · rw [h1]; simp; omega
  · have h2 : 0 < n.repr.length - 1 := by omega
    have := (Nat.length_repr_le_iff (n := n) h2)
    by_contra hc
    have := this.2 (by omega)
    omega

theorem roundHalfEven_bounds (n d : Nat) (hd : 0 < d) :
    2 * (roundHalfEven n d * d) ≤ 2 * n + d ∧ 2 * n ≤ 2 * (roundHalfEven n d * d) + d := by
  unfold roundHalfEven
  have h1 := Nat.div_add_mod n d
  have h2 := Nat.mod_lt n hd
  simp only
  generalize n / d = q at *
  generalize n % d = r at *
  have e : (q + 1) * d = d * q + d := by ring
  have e' : q * d = d * q := by ring
  split_ifs <;> (try rw [e]) <;> (try rw [e']) <;> omega

theorem roundHalfEven_unique (n d z : Nat) (h1 : 2 * (z * d) < 2 * n + d)
    (h2 : 2 * n < 2 * (z * d) + d) : roundHalfEven n d = z := by
  have hd : 0 < d := by
    rcases Nat.eq_zero_or_pos d with h | h
    · subst h; omega
    · exact h
  unfold roundHalfEven
  have h3 := Nat.div_add_mod n d
  have h4 := Nat.mod_lt n hd
  simp only
  generalize n / d = q at *
  generalize n % d = r at *
  have hz : z = q ∨ z = q + 1 := by
    have a1 : q ≤ z := by
      by_contra hc
      have : (z + 1) * d ≤ q * d := Nat.mul_le_mul_right d (by omega)
      have e : (z + 1) * d = z * d + d := by ring
      have e' : q * d = d * q := by ring
      omega
    have a2 : z ≤ q + 1 := by
      by_contra hc
      have : (q + 2) * d ≤ z * d := Nat.mul_le_mul_right d (by omega)
      have e : (q + 2) * d = d * q + 2 * d := by ring
      omega
    omega
  rcases hz with rfl | rfl
  · have e' : z * d = d * z := by ring
    rw [if_pos (by omega)]
  · have e : (q + 1) * d = d * q + d := by ring
    rw [if_neg (by omega), if_pos (by omega)]


/-! ### rational versions -/

theorem roundHalfEven_abs (N D : ℕ) (hD : 0 < D) :
    |(roundHalfEven N D : ℚ) - (N : ℚ) / D| ≤ 1 / 2 := by
  obtain ⟨h1, h2⟩ := roundHalfEven_bounds N D hD
  have hD' : (0 : ℚ) < D := by exact_mod_cast hD
  have h1' : (2 : ℚ) * (roundHalfEven N D * D) ≤ 2 * N + D := by exact_mod_cast h1
  have h2' : (2 : ℚ) * N ≤ 2 * (roundHalfEven N D * D) + D := by exact_mod_cast h2
  have e : (N : ℚ) = (N : ℚ) / D * D := by field_simp
  generalize (N : ℚ) / D = t at *
  rw [e] at h1' h2'
  rw [abs_le]
  constructor
  · apply le_of_mul_le_mul_right _ hD'
    linarith
  · apply le_of_mul_le_mul_right _ hD'
    linarith

theorem roundHalfEven_eq_of_abs (N D z : ℕ) (hD : 0 < D)
    (h : |(z : ℚ) - (N : ℚ) / D| < 1 / 2) : roundHalfEven N D = z := by
  have hD' : (0 : ℚ) < D := by exact_mod_cast hD
  rw [abs_lt] at h
  obtain ⟨h1, h2⟩ := h
  have e : (N : ℚ) = (N : ℚ) / D * D := by field_simp
  apply roundHalfEven_unique
  · have : (2 : ℚ) * (z * D) < 2 * N + D := by
      rw [e]; nlinarith
    exact_mod_cast this
  · have : (2 : ℚ) * N < 2 * (z * D) + D := by
      rw [e]; nlinarith
    exact_mod_cast this


/-! ### integer powers -/

theorem zpow_nonneg_eq (b : ℚ) (e : ℤ) (h : 0 ≤ e) : b ^ e = b ^ e.toNat := by
  conv_lhs => rw [← Int.toNat_of_nonneg h]
  exact zpow_natCast b _

theorem zpow_neg_eq (b : ℚ) (e : ℤ) (h : ¬ 0 ≤ e) : b ^ e = (b ^ (-e).toNat)⁻¹ := by
  have h' : e = -(((-e).toNat : ℕ) : ℤ) := by omega
  conv_lhs => rw [h']
  rw [zpow_neg, zpow_natCast]

theorem powLe_iff (b : ℕ) (hb : 0 < b) (e : ℤ) (n d : ℕ) (hd : 0 < d) :
    powLe b e n d = true ↔ (b : ℚ) ^ e ≤ (n : ℚ) / d := by
  have hd' : (0 : ℚ) < d := by exact_mod_cast hd
  have hb' : (0 : ℚ) < b := by exact_mod_cast hb
  unfold powLe
  split_ifs with h
  · rw [zpow_nonneg_eq _ _ h, le_div_iff₀ hd', decide_eq_true_iff]
    constructor
    · intro h; exact_mod_cast h
    · intro h; exact_mod_cast h
  · rw [zpow_neg_eq _ _ h, decide_eq_true_iff]
    have hp : (0 : ℚ) < (b : ℚ) ^ (-e).toNat := by positivity
    rw [inv_le_iff_one_le_mul₀ hp]
    have e1 : (n : ℚ) / d * (b : ℚ) ^ (-e).toNat = ((n : ℚ) * (b : ℚ) ^ (-e).toNat) / d := by ring
    rw [e1, le_div_iff₀ hd', one_mul]
    constructor
    · intro h; exact_mod_cast h
    · intro h; exact_mod_cast h


/-! ### the downward search -/

theorem floorLogFrom_powLe (b n d : ℕ) (k : ℕ) (s : ℤ) (h : powLe b (s - k) n d = true) :
    powLe b (floorLogFrom b n d k s) n d = true := by
  induction k generalizing s with
  | zero => simpa [floorLogFrom] using h
  | succ k ih =>
    unfold floorLogFrom
    split_ifs with hs
    · exact hs
    · apply ih
      have : s - 1 - (k : ℤ) = s - ((k + 1 : ℕ) : ℤ) := by push_cast; ring
      rw [this]; exact h

theorem floorLogFrom_not_succ (b n d : ℕ) (k : ℕ) (s : ℤ) (h : powLe b (s + 1) n d = false) :
    powLe b (floorLogFrom b n d k s + 1) n d = false := by
  induction k generalizing s with
  | zero => simpa [floorLogFrom] using h
  | succ k ih =>
    unfold floorLogFrom
    split_ifs with hs
    · exact h
    · apply ih
      have : s - 1 + 1 = s := by ring
      rw [this]; simpa using hs

theorem ilog2_le (n d : ℕ) (hn : 0 < n) (hd : 0 < d) : (2 : ℚ) ^ ilog2 n d ≤ (n : ℚ) / d := by
  have hd' : (0 : ℚ) < d := by exact_mod_cast hd
  have key := floorLogFrom_powLe 2 n d 3 ((Nat.log2 n : ℤ) - (Nat.log2 d : ℤ) + 1) ?_
  · rw [powLe_iff 2 (by norm_num) _ n d hd, Nat.cast_ofNat] at key
    exact key
  · rw [powLe_iff 2 (by norm_num) _ n d hd]
    have h1 : (2 : ℚ) ^ Nat.log2 n ≤ n := by exact_mod_cast Nat.log2_self_le (Nat.pos_iff_ne_zero.1 hn)
    have h2 : (d : ℚ) < 2 ^ (Nat.log2 d + 1) := by exact_mod_cast (Nat.lt_log2_self (n := d))
    have e : ((2 : ℕ) : ℚ) ^ ((Nat.log2 n : ℤ) - (Nat.log2 d : ℤ) + 1 - ((3 : ℕ) : ℤ))
        = (2 : ℚ) ^ Nat.log2 n / (2 ^ (Nat.log2 d + 1) * 2) := by
      have : ((Nat.log2 n : ℤ) - (Nat.log2 d : ℤ) + 1 - ((3 : ℕ) : ℤ))
          = (Nat.log2 n : ℤ) - ((Nat.log2 d + 1 : ℕ) : ℤ) - 1 := by push_cast; ring
      rw [this, zpow_sub₀ (by norm_num), zpow_sub₀ (by norm_num), zpow_natCast, zpow_natCast]
      push_cast
      field_simp
    rw [e, div_le_div_iff₀ (by positivity) hd']
    have hp : (0 : ℚ) < 2 ^ Nat.log2 n := by positivity
    nlinarith

/-- `ilog10` is the exact decimal exponent -/
theorem ilog10_spec (n d : ℕ) (hn : 0 < n) (hd : 0 < d) :
    (10 : ℚ) ^ ilog10 n d ≤ (n : ℚ) / d ∧ (n : ℚ) / d < (10 : ℚ) ^ (ilog10 n d + 1) := by
  have hd' : (0 : ℚ) < d := by exact_mod_cast hd
  have hn' : (0 : ℚ) < n := by exact_mod_cast hn
  obtain ⟨n1, n2⟩ := ndigits_spec n hn
  obtain ⟨d1, d2⟩ := ndigits_spec d hd
  have n1' : (10 : ℚ) ^ (ndigits n - 1) ≤ n := by exact_mod_cast n1
  have n2' : (n : ℚ) < 10 ^ ndigits n := by exact_mod_cast n2
  have d1' : (10 : ℚ) ^ (ndigits d - 1) ≤ d := by exact_mod_cast d1
  have d2' : (d : ℚ) < 10 ^ ndigits d := by exact_mod_cast d2
  have hnp : 0 < ndigits n := by
    rcases Nat.eq_zero_or_pos (ndigits n) with h | h
    · rw [h] at n2; omega
    · exact h
  have hdp : 0 < ndigits d := by
    rcases Nat.eq_zero_or_pos (ndigits d) with h | h
    · rw [h] at d2; omega
    · exact h
  have en : (10 : ℚ) ^ ndigits n = 10 ^ (ndigits n - 1) * 10 := by
    rw [← pow_succ]; congr 1; omega
  have ed : (10 : ℚ) ^ ndigits d = 10 ^ (ndigits d - 1) * 10 := by
    rw [← pow_succ]; congr 1; omega
  have pn : (0 : ℚ) < 10 ^ (ndigits n - 1) := by positivity
  have pd : (0 : ℚ) < 10 ^ (ndigits d - 1) := by positivity
  constructor
  · have key := floorLogFrom_powLe 10 n d 4 ((ndigits n : ℤ) - (ndigits d : ℤ) + 1) ?_
    · rw [powLe_iff 10 (by norm_num) _ n d hd, Nat.cast_ofNat] at key
      exact key
    · rw [powLe_iff 10 (by norm_num) _ n d hd]
      have e : ((10 : ℕ) : ℚ) ^ ((ndigits n : ℤ) - (ndigits d : ℤ) + 1 - ((4 : ℕ) : ℤ))
          = (10 : ℚ) ^ (ndigits n - 1) / (10 ^ (ndigits d - 1) * 1000) := by
        have : ((ndigits n : ℤ) - (ndigits d : ℤ) + 1 - ((4 : ℕ) : ℤ))
            = ((ndigits n - 1 : ℕ) : ℤ) - ((ndigits d - 1 : ℕ) : ℤ) - 3 := by
          rw [Nat.cast_sub hnp, Nat.cast_sub hdp]; push_cast; ring
        rw [this, zpow_sub₀ (by norm_num), zpow_sub₀ (by norm_num), zpow_natCast, zpow_natCast]
        push_cast
        field_simp
      rw [e, div_le_div_iff₀ (by positivity) hd']
      nlinarith
  · have key := floorLogFrom_not_succ 10 n d 4 ((ndigits n : ℤ) - (ndigits d : ℤ) + 1) ?_
    · have key' : ¬ (powLe 10 (ilog10 n d + 1) n d = true) := by
        unfold ilog10; rw [key]; simp
      rw [powLe_iff 10 (by norm_num) _ n d hd, not_le, Nat.cast_ofNat] at key'
      exact key'
    · have : ¬ (powLe 10 ((ndigits n : ℤ) - (ndigits d : ℤ) + 1 + 1) n d = true) := by
        rw [powLe_iff 10 (by norm_num) _ n d hd, not_le]
        have e : ((10 : ℕ) : ℚ) ^ ((ndigits n : ℤ) - (ndigits d : ℤ) + 1 + 1)
            = (10 : ℚ) ^ (ndigits n - 1) * 100 / (10 ^ (ndigits d - 1)) := by
          have : ((ndigits n : ℤ) - (ndigits d : ℤ) + 1 + 1)
              = ((ndigits n - 1 : ℕ) : ℤ) - ((ndigits d - 1 : ℕ) : ℤ) + 2 := by
            rw [Nat.cast_sub hnp, Nat.cast_sub hdp]; push_cast; ring
          rw [this, zpow_add₀ (by norm_num), zpow_sub₀ (by norm_num), zpow_natCast, zpow_natCast]
          push_cast
          field_simp
        rw [e, div_lt_div_iff₀ hd' (by positivity)]
        nlinarith
      simpa using this

theorem zpow_ten_lt_iff (a b : ℤ) : (10 : ℚ) ^ a < 10 ^ b ↔ a < b :=
  zpow_lt_zpow_iff_right₀ (by norm_num)

theorem ilog10_eq (n d : ℕ) (hn : 0 < n) (hd : 0 < d) (k : ℤ)
    (h1 : (10 : ℚ) ^ k ≤ (n : ℚ) / d) (h2 : (n : ℚ) / d < (10 : ℚ) ^ (k + 1)) :
    ilog10 n d = k := by
  obtain ⟨s1, s2⟩ := ilog10_spec n d hn hd
  have a := (zpow_ten_lt_iff _ _).1 (lt_of_le_of_lt h1 s2)
  have b := (zpow_ten_lt_iff _ _).1 (lt_of_le_of_lt s1 h2)
  omega

end E2P
