import E2P.Model.Lex
import Mathlib.Data.List.Basic
/-!
  Lemmas about the lexer model: every scanner consumes at least one character; the loop never runs out of fuel.
-/
namespace E2P.Lex

theorem optDollar_length_le (s : List Char) : (optDollar s).length ≤ s.length := by
  cases s with
  | nil => simp [optDollar]
  | cons c r => simp only [optDollar]; split <;> simp

theorem dropWhile_length_le (p : Char → Bool) (s : List Char) : (s.dropWhile p).length ≤ s.length :=
  (List.dropWhile_sublist p).length_le

theorem takeWhile_ne_nil_drop_lt (p : Char → Bool) (s : List Char) (h : s.takeWhile p ≠ []) : (s.dropWhile p).length < s.length := by
  have h1 : (s.takeWhile p ++ s.dropWhile p).length = s.length := by rw [List.takeWhile_append_dropWhile]
  rw [List.length_append] at h1
  have : 0 < (s.takeWhile p).length := List.length_pos_iff.2 h
  omega

theorem optRow_length_le (s : List Char) : (optRow s).2.2.length ≤ s.length := by
  unfold optRow
  simp only
  split
  · simp
  · simp only
    exact Nat.le_trans (dropWhile_length_le _ _) (optDollar_length_le s)

theorem pairedBody_lt (q : Char) (s : List Char) : ∀ (b rest : List Char), pairedBody q s = some (b, rest) → rest.length < s.length := by
  induction s using pairedBody.induct q with
  | case1 => intro b rest h; simp [pairedBody] at h
  | case2 r ih =>
    intro b rest h
    simp only [pairedBody, ↓reduceIte, Option.map_eq_some_iff] at h
    obtain ⟨p, hp, hq⟩ := h
    have := ih p.1 p.2 (by rw [hp])
    simp only [Prod.mk.injEq] at hq
    rw [← hq.2]; simp only [List.length_cons]; omega
  | case3 c r hc =>
    intro b rest h
    simp only [pairedBody, ↓reduceIte, hc, Option.some.injEq, Prod.mk.injEq] at h
    rw [← h.2]; simp
  | case4 =>
    intro b rest h
    simp only [pairedBody, ↓reduceIte, Option.some.injEq, Prod.mk.injEq] at h
    rw [← h.2]; simp
  | case5 c r hc ih =>
    intro b rest h
    unfold pairedBody at h
    simp only [hc, ↓reduceIte, Option.map_eq_some_iff] at h
    obtain ⟨p, hp, hq⟩ := h
    have := ih p.1 p.2 (by rw [hp])
    simp only [Prod.mk.injEq] at hq
    rw [← hq.2]; simp only [List.length_cons]; omega

theorem strBody_lt (q : Char) (s : List Char) : ∀ (b rest : List Char), strBody q s = some (b, rest) → rest.length < s.length := by
  induction s using strBody.induct q with
  | case1 => intro b rest h; simp [strBody] at h
  | case2 r p hp ih =>
    intro b rest h
    simp only [strBody, ↓reduceIte, hp, Option.some.injEq, Prod.mk.injEq] at h
    have := ih p.1 p.2 hp
    rw [← h.2]; simp only [List.length_cons]; omega
  | case3 r hn ih =>
    intro b rest h
    simp only [strBody, ↓reduceIte, hn, Option.some.injEq, Prod.mk.injEq] at h
    rw [← h.2]; simp
  | case4 c r hc =>
    intro b rest h
    simp only [strBody, ↓reduceIte, hc, Option.some.injEq, Prod.mk.injEq] at h
    rw [← h.2]; simp
  | case5 =>
    intro b rest h
    simp only [strBody, ↓reduceIte, Option.some.injEq, Prod.mk.injEq] at h
    rw [← h.2]; simp
  | case6 c r hc ih =>
    intro b rest h
    unfold strBody at h
    simp only [hc, ↓reduceIte, Option.map_eq_some_iff] at h
    obtain ⟨p, hp, hq⟩ := h
    have := ih p.1 p.2 (by rw [hp])
    simp only [Prod.mk.injEq] at hq
    rw [← hq.2]; simp only [List.length_cons]; omega

theorem scanPrefix_le (s : List Char) (t : Option (List Char)) (r : List Char) (h : scanPrefix s = some (t, r)) : r.length ≤ s.length := by
  unfold scanPrefix at h
  split at h
  · rename_i c r0
    split at h
    · split at h
      · rename_i raw c2 rest hb
        split at h
        · simp only [Option.some.injEq, Prod.mk.injEq] at h
          have := pairedBody_lt _ _ _ _ hb
          rw [← h.2]; simp only [List.length_cons] at *; omega
        · cases h
      · cases h
    · split at h
      · rename_i c2 rest hd
        split at h
        · simp only [Option.some.injEq, Prod.mk.injEq] at h
          have := dropWhile_length_le isWord (c :: r0)
          rw [hd] at this
          rw [← h.2]; simp only [List.length_cons] at *; omega
        · cases h
      · cases h
  · cases h

theorem withPrefix_lt {α : Type} (body : Option (List Char) → List Char → Option (α × List Char))
    (hb : ∀ t s x rest, body t s = some (x, rest) → rest.length < s.length)
    (s : List Char) (x : α) (rest : List Char) (h : withPrefix body s = some (x, rest)) : rest.length < s.length := by
  unfold withPrefix at h
  split at h
  · rename_i t r hp
    split at h
    · rename_i y hy
      cases h
      have := hb _ _ _ _ hy
      have := scanPrefix_le _ _ _ hp
      omega
    · exact hb _ _ _ _ h
  · exact hb _ _ _ _ h

theorem cellBody_lt (t : Option (List Char)) (s : List Char) (x : RefCell) (rest : List Char) (h : cellBody t s = some (x, rest)) :
    rest.length < s.length := by
  unfold cellBody at h
  simp only at h
  split at h
  · cases h
  · rename_i hcol
    split at h
    · cases h
    · split at h
      · simp only [Option.some.injEq, Prod.mk.injEq] at h
        have h1 := takeWhile_ne_nil_drop_lt _ _ hcol
        have h2 := optDollar_length_le s
        have h3 := optDollar_length_le ((optDollar s).dropWhile isUp)
        have h4 := dropWhile_length_le isDigit (optDollar ((optDollar s).dropWhile isUp))
        rw [← h.2]; omega
      · cases h

theorem cellTok_lt (s : List Char) (x : RefCell) (rest : List Char) (h : cellTok s = some (x, rest)) : rest.length < s.length :=
  withPrefix_lt cellBody cellBody_lt s x rest h

theorem stripPrefix_length (p s r : List Char) (h : stripPrefix p s = some r) : r.length + p.length = s.length := by
  unfold stripPrefix at h
  split at h
  · rename_i hp
    cases h
    obtain ⟨t, ht⟩ := List.isPrefixOf_iff_prefix.1 hp
    rw [← ht]; simp [Nat.add_comm]
  · cases h

theorem matrixBody_lt (t : Option (List Char)) (s : List Char) (x : RefCell × RefCell) (rest : List Char)
    (h : matrixBody t s = some (x, rest)) : rest.length < s.length := by
  unfold matrixBody at h
  simp only at h
  split at h
  · cases h
  · rename_i hcol
    split at h
    · rename_i colon s3 hs2
      split at h
      · split at h
        · cases h
        · split at h
          · simp only [Option.some.injEq, Prod.mk.injEq] at h
            have h1 := takeWhile_ne_nil_drop_lt _ _ hcol
            have h2 := optDollar_length_le s
            have h3 := optRow_length_le ((optDollar s).dropWhile isUp)
            rw [hs2] at h3
            have h4 := optDollar_length_le s3
            have h5 := dropWhile_length_le isUp (optDollar s3)
            have h6 := optRow_length_le ((optDollar s3).dropWhile isUp)
            simp only [List.length_cons] at h3
            rw [← h.2]; omega
          · cases h
      · cases h
    · cases h

theorem matrixTok_lt (s : List Char) (x : RefCell × RefCell) (rest : List Char) (h : matrixTok s = some (x, rest)) : rest.length < s.length :=
  withPrefix_lt matrixBody matrixBody_lt s x rest h

theorem rangeAlt1_lt (t : Option (List Char)) (s : List Char) (x : RefCell × RefCell) (rest : List Char)
    (h : rangeAlt1 t s = some (x, rest)) : rest.length < s.length := by
  unfold rangeAlt1 at h
  simp only at h
  split at h
  · cases h
  · rename_i hcol
    split at h
    · rename_i colon s3 hs2
      split at h
      · split at h
        · rename_i s5 hs5
          split at h
          · simp only [Option.some.injEq, Prod.mk.injEq] at h
            have h1 := takeWhile_ne_nil_drop_lt _ _ hcol
            have h2 := optDollar_length_le s
            have h3 := optRow_length_le ((optDollar s).dropWhile isUp)
            rw [hs2] at h3
            have h4 := optDollar_length_le s3
            have h5 := stripPrefix_length _ _ _ hs5
            have h6 := optRow_length_le s5
            simp only [List.length_cons] at h3
            rw [← h.2]; omega
          · cases h
        · cases h
      · cases h
    · cases h

theorem rangeAlt2Tail_le (t : Option (List Char)) (c1 g r s4 : List Char) (k : Nat) (x : RefCell × RefCell) (rest : List Char)
    (h : rangeAlt2Tail t c1 g r s4 k = some (x, rest)) : rest.length ≤ s4.length := by
  induction k with
  | zero => simp [rangeAlt2Tail] at h
  | succ k ih =>
    unfold rangeAlt2Tail at h
    simp only at h
    have hdrop : (s4.drop (k + 1)).length ≤ s4.length := by simp
    split at h
    · rename_i rest' hw
      have hr : rest'.length ≤ s4.length := by
        split at hw
        · cases hw
        · split at hw
          · rename_i r' hr'
            cases hw
            have := stripPrefix_length _ _ _ hr'
            have := optDollar_length_le (s4.drop (k + 1))
            omega
          · have := stripPrefix_length _ _ _ hw
            omega
      split at h
      · simp only [Option.some.injEq, Prod.mk.injEq] at h; rw [← h.2]; exact hr
      · split at h
        · simp only [Option.some.injEq, Prod.mk.injEq] at h; rw [← h.2]; exact hdrop
        · exact ih h
    · split at h
      · simp only [Option.some.injEq, Prod.mk.injEq] at h; rw [← h.2]; exact hdrop
      · exact ih h

theorem rangeAlt2_lt (t : Option (List Char)) (s : List Char) (x : RefCell × RefCell) (rest : List Char)
    (h : rangeAlt2 t s = some (x, rest)) : rest.length < s.length := by
  unfold rangeAlt2 at h
  simp only at h
  split at h
  · cases h
  · rename_i hcol
    split at h
    · rename_i colon s3 hs2
      split at h
      · have h0 := rangeAlt2Tail_le _ _ _ _ _ _ _ _ h
        have h1 := takeWhile_ne_nil_drop_lt _ _ hcol
        have h2 := optDollar_length_le s
        have h3 := optRow_length_le ((optDollar s).dropWhile isUp)
        rw [hs2] at h3
        have h4 := optDollar_length_le s3
        simp only [List.length_cons] at h3
        omega
      · cases h
    · cases h

theorem rangeBody_lt (t : Option (List Char)) (s : List Char) (x : RefCell × RefCell) (rest : List Char)
    (h : rangeBody t s = some (x, rest)) : rest.length < s.length := by
  unfold rangeBody at h
  split at h
  · rename_i y hy; cases h; exact rangeAlt1_lt _ _ _ _ hy
  · exact rangeAlt2_lt _ _ _ _ h

theorem rangeTok_lt (s : List Char) (x : RefCell × RefCell) (rest : List Char) (h : rangeTok s = some (x, rest)) : rest.length < s.length :=
  withPrefix_lt rangeBody rangeBody_lt s x rest h

theorem patternTok_lt (s b rest : List Char) (h : patternTok s = some (b, rest)) : rest.length < s.length := by
  unfold patternTok at h
  split at h
  · rename_i q r
    split at h
    · split at h
      · rename_i p hp
        split at h
        · simp only [Option.some.injEq] at h
          have := strBody_lt _ _ p.1 p.2 (by rw [hp])
          rw [h] at this
          simp only [List.length_cons] at *; omega
        · cases h
      · cases h
    · cases h
  · cases h

theorem optFrac_le (s : List Char) : (optFrac s).2.2.length ≤ s.length := by
  unfold optFrac
  split
  · split
    · simp only [List.length_cons]
      exact Nat.le_succ_of_le (dropWhile_length_le _ _)
    · simp
  · simp

theorem optExp_le (s : List Char) : (optExp s).2.2.length ≤ s.length := by
  unfold optExp
  split
  · split
    · split
      · split
        · split
          · simp only [List.length_cons]
            exact Nat.le_succ_of_le (Nat.le_succ_of_le (dropWhile_length_le _ _))
          · simp
        · split
          · simp only [List.length_cons]
            exact Nat.le_succ_of_le (dropWhile_length_le _ _)
          · simp
      · simp
    · simp
  · simp

theorem optCall_le (s : List Char) : (optCall s).length ≤ s.length := by
  unfold optCall
  split
  · split
    · simp only [List.length_cons]; omega
    · simp
  · simp

theorem literalTok_lt (s : List Char) (x : Lit) (rest : List Char) (h : literalTok s = some (x, rest)) : rest.length < s.length := by
  unfold literalTok at h
  split at h
  · cases h
  · rename_i c r
    split at h
    · simp only [Option.map_eq_some_iff, Prod.mk.injEq] at h
      obtain ⟨p, hp, _, hq⟩ := h
      have := strBody_lt _ _ p.1 p.2 (by rw [hp])
      rw [← hq]; simp only [List.length_cons]; omega
    · split at h
      · rename_i hd
        simp only [Option.some.injEq, Prod.mk.injEq] at h
        have h1 : ((c :: r).takeWhile isDigit) ≠ [] := by simp [List.takeWhile, hd]
        have h2 := takeWhile_ne_nil_drop_lt _ _ h1
        have h3 := optFrac_le ((c :: r).dropWhile isDigit)
        have h4 := optExp_le (optFrac ((c :: r).dropWhile isDigit)).2.2
        rw [← h.2]; omega
      · split at h
        · rename_i rest' hs
          simp only [Option.some.injEq, Prod.mk.injEq] at h
          have h1 := stripPrefix_length _ _ _ hs
          have h2 := optCall_le rest'
          have : "TRUE".toList.length = 4 := by decide
          rw [← h.2]; omega
        · split at h
          · rename_i rest' hs
            simp only [Option.some.injEq, Prod.mk.injEq] at h
            have h1 := stripPrefix_length _ _ _ hs
            have h2 := optCall_le rest'
            have : "FALSE".toList.length = 5 := by decide
            rw [← h.2]; omega
          · cases h

theorem matchAlts_lt (as : List (List Char)) (hne : ∀ a ∈ as, a ≠ []) (s rest : List Char) (h : matchAlts as s = some rest) :
    rest.length < s.length := by
  induction as with
  | nil => simp [matchAlts] at h
  | cons a as ih =>
    unfold matchAlts at h
    split at h
    · rename_i r hr
      cases h
      have := stripPrefix_length _ _ _ hr
      have : 0 < a.length := List.length_pos_iff.2 (hne a (by simp))
      omega
    · exact ih (fun a ha => hne a (by simp [ha])) h

/-- what the regenerated table must satisfy for the loop to end: every interpreted class has only non-empty alternatives
    and no class is outside the model -/
def scannerOk : Scanner → Bool
  | .alts as => as.all (fun a => !a.isEmpty)
  | .unsupported => false
  | _ => true

def tableOk (tbl : List (String × Scanner)) : Bool := tbl.all (fun kv => scannerOk kv.2) && tbl.any (fun kv => kv.2 == .undefined)

theorem runScanner_lt (sc : Scanner) (hs : scannerOk sc = true) (s rest : List Char) (h : runScanner sc s = some (some rest)) :
    rest.length < s.length := by
  cases sc with
  | matrix =>
    simp only [runScanner, Option.some.injEq, Option.map_eq_some_iff] at h
    obtain ⟨p, hp, hq⟩ := h
    rw [← hq]; exact matrixTok_lt s p.1 p.2 hp
  | range =>
    simp only [runScanner, Option.some.injEq, Option.map_eq_some_iff] at h
    obtain ⟨p, hp, hq⟩ := h
    rw [← hq]; exact rangeTok_lt s p.1 p.2 hp
  | cell =>
    simp only [runScanner, Option.some.injEq, Option.map_eq_some_iff] at h
    obtain ⟨p, hp, hq⟩ := h
    rw [← hq]; exact cellTok_lt s p.1 p.2 hp
  | pattern =>
    simp only [runScanner, Option.some.injEq, Option.map_eq_some_iff] at h
    obtain ⟨p, hp, hq⟩ := h
    rw [← hq]; exact patternTok_lt s p.1 p.2 hp
  | literal =>
    simp only [runScanner, Option.some.injEq, Option.map_eq_some_iff] at h
    obtain ⟨p, hp, hq⟩ := h
    rw [← hq]; exact literalTok_lt s p.1 p.2 hp
  | never => simp [runScanner] at h
  | undefined => simp [runScanner] at h
  | unsupported => simp [runScanner] at h
  | alts as =>
    simp only [runScanner, Option.some.injEq] at h
    refine matchAlts_lt as ?_ s rest h
    intro a ha hnil
    simp only [scannerOk, List.all_eq_true] at hs
    have := hs a ha
    simp [hnil] at this

theorem lexOne_tok_lt (tbl : List (String × Scanner)) (hok : tbl.all (fun kv => scannerOk kv.2) = true) (s : List Char) (cls : String)
    (rest : List Char) (h : lexOne tbl s = .tok cls rest) : rest.length < s.length := by
  induction tbl with
  | nil => simp [lexOne] at h
  | cons kv more ih =>
    obtain ⟨c, sc⟩ := kv
    simp only [List.all_cons, Bool.and_eq_true] at hok
    unfold lexOne at h
    split at h
    · cases h
    · cases h
    · split at h
      · rename_i r hr
        simp only [One.tok.injEq] at h
        rw [← h.2]
        exact runScanner_lt sc hok.1 s r hr
      · exact ih hok.2 h

theorem lexOne_ne_nomatch (tbl : List (String × Scanner)) (hu : tbl.any (fun kv => kv.2 == .undefined) = true) (s : List Char) :
    lexOne tbl s ≠ .nomatch := by
  induction tbl with
  | nil => simp at hu
  | cons kv more ih =>
    obtain ⟨c, sc⟩ := kv
    unfold lexOne
    split
    · simp
    · simp
    · rename_i h1 h2
      split
      · simp
      · apply ih
        simp only [List.any_cons, Bool.or_eq_true] at hu
        rcases hu with hu | hu
        · exfalso; apply h1; simpa using hu
        · exact hu

theorem lexOne_ne_unsupported (tbl : List (String × Scanner)) (hok : tbl.all (fun kv => scannerOk kv.2) = true) (s : List Char) :
    lexOne tbl s ≠ .unsupported := by
  induction tbl with
  | nil => simp [lexOne]
  | cons kv more ih =>
    obtain ⟨c, sc⟩ := kv
    simp only [List.all_cons, Bool.and_eq_true] at hok
    unfold lexOne
    split
    · simp
    · simp [scannerOk] at hok
    · split
      · simp
      · exact ih hok.2

/-- outcomes with which the real loop ends: a token list, or one of the two parser exceptions -/
def LexRes.ends : LexRes → Prop
  | .ok _ => True
  | .undefined _ => True
  | .tooLarge => True
  | _ => False

theorem lexLoop_ends (tbl : List (String × Scanner)) (hok : tableOk tbl = true) : ∀ (n : Nat) (s : List Char), s.length < n → (lexLoop tbl n s).ends := by
  simp only [tableOk, Bool.and_eq_true] at hok
  intro n
  induction n with
  | zero => intro s h; omega
  | succ n ih =>
    intro s hs
    unfold lexLoop
    simp only
    split
    · trivial
    · have hle := dropWhile_length_le isWs s
      split
      · rename_i cls rest hone
        have hlt := lexOne_tok_lt tbl hok.1 _ cls rest hone
        split
        · trivial
        · skip
          have := ih rest (by omega)
          split
          · trivial
          · rename_i e he
            revert this
            cases hres : lexLoop tbl n rest <;> simp_all [LexRes.ends]
      · trivial
      · rename_i hone; exact absurd hone (lexOne_ne_unsupported tbl hok.1 _)
      · rename_i hone; exact absurd hone (lexOne_ne_nomatch tbl hok.2 _)

theorem strip_length_le (s : List Char) : (strip s).length ≤ s.length := by
  unfold strip
  rw [List.length_reverse]
  refine Nat.le_trans (dropWhile_length_le _ _) ?_
  rw [List.length_reverse]
  exact dropWhile_length_le _ _

/-- **The lexer ends on every text**: for a table that passes `tableOk`, `Lexer.parse` returns tokens or raises one of the two
    parser exceptions — the `while` loop never spins and the model never runs out of fuel. -/
theorem lex_ends (tbl : List (String × Scanner)) (hok : tableOk tbl = true) (s : List Char) : (lex tbl s).ends :=
  lexLoop_ends tbl hok _ _ (by have := strip_length_le s; omega)

end E2P.Lex
