/-
  E2P.Lemmas.LookupBin — what the `_binary_search` loop computes on a column that runs in one direction
  (helper lemmas for property C14, XMATCH search modes 2 and -2).
-/
import E2P.Model.Lookup
import E2P.Lemmas.LookupOrder
namespace E2P.LookupBin
open E2P E2P.LookupOrder

theorem lt_trans' {a b c : Rat} (h1 : a < b) (h2 : b < c) : a < c := by
  grind

theorem bsLt_true_iff (a b : Val) :
    bsLt a b = some true ↔
      (∃ x y, a = .str x ∧ b = .str y ∧ strLt x y = true) ∨ (lkind a = some .num ∧ lkind b = some .num ∧ lnum a < lnum b) := by
  cases a <;> cases b <;> simp [bsLt, lkind]

theorem bsLt_false_iff (a b : Val) :
    bsLt a b = some false ↔
      (∃ x y, a = .str x ∧ b = .str y ∧ strLt x y = false) ∨ (lkind a = some .num ∧ lkind b = some .num ∧ ¬ lnum a < lnum b) := by
  cases a <;> cases b <;> simp [bsLt, lkind]

theorem bsLt_isSome (k : LKind) (a b : Val) (ha : lkind a = some k) (hb : lkind b = some k) : ∃ r, bsLt a b = some r := by
  cases k with
  | num => exact ⟨decide (lnum a < lnum b), by cases a <;> cases b <;> simp_all [bsLt, lkind]⟩
  | str =>
    obtain ⟨x, rfl⟩ := str_of_kind a ha
    obtain ⟨y, rfl⟩ := str_of_kind b hb
    exact ⟨strLt x y, rfl⟩

theorem bsLt_trans (a b c : Val) (h1 : bsLt a b = some true) (h2 : bsLt b c = some true) : bsLt a c = some true := by
  rw [bsLt_true_iff] at h1 h2 ⊢
  rcases h1 with ⟨x, y, rfl, rfl, hxy⟩ | ⟨ha, hb, hab⟩
  · rcases h2 with ⟨y', z, hy, rfl, hyz⟩ | ⟨hb, _, _⟩
    · cases hy
      exact Or.inl ⟨x, z, rfl, rfl, strLt_trans x y z hxy hyz⟩
    · simp [lkind] at hb
  · rcases h2 with ⟨y', z, rfl, rfl, _⟩ | ⟨_, hc, hbc⟩
    · simp [lkind] at hb
    · exact Or.inr ⟨ha, hc, lt_trans' hab hbc⟩

theorem pyLt_eq (a b : Val) (ha : a ≠ .blank) (hb : b ≠ .blank) : pyLt a b = bsLt a b := by
  cases a <;> cases b <;> simp_all [pyLt]

theorem pyGt_eq (a b : Val) (ha : a ≠ .blank) (hb : b ≠ .blank) : pyGt a b = bsLt b a := by
  cases a <;> cases b <;> simp_all [pyGt]

/-- the key equals the lookup value in Python's order: neither is smaller -/
def BsEq (k v : Val) : Prop := bsLt k v = some false ∧ bsLt v k = some false

/-- two keys that both equal the lookup value are not ordered strictly -/
theorem not_lt_of_eq (a b v : Val) (ha : BsEq a v) (hb : BsEq b v) : bsLt a b ≠ some true := by
  intro h
  obtain ⟨ha1, ha2⟩ := ha
  obtain ⟨hb1, hb2⟩ := hb
  rw [bsLt_false_iff] at ha1 ha2 hb1 hb2
  rw [bsLt_true_iff] at h
  rcases h with ⟨x, y, rfl, rfl, hxy⟩ | ⟨hka, hkb, hab⟩
  · rcases ha1 with ⟨x', w, hx, rfl, h1⟩ | ⟨hk, _, _⟩
    · cases hx
      rcases ha2 with ⟨w', x', hw, hx, h2⟩ | ⟨hk, _, _⟩
      · cases hw; cases hx
        rcases hb1 with ⟨y', w', hy, hw, h3⟩ | ⟨hk, _, _⟩
        · cases hy; cases hw
          rcases hb2 with ⟨w', y', hw, hy, h4⟩ | ⟨hk, _, _⟩
          · cases hw; cases hy
            have e1 : x = w := by
              rcases strLt_tri x w with h | h | h
              · rw [h.1] at h1; cases h1
              · exact h.2.1
              · rw [h.2.2] at h2; cases h2
            have e2 : y = w := by
              rcases strLt_tri y w with h | h | h
              · rw [h.1] at h3; cases h3
              · exact h.2.1
              · rw [h.2.2] at h4; cases h4
            subst e1; subst e2
            rw [strLt_irrefl] at hxy; cases hxy
          · simp [lkind] at hk
        · simp [lkind] at hk
      · simp [lkind] at hk
    · simp [lkind] at hk
  · rcases ha1 with ⟨x', w, rfl, _, _⟩ | ⟨_, hkv, h1⟩
    · simp [lkind] at hka
    · rcases ha2 with ⟨w', x', rfl, _, _⟩ | ⟨_, _, h2⟩
      · simp [lkind] at hkv
      · rcases hb1 with ⟨y', w', rfl, _, _⟩ | ⟨_, _, h3⟩
        · simp [lkind] at hkb
        · rcases hb2 with ⟨w', y', rfl, _, _⟩ | ⟨_, _, h4⟩
          · simp [lkind] at hkv
          · have e1 : lnum a = lnum v := Rat.le_antisymm (Rat.not_lt.mp h2) (Rat.not_lt.mp h1)
            have e2 : lnum b = lnum v := Rat.le_antisymm (Rat.not_lt.mp h4) (Rat.not_lt.mp h3)
            rw [e1, e2] at hab
            exact absurd hab (Rat.lt_irrefl)

/-- the key lies before the lookup value in the direction the column runs -/
def Lside (rev : Bool) (v k : Val) : Prop := (if rev then bsLt v k else bsLt k v) = some true
/-- the key lies after it -/
def Rside (rev : Bool) (v k : Val) : Prop := (if rev then bsLt k v else bsLt v k) = some true
/-- `a` stands before `b` in a column of that direction -/
def Before (rev : Bool) (a b : Val) : Prop := (if rev then bsLt b a else bsLt a b) = some true

/-- what the loop needs of the column: every key can be compared with the value, and the column runs in one direction -/
structure Ok (keys : List Val) (v : Val) (rev : Bool) : Prop where
  nbv : v ≠ .blank
  nbk : ∀ (j : Nat) k, keys[j]? = some k → k ≠ .blank
  comp : ∀ (j : Nat) k, keys[j]? = some k → (∃ r, bsLt k v = some r) ∧ (∃ r, bsLt v k = some r)
  monoL : ∀ (i j : Nat) ki kj, i < j → keys[i]? = some ki → keys[j]? = some kj → Lside rev v kj → Lside rev v ki
  monoR : ∀ (i j : Nat) ki kj, i < j → keys[i]? = some ki → keys[j]? = some kj → Rside rev v ki → Rside rev v kj

theorem ok_of_sorted (kd : LKind) (keys : List Val) (v : Val) (rev : Bool) (hv : lkind v = some kd)
    (hk : ∀ k ∈ keys, lkind k = some kd) (hnb : ∀ k ∈ v :: keys, k ≠ .blank)
    (hs : ∀ (i j : Nat) ki kj, i < j → keys[i]? = some ki → keys[j]? = some kj → Before rev ki kj) : Ok keys v rev := by
  refine ⟨hnb v (List.mem_cons_self), fun j k hj => hnb k (List.mem_cons_of_mem _ (List.mem_of_getElem? hj)), ?_, ?_, ?_⟩
  · intro j k hj
    have hm : k ∈ keys := List.mem_of_getElem? hj
    exact ⟨bsLt_isSome kd k v (hk k hm) hv, bsLt_isSome kd v k hv (hk k hm)⟩
  · intro i j ki kj hij hi hj hL
    have hb := hs i j ki kj hij hi hj
    unfold Lside at *; unfold Before at hb
    cases rev
    · simp only [Bool.false_eq_true, if_false] at *
      exact bsLt_trans ki kj v hb hL
    · simp only [if_true] at *
      exact bsLt_trans v kj ki hL hb
  · intro i j ki kj hij hi hj hR
    have hb := hs i j ki kj hij hi hj
    unfold Rside at *; unfold Before at hb
    cases rev
    · simp only [Bool.false_eq_true, if_false] at *
      exact bsLt_trans v ki kj hR hb
    · simp only [if_true] at *
      exact bsLt_trans kj ki v hb hR

/-- the loop: it ends without an exception, the two neighbour indices stay inside the column, and either no key equals the value
(every key lies strictly on one side) or `exact` is the index of a key that equals it -/
theorem bsLoop_spec (keys : List Val) (v : Val) (rev : Bool) (h : Ok keys v rev) (first last ns nl : Int)
    (h0 : 0 ≤ first) (h1 : last < keys.length) (hns : 0 ≤ ns ∧ ns < keys.length) (hnl : 0 ≤ nl ∧ nl < keys.length)
    (hinv : ∀ (j : Nat) k, keys[j]? = some k → (((j : Int) < first → Lside rev v k) ∧ (last < (j : Int) → Rside rev v k))) :
    ∃ e ns' nl', bsLoop keys v rev first last ns nl = .ok (e, ns', nl') ∧ (0 ≤ ns' ∧ ns' < keys.length) ∧ (0 ≤ nl' ∧ nl' < keys.length) ∧
      ((e = -1 ∧ ∀ (j : Nat) k, keys[j]? = some k → Lside rev v k ∨ Rside rev v k) ∨
       (0 ≤ e ∧ ∃ k, keys[e.toNat]? = some k ∧ BsEq k v)) := by
  fun_induction bsLoop keys v rev first last ns nl with
  | case1 first last ns nl hle mid hnone =>
    exfalso
    have : mid.toNat < keys.length := by omega
    rw [List.getElem?_eq_none_iff] at hnone
    omega
  | case2 first last ns nl hle mid k hk lt gt hgt hlt left hleft ih =>
    rw [pyGt_eq k v (h.nbk _ _ hk) h.nbv] at hgt
    rw [pyLt_eq k v (h.nbk _ _ hk) h.nbv] at hlt
    have hmid : 0 ≤ mid ∧ mid < keys.length := by constructor <;> omega
    apply ih (by omega) h1
    · cases rev <;> simp <;> omega
    · cases rev <;> simp <;> omega
    · intro j kj hj
      refine ⟨fun hjl => ?_, fun hjl => (hinv j kj hj).2 hjl⟩
      have hL : Lside rev v k := by
        unfold Lside
        cases rev
        · simp only [Bool.false_eq_true, if_false] at *; rw [hlt]; simp [left] at hleft; rw [hleft]
        · simp only [if_true] at *; rw [hgt]; simp [left] at hleft; rw [hleft]
      by_cases hjm : (j : Int) = mid
      · have : j = mid.toNat := by omega
        subst this
        rw [hk] at hj; cases hj; exact hL
      · exact h.monoL j mid.toNat kj k (by omega) hj hk hL
  | case3 first last ns nl hle mid k hk lt gt hgt hlt left right hleft hright ih =>
    rw [pyGt_eq k v (h.nbk _ _ hk) h.nbv] at hgt
    rw [pyLt_eq k v (h.nbk _ _ hk) h.nbv] at hlt
    have hmid : 0 ≤ mid ∧ mid < keys.length := by constructor <;> omega
    apply ih h0 (by omega)
    · cases rev <;> simp <;> omega
    · cases rev <;> simp <;> omega
    · intro j kj hj
      refine ⟨fun hjl => (hinv j kj hj).1 hjl, fun hjl => ?_⟩
      have hR : Rside rev v k := by
        unfold Rside
        cases rev
        · simp only [Bool.false_eq_true, if_false] at *; rw [hgt]; simp [right] at hright; rw [hright]
        · simp only [if_true] at *; rw [hlt]; simp [right] at hright; rw [hright]
      by_cases hjm : (j : Int) = mid
      · have : j = mid.toNat := by omega
        subst this
        rw [hk] at hj; cases hj; exact hR
      · exact h.monoR mid.toNat j k kj (by omega) hk hj hR
  | case4 first last ns nl hle mid k hk lt gt hgt hlt left right hleft hright =>
    rw [pyGt_eq k v (h.nbk _ _ hk) h.nbv] at hgt
    rw [pyLt_eq k v (h.nbk _ _ hk) h.nbv] at hlt
    have hmid : 0 ≤ mid ∧ mid < keys.length := by constructor <;> omega
    refine ⟨mid, mid, mid, rfl, hmid, hmid, Or.inr ⟨hmid.1, k, hk, ?_⟩⟩
    unfold BsEq
    cases rev <;> simp [left, right] at hleft hright <;> simp_all
  | case5 first last ns nl hle mid k hk hno =>
    exfalso
    obtain ⟨⟨r1, e1⟩, ⟨r2, e2⟩⟩ := h.comp mid.toNat k hk
    exact hno r1 r2 (by rw [pyLt_eq k v (h.nbk _ _ hk) h.nbv]; exact e1) (by rw [pyGt_eq k v (h.nbk _ _ hk) h.nbv]; exact e2)
  | case6 first last ns nl hgt =>
    refine ⟨-1, ns, nl, rfl, hns, hnl, Or.inl ⟨rfl, ?_⟩⟩
    intro j k hj
    by_cases hjf : (j : Int) < first
    · exact Or.inl ((hinv j k hj).1 hjf)
    · exact Or.inr ((hinv j k hj).2 (by omega))

/-- `_binary_search` on a non-empty column that runs in one direction: no exception, and `exact` is -1 exactly when no key equals
the value, else the index of a key that equals it -/
theorem binarySearch_spec (keys : List Val) (v : Val) (rev : Bool) (h : Ok keys v rev) (hne : keys ≠ []) :
    ∃ e ns nl, binarySearch keys v rev = .ok (e, ns, nl) ∧
      ((e = -1 ∧ ∀ (j : Nat) k, keys[j]? = some k → Lside rev v k ∨ Rside rev v k) ∨
       (0 ≤ e ∧ ∃ k, keys[e.toNat]? = some k ∧ BsEq k v)) := by
  have hlen : 0 < keys.length := List.length_pos_iff.mpr hne
  have hemp : keys.isEmpty = false := by cases keys <;> simp_all
  obtain ⟨e, ns', nl', hloop, hns', hnl', hres⟩ :=
    bsLoop_spec keys v rev h 0 ((keys.length : Int) - 1) (if rev then (keys.length : Int) - 1 else 0)
      (if rev then 0 else (keys.length : Int) - 1) (by omega) (by omega) (by cases rev <;> simp <;> omega) (by cases rev <;> simp <;> omega)
      (by
        intro j k hj
        have : j < keys.length := (List.getElem?_eq_some_iff.mp hj).1
        exact ⟨fun hh => by omega, fun hh => by omega⟩)
  have hs1 : ns'.toNat < keys.length := by omega
  have hs2 : nl'.toNat < keys.length := by omega
  obtain ⟨⟨_, _⟩, ⟨r1, e1⟩⟩ := h.comp ns'.toNat keys[ns'.toNat] (List.getElem?_eq_getElem hs1)
  obtain ⟨⟨r2, e2⟩, ⟨_, _⟩⟩ := h.comp nl'.toNat keys[nl'.toNat] (List.getElem?_eq_getElem hs2)
  refine ⟨e, if r1 then -1 else ns', if r2 then -1 else nl', ?_, hres⟩
  unfold binarySearch
  have g1 := pyGt_eq keys[ns'.toNat] v (h.nbk _ _ (List.getElem?_eq_getElem hs1)) h.nbv
  have g2 := pyLt_eq keys[nl'.toNat] v (h.nbk _ _ (List.getElem?_eq_getElem hs2)) h.nbv
  simp only [hemp, Bool.false_eq_true, if_false, hloop, List.getElem?_eq_getElem hs1, List.getElem?_eq_getElem hs2, g1, g2, e1, e2]

/-! ### neighbours strictly ordered ⇒ every pair ordered -/

theorem before_trans (rev : Bool) (a b c : Val) (h1 : Before rev a b) (h2 : Before rev b c) : Before rev a c := by
  unfold Before at *
  cases rev
  · simp only [Bool.false_eq_true, if_false] at *; exact bsLt_trans a b c h1 h2
  · simp only [if_true] at *; exact bsLt_trans c b a h2 h1

theorem head_before_all (rev : Bool) (rest : List Val) : ∀ (a : Val), strictlyRuns rev (a :: rest) = true → ∀ k ∈ rest, Before rev a k := by
  induction rest with
  | nil => intro a _ k hk; cases hk
  | cons b rest ih =>
    intro a h k hk
    simp only [strictlyRuns, Bool.and_eq_true, beq_iff_eq] at h
    rcases List.mem_cons.mp hk with rfl | hk
    · exact h.1
    · exact before_trans rev a b k h.1 (ih b h.2 k hk)

theorem strictlyRuns_tail (rev : Bool) (a : Val) (rest : List Val) (h : strictlyRuns rev (a :: rest) = true) : strictlyRuns rev rest = true := by
  cases rest with
  | nil => rfl
  | cons b rest => simp only [strictlyRuns, Bool.and_eq_true] at h; exact h.2

theorem strictlyRuns_before (rev : Bool) (keys : List Val) (h : strictlyRuns rev keys = true) :
    ∀ (i j : Nat) ki kj, i < j → keys[i]? = some ki → keys[j]? = some kj → Before rev ki kj := by
  induction keys with
  | nil => intro i j ki kj _ hi; simp at hi
  | cons a rest ih =>
    intro i j ki kj hij hi hj
    cases j with
    | zero => omega
    | succ j' =>
      rw [List.getElem?_cons_succ] at hj
      cases i with
      | zero =>
        simp only [List.getElem?_cons_zero, Option.some.injEq] at hi
        subst hi
        exact head_before_all rev rest a h kj (List.mem_of_getElem? hj)
      | succ i' =>
        rw [List.getElem?_cons_succ] at hi
        exact ih (strictlyRuns_tail rev a rest h) i' j' ki kj (by omega) hi hj

end E2P.LookupBin
