/-
  E2P.Lemmas.Dec15 — a decimal with at most 15 significant digits survives the round trip
  decimal → double → `'{:.15g}'`, also after one correctly rounded division by 100.
-/
import E2P.Lemmas.Dec15Round
namespace E2P

theorem decimal_eq (neg : Bool) (digits : ℕ) (exp : ℤ) :
    decimal neg digits exp = signed neg ((digits : ℚ) * (10 : ℚ) ^ exp) := by
  unfold decimal
  congr 1
  split_ifs with h
  · rw [zpow_nonneg_eq _ _ h]; push_cast; ring
  · rw [zpow_neg_eq _ _ h, Rat.mkRat_eq_div]; push_cast; ring

/-- a positive decimal with at most 15 digits can be written with exactly 15 digits -/
theorem normalise15 (digits : ℕ) (exp : ℤ) (h0 : 0 < digits) (h : digits < 10 ^ 15) :
    ∃ (Z : ℕ) (e : ℤ), 10 ^ 14 ≤ Z ∧ Z < 10 ^ 15 ∧
      (digits : ℚ) * (10 : ℚ) ^ exp = (Z : ℚ) * (10 : ℚ) ^ e := by
  have l1 : 10 ^ Nat.log 10 digits ≤ digits := Nat.pow_log_le_self 10 h0.ne'
  have l2 : digits < 10 ^ (Nat.log 10 digits + 1) := Nat.lt_pow_succ_log_self (by norm_num) digits
  generalize Nat.log 10 digits = D at l1 l2
  have hD : D < 15 := (Nat.pow_lt_pow_iff_right (by norm_num : 1 < 10)).1 (lt_of_le_of_lt l1 h)
  refine ⟨digits * 10 ^ (14 - D), exp - ((14 - D : ℕ) : ℤ), ?_, ?_, ?_⟩
  · calc 10 ^ 14 = 10 ^ D * 10 ^ (14 - D) := by rw [← pow_add]; congr 1; omega
      _ ≤ digits * 10 ^ (14 - D) := Nat.mul_le_mul_right _ l1
  · calc digits * 10 ^ (14 - D) < 10 ^ (D + 1) * 10 ^ (14 - D) :=
        Nat.mul_lt_mul_of_pos_right l2 (by positivity)
      _ = 10 ^ 15 := by rw [← pow_add]; congr 1; omega
  · rw [zpow_sub₀ (by norm_num), zpow_natCast]
    push_cast
    field_simp

/-- the core: anything within relative distance `1 / (4·10^15)` of a 15-digit decimal prints as
that decimal -/
theorem round15_close_norm (Z : ℕ) (e : ℤ) (hZ1 : 10 ^ 14 ≤ Z) (hZ2 : Z < 10 ^ 15) (y : ℚ)
    (hy : |y - (Z : ℚ) * (10 : ℚ) ^ e| ≤ (Z : ℚ) * (10 : ℚ) ^ e / (4 * 10 ^ 15)) :
    round15 y = (Z : ℚ) * (10 : ℚ) ^ e := by
  have hu : (0 : ℚ) < (10 : ℚ) ^ e := by positivity
  have z1 : (10 : ℚ) ^ 14 ≤ Z := by exact_mod_cast hZ1
  have z2 : (Z : ℚ) ≤ 10 ^ 15 - 1 := by
    have : Z + 1 ≤ 10 ^ 15 := hZ2
    have : ((Z + 1 : ℕ) : ℚ) ≤ 10 ^ 15 := by exact_mod_cast this
    push_cast at this; linarith
  have zu1 : (10 : ℚ) ^ 14 * (10 : ℚ) ^ e ≤ (Z : ℚ) * (10 : ℚ) ^ e :=
    mul_le_mul_of_nonneg_right z1 hu.le
  have zu2 : (Z : ℚ) * (10 : ℚ) ^ e ≤ (10 ^ 15 - 1) * (10 : ℚ) ^ e :=
    mul_le_mul_of_nonneg_right z2 hu.le
  have ea : (10 : ℚ) ^ (e + 14) = (10 : ℚ) ^ 14 * (10 : ℚ) ^ e := by
    rw [zpow_add₀ (by norm_num)]; norm_num; ring
  have eb : (10 : ℚ) ^ (e + 14 + 1) = (10 : ℚ) ^ 15 * (10 : ℚ) ^ e := by
    rw [zpow_add₀ (by norm_num), zpow_add₀ (by norm_num)]; norm_num; ring
  have ec : (10 : ℚ) ^ (e + 13) = (10 : ℚ) ^ 13 * (10 : ℚ) ^ e := by
    rw [zpow_add₀ (by norm_num)]; norm_num; ring
  have ed : (10 : ℚ) ^ (e + 13 - 14) = (10 : ℚ) ^ e / 10 := by
    have : e + 13 - 14 = e - 1 := by ring
    rw [this, zpow_sub₀ (by norm_num)]; norm_num
  generalize hU : (10 : ℚ) ^ e = u at *
  generalize hW : (Z : ℚ) * u = w at *
  rw [abs_le] at hy
  obtain ⟨y1, y2⟩ := hy
  have hq : 0 < y := by
    have : (10 : ℚ) ^ 14 * u > 0 := by positivity
    linarith
  by_cases hA : (10 : ℚ) ^ 14 * u ≤ y
  · by_cases hB : y < (10 : ℚ) ^ 15 * u
    · have := round15_eq y hq (e + 14) (by rw [ea]; exact hA) (by rw [eb]; exact hB) Z
      have e14 : e + 14 - 14 = e := by ring
      rw [e14, hU, hW] at this
      apply this
      rw [abs_lt]
      constructor <;> linarith
    · exfalso
      rw [not_lt] at hB
      linarith
  · rw [not_le] at hA
    have hZ : Z = 10 ^ 14 := by
      have : (Z : ℚ) * u < (10 ^ 14 + 1) * u := by rw [hW]; linarith
      have : (Z : ℚ) < 10 ^ 14 + 1 := lt_of_mul_lt_mul_right this hu.le
      have : (Z : ℚ) < ((10 ^ 14 + 1 : ℕ) : ℚ) := by push_cast; linarith
      have : Z < 10 ^ 14 + 1 := by exact_mod_cast this
      omega
    have hw : w = (10 : ℚ) ^ 14 * u := by rw [← hW, hZ]; push_cast; ring
    have := round15_eq y hq (e + 13) (by rw [ec]; linarith) (by
      have : e + 13 + 1 = e + 14 := by ring
      rw [this, ea]; exact hA) (10 ^ 15)
    rw [ed] at this
    have e2 : ((10 ^ 15 : ℕ) : ℚ) * (u / 10) = w := by rw [hw]; push_cast; ring
    rw [e2] at this
    apply this
    rw [abs_lt]
    constructor <;> linarith

theorem round15_close (digits : ℕ) (exp : ℤ) (h0 : 0 < digits) (h : digits < 10 ^ 15) (y : ℚ)
    (hy : |y - (digits : ℚ) * (10 : ℚ) ^ exp| ≤ (digits : ℚ) * (10 : ℚ) ^ exp / (4 * 10 ^ 15)) :
    round15 y = (digits : ℚ) * (10 : ℚ) ^ exp := by
  obtain ⟨Z, e, h1, h2, h3⟩ := normalise15 digits exp h0 h
  rw [h3] at hy ⊢
  exact round15_close_norm Z e h1 h2 y hy

/-- printing the double nearest to a decimal of at most 15 significant digits with 15 significant digits gives the decimal back -/
theorem dec15_recover (neg : Bool) (digits : Nat) (exp : Int) (h : digits < 10 ^ 15) :
    round15 (rn (decimal neg digits exp)) = decimal neg digits exp := by
  rw [decimal_eq, rn_signed, round15_signed]
  congr 1
  rcases Nat.eq_zero_or_pos digits with h0 | h0
  · subst h0; simp [rn_zero, round15_zero]
  · have hx : (0 : ℚ) < (digits : ℚ) * (10 : ℚ) ^ exp := by positivity
    apply round15_close digits exp h0 h
    refine (rn_err _ hx).trans ?_
    rw [div_le_div_iff₀ (by positivity) (by positivity)]
    have : (4 * 10 ^ 15 : ℚ) ≤ 2 ^ 53 := by norm_num
    exact mul_le_mul_of_nonneg_left this hx.le

/-- same after one correctly rounded division by 100 (percent): for at most 13 significant digits -/
theorem percent_recover (neg : Bool) (digits : Nat) (exp : Int) (h : digits < 10 ^ 13) :
    round15 (rn (rn (decimal neg digits exp) / 100)) = decimal neg digits exp / 100 := by
  rw [decimal_eq, rn_signed, signed_div, rn_signed, round15_signed, signed_div]
  congr 1
  rcases Nat.eq_zero_or_pos digits with h0 | h0
  · subst h0; simp [rn_zero, round15_zero]
  · have hx : (0 : ℚ) < (digits : ℚ) * (10 : ℚ) ^ exp := by positivity
    have ew : (digits : ℚ) * (10 : ℚ) ^ exp / 100 = (digits : ℚ) * (10 : ℚ) ^ (exp - 2) := by
      rw [zpow_sub₀ (by norm_num)]; norm_num; ring
    have h15 : digits < 10 ^ 15 := lt_trans h (by norm_num)
    have e1 := rn_err _ hx
    generalize (digits : ℚ) * (10 : ℚ) ^ exp = x at *
    rw [abs_le] at e1
    obtain ⟨a1, a2⟩ := e1
    have hy1 : 0 < rn x := by
      have : x / 2 ^ 53 < x := by
        rw [div_lt_iff₀ (by positivity)]
        have : x * 1 < x * 2 ^ 53 := mul_lt_mul_of_pos_left (by norm_num) hx
        linarith
      linarith
    have e2 := rn_err (rn x / 100) (by positivity)
    generalize rn x = y1 at *
    rw [abs_le] at e2
    obtain ⟨b1, b2⟩ := e2
    rw [ew]
    apply round15_close digits (exp - 2) h0 h15
    rw [← ew]
    generalize rn (y1 / 100) = y2 at *
    rw [abs_le]
    have c1 : y1 / 100 / 2 ^ 53 = y1 / (100 * 2 ^ 53) := by rw [div_div]
    have c2 : x / 100 / (4 * 10 ^ 15) = x / (4 * 10 ^ 17) := by rw [div_div]; norm_num
    rw [c1] at b1 b2
    rw [c2]
    constructor
    · linarith
    · linarith

end E2P
