/-
  E2P.Lemmas.PegSteps — the memoised parser executes `_get` at most once per (class, number of remaining tokens).

  The state logs the key of every `_get` execution (`MemoSt.log`; `calls` is its length).  For a grammar whose head-symbol
  relation is ranked (no left recursion: `RankOK`, the hypothesis of the depth bound of C06) the log never repeats a key:
  a key is executed only when the table has no entry for it, every completed execution leaves its entry, and the
  executions still in progress all have a strictly larger measure `remaining tokens * (R+1) + rank` than the one that
  starts.  Hence `calls ≤ |composite classes| * (tokens + 1)`, whatever the outcome (tree, rejection, exception).
-/
import E2P.Model.PegMemo
import Mathlib.Data.List.Perm.Subperm
import Mathlib.Data.List.ProdSigma
import Mathlib.Tactic.Linarith
namespace E2P.PegSteps
open E2P

variable (G : Grammar) (rk : String → Nat) (R N : Nat)

def mu (k : String × Nat) : Nat := k.2 * (R + 1) + rk k.1

def has (s : MemoSt) (k : String × Nat) : Prop := (s.find k).isSome = true

def PRes.normal : PRes → Prop
  | .ok _ _ => True
  | .none => True
  | _ => False

def SeqRes.normal : SeqRes → Prop
  | .done _ _ _ => True
  | .fail _ => True
  | _ => False

/-- the log has no repetition and stays inside the key space; stored trees consumed at least one token -/
structure Good (s : MemoSt) : Prop where
  nodup : s.log.Nodup
  inKS : ∀ k ∈ s.log, k.1 ∈ G.composites ∧ k.2 ≤ N
  shorter : ∀ c n t rest, s.find (c, n) = some (.ok t rest) → rest.length < n

/-- the table only grows, and every newly logged key has its entry -/
structure Frame (s s' : MemoSt) : Prop where
  grow : ∀ k, has s k → has s' k
  done : ∀ k ∈ s'.log, has s' k ∨ k ∈ s.log

theorem Frame.refl (s : MemoSt) : Frame s s := ⟨fun _ h => h, fun _ h => Or.inr h⟩

theorem Frame.trans {a b c : MemoSt} (h1 : Frame a b) (h2 : Frame b c) : Frame a c :=
  ⟨fun k h => h2.grow k (h1.grow k h), fun k hk => by
    rcases h2.done k hk with h | h
    · exact Or.inl h
    · rcases h1.done k h with h' | h'
      · exact Or.inl (h2.grow k h')
      · exact Or.inr h'⟩

/-- executions in progress (logged, no entry yet) have measure at least `M` -/
def PendGe (s : MemoSt) (M : Nat) : Prop := ∀ k ∈ s.log, has s k ∨ M ≤ mu rk R k

theorem PendGe.frame {s s' : MemoSt} {M : Nat} (h : PendGe rk R s M) (hf : Frame s s') : PendGe rk R s' M := by
  intro k hk
  rcases hf.done k hk with h' | h'
  · exact Or.inl h'
  · rcases h k h' with h'' | h''
    · exact Or.inl (hf.grow k h'')
    · exact Or.inr h''

/-- what a `get` one level down guarantees, for keys of measure below `B` -/
def Spec (B : Nat) (getFM : String → List Tok → MemoSt → PRes × MemoSt) : Prop :=
  ∀ c toks s, c ∈ G.composites → toks.length ≤ N → mu rk R (c, toks.length) < B → Good G N s →
    PendGe rk R s (mu rk R (c, toks.length) + 1) →
    Good G N (getFM c toks s).2 ∧
      (PRes.normal (getFM c toks s).1 → Frame s (getFM c toks s).2 ∧
        ∀ t rest, (getFM c toks s).1 = .ok t rest → rest.length < toks.length)

theorem seq_steps (M : Nat) (getFM : String → List Tok → MemoSt → PRes × MemoSt) (hs : Spec G rk R N M getFM)
    (hR : ∀ c, rk c ≤ R) (syms : List String) (toks : List Tok) (s : MemoSt)
    (hN : toks.length ≤ N) (hM : toks.length * (R + 1) ≤ M)
    (hhead : ∀ sym rest, syms = sym :: rest → G.composites.contains sym = true → mu rk R (sym, toks.length) < M)
    (hg : Good G N s) (hp : PendGe rk R s M) :
    Good G N (seqMatchM G getFM syms toks s).2 ∧
      (SeqRes.normal (seqMatchM G getFM syms toks s).1 → Frame s (seqMatchM G getFM syms toks s).2 ∧
        ∀ kids rest m, (seqMatchM G getFM syms toks s).1 = .done kids rest m →
          rest.length ≤ toks.length ∧ (syms ≠ [] → rest.length < toks.length)) := by
  induction syms generalizing toks s with
  | nil =>
    simp only [seqMatchM]
    refine ⟨hg, fun _ => ⟨Frame.refl s, ?_⟩⟩
    intro kids rest m h
    simp only [SeqRes.done.injEq] at h
    obtain ⟨_, rfl, _⟩ := h
    exact ⟨le_refl _, fun h => absurd rfl h⟩
  | cons sym syms ih =>
    cases toks with
    | nil =>
      simp only [seqMatchM]
      exact ⟨hg, fun _ => ⟨Frame.refl s, fun kids rest m h => by cases h⟩⟩
    | cons t ts =>
      -- anything strictly shorter than `t :: ts` is below the bound, whatever the symbol
      have hshort : ∀ (l : List Tok), l.length ≤ ts.length → l.length ≤ N ∧ l.length * (R + 1) ≤ M ∧
          ∀ sym' rest', (sym' :: rest' = sym' :: rest') → mu rk R (sym', l.length) < M := by
        intro l hl
        simp only [List.length_cons] at hN hM
        refine ⟨by omega, ?_, ?_⟩
        · have : l.length * (R + 1) ≤ (ts.length + 1) * (R + 1) := Nat.mul_le_mul_right _ (by omega)
          omega
        · intro sym' _ _
          simp only [mu]
          have h1 := hR sym'
          have : (l.length + 1) * (R + 1) ≤ (ts.length + 1) * (R + 1) := Nat.mul_le_mul_right _ (by omega)
          have h2 : (l.length + 1) * (R + 1) = l.length * (R + 1) + (R + 1) := Nat.succ_mul _ _
          omega
      simp only [seqMatchM]
      by_cases h1 : (sym == t.1) = true
      · simp only [h1, ↓reduceIte]
        obtain ⟨a1, a2, a3⟩ := hshort ts (le_refl _)
        have hi := ih ts s a1 a2 (fun sym' rest' _ _ => a3 sym' rest' rfl) hg hp
        rcases hm : seqMatchM G getFM syms ts s with ⟨r, s'⟩
        rw [hm] at hi
        simp only at hi
        obtain ⟨g1, g2⟩ := hi
        cases r with
        | done k r' m' =>
          refine ⟨g1, fun _ => ?_⟩
          obtain ⟨f1, f2⟩ := g2 trivial
          refine ⟨f1, ?_⟩
          intro kids rest m h
          simp only [SeqRes.done.injEq] at h
          obtain ⟨_, rfl, _⟩ := h
          have := (f2 k r' m' rfl).1
          simp only [List.length_cons]
          exact ⟨by omega, fun _ => by omega⟩
        | fail m' =>
          refine ⟨g1, fun _ => ⟨(g2 trivial).1, fun kids rest m h => by cases h⟩⟩
        | raise => exact ⟨g1, fun h => h.elim⟩
        | depth => exact ⟨g1, fun h => h.elim⟩
      · simp only [h1, Bool.false_eq_true, ↓reduceIte]
        by_cases h2 : G.composites.contains sym = true
        · simp only [h2, ↓reduceIte]
          have hmem : sym ∈ G.composites := by simpa using h2
          have hlt : mu rk R (sym, (t :: ts).length) < M := hhead sym syms rfl h2
          have hp1 : PendGe rk R s (mu rk R (sym, (t :: ts).length) + 1) := by
            intro k hk
            rcases hp k hk with h | h
            · exact Or.inl h
            · exact Or.inr (by omega)
          have hc := hs sym (t :: ts) s hmem hN hlt hg hp1
          rcases hgm : getFM sym (t :: ts) s with ⟨r, s1⟩
          rw [hgm] at hc
          simp only at hc
          obtain ⟨c1, c2⟩ := hc
          cases r with
          | ok tree rest =>
            simp only
            obtain ⟨fr1, sh1⟩ := c2 trivial
            have hrl : rest.length ≤ ts.length := by
              have := sh1 tree rest rfl
              simp only [List.length_cons] at this
              omega
            obtain ⟨a1, a2, a3⟩ := hshort rest hrl
            have hi := ih rest s1 a1 a2 (fun sym' rest' _ _ => a3 sym' rest' rfl) c1 (hp.frame rk R fr1)
            rcases hm : seqMatchM G getFM syms rest s1 with ⟨r', s'⟩
            rw [hm] at hi
            simp only at hi
            obtain ⟨g1, g2⟩ := hi
            cases r' with
            | done k r'' m' =>
              refine ⟨g1, fun _ => ?_⟩
              obtain ⟨f1, f2⟩ := g2 trivial
              refine ⟨fr1.trans f1, ?_⟩
              intro kids rest' m h
              simp only [SeqRes.done.injEq] at h
              obtain ⟨_, rfl, _⟩ := h
              have := (f2 k r'' m' rfl).1
              simp only [List.length_cons]
              exact ⟨by omega, fun _ => by omega⟩
            | fail m' =>
              exact ⟨g1, fun _ => ⟨fr1.trans (g2 trivial).1, fun kids rest m h => by cases h⟩⟩
            | raise => exact ⟨g1, fun h => h.elim⟩
            | depth => exact ⟨g1, fun h => h.elim⟩
          | none =>
            exact ⟨c1, fun _ => ⟨(c2 trivial).1, fun kids rest m h => by cases h⟩⟩
          | raise => exact ⟨c1, fun h => h.elim⟩
          | depth => exact ⟨c1, fun h => h.elim⟩
        · simp only [h2, Bool.false_eq_true, ↓reduceIte]
          exact ⟨hg, fun _ => ⟨Frame.refl s, fun kids rest m h => by cases h⟩⟩

theorem trySets_steps (M : Nat) (getFM : String → List Tok → MemoSt → PRes × MemoSt) (hs : Spec G rk R N M getFM)
    (hR : ∀ c, rk c ≤ R) (cls : String) (toks : List Tok) (sets : List (List String)) (saw : Bool) (s : MemoSt)
    (hN : toks.length ≤ N) (hM : toks.length * (R + 1) ≤ M)
    (hhead : ∀ set ∈ sets, ∀ sym rest, set = sym :: rest → G.composites.contains sym = true →
      mu rk R (sym, toks.length) < M)
    (hg : Good G N s) (hp : PendGe rk R s M) :
    Good G N (trySetsM G getFM cls toks sets saw s).2 ∧
      (PRes.normal (trySetsM G getFM cls toks sets saw s).1 → Frame s (trySetsM G getFM cls toks sets saw s).2 ∧
        ∀ t rest, (trySetsM G getFM cls toks sets saw s).1 = .ok t rest → rest.length < toks.length) := by
  induction sets generalizing saw s with
  | nil =>
    simp only [trySetsM]
    refine ⟨hg, fun _ => ⟨Frame.refl s, ?_⟩⟩
    intro t rest h
    split at h <;> cases h
  | cons set sets ih =>
    simp only [trySetsM]
    have hq := seq_steps G rk R N M getFM hs hR set toks s hN hM (hhead set (List.mem_cons_self ..)) hg hp
    rcases hm : seqMatchM G getFM set toks s with ⟨r, s'⟩
    rw [hm] at hq
    simp only at hq
    obtain ⟨q1, q2⟩ := hq
    have hhead' : ∀ set' ∈ sets, ∀ sym rest, set' = sym :: rest → G.composites.contains sym = true →
        mu rk R (sym, toks.length) < M := fun set' h' => hhead set' (List.mem_cons_of_mem _ h')
    cases r with
    | done kids rest m =>
      simp only
      obtain ⟨f1, f2⟩ := q2 trivial
      by_cases he : set.isEmpty = true
      · simp only [he, ↓reduceIte]
        obtain ⟨i1, i2⟩ := ih (saw || m) s' hhead' q1 (hp.frame rk R f1)
        exact ⟨i1, fun hn => ⟨f1.trans (i2 hn).1, (i2 hn).2⟩⟩
      · simp only [he, Bool.false_eq_true, ↓reduceIte]
        refine ⟨q1, fun _ => ⟨f1, ?_⟩⟩
        intro t rest' h
        simp only [PRes.ok.injEq] at h
        obtain ⟨_, rfl⟩ := h
        exact (f2 kids rest m rfl).2 (by intro e; rw [e] at he; simp at he)
    | fail m =>
      simp only
      obtain ⟨i1, i2⟩ := ih (saw || m) s' hhead' q1 (hp.frame rk R (q2 trivial).1)
      exact ⟨i1, fun hn => ⟨(q2 trivial).1.trans (i2 hn).1, (i2 hn).2⟩⟩
    | raise => exact ⟨q1, fun h => h.elim⟩
    | depth => exact ⟨q1, fun h => h.elim⟩

/-- a ranking of the composite classes that decreases along head symbols (no left recursion) -/
def RankOK : Prop :=
  (∀ c, rk c ≤ R) ∧ ∀ cls set, set ∈ G.setsOf cls → ∀ s rest, set = s :: rest → G.composites.contains s = true → rk s < rk cls

theorem has_insert (s : MemoSt) (k k' : String × Nat) (r : PRes) (log : List (String × Nat)) :
    has ⟨(k, r) :: s.memo, log⟩ k' ↔ (k' = k ∨ has s k') := by
  unfold has MemoSt.find
  simp only [List.lookup_cons]
  by_cases hk : (k' == k) = true
  · have : k' = k := by simpa using hk
    simp [this]
  · have hk2 : (k' == k) = false := by simpa using hk
    have : k' ≠ k := by simpa using hk
    simp [hk2, this]

theorem pegGetM_steps (hrk : RankOK G rk R) (f : Nat) (B : Nat) : Spec G rk R N B (pegGetM G f) := by
  induction f generalizing B with
  | zero =>
    intro c toks s _ _ _ hg _
    simp only [pegGetM]
    exact ⟨hg, fun h => h.elim⟩
  | succ n ih =>
    intro c toks s hc hN _ hg hp
    simp only [pegGetM]
    cases hf : s.find (c, toks.length) with
    | some r =>
      simp only
      refine ⟨hg, fun _ => ⟨Frame.refl s, ?_⟩⟩
      intro t rest h
      subst h
      exact hg.shorter c toks.length t rest hf
    | none =>
      simp only
      set k0 : String × Nat := (c, toks.length) with hk0
      set M := mu rk R k0 with hMdef
      -- the state in which `_get` runs: the key is logged
      have hnot : k0 ∉ s.log := by
        intro hin
        rcases hp k0 hin with h | h
        · unfold has at h; rw [hf] at h; simp at h
        · omega
      have hg1 : Good G N ⟨s.memo, k0 :: s.log⟩ :=
        ⟨List.nodup_cons.mpr ⟨hnot, hg.nodup⟩,
         fun k hk => by
           rcases List.mem_cons.mp hk with h | h
           · subst h; exact ⟨hc, hN⟩
           · exact hg.inKS k h,
         hg.shorter⟩
      have hp1 : PendGe rk R ⟨s.memo, k0 :: s.log⟩ M := by
        intro k hk
        rcases List.mem_cons.mp hk with h | h
        · subst h; exact Or.inr (le_refl _)
        · rcases hp k h with h' | h'
          · exact Or.inl h'
          · exact Or.inr (by omega)
      have hMle : toks.length * (R + 1) ≤ M := by simp only [hMdef, mu, hk0]; omega
      have hhead : ∀ set ∈ G.setsOf c, ∀ sym rest, set = sym :: rest → G.composites.contains sym = true →
          mu rk R (sym, toks.length) < M := by
        intro set hset sym rest hs hcomp
        have := hrk.2 c set hset sym rest hs hcomp
        simp only [hMdef, mu, hk0]
        omega
      have ht := trySets_steps G rk R N M (pegGetM G n) (ih M) hrk.1 c toks (G.setsOf c) false
        ⟨s.memo, k0 :: s.log⟩ hN hMle hhead hg1 hp1
      rcases hm : trySetsM G (pegGetM G n) c toks (G.setsOf c) false ⟨s.memo, k0 :: s.log⟩ with ⟨r, s'⟩
      rw [hm] at ht
      simp only at ht
      obtain ⟨t1, t2⟩ := ht
      cases r with
      | ok t rest =>
        simp only
        obtain ⟨fr, sh⟩ := t2 trivial
        have hlt := sh t rest rfl
        refine ⟨⟨t1.nodup, t1.inKS, ?_⟩, fun _ => ⟨⟨?_, ?_⟩, ?_⟩⟩
        · intro c' n' t' rest' hfind
          simp only [MemoSt.find, List.lookup_cons] at hfind
          by_cases hk : ((c', n') == k0) = true
          · simp only [hk] at hfind
            cases hfind
            have : (c', n') = k0 := by simpa using hk
            simp only [hk0, Prod.mk.injEq] at this
            omega
          · have hk2 : ((c', n') == k0) = false := by simpa using hk
            simp only [hk2] at hfind
            exact t1.shorter c' n' t' rest' hfind
        · intro k hk
          exact (has_insert s' k0 k _ _).mpr (Or.inr (fr.grow k hk))
        · intro k hk
          rcases fr.done k hk with h | h
          · exact Or.inl ((has_insert s' k0 k _ _).mpr (Or.inr h))
          · rcases List.mem_cons.mp h with h' | h'
            · exact Or.inl ((has_insert s' k0 k _ _).mpr (Or.inl h'))
            · exact Or.inr h'
        · intro t' rest' h
          simp only [PRes.ok.injEq] at h
          obtain ⟨_, rfl⟩ := h
          exact hlt
      | none =>
        simp only
        obtain ⟨fr, _⟩ := t2 trivial
        refine ⟨⟨t1.nodup, t1.inKS, ?_⟩, fun _ => ⟨⟨?_, ?_⟩, fun t' rest' h => by cases h⟩⟩
        · intro c' n' t' rest' hfind
          simp only [MemoSt.find, List.lookup_cons] at hfind
          by_cases hk : ((c', n') == k0) = true
          · simp only [hk] at hfind
            cases hfind
          · have hk2 : ((c', n') == k0) = false := by simpa using hk
            simp only [hk2] at hfind
            exact t1.shorter c' n' t' rest' hfind
        · intro k hk
          exact (has_insert s' k0 k _ _).mpr (Or.inr (fr.grow k hk))
        · intro k hk
          rcases fr.done k hk with h | h
          · exact Or.inl ((has_insert s' k0 k _ _).mpr (Or.inr h))
          · rcases List.mem_cons.mp h with h' | h'
            · exact Or.inl ((has_insert s' k0 k _ _).mpr (Or.inl h'))
            · exact Or.inr h'
      | raise => exact ⟨t1, fun h => h.elim⟩
      | depth => exact ⟨t1, fun h => h.elim⟩

/-- a list without repetition inside `composites × {0..N}` is no longer than that product -/
theorem log_length_le (s : MemoSt) (hg : Good G N s) (hnd : G.composites.Nodup) :
    s.log.length ≤ G.composites.length * (N + 1) := by
  have hsub : s.log ⊆ G.composites ×ˢ List.range (N + 1) := by
    intro k hk
    obtain ⟨h1, h2⟩ := hg.inKS k hk
    exact List.mem_product.mpr ⟨h1, List.mem_range.mpr (by omega)⟩
  have := (List.Nodup.subperm hg.nodup hsub).length_le
  simpa [List.length_product] using this

/-- **`_get` runs at most once per (class, position)**: whatever the outcome, the number of `_get` executions of one
    `AstBuilder.parse` is at most `|composite classes| * (|tokens| + 1)`. -/
theorem steps_bound (hrk : RankOK G rk R) (hnd : G.composites.Nodup) (fuel : Nat) (entry : String)
    (he : entry ∈ G.composites) (toks : List Tok) :
    (astBuildM G fuel entry toks).2 ≤ G.composites.length * (toks.length + 1) := by
  have h := pegGetM_steps G rk R toks.length hrk fuel (mu rk R (entry, toks.length) + 1) entry toks MemoSt.empty he
    (le_refl _) (by omega)
    ⟨by simp [MemoSt.empty], by simp [MemoSt.empty], by intro c n t rest h; simp [MemoSt.find, MemoSt.empty] at h⟩
    (by intro k hk; simp [MemoSt.empty] at hk)
  have hl := log_length_le G toks.length _ h.1 hnd
  unfold astBuildM
  rcases hm : pegGetM G fuel entry toks MemoSt.empty with ⟨r, s⟩
  rw [hm] at hl
  simp only at hl
  cases r with
  | ok t rest => cases rest <;> exact hl
  | none => exact hl
  | raise => exact hl
  | depth => exact hl

end E2P.PegSteps
