import E2P.Lemmas.LexLemmas
import Mathlib.Data.List.TakeWhile
/-!
  The lexer drops nothing but whitespace: every scanner returns a suffix of its input, so the token texts, in order and
  separated by whitespace only, make up the whole text.
-/
namespace E2P.Lex

theorem optDollar_suffix (s : List Char) : optDollar s <:+ s := by
  cases s with
  | nil => exact List.suffix_refl _
  | cons c r =>
    simp only [optDollar]; split
    · exact List.suffix_cons c r
    · exact List.suffix_refl _

theorem optRow_suffix (s : List Char) : (optRow s).2.2 <:+ s := by
  unfold optRow
  simp only
  split
  · exact List.suffix_refl _
  · exact (List.dropWhile_suffix _).trans (optDollar_suffix s)

theorem pairedBody_suffix (q : Char) (s : List Char) : ∀ (b rest : List Char), pairedBody q s = some (b, rest) → rest <:+ s := by
  induction s using pairedBody.induct q with
  | case1 => intro b rest h; simp [pairedBody] at h
  | case2 r ih =>
    intro b rest h
    simp only [pairedBody, ↓reduceIte, Option.map_eq_some_iff] at h
    obtain ⟨p, hp, hq⟩ := h
    have := ih p.1 p.2 (by rw [hp])
    simp only [Prod.mk.injEq] at hq
    rw [← hq.2]; exact this.trans ((List.suffix_cons _ _).trans (List.suffix_cons _ _))
  | case3 c r hc =>
    intro b rest h
    simp only [pairedBody, ↓reduceIte, hc, Option.some.injEq, Prod.mk.injEq] at h
    rw [← h.2]; exact List.suffix_cons _ _
  | case4 =>
    intro b rest h
    simp only [pairedBody, ↓reduceIte, Option.some.injEq, Prod.mk.injEq] at h
    rw [← h.2]; exact List.nil_suffix
  | case5 c r hc ih =>
    intro b rest h
    unfold pairedBody at h
    simp only [hc, ↓reduceIte, Option.map_eq_some_iff] at h
    obtain ⟨p, hp, hq⟩ := h
    have := ih p.1 p.2 (by rw [hp])
    simp only [Prod.mk.injEq] at hq
    rw [← hq.2]; exact this.trans (List.suffix_cons _ _)

theorem strBody_suffix (q : Char) (s : List Char) : ∀ (b rest : List Char), strBody q s = some (b, rest) → rest <:+ s := by
  induction s using strBody.induct q with
  | case1 => intro b rest h; simp [strBody] at h
  | case2 r p hp ih =>
    intro b rest h
    simp only [strBody, ↓reduceIte, hp, Option.some.injEq, Prod.mk.injEq] at h
    have := ih p.1 p.2 hp
    rw [← h.2]; exact this.trans ((List.suffix_cons _ _).trans (List.suffix_cons _ _))
  | case3 r hn ih =>
    intro b rest h
    simp only [strBody, ↓reduceIte, hn, Option.some.injEq, Prod.mk.injEq] at h
    rw [← h.2]; exact List.suffix_cons _ _
  | case4 c r hc =>
    intro b rest h
    simp only [strBody, ↓reduceIte, hc, Option.some.injEq, Prod.mk.injEq] at h
    rw [← h.2]; exact List.suffix_cons _ _
  | case5 =>
    intro b rest h
    simp only [strBody, ↓reduceIte, Option.some.injEq, Prod.mk.injEq] at h
    rw [← h.2]; exact List.nil_suffix
  | case6 c r hc ih =>
    intro b rest h
    unfold strBody at h
    simp only [hc, ↓reduceIte, Option.map_eq_some_iff] at h
    obtain ⟨p, hp, hq⟩ := h
    have := ih p.1 p.2 (by rw [hp])
    simp only [Prod.mk.injEq] at hq
    rw [← hq.2]; exact this.trans (List.suffix_cons _ _)

theorem scanPrefix_suffix (s : List Char) (t : Option (List Char)) (r : List Char) (h : scanPrefix s = some (t, r)) : r <:+ s := by
  unfold scanPrefix at h
  split at h
  · rename_i c r0
    split at h
    · split at h
      · rename_i raw c2 rest hb
        split at h
        · simp only [Option.some.injEq, Prod.mk.injEq] at h
          have := pairedBody_suffix _ _ _ _ hb
          rw [← h.2]; exact (List.suffix_cons c2 rest).trans (this.trans (List.suffix_cons _ _))
        · cases h
      · cases h
    · split at h
      · rename_i c2 rest hd
        split at h
        · simp only [Option.some.injEq, Prod.mk.injEq] at h
          have := List.dropWhile_suffix isWord (l := c :: r0)
          rw [hd] at this
          rw [← h.2]; exact (List.suffix_cons c2 rest).trans this
        · cases h
      · cases h
  · cases h

theorem withPrefix_suffix {α : Type} (body : Option (List Char) → List Char → Option (α × List Char))
    (hb : ∀ t s x rest, body t s = some (x, rest) → rest <:+ s)
    (s : List Char) (x : α) (rest : List Char) (h : withPrefix body s = some (x, rest)) : rest <:+ s := by
  unfold withPrefix at h
  split at h
  · rename_i t r hp
    split at h
    · rename_i y hy
      cases h
      exact (hb _ _ _ _ hy).trans (scanPrefix_suffix _ _ _ hp)
    · exact hb _ _ _ _ h
  · exact hb _ _ _ _ h

theorem cellBody_suffix (t : Option (List Char)) (s : List Char) (x : RefCell) (rest : List Char) (h : cellBody t s = some (x, rest)) :
    rest <:+ s := by
  unfold cellBody at h
  simp only at h
  split at h
  · cases h
  · split at h
    · cases h
    · split at h
      · simp only [Option.some.injEq, Prod.mk.injEq] at h
        rw [← h.2]
        exact (List.dropWhile_suffix _).trans ((optDollar_suffix _).trans ((List.dropWhile_suffix _).trans (optDollar_suffix s)))
      · cases h

theorem stripPrefix_suffix (p s r : List Char) (h : stripPrefix p s = some r) : r <:+ s := by
  unfold stripPrefix at h
  split at h
  · cases h; exact List.drop_suffix _ _
  · cases h

theorem matrixBody_suffix (t : Option (List Char)) (s : List Char) (x : RefCell × RefCell) (rest : List Char)
    (h : matrixBody t s = some (x, rest)) : rest <:+ s := by
  unfold matrixBody at h
  simp only at h
  split at h
  · cases h
  · split at h
    · rename_i colon s3 hs2
      split at h
      · split at h
        · cases h
        · split at h
          · simp only [Option.some.injEq, Prod.mk.injEq] at h
            have h3 := optRow_suffix ((optDollar s).dropWhile isUp)
            rw [hs2] at h3
            have h1 : s3 <:+ s := (List.suffix_cons colon s3).trans (h3.trans ((List.dropWhile_suffix _).trans (optDollar_suffix s)))
            rw [← h.2]
            exact (optRow_suffix _).trans ((List.dropWhile_suffix _).trans ((optDollar_suffix s3).trans h1))
          · cases h
      · cases h
    · cases h

theorem rangeAlt1_suffix (t : Option (List Char)) (s : List Char) (x : RefCell × RefCell) (rest : List Char)
    (h : rangeAlt1 t s = some (x, rest)) : rest <:+ s := by
  unfold rangeAlt1 at h
  simp only at h
  split at h
  · cases h
  · split at h
    · rename_i colon s3 hs2
      split at h
      · split at h
        · rename_i s5 hs5
          split at h
          · simp only [Option.some.injEq, Prod.mk.injEq] at h
            have h3 := optRow_suffix ((optDollar s).dropWhile isUp)
            rw [hs2] at h3
            have h1 : s3 <:+ s := (List.suffix_cons colon s3).trans (h3.trans ((List.dropWhile_suffix _).trans (optDollar_suffix s)))
            rw [← h.2]
            exact (optRow_suffix s5).trans ((stripPrefix_suffix _ _ _ hs5).trans ((optDollar_suffix s3).trans h1))
          · cases h
        · cases h
      · cases h
    · cases h

theorem rangeAlt2Tail_suffix (t : Option (List Char)) (c1 g r s4 : List Char) (k : Nat) (x : RefCell × RefCell) (rest : List Char)
    (h : rangeAlt2Tail t c1 g r s4 k = some (x, rest)) : rest <:+ s4 := by
  induction k with
  | zero => simp [rangeAlt2Tail] at h
  | succ k ih =>
    unfold rangeAlt2Tail at h
    simp only at h
    have hdrop : s4.drop (k + 1) <:+ s4 := List.drop_suffix _ _
    split at h
    · rename_i rest' hw
      have hr : rest' <:+ s4 := by
        split at hw
        · cases hw
        · split at hw
          · rename_i r' hr'
            cases hw
            exact (stripPrefix_suffix _ _ _ hr').trans ((optDollar_suffix _).trans hdrop)
          · exact (stripPrefix_suffix _ _ _ hw).trans hdrop
      split at h
      · simp only [Option.some.injEq, Prod.mk.injEq] at h; rw [← h.2]; exact hr
      · split at h
        · simp only [Option.some.injEq, Prod.mk.injEq] at h; rw [← h.2]; exact hdrop
        · exact ih h
    · split at h
      · simp only [Option.some.injEq, Prod.mk.injEq] at h; rw [← h.2]; exact hdrop
      · exact ih h

theorem rangeAlt2_suffix (t : Option (List Char)) (s : List Char) (x : RefCell × RefCell) (rest : List Char)
    (h : rangeAlt2 t s = some (x, rest)) : rest <:+ s := by
  unfold rangeAlt2 at h
  simp only at h
  split at h
  · cases h
  · split at h
    · rename_i colon s3 hs2
      split at h
      · have h0 := rangeAlt2Tail_suffix _ _ _ _ _ _ _ _ h
        have h3 := optRow_suffix ((optDollar s).dropWhile isUp)
        rw [hs2] at h3
        have h1 : s3 <:+ s := (List.suffix_cons colon s3).trans (h3.trans ((List.dropWhile_suffix _).trans (optDollar_suffix s)))
        exact h0.trans ((optDollar_suffix s3).trans h1)
      · cases h
    · cases h

theorem rangeBody_suffix (t : Option (List Char)) (s : List Char) (x : RefCell × RefCell) (rest : List Char)
    (h : rangeBody t s = some (x, rest)) : rest <:+ s := by
  unfold rangeBody at h
  split at h
  · rename_i y hy; cases h; exact rangeAlt1_suffix _ _ _ _ hy
  · exact rangeAlt2_suffix _ _ _ _ h

theorem patternTok_suffix (s b rest : List Char) (h : patternTok s = some (b, rest)) : rest <:+ s := by
  unfold patternTok at h
  split at h
  · rename_i q r
    split at h
    · split at h
      · rename_i p hp
        split at h
        · simp only [Option.some.injEq] at h
          have := strBody_suffix _ _ p.1 p.2 (by rw [hp])
          rw [h] at this
          exact this.trans (List.suffix_cons q r)
        · cases h
      · cases h
    · cases h
  · cases h

theorem optFrac_suffix (s : List Char) : (optFrac s).2.2 <:+ s := by
  unfold optFrac
  split
  · split
    · exact (List.dropWhile_suffix _).trans (List.suffix_cons _ _)
    · exact List.suffix_refl _
  · exact List.suffix_refl _

theorem optExp_suffix (s : List Char) : (optExp s).2.2 <:+ s := by
  unfold optExp
  split
  · split
    · split
      · split
        · split
          · exact (List.dropWhile_suffix _).trans ((List.suffix_cons _ _).trans (List.suffix_cons _ _))
          · exact List.suffix_refl _
        · split
          · exact (List.dropWhile_suffix _).trans (List.suffix_cons _ _)
          · exact List.suffix_refl _
      · exact List.suffix_refl _
    · exact List.suffix_refl _
  · exact List.suffix_refl _

theorem optCall_suffix (s : List Char) : optCall s <:+ s := by
  unfold optCall
  split
  · split
    · exact (List.suffix_cons _ _).trans (List.suffix_cons _ _)
    · exact List.suffix_refl _
  · exact List.suffix_refl _

theorem literalTok_suffix (s : List Char) (x : Lit) (rest : List Char) (h : literalTok s = some (x, rest)) : rest <:+ s := by
  unfold literalTok at h
  split at h
  · cases h
  · rename_i c r
    split at h
    · simp only [Option.map_eq_some_iff, Prod.mk.injEq] at h
      obtain ⟨p, hp, _, hq⟩ := h
      have := strBody_suffix _ _ p.1 p.2 (by rw [hp])
      rw [← hq]; exact this.trans (List.suffix_cons _ _)
    · split at h
      · simp only [Option.some.injEq, Prod.mk.injEq] at h
        rw [← h.2]
        exact (optExp_suffix _).trans ((optFrac_suffix _).trans (List.dropWhile_suffix _))
      · split at h
        · rename_i rest' hs
          simp only [Option.some.injEq, Prod.mk.injEq] at h
          rw [← h.2]; exact (optCall_suffix rest').trans (stripPrefix_suffix _ _ _ hs)
        · split at h
          · rename_i rest' hs
            simp only [Option.some.injEq, Prod.mk.injEq] at h
            rw [← h.2]; exact (optCall_suffix rest').trans (stripPrefix_suffix _ _ _ hs)
          · cases h

theorem matchAlts_suffix (as : List (List Char)) (s rest : List Char) (h : matchAlts as s = some rest) : rest <:+ s := by
  induction as with
  | nil => simp [matchAlts] at h
  | cons a as ih =>
    unfold matchAlts at h
    split at h
    · rename_i r hr; cases h; exact stripPrefix_suffix _ _ _ hr
    · exact ih h

theorem runScanner_suffix (sc : Scanner) (s rest : List Char) (h : runScanner sc s = some (some rest)) : rest <:+ s := by
  cases sc with
  | matrix =>
    simp only [runScanner, Option.some.injEq, Option.map_eq_some_iff] at h
    obtain ⟨p, hp, hq⟩ := h
    rw [← hq]; exact withPrefix_suffix matrixBody matrixBody_suffix s p.1 p.2 hp
  | range =>
    simp only [runScanner, Option.some.injEq, Option.map_eq_some_iff] at h
    obtain ⟨p, hp, hq⟩ := h
    rw [← hq]; exact withPrefix_suffix rangeBody rangeBody_suffix s p.1 p.2 hp
  | cell =>
    simp only [runScanner, Option.some.injEq, Option.map_eq_some_iff] at h
    obtain ⟨p, hp, hq⟩ := h
    rw [← hq]; exact withPrefix_suffix cellBody cellBody_suffix s p.1 p.2 hp
  | pattern =>
    simp only [runScanner, Option.some.injEq, Option.map_eq_some_iff] at h
    obtain ⟨p, hp, hq⟩ := h
    rw [← hq]; exact patternTok_suffix s p.1 p.2 hp
  | literal =>
    simp only [runScanner, Option.some.injEq, Option.map_eq_some_iff] at h
    obtain ⟨p, hp, hq⟩ := h
    rw [← hq]; exact literalTok_suffix s p.1 p.2 hp
  | never => simp [runScanner] at h
  | undefined => simp [runScanner] at h
  | unsupported => simp [runScanner] at h
  | alts as =>
    simp only [runScanner, Option.some.injEq] at h
    exact matchAlts_suffix as s rest h

theorem lexOne_suffix (tbl : List (String × Scanner)) (s : List Char) (cls : String) (rest : List Char)
    (h : lexOne tbl s = .tok cls rest) : rest <:+ s := by
  induction tbl with
  | nil => simp [lexOne] at h
  | cons kv more ih =>
    obtain ⟨c, sc⟩ := kv
    unfold lexOne at h
    split at h
    · cases h
    · cases h
    · split at h
      · rename_i r hr
        simp only [One.tok.injEq] at h
        rw [← h.2]
        exact runScanner_suffix sc s r hr
      · exact ih h

/-- `toks` are the tokens of `s`: the token texts in order, with nothing but whitespace before, between and after them -/
inductive Covers : List Tok → List Char → Prop where
  | done (ws : List Char) (h : ∀ c ∈ ws, isWs c = true) : Covers [] ws
  | tok (ws t rest : List Char) (cls : String) (toks : List Tok) (h : ∀ c ∈ ws, isWs c = true) (more : Covers toks rest) :
      Covers ((cls, String.ofList t) :: toks) (ws ++ t ++ rest)

theorem take_append_of_suffix (rest s : List Char) (h : rest <:+ s) : s.take (s.length - rest.length) ++ rest = s := by
  obtain ⟨p, hp⟩ := h
  subst hp
  simp

theorem lexLoop_covers (tbl : List (String × Scanner)) : ∀ (n : Nat) (s : List Char) (toks : List Tok),
    lexLoop tbl n s = .ok toks → Covers toks s := by
  intro n
  induction n with
  | zero => intro s toks h; simp [lexLoop] at h
  | succ n ih =>
    intro s toks h
    have hsplit : s.takeWhile isWs ++ s.dropWhile isWs = s := List.takeWhile_append_dropWhile
    have hws : ∀ c ∈ s.takeWhile isWs, isWs c = true := fun c hc => List.mem_takeWhile_imp hc
    unfold lexLoop at h
    simp only at h
    split at h
    · rename_i hnil
      simp only [LexRes.ok.injEq] at h
      subst h
      rw [← hsplit, hnil, List.append_nil]
      exact Covers.done _ hws
    · split at h
      · rename_i cls rest hone
        split at h
        · cases h
        · split at h
          · split at h
            · rename_i toks' hrec
              simp only [LexRes.ok.injEq] at h
              subst h
              have hsuf := lexOne_suffix tbl _ cls rest hone
              have hc := Covers.tok (s.takeWhile isWs) ((s.dropWhile isWs).take ((s.dropWhile isWs).length - rest.length)) rest cls toks' hws (ih rest toks' hrec)
              rw [List.append_assoc, take_append_of_suffix rest _ hsuf, hsplit] at hc
              exact hc
            · rename_i e hne
              -- the recursive result is not `ok`: neither is the result
              exfalso
              cases hres : lexLoop tbl n rest <;> simp_all
          · cases h
      · cases h
      · cases h
      · cases h

/-- **The lexer drops nothing but whitespace**: when `Lexer.parse` returns tokens, their texts in order, with whitespace only
    before, between and after them, are the whole (stripped) formula text. -/
theorem lex_covers (tbl : List (String × Scanner)) (s : List Char) (toks : List Tok) (h : lex tbl s = .ok toks) : Covers toks (strip s) :=
  lexLoop_covers tbl _ _ toks h

end E2P.Lex
