import E2P.Lemmas.LexLemmas
import Mathlib.Data.List.TakeWhile
/-!
  Whitespace before a token and around the whole text is not significant (the part of C05's whitespace clause that holds for
  every text; whitespace between two tokens is skipped by the same mechanism, but whether a following token class sees it
  through its lookahead is a law checked on the real code).
-/
namespace E2P.Lex

theorem dropWhile_append_all (p : Char → Bool) (a b : List Char) (ha : ∀ c ∈ a, p c = true) : (a ++ b).dropWhile p = b.dropWhile p := by
  induction a with
  | nil => rfl
  | cons x xs ih =>
    have hx := ha x (by simp)
    simp only [List.cons_append, List.dropWhile_cons, hx, ↓reduceIte]
    exact ih (fun c hc => ha c (by simp [hc]))

/-- whitespace in front of the text the loop is at is skipped -/
theorem lexLoop_skip_ws (tbl : List (String × Scanner)) (n : Nat) (ws s : List Char) (hws : ∀ c ∈ ws, isWs c = true) :
    lexLoop tbl n (ws ++ s) = lexLoop tbl n s := by
  cases n with
  | zero => rfl
  | succ n =>
    unfold lexLoop
    simp only [dropWhile_append_all isWs ws s hws]

/-- more fuel than characters is always enough, and then the amount does not matter -/
theorem lexLoop_fuel (tbl : List (String × Scanner)) : ∀ (n m : Nat) (s : List Char), s.length < n → s.length < m →
    lexLoop tbl n s = lexLoop tbl m s := by
  intro n
  induction n with
  | zero => intro m s h; omega
  | succ n ih =>
    intro m s hn hm
    cases m with
    | zero => omega
    | succ m =>
      unfold lexLoop
      simp only
      split
      · rfl
      · have hle := dropWhile_length_le isWs s
        split
        · rename_i cls rest hone
          split
          · rfl
          · split
            · rename_i hlt
              rw [ih m rest (by omega) (by omega)]
            · rfl
        · rfl
        · rfl
        · rfl

theorem dropWhile_append_ws (s ws : List Char) (hws : ∀ c ∈ ws, isWs c = true) :
    ((s ++ ws).reverse.dropWhile isWs) = s.reverse.dropWhile isWs := by
  rw [List.reverse_append]
  exact dropWhile_append_all isWs ws.reverse s.reverse (fun c hc => hws c (List.mem_reverse.1 hc))

/-- `strip` ignores whitespace added in front and behind -/
theorem strip_pad (ws1 s ws2 : List Char) (h1 : ∀ c ∈ ws1, isWs c = true) (h2 : ∀ c ∈ ws2, isWs c = true) :
    strip (ws1 ++ s ++ ws2) = strip s := by
  unfold strip
  rw [List.append_assoc, dropWhile_append_all isWs ws1 (s ++ ws2) h1]
  -- leading whitespace of `s ++ ws2`
  by_cases hs : s.dropWhile isWs = []
  · -- `s` is all whitespace: so is `s ++ ws2`
    have hall : ∀ c ∈ s, isWs c = true := by
      intro c hc
      by_contra hcn
      have : s.dropWhile isWs ≠ [] := by
        intro e
        have hmem := List.dropWhile_eq_nil_iff.1 e c hc
        exact hcn hmem
      exact this hs
    rw [dropWhile_append_all isWs s ws2 hall]
    have hw2 : ws2.dropWhile isWs = [] := List.dropWhile_eq_nil_iff.2 h2
    rw [hw2, hs]
  · have hsplit : (s ++ ws2).dropWhile isWs = s.dropWhile isWs ++ ws2 := by
      induction s with
      | nil => exact absurd rfl hs
      | cons x xs ih =>
        simp only [List.cons_append, List.dropWhile_cons]
        split
        · rename_i hx
          simp only [List.dropWhile_cons, hx, ↓reduceIte] at hs
          exact ih hs
        · rfl
    rw [hsplit, dropWhile_append_ws _ _ h2]

/-- **Whitespace before the first token and after the last one is not significant.** -/
theorem lex_outer_ws (tbl : List (String × Scanner)) (ws1 s ws2 : List Char) (h1 : ∀ c ∈ ws1, isWs c = true) (h2 : ∀ c ∈ ws2, isWs c = true) :
    lex tbl (ws1 ++ s ++ ws2) = lex tbl s := by
  unfold lex
  rw [strip_pad ws1 s ws2 h1 h2]
  have := strip_length_le s
  apply lexLoop_fuel
  · simp only [List.length_append]; omega
  · omega

end E2P.Lex
