/-
  E2P.Lemmas.LookupCols — column letters ↔ column numbers: bijective base 26, for every column number
  (helper lemmas for property C14).
-/
import E2P.Model.Cols
import Mathlib.Tactic.Ring
import Mathlib.Data.List.Induction
namespace E2P.LookupCols
open E2P

/-- value of one letter as a bijective-base-26 digit (1 … 26 on upper-case letters) -/
def digit (c : Char) : Nat := c.toNat - 'A'.toNat + 1

theorem letterOf_toNat : ∀ k < 26, (letterOf k).toNat = 65 + k := by decide

theorem letterOf_isUpper (k : Nat) (h : k < 26) : isUpper (letterOf k) = true := by
  have := letterOf_toNat k h
  simp only [isUpper, this, Bool.and_eq_true, decide_eq_true_eq]
  exact ⟨by decide +revert, by
    have : 'Z'.toNat = 90 := by decide
    omega⟩

theorem digit_letterOf (k : Nat) (h : k < 26) : digit (letterOf k) = k + 1 := by
  have h65 : 'A'.toNat = 65 := by decide
  simp only [digit, letterOf_toNat k h, h65]; omega

theorem isUpper_bounds (c : Char) (h : isUpper c = true) : 65 ≤ c.toNat ∧ c.toNat ≤ 90 := by
  have h65 : 'A'.toNat = 65 := by decide
  have h90 : 'Z'.toNat = 90 := by decide
  simpa [isUpper, h65, h90] using h

theorem letterOf_of_isUpper (c : Char) (h : isUpper c = true) : letterOf (c.toNat - 65) = c := by
  have hb := isUpper_bounds c h
  have h65 : 'A'.toNat = 65 := by decide
  unfold letterOf
  rw [h65, show 65 + (c.toNat - 65) = c.toNat by omega, Char.ofNat_toNat]

/-! ### Horner evaluation -/

theorem foldl_horner (s : List Char) (a : Nat) :
    s.foldl (fun acc c => acc * 26 + (c.toNat - 'A'.toNat + 1)) a = a * 26 ^ s.length + colIndex s := by
  induction s generalizing a with
  | nil => simp [colIndex]
  | cons c cs ih =>
    simp only [List.foldl_cons, List.length_cons, colIndex]
    rw [ih, ih (0 * 26 + _)]
    ring

theorem colIndex_append (l acc : List Char) :
    colIndex (l ++ acc) = colIndex l * 26 ^ acc.length + colIndex acc := by
  unfold colIndex
  rw [List.foldl_append, foldl_horner]
  rfl

theorem colIndex_cons (c : Char) (acc : List Char) :
    colIndex (c :: acc) = digit c * 26 ^ acc.length + colIndex acc := by
  have := colIndex_append [c] acc
  simpa [colIndex, digit] using this

theorem colIndex_snoc (s : List Char) (c : Char) : colIndex (s ++ [c]) = colIndex s * 26 + digit c := by
  rw [colIndex_append]
  simp [colIndex, digit]

/-! ### numbers → letters → numbers -/

theorem aux_zero (fuel : Nat) (acc : List Char) : colLettersAux fuel 0 acc = acc := by
  cases fuel <;> simp [colLettersAux]

theorem colIndex_aux (fuel n : Nat) (acc : List Char) (h : n ≤ fuel) :
    colIndex (colLettersAux fuel n acc) = n * 26 ^ acc.length + colIndex acc := by
  induction fuel generalizing n acc with
  | zero =>
    have : n = 0 := by omega
    subst this; simp [colLettersAux]
  | succ fuel ih =>
    by_cases hn : n = 0
    · subst hn; simp [colLettersAux]
    · simp only [colLettersAux, hn, if_false]
      have hq : (n - 1) / 26 ≤ fuel := by
        have := Nat.div_le_self (n - 1) 26
        omega
      rw [ih _ _ hq, colIndex_cons, digit_letterOf _ (Nat.mod_lt _ (by decide)), List.length_cons, Nat.pow_succ]
      have hdm : n = (n - 1) / 26 * 26 + ((n - 1) % 26 + 1) := by
        have := Nat.div_add_mod (n - 1) 26
        omega
      generalize 26 ^ acc.length = p
      generalize (n - 1) / 26 = q at *
      generalize (n - 1) % 26 = m at *
      subst hdm
      ring

theorem aux_all_upper (fuel n : Nat) (acc : List Char) (h : acc.all isUpper = true) :
    (colLettersAux fuel n acc).all isUpper = true := by
  induction fuel generalizing n acc with
  | zero => simpa [colLettersAux] using h
  | succ fuel ih =>
    by_cases hn : n = 0
    · subst hn; simpa [colLettersAux] using h
    · simp only [colLettersAux, hn, if_false]
      apply ih
      simp only [List.all_cons, Bool.and_eq_true]
      exact ⟨letterOf_isUpper _ (Nat.mod_lt _ (by decide)), h⟩

/-! ### letters → number → letters -/

theorem digit_bounds (c : Char) (h : isUpper c = true) : 1 ≤ digit c ∧ digit c ≤ 26 ∧ digit c - 1 = c.toNat - 65 := by
  have hb := isUpper_bounds c h
  have h65 : 'A'.toNat = 65 := by decide
  simp only [digit, h65]; omega

theorem aux_colIndex (s : List Char) (hs : s.all isUpper = true) :
    ∀ (fuel : Nat) (acc : List Char), colIndex s ≤ fuel → colLettersAux fuel (colIndex s) acc = s ++ acc := by
  induction s using List.reverseRecOn with
  | nil => intro fuel acc _; simp [colIndex, aux_zero]
  | append_singleton s c ih =>
    intro fuel acc hf
    simp only [List.all_append, List.all_cons, List.all_nil, Bool.and_true, Bool.and_eq_true] at hs
    obtain ⟨hs, hc⟩ := hs
    obtain ⟨d1, d26, dm⟩ := digit_bounds c hc
    rw [colIndex_snoc] at hf ⊢
    cases fuel with
    | zero => omega
    | succ fuel =>
      have hn : colIndex s * 26 + digit c ≠ 0 := by omega
      have hq : (colIndex s * 26 + digit c - 1) / 26 = colIndex s := by omega
      have hm : (colIndex s * 26 + digit c - 1) % 26 = c.toNat - 65 := by omega
      simp only [colLettersAux, hn, if_false, hq, hm, letterOf_of_isUpper c hc]
      rw [ih hs fuel (c :: acc) (by omega)]
      simp

end E2P.LookupCols
