import E2P.Lemmas.Dec15Basic
/-!
  Error bound of `rn` and uniqueness of `round15`, used by `E2P.Lemmas.Dec15`.
-/
namespace E2P

/-! ### scaling -/

theorem scaleBack_eq (b : ℕ) (e : ℤ) (m : ℕ) : scaleBack b e m = (m : ℚ) * (b : ℚ) ^ e := by
  unfold scaleBack
  split_ifs with h
  · rw [zpow_nonneg_eq _ _ h]; push_cast; ring
  · rw [zpow_neg_eq _ _ h, Rat.mkRat_eq_div]; push_cast; ring

theorem scaleRound_frac (r : ℕ → ℕ → ℕ) (b : ℕ) (hb : 0 < b) (e : ℤ) (n d : ℕ) (hd : 0 < d) :
    ∃ N D : ℕ, 0 < D ∧ scaleRound r b e n d = r N D ∧
      (N : ℚ) / D = (n : ℚ) / d / (b : ℚ) ^ e := by
  have hb' : (0 : ℚ) < b := by exact_mod_cast hb
  unfold scaleRound
  split_ifs with h
  · refine ⟨n, d * b ^ e.toNat, by positivity, rfl, ?_⟩
    rw [zpow_nonneg_eq _ _ h]; push_cast; rw [div_div]
  · refine ⟨n * b ^ (-e).toNat, d, hd, rfl, ?_⟩
    rw [zpow_neg_eq _ _ h]; push_cast; rw [div_inv_eq_mul]; ring

theorem roundSig_err (b : ℕ) (hb : 0 < b) (ilog : ℕ → ℕ → ℤ) (p n d : ℕ) (hd : 0 < d) :
    |roundSig roundHalfEven b ilog p n d - (n : ℚ) / d|
      ≤ (b : ℚ) ^ (ilog n d - ((p : ℤ) - 1)) / 2 := by
  have hb' : (0 : ℚ) < b := by exact_mod_cast hb
  unfold roundSig
  simp only
  generalize ilog n d - ((p : ℤ) - 1) = e
  obtain ⟨N, D, hD, h1, h2⟩ := scaleRound_frac roundHalfEven b hb e n d hd
  rw [scaleBack_eq, h1]
  have hp : (0 : ℚ) < (b : ℚ) ^ e := by positivity
  have h3 := roundHalfEven_abs N D hD
  rw [h2] at h3
  have e1 : (roundHalfEven N D : ℚ) * (b : ℚ) ^ e - (n : ℚ) / d
      = ((roundHalfEven N D : ℚ) - (n : ℚ) / d / (b : ℚ) ^ e) * (b : ℚ) ^ e := by
    field_simp
  rw [e1, abs_mul, abs_of_pos hp]
  calc _ ≤ 1 / 2 * (b : ℚ) ^ e := mul_le_mul_of_nonneg_right h3 hp.le
    _ = _ := by ring

theorem roundSig_eq (b : ℕ) (hb : 0 < b) (ilog : ℕ → ℕ → ℤ) (p n d : ℕ) (hd : 0 < d) (z : ℕ)
    (h : |(z : ℚ) * (b : ℚ) ^ (ilog n d - ((p : ℤ) - 1)) - (n : ℚ) / d|
      < (b : ℚ) ^ (ilog n d - ((p : ℤ) - 1)) / 2) :
    roundSig roundHalfEven b ilog p n d = (z : ℚ) * (b : ℚ) ^ (ilog n d - ((p : ℤ) - 1)) := by
  have hb' : (0 : ℚ) < b := by exact_mod_cast hb
  unfold roundSig
  simp only
  generalize ilog n d - ((p : ℤ) - 1) = e at *
  obtain ⟨N, D, hD, h1, h2⟩ := scaleRound_frac roundHalfEven b hb e n d hd
  rw [scaleBack_eq, h1]
  have hp : (0 : ℚ) < (b : ℚ) ^ e := by positivity
  have e1 : (z : ℚ) * (b : ℚ) ^ e - (n : ℚ) / d
      = ((z : ℚ) - (n : ℚ) / d / (b : ℚ) ^ e) * (b : ℚ) ^ e := by
    field_simp
  rw [e1, abs_mul, abs_of_pos hp] at h
  have h3 : |(z : ℚ) - (N : ℚ) / D| < 1 / 2 := by
    rw [h2]
    by_contra hc
    rw [not_lt] at hc
    have := mul_le_mul_of_nonneg_right hc hp.le
    linarith
  rw [roundHalfEven_eq_of_abs N D z hD h3]

/-! ### signs -/

theorem signed_neg_eq (s : Bool) (q : ℚ) : signed s (-q) = - signed s q := by
  unfold signed; split_ifs <;> simp

theorem signed_div (s : Bool) (q c : ℚ) : signed s q / c = signed s (q / c) := by
  unfold signed; split_ifs <;> ring

theorem natAbs_div_den (q : ℚ) (hq : 0 < q) : ((q.num.natAbs : ℕ) : ℚ) / (q.den : ℚ) = q := by
  have h : 0 < q.num := Rat.num_pos.2 hq
  have : ((q.num.natAbs : ℕ) : ℚ) = ((q.num : ℤ) : ℚ) := by
    rw [← Int.cast_natCast, Int.natAbs_of_nonneg h.le]
  rw [this]; exact Rat.num_div_den q

theorem rn_zero : rn 0 = 0 := by simp [rn]
theorem round15_zero : round15 0 = 0 := by simp [round15]

theorem rn_pos (q : ℚ) (hq : 0 < q) :
    rn q = roundSig roundHalfEven 2 ilog2 53 q.num.natAbs q.den := by
  have h : 0 < q.num := Rat.num_pos.2 hq
  unfold rn
  rw [if_neg (by omega)]
  have : decide (q.num < 0) = false := decide_eq_false (by omega)
  rw [this]; rfl

theorem round15_pos (q : ℚ) (hq : 0 < q) :
    round15 q = roundSig roundHalfEven 10 ilog10 15 q.num.natAbs q.den := by
  have h : 0 < q.num := Rat.num_pos.2 hq
  unfold round15
  rw [if_neg (by omega)]
  have : decide (q.num < 0) = false := decide_eq_false (by omega)
  rw [this]; rfl

theorem rn_neg (q : ℚ) : rn (-q) = - rn q := by
  unfold rn
  rw [Rat.neg_num, Rat.neg_den, Int.natAbs_neg]
  by_cases h0 : q.num = 0
  · simp [h0]
  · rw [if_neg (by omega), if_neg h0]
    by_cases hn : q.num < 0
    · have : decide (-q.num < 0) = false := decide_eq_false (by omega)
      rw [this]; simp [hn, signed]
    · have : decide (-q.num < 0) = true := decide_eq_true (by omega)
      rw [this]; simp [hn, signed]

theorem round15_neg (q : ℚ) : round15 (-q) = - round15 q := by
  unfold round15
  rw [Rat.neg_num, Rat.neg_den, Int.natAbs_neg]
  by_cases h0 : q.num = 0
  · simp [h0]
  · rw [if_neg (by omega), if_neg h0]
    by_cases hn : q.num < 0
    · have : decide (-q.num < 0) = false := decide_eq_false (by omega)
      rw [this]; simp [hn, signed]
    · have : decide (-q.num < 0) = true := decide_eq_true (by omega)
      rw [this]; simp [hn, signed]

theorem rn_signed (s : Bool) (q : ℚ) : rn (signed s q) = signed s (rn q) := by
  unfold signed; split_ifs
  · exact rn_neg q
  · rfl

theorem round15_signed (s : Bool) (q : ℚ) : round15 (signed s q) = signed s (round15 q) := by
  unfold signed; split_ifs
  · exact round15_neg q
  · rfl

/-- relative error of `rn` -/
theorem rn_err (q : ℚ) (hq : 0 < q) : |rn q - q| ≤ q / 2 ^ 53 := by
  have hn : 0 < q.num.natAbs := Int.natAbs_pos.2 (Rat.num_pos.2 hq).ne'
  have h := roundSig_err 2 (by norm_num) ilog2 53 q.num.natAbs q.den q.den_pos
  have h2 := ilog2_le q.num.natAbs q.den hn q.den_pos
  rw [natAbs_div_den q hq] at h h2
  rw [rn_pos q hq]
  refine h.trans ?_
  have e : ((2 : ℕ) : ℚ) ^ (ilog2 q.num.natAbs q.den - (((53 : ℕ) : ℤ) - 1)) / 2
      = (2 : ℚ) ^ (ilog2 q.num.natAbs q.den) / 2 ^ 53 := by
    rw [zpow_sub₀ (by norm_num)]
    norm_num
    ring
  rw [e]
  exact div_le_div_of_nonneg_right h2 (by positivity)

/-- uniqueness of the 15-digit rounding -/
theorem round15_eq (q : ℚ) (hq : 0 < q) (k : ℤ) (h1 : (10 : ℚ) ^ k ≤ q) (h2 : q < (10 : ℚ) ^ (k + 1))
    (z : ℕ) (h : |(z : ℚ) * (10 : ℚ) ^ (k - 14) - q| < (10 : ℚ) ^ (k - 14) / 2) :
    round15 q = (z : ℚ) * (10 : ℚ) ^ (k - 14) := by
  have hn : 0 < q.num.natAbs := Int.natAbs_pos.2 (Rat.num_pos.2 hq).ne'
  have hk : ilog10 q.num.natAbs q.den = k := by
    apply ilog10_eq _ _ hn q.den_pos
    · rw [natAbs_div_den q hq]; exact h1
    · rw [natAbs_div_den q hq]; exact h2
  rw [round15_pos q hq]
  have := roundSig_eq 10 (by norm_num) ilog10 15 q.num.natAbs q.den q.den_pos z
  rw [natAbs_div_den q hq, hk] at this
  have e : k - (((15 : ℕ) : ℤ) - 1) = k - 14 := by norm_num
  rw [e, Nat.cast_ofNat] at this
  exact this h

end E2P
