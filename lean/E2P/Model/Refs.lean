/-
  E2P.Model.Refs — model of how a reference inside a formula is resolved to cells:
  `handle_cell` (title → sheet index, letters → column, row text → row), `Excel._fill_cell` (bounds-checked fetch),
  `Excel.get_matrix` (rectangle / whole columns, row-major), `Cell.uid`, and the sheet-title part of the reference
  tokens (own sheet when no prefix; quoted titles with doubled apostrophes).
-/
import E2P.Model.Val
import E2P.Model.Cols
namespace E2P

/-- a sheet as read by `Excel.parse`: rows of cell values (a never-written cell is `none` in Python: modelled `blank`) -/
abbrev SheetData := List (List Val)

/-- `_fill_cell`: the stored value inside the read data, blank outside -/
def fetch (book : List SheetData) (s c r : Nat) : Val :=
  match book[s]? with
  | some sheet => match sheet[r]? with
    | some row => match row[c]? with
      | some v => v
      | none => .blank
    | none => .blank
  | none => .blank

/-- `_get_matrix(first, second)`: `for row in range(r1, r2+1): for column in range(c1, c2+1)` -/
def getMatrix (book : List SheetData) (s c1 r1 c2 r2 : Nat) : List (List Val) :=
  (List.range' r1 (r2 + 1 - r1)).map fun r => (List.range' c1 (c2 + 1 - c1)).map fun c => fetch book s c r

/-- whole-column area `A:C`: every row of the read sheet -/
def wholeColumns (book : List SheetData) (s c1 c2 : Nat) : List (List Val) :=
  getMatrix book s c1 0 c2 (((book[s]?).getD []).length - 1)

/-- `Cell.uid` = `'_' + '_'.join(str(i) for i in (title, column, row))` -/
def uidText (s c r : Nat) : List Char :=
  '_' :: (Nat.toDigits 10 s ++ '_' :: (Nat.toDigits 10 c ++ '_' :: Nat.toDigits 10 r))

/-- a title written between apostrophes: every apostrophe doubled -/
def quoteTitle : List Char → List Char
  | [] => []
  | c :: cs => if c = '\'' then '\'' :: '\'' :: quoteTitle cs else c :: quoteTitle cs

/-- `.replace("''", "'")`, left to right, non-overlapping -/
def unquoteTitle : List Char → List Char
  | '\'' :: '\'' :: cs => '\'' :: unquoteTitle cs
  | c :: cs => c :: unquoteTitle cs
  | [] => []

/-- the sheet a reference denotes: the formula's own sheet without a prefix, else the index of the title; `none` = rejected -/
def resolveSheet (titles : List (List Char)) (own : Nat) : Option (List Char) → Option Nat
  | none => some own
  | some t => titles.idxOf? t

end E2P
