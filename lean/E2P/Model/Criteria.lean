/-
  E2P.Model.Criteria — model of the criteria engine of the runtime (after the repair): `_criterion` (operator prefix,
  number / text with wildcards; dates are outside the model), and of `_sum_if`, `_sumifs`, `_countifs`, `_averageifs`
  (alignment check, casts of the criteria ranges, selection mask, final fold).
-/
import E2P.Model.Agg
namespace E2P

/-- `re.match(r'(>=|<=|<>|>|<|=)(.*)', text)`; no prefix means equality -/
def splitCrit : List Char → CmpOp × List Char
  | '>' :: '=' :: r => (.ge, r)
  | '<' :: '=' :: r => (.le, r)
  | '<' :: '>' :: r => (.ne, r)
  | '>' :: r => (.gt, r)
  | '<' :: r => (.lt, r)
  | '=' :: r => (.eq, r)
  | r => (.eq, r)

/-- `[+-]?(\d+\.?\d*|\.\d+)([eE][+-]?\d+)?` -/
def isCritNumberText (s : List Char) : Bool :=
  let s1 := match s with | '+' :: r | '-' :: r => r | r => r
  let ip := s1.takeWhile Char.isDigit
  let r1 := s1.dropWhile Char.isDigit
  let (fp, r2, dot) := match r1 with
    | '.' :: r => (r.takeWhile Char.isDigit, r.dropWhile Char.isDigit, true)
    | r => ([], r, false)
  let mant := if ip.isEmpty then dot && !fp.isEmpty else true
  let expOk := match r2 with
    | [] => true
    | e :: r =>
      if e = 'e' ∨ e = 'E' then
        let r' := match r with | '+' :: x | '-' :: x => x | x => x
        !r'.isEmpty && r'.all Char.isDigit
      else false
  mant && expOk

def hasDigit (s : List Char) : Bool := s.any Char.isDigit

/-- some suffix of the text (possibly all of it, possibly none) satisfies `f` -/
def starLoop (f : List Char → Bool) : List Char → Bool
  | [] => f []
  | x :: xs => f (x :: xs) || starLoop f xs

/-- the pattern matches the whole text (`re.fullmatch`, case-insensitive) -/
def matchAll : List Pat → List Char → Bool
  | [], t => t.isEmpty
  | .lit c :: ps, x :: xs => ciEq c x && matchAll ps xs
  | .lit _ :: _, [] => false
  | .any :: ps, _ :: xs => matchAll ps xs
  | .any :: _, [] => false
  | .star :: ps, t => starLoop (matchAll ps) t

def lowerText (s : List Char) : List Char := s.map lowerAscii

/-- the decoded criterion -/
inductive Crit where
  | num (op : CmpOp) (q : Rat)
  | text (op : CmpOp) (s : List Char)
  | bool (op : CmpOp) (b : Bool)
  deriving Repr

/-- `_criterion(criterion)`, decoding half; `none` = outside the model (date-like texts, date-times, lists) -/
def decodeCrit (P : List Char → Option Num) (c : Val) : Option Crit :=
  let c := match c with | .blank => Val.int 0 | v => v
  let (op, value) : CmpOp × Val := match c with
    | .str s => let (o, r) := splitCrit s; (o, .str r)
    | v => (.eq, v)
  match value with
  | .int z => some (.num op (z : Rat))
  | .flt q => some (.num op q)
  | .bool b => some (.bool op b)
  | .str s =>
    if isCritNumberText s then (P s).map fun n => .num op n.toRat
    else if hasDigit s then none            -- `_parse_date_obj` (dateutil) is tried on texts with digits
    else some (.text op s)
  | _ => none

/-- what the predicate answers for a cell -/
def critAccepts : Crit → Val → Bool
  | .num op q, cell =>
    match cell with
    | .int z => op.onOrd (z : Rat) q
    | .flt x => op.onOrd x q
    | _ => op == .ne
  | .bool op b, cell =>
    match op with
    | .eq => (match cell with | .bool c => c == b | _ => false)
    | .ne => !(match cell with | .bool c => c == b | _ => false)
    | _ => false
  | .text op s, cell =>
    let text : Option (List Char) := match cell with
      | .blank | .none => some []
      | .str t => some t
      | _ => none
    match op with
    | .eq => (match text with | some t => matchAll (parsePat s) t | none => false)
    | .ne => !(match text with | some t => matchAll (parsePat s) t | none => false)
    | _ => match text with
      | some t => strCmp op (lowerText t) (lowerText s)
      | none => false

/-- casts applied to the cells of a criteria range before the predicate sees them -/
def castBlank : Val → Val | .blank => .int 0 | v => v
def castBool : Val → Val | .bool b => .int (if b then 1 else 0) | v => v

/-- selection mask over `n` positions: every (range, criterion) pair accepts the position -/
def selectMask (cast : Val → Val) (pairs : List (List Val × Crit)) (n : Nat) : List Bool :=
  (List.range n).map fun i => pairs.all fun (rng, cr) => critAccepts cr (cast (rng.getD i .blank))

def keepSelected {α} (mask : List Bool) (l : List α) : List α :=
  (l.zip mask).filterMap fun (x, m) => if m then some x else none

/-- `_sumifs(sum_range, *range_and_criteria)` with the ranges already flattened and the criteria decoded -/
def sumifsF (target : List Val) (pairs : List (List Val × Crit)) : Res :=
  if pairs.any (fun p => p.1.length != target.length) then .error .runtimeLib
  else
    let mask := selectMask (fun v => castBool (castBlank v)) pairs target.length
    sumF ((keepSelected mask target).map castBool)

/-- `_countifs(count_range, count_condition, *range_n_criteria)` -/
def countifsF (countRange : List Val) (cond : Crit) (pairs : List (List Val × Crit)) : Except PyExc Nat :=
  if pairs.any (fun p => p.1.length != countRange.length) then .error .runtimeLib
  else
    let first := countRange.map fun v => critAccepts cond (castBlank v)
    let mask := selectMask castBlank pairs countRange.length
    .ok ((first.zip mask).filter (fun (a, b) => a && b)).length

/-- `_sum_if(range, criteria, sum_range)`: positions beyond the sum range are skipped; `sum_range[i] or 0` -/
def sumIfF (rng : List Val) (cond : Crit) (target : List Val) : Res :=
  let picked := ((rng.zip target).filter fun (c, _) => critAccepts cond c).map (·.2)
  sumFold (.int 0) (picked.map fun v => if truthy v then v else .int 0)

end E2P
