/-
  E2P.Model.ExecRej — set-cells calls that are REJECTED.  `Executor.set_cells` resolves every address of the batch
  (`handle_cell`: unknown sheet title, bad column letters, row 0 ... raise the cell exception) BEFORE it grows a sheet size
  or stores an override; a batch with an address that does not resolve therefore raises and leaves the executor as it was.
  A history is a list of `OpA`: ordinary operations, and set-cells calls that are rejected.
-/
import E2P.Model.Exec
namespace E2P

/-- `set_cells(batch)` with the addresses as the caller wrote them -/
def resolveAll (titles : List (List Char)) : List (Addr × Val) → Option (List (Uid × Val))
  | [] => some []
  | (a, v) :: rest =>
    match resolve titles a, resolveAll titles rest with
    | some u, some b => some ((u, v) :: b)
    | _, _ => none

/-- outcome of a set-cells call: accepted (the resolved batch is applied) or the cell exception (nothing changes) -/
def setCellsAddr (titles : List (List Char)) (st : ExecState) (batch : List (Addr × Val)) : ExecState × Bool :=
  match resolveAll titles batch with
  | some b => (setCells st b, true)
  | none => (st, false)

inductive OpA where
  | op (o : Op)
  /-- a set-cells call one of whose addresses does not resolve -/
  | rejected

inductive OutA where
  | out (o : Out)
  | cellError

def stepA (wb : Workbook) (fuel : Nat) (st : ExecState) : OpA → ExecState × OutA
  | .op o => let (s, out) := step wb fuel st o; (s, .out out)
  | .rejected => (st, .cellError)

def runA (wb : Workbook) (fuel : Nat) (st : ExecState) : List OpA → ExecState × List OutA
  | [] => (st, [])
  | op :: ops =>
    let (s1, o) := stepA wb fuel st op
    let (s2, os) := runA wb fuel s1 ops
    (s2, o :: os)

/-- the history without its rejected calls -/
def accepted : List OpA → List Op
  | [] => []
  | .op o :: r => o :: accepted r
  | .rejected :: r => accepted r

/-- the outputs of the calls that were not rejected -/
def answers : List OutA → List Out
  | [] => []
  | .out o :: r => o :: answers r
  | .cellError :: r => answers r


/-! ### calls as the caller writes them -/

/-- an address resolves inside a workbook of `n` sheets: `handle_cell`, then the sheet number is one of the workbook's -/
def resolveIn (titles : List (List Char)) (n : Nat) (a : Addr) : Option Uid :=
  match resolve titles a with
  | some u => if u.sheet < n then some u else none
  | none => none

def resolveAllIn (titles : List (List Char)) (n : Nat) : List (Addr × Val) → Option (List (Uid × Val))
  | [] => some []
  | (a, v) :: rest =>
    match resolveIn titles n a, resolveAllIn titles n rest with
    | some u, some b => some ((u, v) :: b)
    | _, _ => none

/-- a call of the public API: `set_cells` with addresses as written, or a query -/
inductive Call where
  | setCells (batch : List (Addr × Val))
  | get (u : Uid)
  | gets (us : List Uid)
  | sheet (s : Nat)

/-- what the executor does with a call: a batch with an address that does not resolve is rejected as a whole -/
def compileCall (titles : List (List Char)) (n : Nat) : Call → OpA
  | .setCells batch => match resolveAllIn titles n batch with
    | some b => .op (.set b)
    | none => .rejected
  | .get u => .op (.get u)
  | .gets us => .op (.gets us)
  | .sheet s => .op (.sheet s)

end E2P
