/-
  E2P.Model.Compare — model of the runtime comparison ladder
  (`ExcelInPython._compare`, `_to_number`, `_by_operator`, the `EmptyCell` dunder methods and
  CPython's reflected-operator protocol for the operand kinds that can meet there).

  Text → number parsing (`int(str)`, `float(str)`) is an external; it enters as the parameter
  `P : List Char → Option Num` so that every law below is proved for *any* such function.
-/
import E2P.Model.Val
namespace E2P

inductive CmpOp where
  | ge | gt | le | lt | eq | ne
  deriving DecidableEq, Repr, Inhabited

def CmpOp.ofPy : String → Option CmpOp
  | ">=" => some .ge | ">" => some .gt | "<=" => some .le | "<" => some .lt
  | "==" => some .eq | "!=" => some .ne | _ => none

/-- A Python number after `_to_number`: `int` or (finite, non-NaN) `float`. -/
inductive Num where
  | i (z : Int)
  | f (q : Rat)
  deriving Repr, Inhabited

def Num.toRat : Num → Rat
  | .i z => (z : Rat)
  | .f q => q

/-- CPython compares `int` with `float` exactly; on finite values that is the order of ℚ. -/
def CmpOp.onOrd {α} [LT α] [DecidableEq α] [DecidableLT α] (op : CmpOp) (a b : α) : Bool :=
  match op with
  | .ge => !decide (a < b)
  | .gt => decide (b < a)
  | .le => !decide (b < a)
  | .lt => decide (a < b)
  | .eq => decide (a = b)
  | .ne => !decide (a = b)

def Num.cmp (op : CmpOp) (a b : Num) : Bool := op.onOrd a.toRat b.toRat

/-- lexicographic order on code points: Python's `str` comparison -/
def strLt : List Char → List Char → Bool
  | [], [] => false
  | [], _ :: _ => true
  | _ :: _, [] => false
  | a :: as, b :: bs => if a.toNat < b.toNat then true else if b.toNat < a.toNat then false else strLt as bs

def strCmp (op : CmpOp) (a b : List Char) : Bool :=
  match op with
  | .ge => !strLt a b
  | .gt => strLt b a
  | .le => !strLt b a
  | .lt => strLt a b
  | .eq => decide (a = b)
  | .ne => !decide (a = b)

/-- `_to_number`: `none` stands for ValueError/TypeError (both are caught by the caller). -/
def toNumber (P : List Char → Option Num) : Val → Option Num
  | .blank => some (.i 0)
  | .bool b => some (.i (if b then 1 else 0))
  | .int z => some (.i z)
  | .flt q => some (.f q)
  | .str s => P s
  | _ => none

/-- `EmptyCell.__eq__(other)` -/
def blankEq : Val → Bool
  | .blank => true
  | .none => true
  | .bool b => !b
  | .int z => z == 0
  | .flt q => q == 0
  | .str s => s.isEmpty
  | _ => false

/-- `EmptyCell.__lt__(other)` -/
def blankLt : Val → Bool
  | .date _ => true
  | .dt _ _ => true
  | .blank => false          -- isinstance(other, int) → other > 0 → EmptyCell.__gt__ → False
  | .bool b => b
  | .int z => 0 < z
  | .flt q => 0 < q
  | .str s => !s.isEmpty
  | .list vs => vs.isEmpty
  | _ => false

/-- `blank <op> other` through the dunder methods (`__ne__` is the negation of `__eq__`). -/
def blankOp (op : CmpOp) (o : Val) : Bool :=
  match op with
  | .eq => blankEq o
  | .ne => !blankEq o
  | .lt => blankLt o
  | .le => blankEq o || blankLt o
  | .gt => false
  | .ge => blankEq o

/-- `other <op> blank` where `other`'s own method returns NotImplemented: the reflected method
    of the blank is used. -/
def CmpOp.swap : CmpOp → CmpOp
  | .ge => .le | .gt => .lt | .le => .ge | .lt => .gt | .eq => .eq | .ne => .ne

/-- microsecond timestamp of a date / date-time (the code converts a date to midnight) -/
def stamp? : Val → Option Int
  | .date o => some (o * (usPerDay : Int))
  | .dt o u => some (o * (usPerDay : Int) + (u : Int))
  | _ => none

/-- Third rung: `_by_operator(op, l, r)` on the raw operands, after date → date-time.
    `none` = the model does not describe this operand pair. -/
def rawCompare (op : CmpOp) (l r : Val) : Option Bool :=
  match l, r with
  | .blank, o => some (blankOp op o)
  | o, .blank =>
      match o with
      | .str _ | .date _ | .dt _ _ | .none => some (blankOp op.swap o)
      | _ => none
  | .str a, .str b => some (strCmp op a b)
  | a, b =>
      match stamp? a, stamp? b with
      | some x, some y => some (op.onOrd x y)
      | _, _ => none

def isStr : Val → Bool | .str _ => true | _ => false
def isBlank : Val → Bool | .blank => true | _ => false

/-- `_compare(op, l, r)`.  `none` = outside the modelled operand pairs (mixed kinds whose
    comparison goes through `str()` of a non-text). -/
def compare (P : List Char → Option Num) (op : CmpOp) (l r : Val) : Option Bool :=
  let blankText := (isBlank l && isStr r) || (isBlank r && isStr l)
  match (if blankText then none else
          match toNumber P l, toNumber P r with
          | some a, some b => some (Num.cmp op a b)
          | _, _ => none) with
  | some b => some b
  | none => rawCompare op l r

end E2P
