/-
  E2P.Model.Val — the value domain shared by every model.

  A `Val` is a Python value as it can occur in a generated `ExcelInPython` class:
  the blank cell object (`EmptyCell()`), `None`, booleans, unbounded integers, finite
  floats (the exact rational a double denotes), texts (lists of code points), dates,
  date-times, lists and tuples.  Import-free so the driver links natively.
-/
namespace E2P

/-- Outcome classes of Python exceptions.  Messages are never modelled. -/
inductive PyExc where
  | parser | safety | cell | executor | runtimeLib
  | typeError | zeroDiv | valueError | indexError | keyError | attributeError
  | recursionError | syntaxError | overflowError | other
  /-- the model declines to describe this input (outside the modelled fragment) -/
  | unmodelled
  deriving DecidableEq, Repr, Inhabited

def PyExc.name : PyExc → String
  | .parser => "Parser" | .safety => "Safety" | .cell => "Cell" | .executor => "Executor"
  | .runtimeLib => "RuntimeLib" | .typeError => "TypeError" | .zeroDiv => "ZeroDivisionError"
  | .valueError => "ValueError" | .indexError => "IndexError" | .keyError => "KeyError"
  | .attributeError => "AttributeError" | .recursionError => "RecursionError"
  | .syntaxError => "SyntaxError" | .overflowError => "OverflowError" | .other => "Other"
  | .unmodelled => "Unmodelled"

def PyExc.ofName : String → PyExc
  | "Parser" => .parser | "Safety" => .safety | "Cell" => .cell | "Executor" => .executor
  | "RuntimeLib" => .runtimeLib | "TypeError" => .typeError | "ZeroDivisionError" => .zeroDiv
  | "ValueError" => .valueError | "IndexError" => .indexError | "KeyError" => .keyError
  | "AttributeError" => .attributeError | "RecursionError" => .recursionError
  | "SyntaxError" => .syntaxError | "OverflowError" => .overflowError
  | "Unmodelled" => .unmodelled | _ => .other

/-- Library exceptions (the `E2PyclException` hierarchy and the runtime's own exception). -/
def PyExc.isLibrary : PyExc → Bool
  | .parser | .safety | .cell | .executor | .runtimeLib => true
  | _ => false

inductive Val where
  | blank
  | none
  | bool (b : Bool)
  | int (z : Int)
  | flt (q : Rat)
  | str (s : List Char)
  /-- `datetime.date` by proleptic Gregorian ordinal -/
  | date (ord : Int)
  /-- `datetime.datetime` by ordinal and microseconds since midnight -/
  | dt (ord : Int) (us : Nat)
  | list (vs : List Val)
  | tuple (vs : List Val)
  deriving Repr, Inhabited

mutual
  def Val.beq : Val → Val → Bool
    | .blank, .blank => true
    | .none, .none => true
    | .bool a, .bool b => a == b
    | .int a, .int b => a == b
    | .flt a, .flt b => a == b
    | .str a, .str b => a == b
    | .date a, .date b => a == b
    | .dt a u, .dt b v => a == b && u == v
    | .list a, .list b => Val.beqList a b
    | .tuple a, .tuple b => Val.beqList a b
    | _, _ => false
  def Val.beqList : List Val → List Val → Bool
    | [], [] => true
    | a :: as, b :: bs => Val.beq a b && Val.beqList as bs
    | _, _ => false
end

instance : BEq Val := ⟨Val.beq⟩

abbrev Res := Except PyExc Val

def Val.ofString (s : String) : Val := .str s.toList

/-- one million microseconds × 86400 -/
def usPerDay : Nat := 86400000000

end E2P
