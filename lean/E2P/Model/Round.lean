/-
  E2P.Model.Round — model of `_round`, `_roundup`, `_rounddown` (after the repair: the double is printed
  with 15 significant digits, rounded as a decimal, and converted back) and of the percent operator.
-/
import E2P.Model.Val
import E2P.Model.F53
namespace E2P

inductive RMode where
  | halfUp   -- ROUND: half away from zero
  | up       -- ROUNDUP: away from zero
  | down     -- ROUNDDOWN: toward zero
  deriving DecidableEq, Repr, Inhabited

/-- integer rounding of `N / D` (N ≥ 0, D > 0) in the given mode (magnitudes only) -/
def roundNat (mode : RMode) (N D : Nat) : Nat :=
  let m := N / D
  let r := N % D
  match mode with
  | .halfUp => if D ≤ 2 * r then m + 1 else m
  | .up => if 0 < r then m + 1 else m
  | .down => m

/-- `Decimal.quantize(10^-n, rounding=mode)` on an exact rational: round to `n` decimal digits
    (negative `n`: to tens, hundreds, …), symmetric in the sign -/
def quantize (mode : RMode) (q : Rat) (n : Int) : Rat :=
  if q.num = 0 then 0 else
    signed (q.num < 0) (scaleBack 10 (-n) (scaleRound (roundNat mode) 10 (-n) q.num.natAbs q.den))

/-- `int(num_digits)` -/
def digitsArg : Val → Option Int
  | .int z => some z
  | .bool b => some (if b then 1 else 0)
  | .flt q => some (if 0 ≤ q then q.floor else q.ceil)
  | .blank => some 0
  | _ => none

/-- `_round / _roundup / _rounddown (number, num_digits)` -/
def roundFn (mode : RMode) (number digits : Val) : Res :=
  match digitsArg digits with
  | none => .error .typeError
  | some n =>
    match number with
    | .flt q => .ok (.flt (rn (quantize mode (round15 q) n)))
    | .int z => .ok (.int (quantize mode (z : Rat) n).floor)
    | .bool b => .ok (.int (quantize mode (if b then 1 else 0) n).floor)
    | .blank => .ok (.int 0)
    | _ => .error .unmodelled

/-- `x%` on a float or int operand: `_normalize_float_number(x / 100)` -/
def percentFn : Val → Res
  | .flt q => .ok (.flt (normalize15 (fdiv q 100)))
  | .int z => .ok (.flt (normalize15 (rn ((z : Rat) / 100))))
  | .blank => .ok (.flt 0)
  | .bool b => .ok (.flt (normalize15 (rn ((if b then 1 else 0 : Rat) / 100))))
  | _ => .error .unmodelled

/-- what C16 demands for a number given as the decimal `x` (the operand is the double `rn x`):
    the double nearest to the exact decimal result -/
def specRound (mode : RMode) (x : Rat) (n : Int) : Rat := rn (quantize mode x n)

/-- x% = x/100, as the nearest double -/
def specPercent (x : Rat) : Rat := rn (x / 100)

end E2P
