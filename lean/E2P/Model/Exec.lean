/-
  E2P.Model.Exec — model of `Executor` (set_cells / get_cell / get_cells / get_sheet), of the override plumbing of the
  generated class (`set_arguments`, `_cell_preprocessor`, `exec_function_in`) and of `handle_cell` addressing.

  A workbook is an association list uid ↦ formula; a formula is an `XExpr` (the operator / IF / IFS / IFERROR fragment of
  Spec.BranchSpec) whose `ref u` reads cell `u`.  The generated class evaluates lazily and recursively through
  `_cell_preprocessor`; the model does the same with a fuel parameter (CPython's recursion limit; running out of it is
  the model's RecursionError).
-/
import E2P.Spec.BranchSpec
import E2P.Model.Cols
namespace E2P

/-- a cell uid `_<sheet>_<column>_<row>` (0-based), packed into one number for `XExpr.ref` -/
structure Uid where
  sheet : Nat
  col : Nat
  row : Nat
  deriving DecidableEq, Repr, Inhabited

def uidBase : Nat := 100000
def Uid.code (u : Uid) : Nat := (u.sheet * uidBase + u.col) * uidBase + u.row
def Uid.ofCode (n : Nat) : Uid := ⟨n / uidBase / uidBase, n / uidBase % uidBase, n % uidBase⟩

abbrev Workbook := List (Nat × XExpr)          -- uid code ↦ formula (constants are `lit`)
abbrev Args := List (Nat × Val)                -- `_arguments`: uid code ↦ override, a Python dict (insertion ordered)

def lookup {α} (k : Nat) : List (Nat × α) → Option α
  | [] => none
  | (k', v) :: r => if k' = k then some v else lookup k r

/-- dict assignment `d[k] = v`: replace in place if present, else append -/
def dictSet {α} (k : Nat) (v : α) : List (Nat × α) → List (Nat × α)
  | [] => [(k, v)]
  | (k', v') :: r => if k' = k then (k, v) :: r else (k', v') :: dictSet k v r

/-- `{**old, **new}` -/
def dictMerge {α} (old new : List (Nat × α)) : List (Nat × α) := new.foldl (fun d kv => dictSet kv.1 kv.2 d) old

/-- `_cell_preprocessor(uid)`: an override wins and the cell's own method is not evaluated; no method → blank.
    `body u` is the formula of the method `u` of the class (if there is one), `ov u` the entry of `_arguments`. -/
def cellValueF (body : Nat → Option XExpr) (ov : Nat → Option Val) : Nat → Nat → Res
  | 0, _ => .error .recursionError
  | fuel + 1, u =>
    match ov u with
    | some v => .ok v
    | none =>
      match body u with
      | some e => evalX (cellValueF body ov fuel) e
      | none => .ok .blank

def cellValue (wb : Workbook) (args : Args) (fuel : Nat) (u : Nat) : Res :=
  cellValueF (fun k => lookup k wb) (fun k => lookup k args) fuel u

/-! ### addressing (`handle_cell`) -/

inductive Addr where
  /-- `Cell(title=<int>, column=<int>, row=<int>)`, all 0-based -/
  | num (sheet col row : Nat)
  /-- `Cell(title='<title>', column='<LETTERS>', row='<digits>')`, Excel style -/
  | a1 (title : List Char) (letters : List Char) (row : Nat)
  /-- mixed: title by name, the rest numeric -/
  | named (title : List Char) (col row : Nat)

/-- `None` stands for the `KeyError` of an unknown title / the `ValueError` of openpyxl for a bad column / row 0 -/
def resolve (titles : List (List Char)) : Addr → Option Uid
  | .num s c r => some ⟨s, c, r⟩
  | .a1 t l r =>
    match titles.idxOf? t with
    | some s => if l.isEmpty || !l.all isUpper || l.length > 3 || r = 0 then none else some ⟨s, colIndex l - 1, r - 1⟩
    | none => none
  | .named t c r =>
    match titles.idxOf? t with
    | some s => some ⟨s, c, r⟩
    | none => none

/-! ### the executor -/

structure ExecState where
  cells : Args                      -- Executor._cells (after the repair: uid ↦ latest override)
  dirty : Bool                      -- _cells_have_been_changed
  args : Args                       -- instance._arguments
  sizes : List (Nat × Nat)          -- per sheet (last_column, last_row); shared with the instance
  deriving Inhabited

def ExecState.init (sizes : List (Nat × Nat)) : ExecState := ⟨[], false, [], sizes⟩

def growSize (sizes : List (Nat × Nat)) (u : Uid) : List (Nat × Nat) :=
  sizes.mapIdx fun i (w, h) => if i = u.sheet then (max w (u.col + 1), max h (u.row + 1)) else (w, h)

/-- `set_cells(batch)` with every address already resolved -/
def setCells (st : ExecState) (batch : List (Uid × Val)) : ExecState :=
  { st with
    sizes := batch.foldl (fun s uv => growSize s uv.1) st.sizes
    cells := batch.foldl (fun d uv => dictSet uv.1.code uv.2 d) st.cells
    dirty := true }

/-- the replay `_set_cells_to_executed_instance` performed before a query when the flag is set -/
def sync (st : ExecState) : ExecState :=
  if st.dirty then { st with args := dictMerge st.args st.cells, dirty := false } else st

def getCell (wb : Workbook) (fuel : Nat) (st : ExecState) (u : Uid) : ExecState × Res :=
  let st' := sync st
  (st', cellValue wb st'.args fuel u.code)

def getCells (wb : Workbook) (fuel : Nat) (st : ExecState) : List Uid → ExecState × List Res
  | [] => (st, [])
  | u :: us =>
    let (st1, r) := getCell wb fuel st u
    let (st2, rs) := getCells wb fuel st1 us
    (st2, r :: rs)

/-- `get_sheet(sheet)`: rows `range(last_row)` of columns `range(last_column)` -/
def getSheet (wb : Workbook) (fuel : Nat) (st : ExecState) (sheet : Nat) : ExecState × List (List Res) :=
  let (w, h) := st.sizes.getD sheet (0, 0)
  let st' := sync st
  (st', (List.range h).map fun r => (List.range w).map fun c => cellValue wb st'.args fuel (Uid.code ⟨sheet, c, r⟩))

inductive Op where
  | set (batch : List (Uid × Val))
  | get (u : Uid)
  | gets (us : List Uid)
  | sheet (s : Nat)

inductive Out where
  | unit
  | val (r : Res)
  | vals (rs : List Res)
  | grid (g : List (List Res))

def step (wb : Workbook) (fuel : Nat) (st : ExecState) : Op → ExecState × Out
  | .set b => (setCells st b, .unit)
  | .get u => let (s, r) := getCell wb fuel st u; (s, .val r)
  | .gets us => let (s, rs) := getCells wb fuel st us; (s, .vals rs)
  | .sheet k => let (s, g) := getSheet wb fuel st k; (s, .grid g)

def run (wb : Workbook) (fuel : Nat) (st : ExecState) : List Op → ExecState × List Out
  | [] => (st, [])
  | op :: ops =>
    let (s1, o) := step wb fuel st op
    let (s2, os) := run wb fuel s1 ops
    (s2, o :: os)

end E2P
