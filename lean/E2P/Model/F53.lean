/-
  E2P.Model.F53 — finite IEEE-754 binary64 values as exact rationals.

  `rn q` is the double nearest to `q` (ties to even) with an unbounded exponent range: the model
  does not exhibit overflow, subnormals, NaN, infinities or the sign of zero.  `round15 q` is the
  decimal with at most 15 significant digits nearest to `q` (ties to even), i.e. what a correctly
  rounded `'{:.15g}'` prints.  Both are computable and import-free.
-/
import E2P.Model.Val
namespace E2P

def pow2 (k : Nat) : Nat := 2 ^ k
def pow10 (k : Nat) : Nat := 10 ^ k

/-- nearest integer to `n / d` (d > 0), ties to even -/
def roundHalfEven (n d : Nat) : Nat :=
  let q := n / d
  let r := n % d
  if 2 * r < d then q else if d < 2 * r then q + 1 else if q % 2 = 0 then q else q + 1

/-- nearest integer to `n / d` (d > 0), ties away from zero (upwards on naturals) -/
def roundHalfUp (n d : Nat) : Nat :=
  let q := n / d
  let r := n % d
  if 2 * r < d then q else q + 1

/-- `b ^ e ≤ n / d` for integer `e` (n, d > 0) -/
def powLe (b : Nat) (e : Int) (n d : Nat) : Bool :=
  if 0 ≤ e then decide (b ^ e.toNat * d ≤ n) else decide (d ≤ n * b ^ (-e).toNat)

/-- search downward from a start exponent that is known to be ≥ the answer -/
def floorLogFrom (b : Nat) (n d : Nat) : Nat → Int → Int
  | 0, e => e
  | k + 1, e => if powLe b e n d then e else floorLogFrom b n d k (e - 1)

/-- ⌊log₂ (n/d)⌋ for n, d > 0 -/
def ilog2 (n d : Nat) : Int :=
  floorLogFrom 2 n d 3 ((Nat.log2 n : Int) - (Nat.log2 d : Int) + 1)

/-- number of decimal digits of a natural (0 ↦ 1) -/
def ndigits (n : Nat) : Nat := (toString n).length

/-- ⌊log₁₀ (n/d)⌋ for n, d > 0 -/
def ilog10 (n d : Nat) : Int :=
  floorLogFrom 10 n d 4 ((ndigits n : Int) - (ndigits d : Int) + 1)

/-- scale `n/d` by `b^(-e)` and round with `r` -/
def scaleRound (r : Nat → Nat → Nat) (b : Nat) (e : Int) (n d : Nat) : Nat :=
  if 0 ≤ e then r n (d * b ^ e.toNat) else r (n * b ^ (-e).toNat) d

/-- `m * b^e` as a rational -/
def scaleBack (b : Nat) (e : Int) (m : Nat) : Rat :=
  if 0 ≤ e then ((m * b ^ e.toNat : Nat) : Rat) else mkRat m (b ^ (-e).toNat)

/-- round a positive rational `n/d` to `p` significant base-`b` digits using `r` -/
def roundSig (r : Nat → Nat → Nat) (b : Nat) (ilog : Nat → Nat → Int) (p : Nat) (n d : Nat) : Rat :=
  let e := ilog n d - ((p : Int) - 1)
  scaleBack b e (scaleRound r b e n d)

def signed (neg : Bool) (q : Rat) : Rat := if neg then -q else q

/-- the double nearest to `q` -/
def rn (q : Rat) : Rat :=
  if q.num = 0 then 0 else
    signed (q.num < 0) (roundSig roundHalfEven 2 ilog2 53 q.num.natAbs q.den)

/-- nearest decimal with 15 significant digits -/
def round15 (q : Rat) : Rat :=
  if q.num = 0 then 0 else
    signed (q.num < 0) (roundSig roundHalfEven 10 ilog10 15 q.num.natAbs q.den)

/-- double arithmetic on finite values -/
def fadd (a b : Rat) : Rat := rn (a + b)
def fsub (a b : Rat) : Rat := rn (a - b)
def fmul (a b : Rat) : Rat := rn (a * b)
def fdiv (a b : Rat) : Rat := rn (a / b)

/-- `float(n)` for a Python int -/
def ofInt (z : Int) : Rat := rn (z : Rat)

/-- `_normalize_float_number(x) = float(f'{x:.15g}')` -/
def normalize15 (q : Rat) : Rat := rn (round15 q)

/-- value of a decimal literal `digits × 10^exp` -/
def decimal (neg : Bool) (digits : Nat) (exp : Int) : Rat :=
  signed neg (if 0 ≤ exp then ((digits * 10 ^ exp.toNat : Nat) : Rat) else mkRat digits (10 ^ (-exp).toNat))

end E2P
