/-
  E2P.Model.Cols — column numbers ↔ column letters (bijective base 26): the model of
  `_address.get_col`, and of openpyxl's `get_column_letter` / `column_index_from_string` (externals).
-/
namespace E2P

/-- letter for a digit 0..25 -/
def letterOf (k : Nat) : Char := Char.ofNat ('A'.toNat + k)

/-- column number (1-based) → letters, most significant first; fuel-free structural recursion on the
    quotient via well-founded recursion on `n` -/
def colLettersAux : Nat → Nat → List Char → List Char
  | 0, _, acc => acc
  | fuel + 1, n, acc =>
    if n = 0 then acc else colLettersAux fuel ((n - 1) / 26) (letterOf ((n - 1) % 26) :: acc)

def colLetters (n : Nat) : List Char := colLettersAux n n []

def isUpper (c : Char) : Bool := 'A'.toNat ≤ c.toNat && c.toNat ≤ 'Z'.toNat

/-- letters → column number (1-based); Horner in base 26 with digits 1..26 -/
def colIndex (s : List Char) : Nat := s.foldl (fun acc c => acc * 26 + (c.toNat - 'A'.toNat + 1)) 0

end E2P
