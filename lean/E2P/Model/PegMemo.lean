/-
  E2P.Model.PegMemo — model of the MEMOISED token-set parser, i.e. of `CompositeBaseToken.get` as the repository runs it
  since the repair of the exponential re-parsing:

      key = (cls, len(expression))
      if key not in memo: memo[key] = cls._get(expression, in_cell)
      return memo[key]

  `_get` is the loop over the token sets of `E2P.Model.Peg`; every nested `token.get(...)` goes through the table again.
  An exception (`raise`) leaves the table as it is and unwinds the whole parse.  The state also counts how often `_get`
  was ENTERED (`calls`) - the number the C06 check reads off the real code with a call counter.
  `AstBuilder.parse` starts from a fresh table (`astBuildM`).
-/
import E2P.Model.Peg
namespace E2P

/-- the table `CompositeBaseToken._MEMO.table` (newest entry first, a later entry for a key shadows an older one) and
    the log of `_get` executions so far -/
structure MemoSt where
  memo : List ((String × Nat) × PRes)
  /-- ghost: the key of every `_get` execution so far, newest first -/
  log : List (String × Nat)
  deriving Inhabited

def MemoSt.empty : MemoSt := ⟨[], []⟩

/-- the number of `_get` executions so far -/
def MemoSt.calls (s : MemoSt) : Nat := s.log.length

def MemoSt.find (s : MemoSt) (k : String × Nat) : Option PRes := s.memo.lookup k

/-- one token set against the remaining tokens, threading the table -/
def seqMatchM (G : Grammar) (getF : String → List Tok → MemoSt → PRes × MemoSt) :
    List String → List Tok → MemoSt → SeqRes × MemoSt
  | [], toks, s => (.done [] toks false, s)
  | _ :: _, [], s => (.fail false, s)
  | sym :: syms, t :: ts, s =>
    if sym == t.1 then
      match seqMatchM G getF syms ts s with
      | (.done k r _, s') => (.done (.leaf t :: k) r true, s')
      | (.fail _, s') => (.fail true, s')
      | (.raise, s') => (.raise, s')
      | (.depth, s') => (.depth, s')
    else if G.composites.contains sym then
      match getF sym (t :: ts) s with
      | (.ok tree rest, s1) =>
        match seqMatchM G getF syms rest s1 with
        | (.done k r m, s') => (.done (tree :: k) r m, s')
        | (.fail m, s') => (.fail m, s')
        | (.raise, s') => (.raise, s')
        | (.depth, s') => (.depth, s')
      | (.none, s1) => (.fail false, s1)
      | (.raise, s1) => (.raise, s1)
      | (.depth, s1) => (.depth, s1)
    else (.fail false, s)

/-- the loop over the token sets of one class, threading the table -/
def trySetsM (G : Grammar) (getF : String → List Tok → MemoSt → PRes × MemoSt) (cls : String) (toks : List Tok) :
    List (List String) → Bool → MemoSt → PRes × MemoSt
  | [], saw, s => (if saw && G.control.contains cls then .raise else .none, s)
  | set :: sets, saw, s =>
    match seqMatchM G getF set toks s with
    | (.done kids rest m, s') =>
      if set.isEmpty then trySetsM G getF cls toks sets (saw || m) s' else (.ok (.node cls kids) rest, s')
    | (.fail m, s') => trySetsM G getF cls toks sets (saw || m) s'
    | (.raise, s') => (.raise, s')
    | (.depth, s') => (.depth, s')

/-- `cls.get(expression)` with the table -/
def pegGetM (G : Grammar) : Nat → String → List Tok → MemoSt → PRes × MemoSt
  | 0, _, _, s => (.depth, s)
  | fuel + 1, cls, toks, s =>
    match s.find (cls, toks.length) with
    | some r => (r, s)                                                       -- `key in memo`
    | none =>
      match trySetsM G (pegGetM G fuel) cls toks (G.setsOf cls) false { s with log := (cls, toks.length) :: s.log } with
      | (.ok t rest, s') => (.ok t rest, { s' with memo := ((cls, toks.length), .ok t rest) :: s'.memo })
      | (.none, s') => (.none, { s' with memo := ((cls, toks.length), .none) :: s'.memo })
      | (.raise, s') => (.raise, s')                                         -- the exception skips the assignment
      | (.depth, s') => (.depth, s')

/-- `AstBuilder.parse`: a fresh table, the entry rule, the whole-input check -/
def astBuildM (G : Grammar) (fuel : Nat) (entry : String) (toks : List Tok) : AstRes × Nat :=
  match pegGetM G fuel entry toks MemoSt.empty with
  | (.ok t [], s) => (.accept t, s.calls)
  | (.ok _ (_ :: _), s) => (.reject, s.calls)
  | (.none, s) => (.reject, s.calls)
  | (.raise, s) => (.reject, s.calls)
  | (.depth, s) => (.depth, s.calls)

end E2P
