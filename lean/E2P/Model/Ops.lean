/-
  E2P.Model.Ops — model of `ExpressionTokenTranslator` (after the repair): the flat sequence of operands and operators of a
  formula, grouped by Excel's precedence — % (postfix), unary + -, * /, + -, &, comparisons, left associative — into a
  fully parenthesised Python expression, and the evaluation of that expression.  Bracket matching, which the real
  translator reads off the token tree, is done here on the token sequence.
-/
import E2P.Model.Branch
namespace E2P

inductive BinOp where
  | add | sub | mul | div | cat | cmp (c : CmpOp)
  deriving DecidableEq, Repr

/-- one element of the flat sequence -/
inductive Tk where
  | atom (a : Nat)            -- an operand: literal, reference, function call (index into the environment)
  | lp | rp | pct
  | op (o : BinOp)            -- + and - are also the unary signs, decided by position
  deriving DecidableEq, Repr

/-- the emitted expression (every node is parenthesised in the text, so this tree IS the Python parse) -/
inductive Ex where
  | atom (a : Nat)
  | paren (e : Ex)
  | pct (e : Ex)              -- self._normalize_float_number(e / 100)
  | neg (e : Ex)
  | pos (e : Ex)
  | bin (o : BinOp) (l r : Ex)
  deriving DecidableEq, Repr

/-- binding level of a binary operator: 1 = * /, 2 = + -, 3 = &, 4 = comparisons -/
def BinOp.level : BinOp → Nat
  | .mul | .div => 1
  | .add | .sub => 2
  | .cat => 3
  | .cmp _ => 4

mutual
  /-- operand with postfix % signs -/
  def pPost : Nat → List Tk → Option (Ex × List Tk)
    | 0, _ => none
    | fuel + 1, .atom a :: r => pPct fuel (.atom a) r
    | fuel + 1, .lp :: r =>
      match pLevel fuel 4 r with
      | some (e, .rp :: r') => pPct fuel (.paren e) r'
      | _ => none
    | _ + 1, _ => none
  def pPct : Nat → Ex → List Tk → Option (Ex × List Tk)
    | 0, _, _ => none
    | fuel + 1, e, .pct :: r => pPct fuel (.pct e) r
    | _ + 1, e, r => some (e, r)
  /-- unary signs -/
  def pUnary : Nat → List Tk → Option (Ex × List Tk)
    | 0, _ => none
    | fuel + 1, .op .add :: r => (pUnary fuel r).map fun (e, r') => (.pos e, r')
    | fuel + 1, .op .sub :: r => (pUnary fuel r).map fun (e, r') => (.neg e, r')
    | fuel + 1, r => pPost fuel r
  /-- level k: operands of level k-1 joined by operators of level k, left associative -/
  def pLevel : Nat → Nat → List Tk → Option (Ex × List Tk)
    | 0, _, _ => none
    | fuel + 1, 0, r => pUnary fuel r
    | fuel + 1, k + 1, r =>
      match pLevel fuel k r with
      | some (l, r') => pLoop fuel (k + 1) l r'
      | none => none
  def pLoop : Nat → Nat → Ex → List Tk → Option (Ex × List Tk)
    | 0, _, _, _ => none
    | fuel + 1, k, l, .op o :: r =>
      if o.level = k then
        match pLevel fuel (k - 1) r with
        | some (rhs, r') => pLoop fuel k (.bin o l rhs) r'
        | none => none
      else some (l, .op o :: r)
    | _ + 1, _, l, r => some (l, r)
end

/-- `ExpressionTokenTranslator.translate` on the flat sequence: the whole sequence must be consumed -/
def groupTokens (toks : List Tk) : Option Ex :=
  match pLevel (4 * toks.length + 8) 4 toks with
  | some (e, []) => some e
  | _ => none

/-- printing back: infix, brackets exactly where `paren` nodes are -/
def Ex.flat : Ex → List Tk
  | .atom a => [.atom a]
  | .paren e => .lp :: (e.flat ++ [.rp])
  | .pct e => e.flat ++ [.pct]
  | .neg e => .op .sub :: e.flat
  | .pos e => .op .add :: e.flat
  | .bin o l r => l.flat ++ .op o :: r.flat

/-! ### evaluation of the emitted expression -/

def pySub (a b : Val) : Res :=
  match numOf a, numOf b with
  | some (.i x), some (.i y) => .ok (.int (x - y))
  | some x, some y => .ok (.flt (fsub (rn x.toRat) (rn y.toRat)))
  | _, _ => .error .typeError

def pyNeg (a : Val) : Res :=
  match numOf a with
  | some (.i x) => .ok (.int (-x))
  | some (.f q) => .ok (.flt (-q))
  | none => .error .typeError

def pyPos (a : Val) : Res :=
  match numOf a with
  | some n => .ok (valOfNum n)
  | none => .error .typeError

/-- `self._normalize_float_number(x / 100)` -/
def pctVal (a : Val) : Res :=
  match pyTrueDiv a (.int 100) with
  | .ok (.flt q) => .ok (.flt (normalize15 q))
  | .ok v => .ok v
  | .error e => .error e

def evalBin (o : BinOp) (x y : Val) : Res :=
  match o with
  | .add => pyAdd x y
  | .sub => pySub x y
  | .mul => pyMul x y
  | .div => pyTrueDiv x y
  | .cat => concatFn [x, y]
  | .cmp c => match compare parseNum c x y with
    | some b => .ok (.bool b)
    | none => .error .unmodelled

/-- is the left operand of an arithmetic node a percent term? (then the node is rounded to 15 significant digits) -/
def Ex.isPct : Ex → Bool | .pct _ => true | _ => false

def normVal : Val → Val
  | .flt q => .flt (normalize15 q)
  | v => v

def evalEx (env : Nat → Res) : Ex → Res
  | .atom a => env a
  | .paren e => evalEx env e
  | .pct e => do let v ← evalEx env e; pctVal v
  | .neg e => do let v ← evalEx env e; pyNeg v
  | .pos e => do let v ← evalEx env e; pyPos v
  | .bin o l r => do
      let x ← evalEx env l
      let y ← evalEx env r
      let v ← evalBin o x y
      match o with
      | .add | .sub | .mul | .div => if l.isPct then .ok (normVal v) else .ok v
      | _ => .ok v

end E2P
