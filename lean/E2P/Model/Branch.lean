/-
  E2P.Model.Branch — the emitted shape of IF / IFS / IFERROR and its Python evaluation.

  `PyExpr` is the tree of the Python expression the translators emit for a formula of the fragment
  (constants, cell calls, a failing division, fully parenthesised + * & =, SUM of two arguments, LEFT,
  and the three branching functions).  `evalPy` is CPython's evaluation order on that tree together with
  the runtime helpers `_ifs` (index loop over a list of lambdas), `_iferror` (try / except) and
  `_find_error_in_list` (parameter `errs`: the list of error values, extracted from the source by Tie A).
-/
import E2P.Model.Val
import E2P.Model.Compare
import E2P.Model.Lookup
import E2P.Model.Text
namespace E2P

mutual
  inductive PyExpr where
    | const (v : Val)
    | cellCall (i : Nat)                       -- self._cell_preprocessor('…')
    | div (a b : PyExpr)                       -- (a / b)
    | add (a b : PyExpr)                       -- (a + b)
    | mul (a b : PyExpr)                       -- (a * b)
    | strAdd (a b : PyExpr)                    -- str(a) + str(b)
    | cmpEq (a b : PyExpr)                     -- self._compare("==", a, b)
    | sum2 (a b : PyExpr)                      -- self._sum(self._only_numeric_list(self._flatten_list([a, b])))
    | left (t n : PyExpr)                      -- self._left(t, n)
    | cond (t c f : PyExpr)                    -- ((t) if (c) else (f))
    | ifsCall (items : PyList)                 -- self._ifs([lambda: e1, lambda: e2, …])
    | iferrorCall (a b : PyExpr)               -- self._iferror(lambda: a, lambda: b)
  inductive PyList where
    | nil
    | cons (h : PyExpr) (t : PyList)
end

def isErrVal (errs : List (List Char)) : Val → Bool
  | .str s => errs.contains s
  | _ => false

/-- a Python number operand: int-like (int, bool, blank) or float -/
def numOf : Val → Option Num
  | .int z => some (.i z)
  | .bool b => some (.i (if b then 1 else 0))
  | .blank => some (.i 0)
  | .flt q => some (.f q)
  | _ => none

def valOfNum : Num → Val
  | .i z => .int z
  | .f q => .flt q

/-- Python `a + b`: numbers (int + int exact, anything with a float is a double operation), text + text -/
def pyAdd (a b : Val) : Res :=
  match a, b with
  | .str s, .str t => .ok (.str (s ++ t))
  | _, _ =>
    match numOf a, numOf b with
    | some (.i x), some (.i y) => .ok (.int (x + y))
    | some x, some y => .ok (.flt (fadd (rn x.toRat) (rn y.toRat)))
    | _, _ => .error .typeError

/-- Python `a * b`: numbers; text * int is repetition -/
def pyMul (a b : Val) : Res :=
  let rep (s : List Char) (n : Int) : Res := .ok (.str (List.replicate n.toNat s).flatten)
  match a, b with
  | .str s, v | v, .str s =>
    match v, numOf v with
    | .str _, _ => .error .typeError
    | _, some (.i n) => rep s n
    | _, _ => .error .typeError
  | _, _ =>
    match numOf a, numOf b with
    | some (.i x), some (.i y) => .ok (.int (x * y))
    | some x, some y => .ok (.flt (fmul (rn x.toRat) (rn y.toRat)))
    | _, _ => .error .typeError

/-- Python `a / b`: true division, always a float -/
def pyTrueDiv (a b : Val) : Res :=
  match numOf a, numOf b with
  | some x, some y =>
    if y.toRat = 0 then .error .zeroDiv
    else match x, y with
      | .i p, .i q => .ok (.flt (rn ((p : Rat) / (q : Rat))))     -- int / int is correctly rounded
      | _, _ => .ok (.flt (fdiv (rn x.toRat) (rn y.toRat)))
  | _, _ => .error .typeError

/-- `sum(only_numeric([x, y]))`: text, booleans and blanks are not numeric cells; Python's `sum` starts from int 0 -/
def sumTwo (x y : Val) : Res :=
  let num : Val → Option (Option Num) := fun v => match v with
    | .int z => some (some (.i z))
    | .flt q => some (some (.f q))
    | .list _ | .tuple _ => none
    | _ => some none
  match num x, num y with
  | some p, some q =>
    match p, q with
    | none, none => .ok (.int 0)
    | some a, none | none, some a => .ok (valOfNum a)
    | some a, some b => pyAdd (valOfNum a) (valOfNum b)
  | _, _ => .error .unmodelled

variable (errs : List (List Char)) (env : Nat → Res)

mutual
  def evalPy : PyExpr → Res
    | .const v => .ok v
    | .cellCall i => env i
    | .div a b => do let x ← evalPy a; let y ← evalPy b; pyTrueDiv x y
    | .add a b => do let x ← evalPy a; let y ← evalPy b; pyAdd x y
    | .mul a b => do let x ← evalPy a; let y ← evalPy b; pyMul x y
    | .strAdd a b => do let x ← evalPy a; let y ← evalPy b; concatFn [x, y]
    | .cmpEq a b => do
        let x ← evalPy a; let y ← evalPy b
        match compare parseNum .eq x y with
        | some r => .ok (.bool r)
        | none => .error .unmodelled
    | .sum2 a b => do
        let x ← evalPy a; let y ← evalPy b
        sumTwo x y
    | .left t n => do
        let x ← evalPy t; let y ← evalPy n
        match x, y with
        | .str s, .int k => leftFn s k
        | _, _ => .error .unmodelled
    | .cond t c f => do
        let cv ← evalPy c
        if truthy cv then evalPy t else evalPy f
    | .ifsCall items => evalIfs items
    | .iferrorCall a b =>
        match evalPy a with
        | .ok v => if isErrVal errs v then evalPy b else .ok v
        | .error .unmodelled => .error .unmodelled
        | .error _ => evalPy b
  /-- `_ifs`: `index = 0; while index < len: c = items[index](); … items[index + 1]() …; index += 2` -/
  def evalIfs : PyList → Res
    | .nil => .ok errNA
    | .cons c rest => do
        let cv ← evalPy c
        if isErrVal errs cv then .ok cv
        else if truthy cv then
          match rest with
          | .cons v _ => evalPy v
          | .nil => .error .indexError
        else
          match rest with
          | .cons _ rest' => evalIfs rest'
          | .nil => .ok errNA
end

end E2P
