/-
  E2P.Model.Text — model of the text helpers `_left _right _mid _search _value`, of `&` / CONCATENATE on
  texts and integers, on ASCII texts.
-/
import E2P.Model.Val
import E2P.Model.F53
import E2P.Model.NumParse
import E2P.Model.DateFns
namespace E2P

/-- Python slice `t[a:b]` for 0 ≤ a -/
def slice (t : List Char) (a b : Nat) : List Char := (t.take b).drop a

/-- `_left(text, num_chars)` -/
def leftFn (t : List Char) (n : Int) : Res :=
  if n < 0 then .ok errError
  else if t.isEmpty then .ok .blank
  else .ok (.str (t.take n.toNat))

/-- `_right(text, num_chars)` -/
def rightFn (t : List Char) (n : Int) : Res :=
  if n < 0 then .ok errError
  else if t.isEmpty then .ok .blank
  else .ok (.str (t.drop (t.length - n.toNat)))

/-- `_mid(text, start_num, num_chars)` -/
def midFn (t : List Char) (k n : Int) : Res :=
  if k < 1 then .ok errNum
  else if n < 0 then .ok errValue
  else if (t.length : Int) < k then .ok .blank
  else .ok (.str ((t.drop (k.toNat - 1)).take n.toNat))

/-- one element of a SEARCH pattern -/
inductive Pat where
  | lit (c : Char)   -- this character, case-insensitively
  | any              -- `?`
  | star             -- `*`
  deriving DecidableEq, Repr

/-- `~?`, `~*`, `~~` are literals; a lone `~` is itself -/
def parsePat : List Char → List Pat
  | [] => []
  | '~' :: c :: rest =>
    if c = '?' ∨ c = '*' ∨ c = '~' then .lit c :: parsePat rest else .lit '~' :: parsePat (c :: rest)
  | '?' :: rest => .any :: parsePat rest
  | '*' :: rest => .star :: parsePat rest
  | c :: rest => .lit c :: parsePat rest

def ciEq (a b : Char) : Bool := lowerAscii a == lowerAscii b

/-- the pattern matches some prefix of the text (what `re.match` decides for the compiled pattern) -/
def matchPre : List Pat → List Char → Bool
  | [], _ => true
  | .lit c :: ps, x :: xs => ciEq c x && matchPre ps xs
  | .lit _ :: _, [] => false
  | .any :: ps, _ :: xs => matchPre ps xs
  | .any :: _, [] => false
  | .star :: ps, [] => matchPre ps []
  | .star :: ps, x :: xs => matchPre ps (x :: xs) || matchPre (.star :: ps) xs
termination_by ps xs => (ps.length, xs.length)

/-- leftmost position `p ≥ pos` (0-based, `p ≤ |t|`) at which the pattern matches: `re.search(…, pos)`;
    `rest` is the text from `pos` on -/
def searchFrom (ps : List Pat) : List Char → Nat → Option Nat
  | [], pos => if matchPre ps [] then some pos else none
  | x :: xs, pos => if matchPre ps (x :: xs) then some pos else searchFrom ps xs (pos + 1)

def asciiOnly (s : List Char) : Bool := s.all fun c => c.toNat < 128

/-- `_search(find_text, within_text, start_num)`; `start = none` stands for Python `None` -/
def searchFn (f t : List Char) (start : Option Int) : Res :=
  if !(asciiOnly f && asciiOnly t) then .error .unmodelled else
  let s : Int := match start with | some z => if z = 0 then 1 else z | none => 1
  if (t.length : Int) < s ∨ s ≤ 0 then .ok errValue
  else match searchFrom (parsePat f) (t.drop (s.toNat - 1)) (s.toNat - 1) with
    | some p => .ok (.int (p + 1))
    | none => .ok errValue

/-- `str(v)` for the operand kinds whose text form the model describes -/
def strOfVal : Val → Option (List Char)
  | .str s => some s
  | .int z => some (toString z).toList
  | .blank => some ['0']
  | .bool true => some "True".toList
  | .bool false => some "False".toList
  | _ => none

/-- `str(a) + str(b)`: the `&` operator -/
def concatFn (vs : List Val) : Res :=
  match vs.mapM strOfVal with
  | some parts => .ok (.str parts.flatten)
  | none => .error .unmodelled

/-- `_value(text)` on decimal texts: `int(text)`, else `float(text with , → .)` -/
def valueFn (s : List Char) : Res :=
  if !numTextModelled s then .error .unmodelled else
  let t := stripWs s
  match pyInt? t with
  | some z => .ok (.int z)
  | none =>
    match pyFloat? (t.map fun c => if c = ',' then '.' else c) with
    | some q => .ok (.flt q)
    | none => .error .unmodelled     -- dates, times, percents: not modelled

end E2P
