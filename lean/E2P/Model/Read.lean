/-
  E2P.Model.Read — model of `Excel.parse`: positions by enumeration over what openpyxl's read-only `iter_rows()` yields
  after `reset_dimensions()`, sheet sizes, titles in workbook order.

  openpyxl's contract is an explicit input: `rows` is the list of rows it yields, each a list of cell values (`none` for
  a cell without value); by that contract row i is sheet row i+1 and position j is column j+1 (validated by the harness
  against openpyxl's normal mode and against the generator's own cell map).
-/
import E2P.Model.Refs
namespace E2P

/-- `rows_data.append(cell.value)` per cell, per row -/
def parseSheet (rows : List (List (Option Val))) : SheetData := rows.map fun r => r.map fun o => o.getD .blank

def maxRowLen (rows : List (List (Option Val))) : Nat := rows.foldl (fun m r => max m r.length) 0

/-- `{'last_column': max row length, 'last_row': number of rows}` -/
def sheetSize (rows : List (List (Option Val))) : Nat × Nat := (maxRowLen rows, rows.length)

/-- `{title: index}` from the titles in workbook order -/
def titleIndex (titles : List (List Char)) (t : List Char) : Option Nat := titles.idxOf? t

end E2P
