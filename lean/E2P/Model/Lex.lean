/-
  E2P.Model.Lex — model of the regex lexer: `Lexer.parse` (strip, then repeatedly: lstrip, the first class of
  `Lexer.TOKENS` whose anchored regex `^(regexp)(last_match_regexp)$` matches, `UndefinedToken` raises) and of
  `RegexpBaseToken.get` for every class.

  * The reference classes (matrix, range, cell), the pattern and the literal class have hand-written scanners that follow
    Python's backtracking order for those five regexes; `E2P.Props.C05` pins the regex SOURCES of this run (regenerated
    table) to the strings the scanners were written for, and Tie B compares every scanner with `<class>.get`.
  * Every other class (brackets, separators, operators, keywords) is INTERPRETED from the regenerated table: its regex
    must be an alternation of escaped literals (`simpleAlts`), which `E2P.Props.C05` checks by evaluation.

  Characters: `\w`, `\d`, `\s` and `str.strip` are modelled on the alphabet ASCII + Cyrillic letters; Tie B draws its
  inputs from that alphabet and checks the three predicates against Python's on every character it uses.
-/
import E2P.Model.Peg
namespace E2P.Lex

def isDigit (c : Char) : Bool := 48 ≤ c.toNat && c.toNat ≤ 57
def isUp (c : Char) : Bool := 65 ≤ c.toNat && c.toNat ≤ 90
def isLow (c : Char) : Bool := 97 ≤ c.toNat && c.toNat ≤ 122
/-- `\w` on the modelled alphabet -/
def isWord (c : Char) : Bool :=
  isDigit c || isUp c || isLow c || c == '_' || (0x410 ≤ c.toNat && c.toNat ≤ 0x44F) || c.toNat == 0x401 || c.toNat == 0x451
/-- `\s` / `str.strip()` on the modelled alphabet: space, \t \n \v \f \r -/
def isWs (c : Char) : Bool := c == ' ' || (9 ≤ c.toNat && c.toNat ≤ 13)

/-- `\$?` -/
def optDollar : List Char → List Char
  | c :: r => if c = '$' then r else c :: r
  | [] => []

/-- `(\$?(\d+))?` : (text of the whole group, digits, rest); the group is skipped (nothing consumed) without digits -/
def optRow (s : List Char) : List Char × List Char × List Char :=
  let s1 := optDollar s
  let ds := s1.takeWhile isDigit
  if ds = [] then ([], [], s) else ((if s.head? = some '$' then ['$'] else []) ++ ds, ds, s1.dropWhile isDigit)

/-- `q((?:[^q]|qq)*)q` after the opening quote: (raw body, rest after the closing quote).  A doubled quote stays in the
    body; the first quote that is not doubled closes. -/
def pairedBody (q : Char) : List Char → Option (List Char × List Char)
  | [] => none
  | c :: r =>
    if c = q then
      match r with
      | c2 :: r2 => if c2 = q then (pairedBody q r2).map (fun p => (q :: q :: p.1, p.2)) else some ([], r)
      | [] => some ([], [])
    else (pairedBody q r).map (fun p => (c :: p.1, p.2))

/-- the text-literal body `"((?:[^"]|"")*)"` followed by anything: the star is greedy, but when no closing quote is found
    further on, the regex backtracks and closes at the first quote of a pair -/
def strBody (q : Char) : List Char → Option (List Char × List Char)
  | [] => none
  | c :: r =>
    if c = q then
      match r with
      | c2 :: r2 =>
        if c2 = q then
          match strBody q r2 with
          | some p => some (q :: q :: p.1, p.2)
          | none => some ([], r)
        else some ([], r)
      | [] => some ([], [])
    else (strBody q r).map (fun p => (c :: p.1, p.2))

/-- `.replace(qq, q)` left to right -/
def undouble (q : Char) : List Char → List Char
  | [] => []
  | [c] => [c]
  | c :: c2 :: r => if c = q ∧ c2 = q then q :: undouble q r else c :: undouble q (c2 :: r)

/-- `_sheet_title(quoted, plain, default)`; `none` = the formula's own sheet -/
def titleOf (quoted plain : List Char) : Option (List Char) :=
  if quoted ≠ [] then some (undouble '\'' quoted) else if plain ≠ [] then some plain else none

/-- `((\'((?:[^\']|\'\')*)\'|(\w*?))!)?` when the group takes part: (title, rest after `!`) -/
def scanPrefix (s : List Char) : Option (Option (List Char) × List Char) :=
  match s with
  | c :: r =>
    if c = '\'' then
      match pairedBody '\'' r with
      | some (raw, c2 :: rest) => if c2 = '!' then some (titleOf raw [], rest) else none
      | _ => none
    else
      match s.dropWhile isWord with
      | c2 :: rest => if c2 = '!' then some (titleOf [] (s.takeWhile isWord), rest) else none
      | [] => none
  | [] => none

/-- the optional prefix group: first with it, then (backtracking) without it -/
def withPrefix {α : Type} (body : Option (List Char) → List Char → Option α) (s : List Char) : Option α :=
  match scanPrefix s with
  | some (t, r) => match body t r with
    | some x => some x
    | none => body none s
  | none => body none s

structure RefCell where
  title : Option (List Char)
  col : List Char
  row : List Char          -- `[]` = no row (whole column)
  deriving Repr, DecidableEq

/-- last_match_regexp of CellIdentifierToken `([^\d]|[^:\d].*)?` -/
def cellRestOk : List Char → Bool
  | [] => true
  | [c] => !isDigit c
  | c :: _ => !isDigit c && c != ':'

/-- `\$?([A-Z]+)\$?(\d+)` + lookahead -/
def cellBody (t : Option (List Char)) (s : List Char) : Option (RefCell × List Char) :=
  let s1 := optDollar s
  let col := s1.takeWhile isUp
  if col = [] then none else
  let s2 := optDollar (s1.dropWhile isUp)
  let row := s2.takeWhile isDigit
  if row = [] then none else
  let rest := s2.dropWhile isDigit
  if cellRestOk rest then some (⟨t, col, row⟩, rest) else none

def cellTok (s : List Char) : Option (RefCell × List Char) := withPrefix cellBody s

/-- last_match_regexp of MatrixOfCellIdentifiersToken `([^\d].*)?` -/
def matrixRestOk : List Char → Bool
  | [] => true
  | c :: _ => !isDigit c

/-- `\$?([A-Z]+)(\$?(\d+))?:\$?([A-Z]+)(\$?(\d+))?` + lookahead -/
def matrixBody (t : Option (List Char)) (s : List Char) : Option ((RefCell × RefCell) × List Char) :=
  let s1 := optDollar s
  let c1 := s1.takeWhile isUp
  if c1 = [] then none else
  let o1 := optRow (s1.dropWhile isUp)
  match o1.2.2 with
  | colon :: s3 =>
    if colon = ':' then
      let s4 := optDollar s3
      let c2 := s4.takeWhile isUp
      if c2 = [] then none else
      let o2 := optRow (s4.dropWhile isUp)
      if matrixRestOk o2.2.2 then some ((⟨t, c1, o1.2.1⟩, ⟨t, c2, o2.2.1⟩), o2.2.2) else none
    else none
  | [] => none

def matrixTok (s : List Char) : Option ((RefCell × RefCell) × List Char) := withPrefix matrixBody s

/-- last_match_regexp of CellIdentifierRangeToken `([^\d$].*)?` -/
def rangeRestOk : List Char → Bool
  | [] => true
  | c :: _ => !isDigit c && c != '$'

/-- drop `p` from the front of `s` when it is a prefix -/
def stripPrefix (p s : List Char) : Option (List Char) := if p.isPrefixOf s then some (s.drop p.length) else none

/-- first alternative `\$?([A-Z]+)(\$?(\d+))?:\$?\8(\$?(\d+))?` (same column) -/
def rangeAlt1 (t : Option (List Char)) (s : List Char) : Option ((RefCell × RefCell) × List Char) :=
  let s1 := optDollar s
  let c1 := s1.takeWhile isUp
  if c1 = [] then none else
  let o1 := optRow (s1.dropWhile isUp)
  match o1.2.2 with
  | colon :: s3 =>
    if colon = ':' then
      match stripPrefix c1 (optDollar s3) with
      | some s5 =>
        let o2 := optRow s5
        if rangeRestOk o2.2.2 then some ((⟨t, c1, o1.2.1⟩, ⟨t, c1, o2.2.1⟩), o2.2.2) else none
      | none => none
    else none
  | [] => none

/-- `([A-Z]+)(\$?\15)?` + lookahead with the second column of length `k`, `k-1`, …, 1 (backtracking of the greedy `+`):
    for each length first with the optional group, then without it -/
def rangeAlt2Tail (t : Option (List Char)) (c1 g r : List Char) (s4 : List Char) : Nat → Option ((RefCell × RefCell) × List Char)
  | 0 => none
  | k + 1 =>
    let c2 := s4.take (k + 1)
    let after := s4.drop (k + 1)
    let withGroup : Option (List Char) :=
      if g = [] then none else
      match stripPrefix g (optDollar after) with                  -- `\$?` takes the dollar first …
      | some r => some r
      | none => stripPrefix g after                               -- … and gives it back when the group text itself starts with it
    match withGroup with
    | some rest =>
      if rangeRestOk rest then some ((⟨t, c1, r⟩, ⟨t, c2, r⟩), rest)
      else if rangeRestOk after then some ((⟨t, c1, r⟩, ⟨t, c2, r⟩), after)
      else rangeAlt2Tail t c1 g r s4 k
    | none =>
      if rangeRestOk after then some ((⟨t, c1, r⟩, ⟨t, c2, r⟩), after)
      else rangeAlt2Tail t c1 g r s4 k

/-- second alternative `\$?([A-Z]+)(\$?(\d+))?:\$?([A-Z]+)(\$?\15)?` (same row text) -/
def rangeAlt2 (t : Option (List Char)) (s : List Char) : Option ((RefCell × RefCell) × List Char) :=
  let s1 := optDollar s
  let c1 := s1.takeWhile isUp
  if c1 = [] then none else
  let o1 := optRow (s1.dropWhile isUp)
  match o1.2.2 with
  | colon :: s3 =>
    if colon = ':' then
      let s4 := optDollar s3
      rangeAlt2Tail t c1 o1.1 o1.2.1 s4 (s4.takeWhile isUp).length
    else none
  | [] => none

def rangeBody (t : Option (List Char)) (s : List Char) : Option ((RefCell × RefCell) × List Char) :=
  match rangeAlt1 t s with
  | some x => some x
  | none => rangeAlt2 t s

def rangeTok (s : List Char) : Option ((RefCell × RefCell) × List Char) := withPrefix rangeBody s

/-- `(?<![~])[?*]+` somewhere in the body: a wildcard whose predecessor (initially the opening quote) is not `~` -/
def hasWild (prev : Char) : List Char → Bool
  | [] => false
  | c :: r => ((c == '?' || c == '*') && prev != '~') || hasWild c r

/-- PatternToken `\"((?:[^\"]|\"\")*?(?<![~])[?*]+(?:[^\"]|\"\")*)\"` : (raw body, rest).  The text is delimited as in
    LiteralToken (a doubled quote stays inside; when no closing quote follows, the regex falls back to the first quote of a
    pair); it is a pattern when some wildcard in it is not preceded by `~`. -/
def patternTok (s : List Char) : Option (List Char × List Char) :=
  match s with
  | q :: r =>
    if q = '"' then
      match strBody '"' r with
      | some p => if hasWild '"' p.1 then some p else none
      | none => none
    else none
  | [] => none

inductive Lit where
  | str (raw : List Char)                                   -- raw body, doubled quotes not yet replaced
  | num (int frac : List Char) (hasFrac : Bool) (exp : List Char) (hasExp : Bool)   -- exp includes its sign
  | tru
  | fls
  deriving Repr, DecidableEq

/-- `((\.)(\d+))?` -/
def optFrac (s : List Char) : List Char × Bool × List Char :=
  match s with
  | c :: r => if c = '.' ∧ r.takeWhile isDigit ≠ [] then (r.takeWhile isDigit, true, r.dropWhile isDigit) else ([], false, s)
  | [] => ([], false, s)

/-- `(e(-?\d+))?` -/
def optExp (s : List Char) : List Char × Bool × List Char :=
  match s with
  | c :: r =>
    if c = 'e' then
      match r with
      | m :: r2 =>
        if m = '-' then (if r2.takeWhile isDigit ≠ [] then ('-' :: r2.takeWhile isDigit, true, r2.dropWhile isDigit) else ([], false, s))
        else if r.takeWhile isDigit ≠ [] then (r.takeWhile isDigit, true, r.dropWhile isDigit) else ([], false, s)
      | [] => ([], false, s)
    else ([], false, s)
  | [] => ([], false, s)

/-- `(\(\))?` -/
def optCall : List Char → List Char
  | a :: b :: r => if a = '(' ∧ b = ')' then r else a :: b :: r
  | s => s

/-- LiteralToken's regex (the constructor's conversion is `E2P.Model.NumParse` / `Quote`) -/
def literalTok (s : List Char) : Option (Lit × List Char) :=
  match s with
  | [] => none
  | c :: r =>
    if c = '"' then (strBody '"' r).map (fun p => (Lit.str p.1, p.2))
    else if isDigit c then
      let int := s.takeWhile isDigit
      let f := optFrac (s.dropWhile isDigit)
      let e := optExp f.2.2
      some (Lit.num int f.1 f.2.1 e.1 e.2.1, e.2.2)
    else match stripPrefix "TRUE".toList s with
      | some rest => some (Lit.tru, optCall rest)
      | none => match stripPrefix "FALSE".toList s with
        | some rest => some (Lit.fls, optCall rest)
        | none => none

/-- decimal digits as a number -/
def natOf (ds : List Char) : Nat := ds.foldl (fun n c => 10 * n + (c.toNat - 48)) 0

/-- `float(f"{int}.{frac}e{exp}")` is infinite: the decimal value is at least 2^1024 − 2^970 (the midpoint above the largest
    double, which rounds to even = overflow) -/
def numTooLarge (int frac exp : List Char) : Bool :=
  let m := natOf (int ++ frac)
  let t := 2 ^ 1024 - 2 ^ 970
  let e : Int := (match exp with | '-' :: ds => - (natOf ds : Int) | ds => (natOf ds : Int)) - (frac.length : Int)
  if m = 0 then false
  else if 310 < e then true                                         -- m ≥ 1, so m·10^e > 10^310
  else if e + ((int ++ frac).length : Int) < 0 then false           -- m < 10^(number of digits) ≤ 10^(−e): the value is below 1
  else if 0 ≤ e then decide (t ≤ m * 10 ^ e.toNat) else decide (t * 10 ^ (-e).toNat ≤ m)

/-- the constructor of LiteralToken raises `The number is too large` -/
def litTooLarge (s : List Char) : Bool :=
  match literalTok s with
  | some (.num i f _ e _, _) => numTooLarge i f e
  | _ => false

/-! ### classes interpreted from the regenerated table -/

def isMeta (c : Char) : Bool := "[](){}*+?.^$".toList.contains c

/-- a regex that is an alternation of escaped literals, as the list of its alternatives; `none` = not of that form -/
def simpleAltsAux : List Char → List Char → Option (List (List Char))
  | [], cur => some [cur.reverse]
  | c :: r, cur =>
    if c = '\\' then
      match r with
      | e :: r2 => if e.isAlphanum then none else simpleAltsAux r2 (e :: cur)     -- `\(`, `\+`, `\*`: an escaped literal
      | [] => none
    else if c = '|' then (simpleAltsAux r []).map (cur.reverse :: ·)
    else if isMeta c then none
    else simpleAltsAux r (c :: cur)

def simpleAlts (re : String) : Option (List (List Char)) := simpleAltsAux re.toList []

/-- the first alternative that is a prefix: rest after it -/
def matchAlts : List (List Char) → List Char → Option (List Char)
  | [], _ => none
  | a :: as, s => match stripPrefix a s with
    | some r => some r
    | none => matchAlts as s

/-- how a class of `Lexer.TOKENS` is matched -/
inductive Scanner where
  | matrix | range | cell | pattern | literal
  | never                               -- WhitespaceToken: the text was just lstripped, `[\s\n\t]+` cannot match
  | undefined                           -- UndefinedToken.get raises
  | alts (as : List (List Char))
  | unsupported                         -- a regex this model does not cover
  deriving Repr, DecidableEq

def special : List (String × Scanner) :=
  [("MatrixOfCellIdentifiersToken", .matrix), ("CellIdentifierRangeToken", .range), ("CellIdentifierToken", .cell),
   ("PatternToken", .pattern), ("LiteralToken", .literal), ("WhitespaceToken", .never), ("UndefinedToken", .undefined)]

/-- the regex sources the five hand-written scanners (and `never`) were written for -/
def pinned : List (String × String × String) :=
  [("MatrixOfCellIdentifiersToken", "((\\'((?:[^\\']|\\'\\')*)\\'|(\\w*?))!)?\\$?([A-Z]+)(\\$?(\\d+))?:\\$?([A-Z]+)(\\$?(\\d+))?", "([^\\d].*)?"),
   ("CellIdentifierRangeToken", "((\\'((?:[^\\']|\\'\\')*)\\'|(\\w*?))!)?((\\$?([A-Z]+)(\\$?(\\d+))?:\\$?\\8(\\$?(\\d+))?)|(\\$?([A-Z]+)(\\$?(\\d+))?:\\$?([A-Z]+)(\\$?\\15)?))", "([^\\d$].*)?"),
   ("CellIdentifierToken", "((\\'((?:[^\\']|\\'\\')*)\\'|(\\w*?))!)?\\$?([A-Z]+)\\$?(\\d+)", "([^\\d]|[^:\\d].*)?"),
   ("PatternToken", "\\\"((?:[^\\\"]|\\\"\\\")*?(?<![~])[?*]+(?:[^\\\"]|\\\"\\\")*)\\\"", ".*"),
   ("LiteralToken", "\\\"((?:[^\\\"]|\\\"\\\")*)\\\"|(\\d+)((\\.)(\\d+))?(e(-?\\d+))?|(TRUE(\\(\\))?)|(FALSE(\\(\\))?)", ".*"),
   ("WhitespaceToken", "[\\s\\n\\t]+", ".*")]

/-- the lexer table: classes in order with their scanners, from `Lexer.TOKENS` and the regex sources -/
def scannerOf (regexes : List (String × String × String)) (cls : String) : Scanner :=
  match special.find? (·.1 == cls) with
  | some kv => kv.2
  | none =>
    match regexes.find? (·.1 == cls) with
    | some (_, re, last) => if last == ".*" then (match simpleAlts re with | some as => .alts as | none => .unsupported) else .unsupported
    | none => .unsupported

def table (order : List String) (regexes : List (String × String × String)) : List (String × Scanner) :=
  order.map fun c => (c, scannerOf regexes c)

/-- outcome of one round of the `for token_class in cls.TOKENS` loop -/
inductive One where
  | tok (cls : String) (rest : List Char)
  | undefined
  | unsupported
  | nomatch                              -- no class matched and there is no UndefinedToken: the real loop would spin
  deriving Repr, DecidableEq

def runScanner (sc : Scanner) (s : List Char) : Option (Option (List Char)) :=      -- none = raise / unsupported marker handled by caller
  match sc with
  | .matrix => some ((matrixTok s).map (·.2))
  | .range => some ((rangeTok s).map (·.2))
  | .cell => some ((cellTok s).map (·.2))
  | .pattern => some ((patternTok s).map (·.2))
  | .literal => some ((literalTok s).map (·.2))
  | .never => some none
  | .alts as => some (matchAlts as s)
  | .undefined => none
  | .unsupported => none

def lexOne : List (String × Scanner) → List Char → One
  | [], _ => .nomatch
  | (cls, sc) :: more, s =>
    match sc with
    | .undefined => .undefined
    | .unsupported => .unsupported
    | _ => match runScanner sc s with
      | some (some rest) => .tok cls rest
      | _ => lexOne more s

inductive LexRes where
  | ok (toks : List Tok)
  | undefined (at_ : List Char)
  | tooLarge
  | unsupported
  | spin                                 -- a class matched the empty text / nothing matched: the real loop does not end
  | fuel
  deriving Repr, DecidableEq

def lexLoop (tbl : List (String × Scanner)) : Nat → List Char → LexRes
  | 0, _ => .fuel
  | n + 1, s =>
    let s' := s.dropWhile isWs
    if s' = [] then .ok [] else
    match lexOne tbl s' with
    | .tok cls rest =>
      if cls == "LiteralToken" && litTooLarge s' then .tooLarge else
      if rest.length < s'.length then
        match lexLoop tbl n rest with
        | .ok toks => .ok ((cls, String.ofList (s'.take (s'.length - rest.length))) :: toks)
        | e => e
      else .spin
    | .undefined => .undefined s'
    | .unsupported => .unsupported
    | .nomatch => .spin

/-- `str.strip()` -/
def strip (s : List Char) : List Char := ((s.dropWhile isWs).reverse.dropWhile isWs).reverse

/-- `Lexer.parse(expression, in_cell)` -/
def lex (tbl : List (String × Scanner)) (s : List Char) : LexRes := lexLoop tbl (s.length + 1) (strip s)

end E2P.Lex
