/-
  E2P.Model.Agg — model of the aggregate helpers of the generated runtime:
  `_flatten_list`, `_only_numeric_list`, `_only_bool_list`, `_only_datetime_list`, `_sum`, `_average`, `_min`, `_max`,
  `_count`, `_count_blank`, `_and`, `_or`, `_find_error_in_list`, and of the glue the translators put around them
  (`self._sum(self._only_numeric_list(self._flatten_list([arg₁, …])))` and friends).

  An area argument arrives as a list of rows (each a list of cell values), a scalar argument as a value.
  Python's `sum` is modelled as the left fold of `+` starting from the int 0 (exact on ints, round-to-nearest on
  doubles).  CPython ≥ 3.12 compensates float sums; the two agree whenever every partial sum is representable, which is
  the domain on which the model is compared (predicate `allExact`, proved sufficient in Props/C11).
-/
import E2P.Model.Branch
namespace E2P

mutual
  /-- `_flatten_list` applied to one element -/
  def flattenV : Val → List Val
    | .list vs => flattenL vs
    | v => [v]
  /-- `_flatten_list(subject)` -/
  def flattenL : List Val → List Val
    | [] => []
    | v :: vs => flattenV v ++ flattenL vs
end

/-- `type(i) in [float, int]` — booleans and the blank object are subclasses, hence not numeric -/
def isNumeric : Val → Bool
  | .int _ | .flt _ => true
  | _ => false

def isDigitText (s : List Char) : Bool := !s.isEmpty && s.all fun c => c.isDigit

/-- `_only_numeric_list(l, with_string_digits)` -/
def onlyNumeric (withDigits : Bool) (l : List Val) : List Val :=
  l.filter fun v => isNumeric v || (withDigits && match v with | .str s => isDigitText s | _ => false)

def onlyBool (l : List Val) : List Val := l.filter fun v => match v with | .bool _ => true | _ => false
def onlyDatetime (l : List Val) : List Val := l.filter fun v => match v with | .dt _ _ => true | _ => false

/-- `sum(l)`: left fold of `+` from the int 0 -/
def sumFold (acc : Val) : List Val → Res
  | [] => .ok acc
  | v :: vs => match pyAdd acc v with
    | .ok a => sumFold a vs
    | .error e => .error e

def sumF (l : List Val) : Res := sumFold (.int 0) (onlyNumeric false l)

/-- `_average(l) = _sum(l) / len(_only_numeric_list(l))` -/
def averageF (l : List Val) : Res :=
  match sumF l with
  | .ok s => pyTrueDiv s (.int (onlyNumeric false l).length)
  | .error e => .error e

/-- exact value of a number -/
def ratOf : Val → Rat
  | .int z => (z : Rat)
  | .flt q => q
  | .bool b => if b then 1 else 0
  | _ => 0

/-- Python `min`: keep the first element, replace it only by a strictly smaller one -/
def minFold (best : Val) : List Val → Val
  | [] => best
  | v :: vs => minFold (if ratOf v < ratOf best then v else best) vs

def maxFold (best : Val) : List Val → Val
  | [] => best
  | v :: vs => maxFold (if ratOf best < ratOf v then v else best) vs

/-- `_find_error_in_list`: the first element that is one of the error texts -/
def findError (errs : List (List Char)) (l : List Val) : Option Val := l.find? (isErrVal errs)

def minF (errs : List (List Char)) (l : List Val) : Res :=
  match findError errs l with
  | some e => .ok e
  | none => match onlyNumeric false l with
    | [] => .error .valueError
    | v :: vs => .ok (minFold v vs)

def maxF (errs : List (List Char)) (l : List Val) : Res :=
  match findError errs l with
  | some e => .ok e
  | none => match onlyNumeric false l with
    | [] => .error .valueError
    | v :: vs => .ok (maxFold v vs)

/-- `_count(matrices, args, args_cells)` -/
def countF (matrices args cells : List Val) : Nat :=
  let fm := flattenL matrices
  (onlyNumeric false (fm ++ cells)).length + (onlyBool args).length + (onlyNumeric true args).length
    + (onlyDatetime (fm ++ cells ++ args)).length

/-- `elem is None or elem == ''` (the blank object equals `''`) -/
def isBlankish : Val → Bool
  | .blank | .none => true
  | .str s => s.isEmpty
  | _ => false

def countBlankF (errs : List (List Char)) (l : List Val) : Res :=
  match findError errs l with
  | some e => .ok e
  | none => .ok (.int (l.filter isBlankish).length)

def andF (l : List Val) : Bool := l.all truthy
def orF (l : List Val) : Bool := l.any truthy

/-! glue: what the translators wrap around the helpers; `args` is the Python list `[arg₁, …]` -/
def sumCall (args : List Val) : Res := sumF (flattenL args)
def averageCall (args : List Val) : Res :=
  if (onlyNumeric false (flattenL args)).isEmpty then .error .zeroDiv else averageF (flattenL args)
def minCall (errs : List (List Char)) (args : List Val) : Res := minF errs (flattenL args)
/-- the MAX translator filters the numbers *before* calling `_max` (so the helper's error scan never sees a text) -/
def maxCall (errs : List (List Char)) (args : List Val) : Res := maxF errs (onlyNumeric false (flattenL args))
def countBlankCall (errs : List (List Char)) (args : List Val) : Res := countBlankF errs (flattenL args)
def andCall (args : List Val) : Bool := andF (flattenL args)
def orCall (args : List Val) : Bool := orF (flattenL args)

end E2P
