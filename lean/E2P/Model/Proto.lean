/-
  E2P.Model.Proto — line protocol between the Python harness and the Lean driver.

  One request per line, blank-separated tokens, values in prefix notation:
    B blank   N None   T / F   I<int>   R<num>/<den>   S<cp>.<cp>...   D<ordinal>
    M<ordinal>.<microseconds>   L<n> v1 … vn   U<n> v1 … vn   E<ExceptionClass>
  Nothing here is trusted by a theorem; it is glue, validated by the round-trip the
  correspondence harness performs on every run (`echo` request).
-/
import E2P.Model.Val
namespace E2P

def encInt (z : Int) : String := toString z

def encStr (s : List Char) : String :=
  "S" ++ ".".intercalate (s.map fun c => toString c.toNat)

mutual
  def encVal : Val → List String
    | .blank => ["B"]
    | .none => ["N"]
    | .bool true => ["T"]
    | .bool false => ["F"]
    | .int z => ["I" ++ encInt z]
    | .flt q => ["R" ++ encInt q.num ++ "/" ++ toString q.den]
    | .str s => [encStr s]
    | .date o => ["D" ++ encInt o]
    | .dt o u => ["M" ++ encInt o ++ "." ++ toString u]
    | .list vs => ("L" ++ toString vs.length) :: encVals vs
    | .tuple vs => ("U" ++ toString vs.length) :: encVals vs
  def encVals : List Val → List String
    | [] => []
    | v :: vs => encVal v ++ encVals vs
end

def encRes : Res → String
  | .ok v => " ".intercalate (encVal v)
  | .error e => "E" ++ e.name

def encBoolRes : Except PyExc Bool → String
  | .ok b => if b then "T" else "F"
  | .error e => "E" ++ e.name

def decChars (body : String) : Option (List Char) :=
  if body.isEmpty then some [] else
    (body.splitOn ".").mapM fun t => t.toNat?.map Char.ofNat

def decRat (body : String) : Option Rat :=
  match body.splitOn "/" with
  | [n, d] => do
      let n ← n.toInt?
      let d ← d.toNat?
      if d = 0 then none else some (mkRat n d)
  | _ => none

/-- fuel-bounded prefix decoder; fuel = number of tokens is always enough -/
def decValF : Nat → List String → Option (Val × List String)
  | 0, _ => none
  | _ + 1, [] => none
  | fuel + 1, t :: rest =>
    let tag := t.take 1
    let body := t.drop 1
    let many (n : Nat) (mk : List Val → Val) : Option (Val × List String) :=
      let rec go : Nat → List String → List Val → Option (List Val × List String)
        | 0, r, acc => some (acc.reverse, r)
        | k + 1, r, acc =>
          match decValF fuel r with
          | some (v, r') => go k r' (v :: acc)
          | none => none
      (go n rest []).map fun (vs, r) => (mk vs, r)
    match tag.toString with
    | "B" => some (.blank, rest)
    | "N" => some (.none, rest)
    | "T" => some (.bool true, rest)
    | "F" => some (.bool false, rest)
    | "I" => body.toString.toInt?.map fun z => (.int z, rest)
    | "R" => (decRat body.toString).map fun q => (.flt q, rest)
    | "S" => (decChars body.toString).map fun s => (.str s, rest)
    | "D" => body.toString.toInt?.map fun z => (.date z, rest)
    | "M" => match body.toString.splitOn "." with
        | [o, u] => do
            let o ← o.toInt?
            let u ← u.toNat?
            some (.dt o u, rest)
        | _ => none
    | "L" => body.toString.toNat?.bind fun n => many n .list
    | "U" => body.toString.toNat?.bind fun n => many n .tuple
    | _ => none

def decVal (ts : List String) : Option (Val × List String) := decValF (ts.length + 1) ts

/-- decode exactly `n` values from the front -/
def decVals : Nat → List String → Option (List Val × List String)
  | 0, ts => some ([], ts)
  | n + 1, ts => do
      let (v, r) ← decVal ts
      let (vs, r') ← decVals n r
      some (v :: vs, r')

def decAll (ts : List String) : Option (List Val) :=
  let rec go : Nat → List String → List Val → Option (List Val)
    | 0, _, _ => none
    | _ + 1, [], acc => some acc.reverse
    | f + 1, ts, acc =>
      match decVal ts with
      | some (v, r) => go f r (v :: acc)
      | none => none
  go (ts.length + 1) ts []

def tokens (line : String) : List String :=
  (line.splitOn " ").filter (· ≠ "")

end E2P
