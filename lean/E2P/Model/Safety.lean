/-
  E2P.Model.Safety — model of the safety gate: `Excel._get_suspicious_constructions` (two regexes), the report key built
  in `Excel.parse`, `Excel.is_safe` and the gate in `Parser._translate`.

  `re.findall(r'[a-zA-Z_\d]+\(.*?\)', text, re.DOTALL)`: scanning left to right, a match starts at the first character of a
  maximal run of identifier characters that is immediately followed by `(`, provided a `)` occurs later; it extends to the
  first such `)`; scanning resumes after it.  A fragment is exempt when `re.match(r'[A-Z][A-Z\d_]*\(', fragment)` holds.
-/
import E2P.Model.Cols
import E2P.Model.Val
namespace E2P

def isIdChar (c : Char) : Bool := c.isAlphanum || c == '_'
def isUpperAZ (c : Char) : Bool := 'A'.toNat ≤ c.toNat && c.toNat ≤ 'Z'.toNat
def isUpperIdChar (c : Char) : Bool := isUpperAZ c || c.isDigit || c == '_'

/-- raw call-syntax fragments, as (identifier, arguments) pairs: the fragment text is `ident ++ "(" ++ args ++ ")"` -/
def scanCalls : Nat → List Char → List (List Char × List Char)
  | 0, _ => []
  | _ + 1, [] => []
  | fuel + 1, c :: cs =>
    if isIdChar c then
      let run := (c :: cs).takeWhile isIdChar
      let rest := (c :: cs).dropWhile isIdChar
      let after := rest.drop 1
      if rest.head? = some '(' ∧ after.contains ')' = true then
        (run, after.takeWhile (· != ')')) :: scanCalls fuel ((after.dropWhile (· != ')')).drop 1)
      else scanCalls fuel rest
    else scanCalls fuel cs

def fragmentText (f : List Char × List Char) : List Char := f.1 ++ '(' :: (f.2 ++ [')'])

/-- the whole identifier is upper-case (first character a letter) -/
def isExcelCall (f : List Char × List Char) : Bool :=
  match f.1 with
  | c :: cs => isUpperAZ c && cs.all isUpperIdChar
  | [] => false

/-- `_get_suspicious_constructions(text)` -/
def suspicious (t : List Char) : List (List Char) :=
  ((scanCalls (t.length + 1) t).filter fun f => !isExcelCall f).map fragmentText

/-- report key of a cell: `'<title>'<LETTERS><row>` with 1-based column and row -/
def reportKey (title : List Char) (col row : Nat) : List Char :=
  '\'' :: (title ++ '\'' :: (colLetters col ++ (toString row).toList))

/-- the gate: with the check enabled a workbook with a suspicious cell raises the safety exception; disabled, never -/
def gate (enabled : Bool) (report : List (List Char × List (List Char))) : Except PyExc Unit :=
  if enabled && !report.isEmpty then .error PyExc.safety else .ok ()

/-- the report of a workbook: every cell with a non-empty text and a non-empty list of suspicious fragments -/
def reportOf (cells : List (List Char × Nat × Nat × List Char)) : List (List Char × List (List Char)) :=
  cells.filterMap fun (title, col, row, text) =>
    let s := suspicious text
    if text.isEmpty || s.isEmpty then none else some (reportKey title col row, s)

end E2P
