/-
  E2P.Model.NumParse — `int(str)` / `float(str)` on the ASCII decimal syntax.

  Externals (CPython's parsers) modelled for: optional ASCII whitespace, optional sign, decimal
  digits, optional fraction, optional exponent.  Texts containing `_`, non-ASCII characters, or
  spelling inf / infinity / nan are declared outside the model (`numTextModelled = false`).
-/
import E2P.Model.Val
import E2P.Model.F53
import E2P.Model.Compare
namespace E2P

def isWs (c : Char) : Bool :=
  c == ' ' || c == '\t' || c == '\n' || c == '\r' || c.toNat == 11 || c.toNat == 12

def stripWs (s : List Char) : List Char :=
  ((s.dropWhile isWs).reverse.dropWhile isWs).reverse

def isDigit (c : Char) : Bool := '0'.toNat ≤ c.toNat && c.toNat ≤ '9'.toNat

def digitsVal : List Char → Nat → Nat
  | [], acc => acc
  | c :: cs, acc => digitsVal cs (acc * 10 + (c.toNat - '0'.toNat))

/-- nonempty run of ASCII digits -/
def allDigits (s : List Char) : Bool := !s.isEmpty && s.all isDigit

def splitSign : List Char → Bool × List Char
  | '-' :: r => (true, r)
  | '+' :: r => (false, r)
  | r => (false, r)

/-- `int(s)` restricted to ASCII decimal syntax -/
def pyInt? (s : List Char) : Option Int :=
  let (neg, body) := splitSign (stripWs s)
  if allDigits body then
    let n : Int := digitsVal body 0
    some (if neg then -n else n)
  else none

/-- split at the first character satisfying `p` -/
def splitAt1 (p : Char → Bool) : List Char → List Char × Option (List Char)
  | [] => ([], none)
  | c :: cs => if p c then ([], some cs) else
      let (a, b) := splitAt1 p cs
      (c :: a, b)

/-- `float(s)` restricted to finite ASCII decimal syntax; value is the nearest double -/
def pyFloat? (s : List Char) : Option Rat :=
  let (neg, body) := splitSign (stripWs s)
  let (mant, expo) := splitAt1 (fun c => c == 'e' || c == 'E') body
  let (ip, fp) := splitAt1 (· == '.') mant
  let fpd := fp.getD []
  let mantOk := (ip.all isDigit) && (fpd.all isDigit) && !(ip.isEmpty && fpd.isEmpty)
  let expv : Option Int :=
    match expo with
    | none => some 0
    | some e =>
      let (eneg, eb) := splitSign e
      if allDigits eb then some (if eneg then -(digitsVal eb 0 : Int) else digitsVal eb 0) else none
  match mantOk, expv with
  | true, some ex =>
      let digits := digitsVal (ip ++ fpd) 0
      some (rn (decimal neg digits (ex - fpd.length)))
  | _, _ => none

/-- `_to_number` on a text: `int(s)` first, then `float(s)` -/
def parseNum (s : List Char) : Option Num :=
  match pyInt? s with
  | some z => some (.i z)
  | none => (pyFloat? s).map .f

def lowerAscii (c : Char) : Char :=
  if 'A'.toNat ≤ c.toNat && c.toNat ≤ 'Z'.toNat then Char.ofNat (c.toNat + 32) else c

/-- texts on which `parseNum` is claimed to agree with CPython -/
def numTextModelled (s : List Char) : Bool :=
  s.all (fun c => c.toNat < 128 && c != '_' && (32 ≤ c.toNat || isWs c)) &&
  (let core := (splitSign (stripWs s)).2.map lowerAscii
   !(core == "inf".toList || core == "infinity".toList || core == "nan".toList))

end E2P
