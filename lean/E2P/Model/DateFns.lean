/-
  E2P.Model.DateFns — model of the runtime date helpers
  `_date _year _month _day _edate _eomonth _datedif _network_days`.
-/
import E2P.Model.Val
import E2P.Model.Calendar
namespace E2P

def errNum : Val := .str "#NUM!".toList
def errValue : Val := .str "#VALUE!".toList
def errNA : Val := .str "#N/A".toList
def errRef : Val := .str "#REF!".toList
def errError : Val := .str "#ERROR!".toList

/-- largest ordinal `datetime` can represent: 9999-12-31 -/
def maxOrdinal : Int := 3652059

def yearInRange (y : Int) : Bool := 1 ≤ y && y ≤ 9999

/-- `_date(year, month, day)` on integers (after the repair: 1 January + (m-1) months + (d-1) days) -/
def dateFn (year month day : Int) : Res :=
  let y := if 0 ≤ year ∧ year ≤ 1899 then year + 1900 else year
  if y < 0 ∨ 9999 < y then .ok errNum
  else
    let t := addMonths ⟨y, 1, 1⟩ (month - 1)
    if !yearInRange t.y then .error .valueError
    else
      let n := ordinal t.y t.m 1 + (day - 1)
      if 1 ≤ n ∧ n ≤ maxOrdinal then .ok (.dt n 0) else .error .overflowError

def yearFn : Val → Res
  | .dt n _ | .date n => .ok (.int (ofOrdinal n).y)
  | _ => .error .attributeError
def monthFn : Val → Res
  | .dt n _ | .date n => .ok (.int (ofOrdinal n).m)
  | _ => .error .attributeError
def dayFn : Val → Res
  | .dt n _ | .date n => .ok (.int (ofOrdinal n).d)
  | _ => .error .attributeError

/-- Python `math.trunc` on a rational -/
def truncRat (q : Rat) : Int := if 0 ≤ q then q.floor else q.ceil

def monthsArg : Val → Option Int
  | .int z => some z
  | .bool b => some (if b then 1 else 0)
  | .flt q => some (truncRat q)
  | _ => none

/-- shift a date-time by whole months, keeping the time of day -/
def shiftMonths (n : Int) (us : Nat) (k : Int) : Res :=
  let t := addMonths (ofOrdinal n) k
  if yearInRange t.y then .ok (.dt (ordinal t.y t.m t.d) us) else .error .valueError

/-- `_edate(start, months)` -/
def edateFn (start months : Val) : Res :=
  match start with
  | .dt n us =>
    match months with
    | .int _ | .flt _ | .bool _ =>
      match monthsArg months with
      | some k => shiftMonths n us k
      | none => .ok errValue
    | _ => .ok errValue
  | _ => .ok errValue

/-- `_eomonth(start, months)` -/
def eomonthFn (start months : Val) : Res :=
  match start with
  | .dt n _ =>
    match monthsArg months with
    | some k =>
      let t := addMonths (ofOrdinal n) k
      if yearInRange t.y then .ok (.dt (ordinal t.y t.m (daysInMonth t.y t.m)) 0) else .error .valueError
    | none => .error .typeError
  | _ => .ok errNum

/-- complete months between two calendar dates -/
def completeMonths (s e : YMD) : Int :=
  12 * (e.y - s.y) + (e.m - s.m) - (if e.d < s.d then 1 else 0)

/-- `_datedif(start, end, mode)` for the units D, M, Y, YM (the other units are not modelled) -/
def datedifFn (s e : Val) (mode : List Char) : Res :=
  match s, e with
  | .dt ns us, .dt ne ue =>
    if ne < ns ∨ (ne = ns ∧ ue < us) then .ok errNum
    else
      let a := ofOrdinal ns
      let b := ofOrdinal ne
      if mode = "D".toList then
        -- (end - start).days : floor of the difference in days
        .ok (.int (if ue < us then ne - ns - 1 else ne - ns))
      else if mode = "M".toList then .ok (.int (completeMonths a b))
      else if mode = "Y".toList then .ok (.int (completeMonths a b / 12))
      else if mode = "YM".toList then .ok (.int (completeMonths a b % 12))
      else .error .unmodelled
  | _, _ => .ok errValue

/-- the holiday dates: every date-time of every row of the matrix -/
def holidayOrdinals : Val → List Int
  | .list rows => rows.flatMap fun row =>
      match row with
      | .list cells => cells.filterMap fun c => match c with | .dt n _ => some n | _ => none
      | _ => []
  | _ => []

def isWorkday (hol : List Int) (n : Int) : Bool := weekday n < 5 && !hol.contains n

/-- the `while start <= end` loop, as a count over `len` consecutive days from `start` -/
def countWorkdays (hol : List Int) (start : Int) : Nat → Int
  | 0 => 0
  | len + 1 => (if isWorkday hol start then 1 else 0) + countWorkdays hol (start + 1) len

/-- `_network_days(start, end, holidays)` -/
def networkDaysFn (s e hol : Val) : Res :=
  match s, e with
  | .dt ns _, .dt ne _ =>
    let h := holidayOrdinals hol
    if ns ≤ ne then .ok (.int (countWorkdays h ns (ne - ns + 1).toNat))
    else .ok (.int (-(countWorkdays h ne (ns - ne + 1).toNat)))
  | _, _ => .ok errValue

end E2P
