/-
  E2P.Model.Calendar — proleptic Gregorian calendar: the externals `datetime` (ordinals, weekday),
  `calendar.monthrange/isleap`, `dateutil.relativedelta(months=k)` as total computable functions.
  Agreement with the real libraries is part of Tie B (exhaustive over a multi-century window).
-/
namespace E2P

def isLeap (y : Int) : Bool := y % 4 == 0 && (y % 100 != 0 || y % 400 == 0)

def yearLen (y : Int) : Int := if isLeap y then 366 else 365

/-- `calendar.monthrange(y, m)[1]` for m ∈ 1..12 (31 for anything else) -/
def daysInMonth (y : Int) (m : Int) : Int :=
  if m = 2 then (if isLeap y then 29 else 28)
  else if m = 4 ∨ m = 6 ∨ m = 9 ∨ m = 11 then 30 else 31

/-- days in the years 1 … y-1 -/
def daysBeforeYear (y : Int) : Int :=
  let k := y - 1
  k * 365 + k / 4 - k / 100 + k / 400

/-- days of year `y` before month `m` (m ∈ 1..12) -/
def daysBeforeMonth (y : Int) (m : Int) : Int :=
  let cum : Int :=
    if m ≤ 1 then 0 else if m = 2 then 31 else if m = 3 then 59 else if m = 4 then 90
    else if m = 5 then 120 else if m = 6 then 151 else if m = 7 then 181 else if m = 8 then 212
    else if m = 9 then 243 else if m = 10 then 273 else if m = 11 then 304 else 334
  cum + (if 2 < m ∧ isLeap y then 1 else 0)

/-- `date(y, m, d).toordinal()` (1 = 0001-01-01) -/
def ordinal (y m d : Int) : Int := daysBeforeYear y + daysBeforeMonth y m + d

def validYMD (y m d : Int) : Prop := 1 ≤ m ∧ m ≤ 12 ∧ 1 ≤ d ∧ d ≤ daysInMonth y m

/-- the year containing ordinal `n` -/
def yearOf (n : Int) : Int :=
  let e := (n - 1) * 400 / 146097 + 1
  if n ≤ daysBeforeYear e then e - 1 else if n ≤ daysBeforeYear (e + 1) then e else e + 1

/-- month of the `t`-th day (1-based) of year `y` -/
def monthOfDay (y : Int) (t : Int) : Int :=
  if t ≤ daysBeforeMonth y 2 then 1 else if t ≤ daysBeforeMonth y 3 then 2
  else if t ≤ daysBeforeMonth y 4 then 3 else if t ≤ daysBeforeMonth y 5 then 4
  else if t ≤ daysBeforeMonth y 6 then 5 else if t ≤ daysBeforeMonth y 7 then 6
  else if t ≤ daysBeforeMonth y 8 then 7 else if t ≤ daysBeforeMonth y 9 then 8
  else if t ≤ daysBeforeMonth y 10 then 9 else if t ≤ daysBeforeMonth y 11 then 10
  else if t ≤ daysBeforeMonth y 12 then 11 else 12

structure YMD where
  y : Int
  m : Int
  d : Int
  deriving DecidableEq, Repr, Inhabited

/-- `date.fromordinal(n)` -/
def ofOrdinal (n : Int) : YMD :=
  let y := yearOf n
  let t := n - daysBeforeYear y
  let m := monthOfDay y t
  ⟨y, m, t - daysBeforeMonth y m⟩

/-- `date.weekday()`: Monday = 0 … Sunday = 6 -/
def weekday (n : Int) : Int := (n + 6) % 7

/-- `relativedelta(months=k)` applied to (y, m, d): month arithmetic with the day clamped to the
    length of the target month -/
def addMonths (t : YMD) (k : Int) : YMD :=
  let idx := t.y * 12 + (t.m - 1) + k
  let y' := idx / 12
  let m' := idx % 12 + 1
  let dim := daysInMonth y' m'
  ⟨y', m', if t.d ≤ dim then t.d else dim⟩

end E2P
