/-
  E2P.Model.Facade — model of the `Parser` facade (utilities/parser.py): settings, cached text, dirty flags.

  Which method assigns which attribute, which flags the early return of `_translate` tests and which it clears are
  *data* (`FacadeTable`), regenerated from the source on every run (Generated/Facade.lean).  The translation itself is a
  parameter `tr : path → entry → safety → Except PyExc text` (a pure function of the current settings: that the real
  translation is one is the other half of C09, checked across processes / hash seeds / threads by the harness).
-/
import E2P.Model.Val
namespace E2P

structure FacadeTable where
  inits : List (String × String)
  assigns : List (String × List (String × String))
  guard : List String
  resets : List String

structure FState (P E T : Type) where
  path : Option P
  entry : Option E
  safety : Bool
  cache : Option T
  flags : List (String × Bool)

inductive FOp (P E : Type) where
  | setPath (p : P)
  | setEntry (e : E)
  | enableSafety
  | disableSafety
  | get
  | write

section
variable {P E T : Type}

def getFlag (fl : List (String × Bool)) (f : String) : Bool :=
  match fl.find? (·.1 == f) with | some kv => kv.2 | none => false

def setFlag (fl : List (String × Bool)) (f : String) (b : Bool) : List (String × Bool) :=
  (f, b) :: fl.filter (·.1 != f)

def settingAttrs : List String := ["_excel_file_path", "_entrypoint_cell", "_safety_check", "_translation"]

/-- one `self.attr = …` of a setter -/
def applyAssign (argP : Option P) (argE : Option E) (st : FState P E T) (a : String × String) : FState P E T :=
  if a.1 = "_excel_file_path" then (if a.2 = "param" then { st with path := argP } else st)
  else if a.1 = "_entrypoint_cell" then (if a.2 = "param" then { st with entry := argE } else st)
  else if a.1 = "_safety_check" then
    (if a.2 = "True" then { st with safety := true } else if a.2 = "False" then { st with safety := false } else st)
  else if a.1 = "_translation" then st
  else if a.2 = "True" then { st with flags := setFlag st.flags a.1 true }
  else if a.2 = "False" then { st with flags := setFlag st.flags a.1 false }
  else st

def assignsOf (tb : FacadeTable) (m : String) : List (String × String) :=
  match tb.assigns.find? (·.1 == m) with | some kv => kv.2 | none => []

def callSetter (tb : FacadeTable) (m : String) (argP : Option P) (argE : Option E) (st : FState P E T) : FState P E T :=
  (assignsOf tb m).foldl (applyAssign argP argE) st

def initSafety (tb : FacadeTable) : Bool :=
  match tb.inits.find? (·.1 == "_safety_check") with | some kv => kv.2 == "True" | none => false

def initFlags (tb : FacadeTable) : List (String × Bool) :=
  (tb.inits.filter fun kv => !settingAttrs.contains kv.1 && (kv.2 == "True" || kv.2 == "False")).map
    fun kv => (kv.1, kv.2 == "True")

def initState (tb : FacadeTable) : FState P E T :=
  { path := none, entry := none, safety := initSafety tb, cache := none, flags := initFlags tb }

/-- `_translate` -/
def doTranslate (tb : FacadeTable) (tr : P → Option E → Bool → Except PyExc T) (st : FState P E T) :
    Except PyExc (FState P E T) :=
  if !tb.guard.isEmpty && tb.guard.all (fun f => !getFlag st.flags f) then .ok st
  else match st.path with
    | none => .error .parser
    | some p =>
      match tr p st.entry st.safety with
      | .error e => .error e
      | .ok t => .ok { st with cache := some t, flags := tb.resets.foldl (fun fl f => setFlag fl f false) st.flags }

/-- one facade call: new state and what the caller observes (`get_translation` returns the text, `write_translation`
    writes the same text; setters return nothing observable) -/
def fstep (tb : FacadeTable) (tr : P → Option E → Bool → Except PyExc T) (st : FState P E T) :
    FOp P E → FState P E T × Option (Except PyExc (Option T))
  | .setPath p => (callSetter tb "set_excel_file_path" (some p) none st, none)
  | .setEntry e => (callSetter tb "set_entrypoint_cell" none (some e) st, none)
  | .enableSafety => (callSetter tb "enable_safety_check" none none st, none)
  | .disableSafety => (callSetter tb "disable_safety_check" none none st, none)
  | .get | .write =>
    match doTranslate tb tr st with
    | .ok st' => (st', some (.ok st'.cache))
    | .error e => (st, some (.error e))

def frun (tb : FacadeTable) (tr : P → Option E → Bool → Except PyExc T) (st : FState P E T) :
    List (FOp P E) → FState P E T × List (Option (Except PyExc (Option T)))
  | [] => (st, [])
  | op :: ops =>
    let (s1, o) := fstep tb tr st op
    let (s2, os) := frun tb tr s1 ops
    (s2, o :: os)

end
end E2P
