/-
  E2P.Model.Graph — model of `CellTranslator._set_cell_to_context` / `translate` / `translate_file`:
  recursive descent into the cells a formula refers to, memoised by uid in the translation context (a cell is
  registered only *after* its formula has been translated), with the in-progress set that turns a cell met again on
  its own dependency path into the parser exception.  `fuel` stands for CPython's recursion limit.
-/
import E2P.Model.Val
namespace E2P

/-- dependency graph: uid ↦ the cells its formula's translation visits, in order (constants and blanks: none) -/
abbrev DepGraph := List (Nat × List Nat)

def depsOf (G : DepGraph) (u : Nat) : List Nat :=
  match G.find? (·.1 == u) with | some kv => kv.2 | none => []

def visitMany (f : List Nat → Nat → Except PyExc (List Nat)) : List Nat → List Nat → Except PyExc (List Nat)
  | done, [] => .ok done
  | done, v :: vs => match f done v with
    | .ok d => visitMany f d vs
    | .error e => .error e

/-- `_set_cell_to_context(cell)`: `path` = cells whose formulas are being translated now, `done` = context members -/
def visit (G : DepGraph) : Nat → List Nat → List Nat → Nat → Except PyExc (List Nat)
  | 0, _, _, _ => .error .recursionError
  | fuel + 1, path, done, u =>
    if u ∈ done then .ok done
    else if u ∈ path then .error .parser
    else match visitMany (visit G fuel (u :: path)) done (depsOf G u) with
      | .ok d => .ok (d ++ [u])
      | .error e => .error e

/-- `CellTranslator.translate(entry)` on a fresh context -/
def translateFrom (G : DepGraph) (fuel : Nat) (e : Nat) : Except PyExc (List Nat) := visit G fuel [] [] e

/-- `CellTranslator.translate_file`: every cell of the workbook in order, one shared context -/
def translateAll (G : DepGraph) (fuel : Nat) (cells : List Nat) : Except PyExc (List Nat) :=
  visitMany (visit G fuel []) [] cells

end E2P
