/-
  E2P.Model.Lookup — model of `_match`, `_xmatch` (linear search modes), `_vlookup`, `_index`, `_address`
  (after the repairs recorded in known_findings.txt).
  Keys and lookup values of the modelled kinds: numbers (int / float / bool; blank lookup = 0) and ASCII texts.
-/
import E2P.Model.Val
import E2P.Model.Compare
import E2P.Model.NumParse
import E2P.Model.DateFns
import E2P.Model.Cols
namespace E2P

inductive LKind where
  | num | str
  deriving DecidableEq, Repr

/-- kind of the lookup value: `(int, float)` for numbers (bool and the blank are ints), else its own type -/
def lkind : Val → Option LKind
  | .int _ | .flt _ | .bool _ | .blank => some .num
  | .str _ => some .str
  | _ => none

def lnum : Val → Rat
  | .int z => (z : Rat)
  | .flt q => q
  | .bool b => if b then 1 else 0
  | _ => 0

/-- the key is looked at: not a blank, and of the lookup value's kind -/
def eligible (k : LKind) (key : Val) : Bool :=
  match key with
  | .blank => false
  | v => lkind v == some k

def lowerStr (s : List Char) : List Char := s.map lowerAscii

/-- `key == lookup` (texts case-insensitively, as `_match` compares them) -/
def keyEq (ci : Bool) (key lookup : Val) : Bool :=
  match key, lookup with
  | .str a, .str b => if ci then lowerStr a == lowerStr b else a == b
  | a, b => lnum a == lnum b

/-- `key <= lookup` -/
def keyLe (ci : Bool) (key lookup : Val) : Bool :=
  match key, lookup with
  | .str a, .str b => if ci then !strLt (lowerStr b) (lowerStr a) else !strLt b a
  | a, b => lnum a ≤ lnum b

def keyGe (ci : Bool) (key lookup : Val) : Bool := keyLe ci lookup key

/-- `value[0]` of a row of the lookup array -/
def rowKey : Val → Option Val
  | .list (k :: _) => some k
  | _ => none

/-- exact scan: 1-based index of the first eligible key equal to the lookup value -/
def scanExact (ci : Bool) (k : LKind) (lookup : Val) : List Val → Nat → Option Nat
  | [], _ => none
  | key :: rest, i =>
    if eligible k key && keyEq ci key lookup then some (i + 1) else scanExact ci k lookup rest (i + 1)

/-- approximate scan: remember the last eligible key that still satisfies `ok`; stop at the first that does not -/
def scanApprox (ok : Val → Bool) (k : LKind) : List Val → Nat → Option Nat → Option Nat
  | [], _, last => last
  | key :: rest, i, last =>
    if eligible k key then
      if ok key then scanApprox ok k rest (i + 1) (some (i + 1)) else last
    else scanApprox ok k rest (i + 1) last

def idxOrNA : Option Nat → Val
  | some i => .int i
  | none => errNA

def keysOf (rows : List Val) : Option (List Val) := rows.mapM rowKey

def textsModelled (vs : List Val) : Bool :=
  vs.all fun v => match v with | .str s => s.all (fun c => c.toNat < 128) | _ => true

/-- kind of a lookup value the models of `_match` / `_vlookup` describe. A BLANK lookup value is left out: against it `key <= lookup`
is decided by the blank object's reflected `__ge__` (true only for keys equal to 0), not by the order of numbers -/
def lookupKind : Val → Option LKind
  | .blank => none
  | v => lkind v

/-- `_match(lookup_value, lookup_array, match_type)` -/
def matchFn (lookup : Val) (array : Val) (matchType : Int) : Res :=
  match array, lookupKind lookup with
  | .list rows, some k =>
    match keysOf rows with
    | none => .error .unmodelled
    | some keys =>
      if !textsModelled (lookup :: keys) then .error .unmodelled
      else if matchType = 0 then .ok (idxOrNA (scanExact true k lookup keys 0))
      else if 0 < matchType then .ok (idxOrNA (scanApprox (fun key => keyLe true key lookup) k keys 0 none))
      else .ok (idxOrNA (scanApprox (fun key => keyGe true key lookup) k keys 0 none))
  | _, _ => .error .unmodelled

/-! ### `_binary_search` (XMATCH search modes 2 and -2) -/

/-- Python's `a < b` between two keys as `_binary_search` compares them (nothing is lower-cased, no key is skipped): numbers with
numbers, text with text by code points; text against a number raises TypeError (`none`) -/
def bsLt (a b : Val) : Option Bool :=
  match a, b with
  | .str x, .str y => some (strLt x y)
  | x, y => if lkind x == some .num && lkind y == some .num then some (decide (lnum x < lnum y)) else none

/-- keys the order lemmas of the binary search speak about: numbers and texts (not the blank object, whose comparison methods are
its own) -/
def bsKey : Val → Bool
  | .blank => false
  | k => (lkind k).isSome

/-- operands the model of the binary search describes: numbers, texts and the blank object -/
def bsOperand : Val → Bool
  | .blank => true
  | k => (lkind k).isSome

/-- Python's `a < b` as the loop evaluates it: the blank object answers with its own `__lt__` (on the left) or, reflected, with its
`__gt__` = False (on the right of an int or a text; a float or a bool on the left compares with the integer value 0 itself) -/
def pyLt (a b : Val) : Option Bool :=
  match a, b with
  | .blank, o => if bsOperand o then some (blankLt o) else none
  | .int _, .blank => some false
  | .bool _, .blank => some false
  | .flt q, .blank => some (decide (q < 0))
  | .str _, .blank => some false
  | a, b => bsLt a b

/-- Python's `a > b` as the loop evaluates it (`EmptyCell.__gt__` is always False; on the right the blank answers with `__lt__`) -/
def pyGt (a b : Val) : Option Bool :=
  match a, b with
  | .blank, o => if bsOperand o then some false else none
  | .int z, .blank => some (decide (0 < z))
  | .bool t, .blank => some t
  | .flt q, .blank => some (decide (0 < q))
  | .str x, .blank => some (!x.isEmpty)
  | a, b => bsLt b a

/-- the `while first <= last` loop; the result is `(exact, next_smallest, next_largest)` before the two final corrections -/
def bsLoop (keys : List Val) (v : Val) (rev : Bool) (first last ns nl : Int) : Except PyExc (Int × Int × Int) :=
  if first ≤ last then
    let mid := (last + first) / 2
    match keys[mid.toNat]? with
    | none => .error .indexError
    | some k =>
      match pyLt k v, pyGt k v with
      | some lt, some gt =>
        let left := if rev then gt else lt
        let right := if rev then lt else gt
        if left then bsLoop keys v rev (mid + 1) last (if rev then ns else mid) (if rev then mid else nl)
        else if right then bsLoop keys v rev first (mid - 1) (if rev then mid else ns) (if rev then nl else mid)
        else .ok (mid, mid, mid)
      | _, _ => .error .typeError
  else .ok (-1, ns, nl)
termination_by (last + 1 - first).toNat
decreasing_by all_goals omega

/-- `_binary_search(arr, lookup_value, reverse)` on the key column of `arr` -/
def binarySearch (keys : List Val) (v : Val) (rev : Bool) : Except PyExc (Int × Int × Int) :=
  let n : Int := keys.length
  if keys.isEmpty then .error .indexError
  else
    match bsLoop keys v rev 0 (n - 1) (if rev then n - 1 else 0) (if rev then 0 else n - 1) with
    | .error e => .error e
    | .ok (e, ns, nl) =>
      match keys[ns.toNat]?, keys[nl.toNat]? with
      | some ks, some kl =>
        match pyGt ks v, pyLt kl v with
        | some sGt, some lLt => .ok (e, if sGt then -1 else ns, if lLt then -1 else nl)
        | _, _ => .error .typeError
      | _, _ => .error .indexError

/-- `_xmatch`: the linear search modes 1 (first to last) and -1 (last to first) go through `_match`, the modes 2 and -2 through
`_binary_search` (keys ascending resp. descending) -/
def xmatchFn (lookup array : Val) (matchMode searchMode : Int) : Res :=
  if searchMode = 1 then matchFn lookup array matchMode
  else if searchMode = -1 then
    match array with
    | .list rows =>
      match matchFn lookup (.list rows.reverse) matchMode with
      | .ok (.int i) => .ok (.int ((rows.length : Int) - i + 1))
      | r => r
    | _ => .error .unmodelled
  else if searchMode = 2 ∨ searchMode = -2 then
    match array with
    | .list rows =>
      match keysOf rows with
      | none => .error .unmodelled
      | some keys =>
        if !(lookup :: keys).all bsOperand then .error .unmodelled
        else
          match binarySearch keys lookup (searchMode = -2) with
          | .error e => .error e
          | .ok (e, ns, nl) =>
            let idx := if matchMode = -1 then ns else if matchMode = 1 then nl else e
            .ok (if idx = -1 then errNA else .int (idx + 1))
    | _ => .error .unmodelled
  else .error .unmodelled

def truthy : Val → Bool
  | .bool b => b
  | .int z => z != 0
  | .flt q => q != 0
  | .blank => false
  | .none => false
  | .str s => !s.isEmpty
  | .list vs => !vs.isEmpty
  | .tuple vs => !vs.isEmpty
  | _ => true

def nth? (vs : List Val) (i : Int) : Option Val :=
  if 0 ≤ i then vs[i.toNat]? else none

/-- the row is looked at by `_vlookup` -/
def vEligible (lookup key : Val) : Bool :=
  match lkind lookup with
  | some .num => lkind key == some .num        -- numbers with numbers (a blank key is an int)
  | some .str => eligible .str key
  | none => false

/-- result column of a row: `row[col - 1]` (Python negative indices are not modelled) -/
def rowCol (row : Val) (col : Int) : Res :=
  match row with
  | .list cells =>
    if col < 1 then .error .unmodelled
    else match nth? cells (col - 1) with
      | some v => .ok v
      | none => .error .indexError
  | _ => .error .unmodelled

def vlookupExact (lookup : Val) (col : Int) : List Val → Res
  | [] => .ok errNA
  | row :: rest =>
    match rowKey row with
    | none => .error .unmodelled
    | some key =>
      if vEligible lookup key && keyEq false key lookup then rowCol row col else vlookupExact lookup col rest

def vlookupApprox (lookup : Val) (col : Int) : List Val → Res → Res
  | [], last => last
  | row :: rest, last =>
    match rowKey row with
    | none => .error .unmodelled
    | some key =>
      if vEligible lookup key then
        if keyLe false key lookup then
          match rowCol row col with
          | .ok v => vlookupApprox lookup col rest (.ok v)
          | .error e => .error e
        else last
      else vlookupApprox lookup col rest last

/-- `_vlookup(lookup_value, table_array, col_index_num, range_lookup)` -/
def vlookupFn (lookup table : Val) (col : Int) (rangeLookup : Val) : Res :=
  match rangeLookup with
  | .bool _ | .int _ =>
    match table, lookupKind lookup with
    | .list rows, some _ =>
      if !textsModelled (lookup :: rows.filterMap rowKey) then .error .unmodelled
      else if truthy rangeLookup then vlookupApprox lookup col rows (.ok errNA) else vlookupExact lookup col rows
    | _, _ => .error .unmodelled
  | .flt _ | .str _ | .none | .blank => if rangeLookup matches .blank then .error .unmodelled else .ok errError
  | _ => .error .unmodelled

/-- `_index(matrix, row_number, column_number, area_number)` for a single rectangular area
    (`matrix` = list of rows, each a list of cells; `None` column; area 1) -/
def indexFn (matrix : Val) (row : Val) (col : Val) : Res :=
  match matrix with
  | .list rows =>
    let asRows : Option (List (List Val)) := rows.mapM fun r => match r with | .list cs => some cs | _ => none
    match asRows with
    | none => .error .unmodelled
    | some rs =>
      if rs.isEmpty then .ok errRef   -- area_number (1) > len(matrix)
      else
      let rowN : Option (Option Int) := match row with | .int z => some (some z) | .none => some none | _ => none
      let colN : Option (Option Int) := match col with | .int z => some (some z) | .none => some none | _ => none
      match rowN, colN with
      | some r0, some c0 =>
        -- a one-row area with only one index given: the index is a column number
        let (r, c) := if rs.length = 1 ∧ c0 = none then (none, r0) else (r0, c0)
        let width := (rs.headD []).length
        let bad : Bool := (match r with | some z => decide (z < 0) || decide ((rs.length : Int) < z) | none => false) ||
                   (match c with | some z => decide (z < 0) || decide ((width : Int) < z) | none => false)
        if bad then .ok errRef
        else
          let selRows : List (List Val) :=
            match r with
            | some z => if z = 0 then rs else (match rs[(z - 1).toNat]? with | some x => [x] | none => [])
            | none => rs
          let pick : List Val → Option Val := fun cs =>
            match c with
            | some z => if z = 0 then some (.list cs) else cs[(z - 1).toNat]?
            | none => some (.list cs)
          match selRows.mapM pick with
          | none => .ok errRef        -- IndexError → '#REF!'
          | some vals =>
            -- a column of one-element rows [[x],[y]] is flattened to [x, y]
            let vals := match vals with
              | (.list [_]) :: _ => vals.map fun v => match v with | .list (x :: _) => x | v => v
              | _ => vals
            match vals with
            | [v] => .ok v
            | vs => .ok (.list vs)
      | _, _ => .error .unmodelled
  | _ => .error .unmodelled

/-- `_address(row, col)` without optional arguments -/
def addressFn (row col : Int) : Res :=
  if col < 0 then .error .unmodelled
  else .ok (.str (['$'] ++ colLetters col.toNat ++ ['$'] ++ (toString row).toList))

end E2P
