/-
  E2P.Model.Quote — model of how workbook text reaches the generated module: CPython's `repr()` of a `str`
  (used for constant cells, text literals of formulas, wildcard literals and — through `dict.__repr__` — sheet titles)
  and CPython's lexing of a (non-raw, non-triple-quoted) string literal.  Code points below 128 are modelled exactly;
  printable code points ≥ 128 pass through both functions unchanged (repr escapes the non-printable ones, which the
  generators do not produce).
-/
namespace E2P

def hexDigit (n : Nat) : Char := if n < 10 then Char.ofNat (48 + n) else Char.ofNat (87 + n)     -- 0-9 a-f

def hexVal (c : Char) : Option Nat :=
  if 48 ≤ c.toNat ∧ c.toNat ≤ 57 then some (c.toNat - 48)
  else if 97 ≤ c.toNat ∧ c.toNat ≤ 102 then some (c.toNat - 87)
  else if 65 ≤ c.toNat ∧ c.toNat ≤ 70 then some (c.toNat - 55)
  else none

/-- `repr` chooses double quotes exactly when the text contains `'` and no `"` -/
def reprQuote (s : List Char) : Char := if s.contains '\'' && !s.contains '"' then '"' else '\''

/-- one character inside `repr` with quote `q` -/
def escChar (q : Char) (c : Char) : List Char :=
  if c = '\\' then ['\\', '\\']
  else if c = q then ['\\', q]
  else if c = '\n' then ['\\', 'n']
  else if c = '\r' then ['\\', 'r']
  else if c = '\t' then ['\\', 't']
  else if c.toNat < 32 ∨ c.toNat = 127 then ['\\', 'x', hexDigit (c.toNat / 16), hexDigit (c.toNat % 16)]
  else [c]

def pyRepr (s : List Char) : List Char :=
  let q := reprQuote s
  q :: (s.flatMap (escChar q) ++ [q])

/-- the body of a string literal opened with `q`: characters up to the first unescaped `q`; result = (value, rest after
    the closing quote); `none` = not a well-formed literal (or an escape outside the modelled set) -/
def unescape (q : Char) : Nat → List Char → Option (List Char × List Char)
  | 0, _ => none
  | _ + 1, [] => none                                          -- unterminated
  | fuel + 1, c :: cs =>
    if c = q then some ([], cs)
    else if c = '\n' then none                                   -- a line break ends a single-quoted literal: SyntaxError
    else if c = '\\' then
      match cs with
      | [] => none
      | e :: r =>
        let continue_ (ch : Char) (tail : List Char) := (unescape q fuel tail).map fun (v, rest) => (ch :: v, rest)
        if e = '\\' then continue_ '\\' r
        else if e = '\'' then continue_ '\'' r
        else if e = '"' then continue_ '"' r
        else if e = 'n' then continue_ '\n' r
        else if e = 'r' then continue_ '\r' r
        else if e = 't' then continue_ '\t' r
        else if e = 'x' then
          match r with
          | h1 :: h2 :: r' =>
            match hexVal h1, hexVal h2 with
            | some a, some b => continue_ (Char.ofNat (a * 16 + b)) r'
            | _, _ => none
          | _ => none
        else none
    else (unescape q fuel cs).map fun (v, rest) => (c :: v, rest)

/-- lex one string literal at the front of the text -/
def pyStringLiteral? (text : List Char) : Option (List Char × List Char) :=
  match text with
  | q :: cs => if q = '\'' ∨ q = '"' then unescape q (cs.length + 1) cs else none
  | [] => none

end E2P
