/-
  E2P.Model.Peg — model of the token-set parser: `CompositeBaseToken.get` (ordered first-match over token sets, each a
  sequence of terminal classes and composite classes; the control-construction flag), `AstBuilder.parse` (entry rule,
  whole-input check).  The grammar is *data* (`Grammar`), regenerated from the source (Generated/Grammar.lean); the
  interpreter below is generic in it.  `fuel` stands for the recursion depth.
-/
import E2P.Model.Val
namespace E2P

/-- a lexed token: (regexp token class name, matched text) -/
abbrev Tok := String × String

inductive PTree where
  | leaf (t : Tok)
  | node (cls : String) (kids : List PTree)
  deriving Repr, Inhabited

structure Grammar where
  rules : List (String × List (List String))
  control : List String
  composites : List String

def Grammar.setsOf (G : Grammar) (cls : String) : List (List String) :=
  match G.rules.find? (·.1 == cls) with | some kv => kv.2 | none => []

mutual
  def PTree.leaves : PTree → List Tok
    | .leaf t => [t]
    | .node _ kids => PTree.leavesL kids
  def PTree.leavesL : List PTree → List Tok
    | [] => []
    | k :: ks => k.leaves ++ PTree.leavesL ks
end

/-- result of `get`: `(token, rest)`, `(None, expression)`, a raised parser exception, or depth exhaustion -/
inductive PRes where
  | ok (t : PTree) (rest : List Tok)
  | none
  | raise
  | depth
  deriving Inhabited

/-- result of walking one token set -/
inductive SeqRes where
  | done (kids : List PTree) (rest : List Tok) (sawTerminal : Bool)
  | fail (sawTerminal : Bool)
  | raise
  | depth

/-- one token set against the remaining tokens.  `getF` is `get` one level down. -/
def seqMatch (G : Grammar) (getF : String → List Tok → PRes) : List String → List Tok → SeqRes
  | [], toks => .done [] toks false
  | _ :: _, [] => .fail false                                   -- `if not len(_expression): break`
  | sym :: syms, t :: ts =>
    if sym == t.1 then                                            -- `token == _expression[0].__class__`
      match seqMatch G getF syms ts with
      | .done k r _ => .done (.leaf t :: k) r true
      | .fail _ => .fail true
      | .raise => .raise
      | .depth => .depth
    else if G.composites.contains sym then                        -- `token in CompositeBaseToken.subclasses()`
      match getF sym (t :: ts) with
      | .ok tree rest =>
        match seqMatch G getF syms rest with
        | .done k r m => .done (tree :: k) r m
        | .fail m => .fail m
        | .raise => .raise
        | .depth => .depth
      | .none => .fail false
      | .raise => .raise
      | .depth => .depth
    else .fail false

/-- the loop over the token sets of one class -/
def trySets (G : Grammar) (getF : String → List Tok → PRes) (cls : String) (toks : List Tok) :
    List (List String) → Bool → PRes
  | [], saw => if saw && G.control.contains cls then .raise else .none
  | set :: sets, saw =>
    match seqMatch G getF set toks with
    | .done kids rest m => if set.isEmpty then trySets G getF cls toks sets (saw || m) else .ok (.node cls kids) rest
    | .fail m => trySets G getF cls toks sets (saw || m)
    | .raise => .raise
    | .depth => .depth

/-- `cls.get(expression)` -/
def pegGet (G : Grammar) : Nat → String → List Tok → PRes
  | 0, _, _ => .depth
  | fuel + 1, cls, toks => trySets G (pegGet G fuel) cls toks (G.setsOf cls) false

/-- outcome of `AstBuilder.parse`: a tree covering the whole token list, or the parser exception -/
inductive AstRes where
  | accept (t : PTree)
  | reject
  | depth

def astBuild (G : Grammar) (fuel : Nat) (entry : String) (toks : List Tok) : AstRes :=
  match pegGet G fuel entry toks with
  | .ok t [] => .accept t
  | .ok _ (_ :: _) => .reject            -- an unparsed tail
  | .none => .reject                     -- nothing matched
  | .raise => .reject
  | .depth => .depth

/-- S-expression of a tree, for the correspondence check -/
partial def PTree.sexp : PTree → String
  | .leaf t => t.1
  | .node c kids => "(" ++ c ++ " " ++ " ".intercalate (kids.map PTree.sexp) ++ ")"

end E2P
