#!/usr/bin/env python3
"""Confirm a seeded change and run a property's quick check against it.

usage: tools/seed_eval.py <property> <variant dir with patch.diff, demo.py, meta.json> [--keep NAME] [--tier quick] [--props C04,C08]

Works in a scratch worktree of /repo (never in /repo itself): applies the patch to HEAD (falls back to the commit the patch was made on),
runs the pinned test suite, the demonstration on the changed and on the unchanged tree, then check.py with E2P_REPO pointing at the changed tree.
With --keep the seed is stored under /verif/seeded/<NAME>/ with what was run and observed.
"""
import argparse, json, os, shutil, subprocess, sys, time

VERIF = os.path.dirname(os.path.dirname(os.path.abspath(__file__)))
PY = '/venv/bin/python'


def sh(cmd, cwd=None, env=None, timeout=3000):
    p = subprocess.run(cmd, shell=True, cwd=cwd, env=env, stdout=subprocess.PIPE, stderr=subprocess.STDOUT, text=True, timeout=timeout)
    return p.returncode, p.stdout


def main():
    ap = argparse.ArgumentParser()
    ap.add_argument('prop'); ap.add_argument('dir'); ap.add_argument('--keep'); ap.add_argument('--tier', default='quick')
    ap.add_argument('--props', default=None); ap.add_argument('--base', default='a9e1991')
    a = ap.parse_args()
    wt = '/tmp/seed_apply_%d' % os.getpid()
    patch = os.path.join(a.dir, 'patch.diff')
    res = {'property': a.prop, 'patch': patch}
    sh('git -C /repo worktree add -q --detach %s HEAD' % wt)
    try:
        rc, out = sh('git apply %s' % patch, cwd=wt)
        res['applied_on'] = 'HEAD ' + sh('git -C /repo rev-parse --short HEAD')[1].strip()
        if rc != 0:
            sh('git -C /repo worktree remove --force %s' % wt)
            sh('git -C /repo worktree add -q --detach %s %s' % (wt, a.base))
            rc, out = sh('git apply %s' % patch, cwd=wt)
            res['applied_on'] = a.base
            if rc != 0:
                print('patch does not apply:', out); return 2
        rc, out = sh('%s -m pytest -q -p no:cacheprovider --timeout=900 --continue-on-collection-errors 2>&1 | tail -1' % PY, cwd=wt)
        res['pytest_with_change'] = out.strip()
        env = dict(os.environ, PYTHONPATH=wt)
        rc1, out1 = sh('%s %s' % (PY, os.path.join(a.dir, 'demo.py')), env=env, cwd='/tmp')
        env0 = dict(os.environ, PYTHONPATH='/repo')
        rc0, out0 = sh('%s %s' % (PY, os.path.join(a.dir, 'demo.py')), env=env0, cwd='/tmp')
        res['demo_with_change'] = 'exit %d: %s' % (rc1, out1.strip()[-200:])
        res['demo_without_change'] = 'exit %d: %s' % (rc0, out0.strip()[-200:])
        res['checks'] = {}
        for prop in (a.props.split(',') if a.props else [a.prop]):
            t0 = time.time()
            envc = dict(os.environ, E2P_REPO=wt)
            rc, out = sh('%s check.py --property %s --tier %s' % (PY, prop, a.tier), cwd=VERIF, env=envc)
            lines = [l for l in out.strip().splitlines() if l.startswith(('VIOLATION', 'KNOWN', prop))]
            detail = ''
            rp = '/tmp/e2p_alt/replays/%s-%s-seed0.json' % (prop, a.tier)
            if rc == 1 and os.path.exists(rp):
                d = json.load(open(rp))
                fi = d.get('failing_inputs') or []
                detail = json.dumps(fi[0], default=str)[:600] if fi else 'no-failing-input-found: %s' % d.get('no_longer_checks')
            res['checks'][prop] = {'exit': rc, 'output': lines[-3:], 'first_failing_input': detail, 'wall_s': round(time.time() - t0, 1)}
        print(json.dumps(res, indent=1))
        if a.keep:
            dst = os.path.join(VERIF, 'seeded', a.keep)
            os.makedirs(dst, exist_ok=True)
            for f in ('patch.diff', 'demo.py'):
                shutil.copy(os.path.join(a.dir, f), dst)
            meta = json.load(open(os.path.join(a.dir, 'meta.json'))) if os.path.exists(os.path.join(a.dir, 'meta.json')) else {}
            meta['confirmed'] = res
            json.dump(meta, open(os.path.join(dst, 'meta.json'), 'w'), indent=1)
    finally:
        sh('git -C /repo worktree remove --force %s' % wt)
    return 0


if __name__ == '__main__':
    sys.exit(main())
