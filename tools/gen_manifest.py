#!/usr/bin/env python3
"""Regenerate MANIFEST.json from the table below (kept in one place so it stays valid)."""
import json
import os

VERIF = os.path.dirname(os.path.dirname(os.path.abspath(__file__)))
PY = '/venv/bin/python'

CHECKS = {
    'C10': dict(
        text='Lean 4 theorems over the model of the comparison ladder (_compare/_to_number/_by_operator/EmptyCell ordering): '
             'exact rational order for numbers of any size, the five laws for every pair of one kind and for an arbitrary '
             'text->number parser, the blank-cell and date=midnight facts, and model = spec wherever the statement fixes a value. '
             'Tie B: all ordered pairs of a value pool x 6 operators against inst._compare and end-to-end formulas '
             '(workbook values, overrides, literals). Right level: the property is a universally quantified statement about a small pure function.',
        note='Trusted: Lean kernel; propext/Classical.choice/Quot.sound; hand-written model tied by differential correspondence; '
             'CPython exact int/float comparison and int(str)/float(str) are externals (parser is a theorem parameter).',
        technique='Lean 4 proof over hand model + differential correspondence (value-level)', design='5/C10'),
    'C15': dict(
        text='Lean 4 theorems: the calendar model is a bijection between valid civil dates and ordinals (both round trips, closed-form '
             'ordinal = sum of year lengths), DATE = 1 Jan + (m-1) months + (d-1) days for every integer month/day inside the '
             'representable years, YEAR/MONTH/DAY invert DATE, EDATE/EOMONTH month arithmetic with clamping, DATEDIF M is the greatest '
             'number of complete months and Y/YM decompose it, NETWORKDAYS loop = count of Mon-Fri non-holidays, negated when reversed. '
             'Tie B: helpers and end-to-end formulas against the model and against independent datetime/calendar oracles; the calendar '
             'externals are validated exhaustively (thorough) over all 3 652 059 ordinals.',
        note='Trusted: Lean kernel; standard axioms; datetime/calendar/dateutil are externals modelled in Lean and validated by correspondence; '
             'TODAY depends on the system clock and is measured against date.today(), not proved (partial for that clause).',
        technique='Lean 4 proof over hand model + differential correspondence + independent calendar oracle', design='5/C15'),
    'C16': dict(
        text='Lean 4 theorems over the model of the repaired helpers (print the double with 15 significant digits, round the decimal with '
             'quantize, convert back): the three integer rounding modes are floor / ceiling / nearest-ties-away (bracketing inequalities), '
             'exact values are fixed points in every mode, rounding is sign-symmetric, and for every decimal x whose 15-digit print recovers it '
             '(E2P.dec15_recover: the 15-significant-digit print of the double nearest to a <=15-digit decimal is that decimal, proved for every '
             'such decimal and exponent; also re-checked by the driver on every generated case) the helper returns rn(quantize x n) - the double '
             'nearest to the exact decimal result (round_spec, full strength). percent_spec: x% = rn(x/100) for every decimal of <= 13 digits. '
             'Tie B: decimal grid incl. every tie x digit counts -3..6 x 3 modes, integers, percent via real formulas, literals/cells/overrides.',
        note="Trusted: Lean kernel; standard axioms; float(str), '{:.15g}' and decimal.quantize are externals modelled as rn / round15 / integer rounding "
             "(cross-checked per case, flags rn-bad / recover-bad); exponent range (overflow, subnormals), NaN, inf, -0.0 not modelled.",
        technique='Lean 4 proof over hand model (exact rationals for doubles) + differential correspondence', design='5/C16'),
    'C14': dict(
        text='Lean 4 theorems over the model of _match/_xmatch/_vlookup/_index/_address: exact scans return the first (XMATCH from the end: last) '
             'row whose key equals the lookup value else #N/A; the approximate scan keeps the longest acceptable prefix, which on ascending keys is the '
             'last row whose key is not greater than the lookup value (the last row when the value exceeds every key); INDEX returns the addressed '
             'element and #REF! outside the area; INDEX(MATCH) retrieves the partner; ADDRESS letters invert the base-26 column index for every '
             'column 1..16384 (kernel-evaluated table) and unboundedly. Tie B: helper sweeps over key columns x lookups x modes, INDEX boxes, '
             'ADDRESS for all 16384 columns, openpyxl column-letter externals for 1..18278, end-to-end formulas incl. two-argument forms and COLUMN.',
        note='Trusted: Lean kernel; standard axioms; hand model tied by correspondence; texts ASCII only (str.lower); keys of the lookup value kind '
             '(numbers or texts, no blanks) is the domain of the spec; COLUMN is checked end-to-end only (translation-time constant).',
        technique='Lean 4 proof over hand model + differential correspondence', design='5/C14'),
    'C17': dict(
        text='Lean 4 theorems over the model of _left/_right/_mid/_search/_value and & / CONCATENATE: LEFT = take, RIGHT = last n, MID = drop/take '
             'with the error values for negative counts / k<1, agreement with the declarative spec for every argument, the rebuild law '
             'LEFT(t,n)&MID(t,n+1,len)=t, concatenation in operand order, the executable wildcard matcher decides the inductive match relation '
             '(matchPre_iff), SEARCH returns the least position >= start with an occurrence (both directions) else #VALUE!, plain patterns are '
             'case-insensitive substring search, VALUE of a decimal text is the nearest double. Tie B: all strings to length 3/4 over a '
             'wildcard/regex-special alphabet x positions in a box, SEARCH against the model and an independent reference matcher, end-to-end formulas.',
        note='Trusted: Lean kernel; standard axioms; re.search leftmost-match semantics and str slicing are externals (modelled, validated by correspondence); '
             'texts ASCII only (re.I / lower); the text form of floats under & (Python repr) is not modelled - the statement fixes no text form.',
        technique='Lean 4 proof over hand model + differential correspondence + independent reference matcher', design='5/C17'),
    'C13': dict(
        text='Lean 4 theorems: for every well-formed formula of the fragment (IF with 2/3 arguments, IFS with any number of pairs, IFERROR, nested to any depth '
             'and in any operand/argument position of + * / & = SUM LEFT) the Python expression the translators emit evaluates - under the model of CPython '
             'evaluation order, _ifs, _iferror and _find_error_in_list - to the value of the lazy reference semantics (C13_main, structural induction); '
             'the clauses of the property are corollaries of the reference semantics (if_lazy, if_omitted_else, ifs_first_true, ifs_none_na, iferror_value / '
             '_errval / _failure / _fallback_lazy). The list of error values scanned by the runtime is extracted from both runtime copies on every run (Tie A) '
             'and proved equal as a set to the seven Excel error values. Tie B: random nestings to depth 3/4 evaluated through the real translator and class.',
        note='Trusted: Lean kernel; standard axioms; CPython evaluation order of the emitted expression (conditional expression, lambda, try/except) is modelled; '
             'operators in the fragment are fully parenthesised (precedence is C01); the AST extraction of the error list.',
        technique='Lean 4 proof (structural induction over formulas) over hand model + generated error table + differential correspondence', design='5/C13'),
    'C11': dict(
        text='Lean 4 theorems over the model of _flatten_list/_only_numeric_list/_sum/_average/_min/_max/_count/_count_blank/_and/_or and the translator glue: '
             'flattening is row-major concatenation (flatten_append, flatten_area); the cells folded are exactly the numeric ones, once per mention, in order '
             '(numericCells_sublist/_mem/_length; text, booleans, blanks ignored); SUM = exact sum of the numeric cells, an int when all are ints else the double '
             'of that exact value, whenever no summand/partial sum needs rounding (sum_spec); SUM(X,Y) = SUM(X)+SUM(Y) (sum_split); AVERAGE = the exact sum / count '
             'rounded once (average_spec); MIN/MAX are elements bounding all numeric cells under exact int/float order (min_spec, max_spec); COUNT = number of '
             'numeric cells (count_spec); COUNTBLANK = blank or empty-text cells (countblank_spec); AND/OR = all/any truthy (and_spec, or_spec). '
             'Tie B: two-sheet workbooks with planted contents x areas of every shape / other sheets / scalars / both separators through the real translator, '
             'the helpers of both runtime copies on the same argument lists, and the split law on the real code.',
        note='Trusted: Lean kernel; standard axioms; hand model tied by correspondence; sum() is modelled as a left fold and compared only where every partial sum is exact '
             '(CPython >= 3.12 compensates float sums; the algorithms agree there; predicate allExact is evaluated by the driver per case); dates and error values inside '
             'areas, text/boolean scalar arguments of SUM: compared with the model, not with the spec (the statement is silent).',
        technique='Lean 4 proof over hand model (exact rationals for doubles) + differential correspondence + algebraic law on the real code', design='5/C11'),
    'C20': dict(
        text='Tie A regenerates on every run the table (name, normalised AST) of every helper of (i) the class text the real Context.build_class() renders and '
             '(ii) AbstractExcelInPython; Lean theorems (kernel-checked) say the two tables are the same table (same_helpers, helpers_identical, helper_agrees) and that the '
             'import environments agree up to ABC. When an obligation fails the check runs every same-named helper of both copies on generated arguments and reports '
             'the first differing call as the replay. This is the weakest use of the technique in this project: the theorem is a syntactic identity of the two programs; '
             'that identical programs compute identical results is CPython determinism (trusted).',
        note='Trusted: Lean kernel; the AST normalisation in harness/extract.py (removes annotations, docstrings, positions only); CPython determinism; '
             'clock-dependent helpers compared by result type.',
        technique='translation-regenerated tables + Lean 4 kernel-checked identity + differential execution of the two copies', design='5/C20'),
    'C04': dict(
        text='Lean 4 refinement theorem over the model of Executor.set_cells/_set_cells_to_executed_instance/get_cell/get_cells/get_sheet, set_arguments ({**old, **new}) and '
             '_cell_preprocessor: for every workbook and every history of calls on a fresh executor, every output equals a from-scratch evaluation of the workbook in which '
             'each overridden cell (formula, constant, blank, outside the used range) is replaced by its most recently supplied constant (exec_refines, by an invariant over '
             'histories; override_is_edit by induction on the evaluation depth). Clauses as corollaries: last_write_wins, override_shadows, overridden_formula_irrelevant, '
             'override_outside, no_override_no_change. Set-cells calls that are REJECTED (an address that does not resolve) are in the model (Model/ExecRej.lean): '
             'rejected_batch_changes_nothing and exec_refines_with_rejected - a history with rejected calls anywhere answers every query as the history without them; '
             'exec_refines_calls - the same for the public API with addresses as the caller writes them (unknown titles, bad letters, row 0, sheet numbers the workbook does not have), with no side condition left. '
             'Tie B: generated workbooks x histories with repeated cells, rejected batches and all addressing styles against the model and spec, plus '
             'real-code laws: values after overrides = a fresh translation of the edited workbook; whatever a rejected call left is visible at once and stays.',
        note='Trusted: Lean kernel; standard axioms; hand model tied by correspondence; formula evaluation in the model is the C13 fragment evaluator (a parameter of the proof: '
             'only extensionality is used); dict semantics of CPython (insertion order, replace in place) modelled as association lists; hash-seed effects are not modelled '
             '(the repaired code no longer depends on hash order).',
        technique='Lean 4 refinement proof (invariant over operation histories) + differential correspondence + metamorphic re-translation law', design='5/C04'),
    'C08': dict(
        text='Lean 4 corollaries of the C04 refinement: every output is a function of the workbook and of the set-cells calls that precede it only '
             '(specOut_queries_irrelevant, query_independent: any two histories with the same set-cells subsequence answer a query alike - covers repetition, order and '
             'the API used), query_repeatable, query_pure (queries change neither overrides nor sizes), get_cells_eq_map, sheet_grid (exactly one entry per coordinate of '
             'the used range extended by the overrides, each equal to the single-cell query; extent_covers), addressing_equiv (A1-style / title addressing = numeric), '
             'unknown_title_rejected; query_independent_calls: the same for the public API with set_cells addresses as the caller writes them, accepted or rejected, with no side condition '
             '(a rejected call changes no later answer and no size). Tie B: query-heavy schedules (rejected batches among them) against model and spec; permuted and doubled schedules, grid-vs-single, '
             '_arguments / sizes snapshots, and a function-zoo order law (78 formulas of every function family on one executor in several orders = each alone on a fresh executor) on the real code.',
        note='Trusted: as C04; openpyxl column_index_from_string is an external (validated exhaustively in C14).',
        technique='Lean 4 proof (corollaries of the refinement theorem) + differential correspondence + schedule permutation laws on the real code', design='5/C08'),
    'C09': dict(
        text='Lean 4 invariant proof over the model of the Parser facade (settings, cached text, dirty flags, early return of _translate): for EVERY dirty-flag table passing the '
             'decidable coherence check and every translation function, each get_translation / write_translation of any call sequence yields what a fresh parser configured with the '
             'settings in force yields (facade_coherent_from); the table (which setter assigns which attribute, which flags the early return tests, which _translate clears) is '
             'regenerated from utilities/parser.py on every run and the check is discharged for it by decide (generated_table_ok), giving facade_coherent, repeat_identical. '
             'Tie B: all call sequences to length 3/4 + every (change, change) pair + random ones against model and fresh-parser oracle, written file = returned text. '
             'Byte-determinism across processes, PYTHONHASHSEED values, warm-up translations and 4 concurrent threads is measured on the real code (sha256), not proved: partial for that clause.',
        note='Trusted: Lean kernel; standard axioms; AST extraction of the flag table; the translation is a parameter of the model (pure function of path, entry, safety) - '
             'process history / hash seed / thread schedule effects cannot be exhibited by the model and are sampled; the workbook file does not change between calls.',
        technique='Lean 4 invariant proof over a regenerated flag table (Tie A) + differential correspondence + cross-process/thread determinism sampling', design='5/C09'),
    'C03': dict(
        text='Lean 4 theorems over the model of CellTranslator._set_cell_to_context / translate / translate_file (recursive descent memoised by uid, cells registered after their '
             'formula, in-progress set): a successful translation from an entry registers exactly the cells the entry transitively depends on (slice_closed, both directions); '
             'registration order is topological so no member lies on a cycle (ok_no_cycle); the parser exception arises exactly when the entry depends on a cycle (parser_cycle, '
             'cycle_rejected); with a recursion budget above the number of cells the descent never runs out of depth (enough_fuel, pigeonhole on the in-progress path), hence '
             'translate_total: closed slice or parser exception, decided by reachability of a cycle; the value of a cell is determined by the formulas of the cells it reaches '
             '(evalX_congr, slice_faithful), so slice and whole-workbook classes agree on every slice member under any overrides (slice_eq_whole). '
             'Tie B: random graphs over 1-3 sheets incl. areas and cross-sheet edges, every cell as entry: generated member sets vs model and vs an independent reachability '
             'oracle, slice-vs-whole values on the real code, cyclic variants (self, through areas, through IF branches never taken).',
        note='Trusted: Lean kernel; standard axioms; hand model tied by correspondence; formula evaluation = the C13 fragment evaluator; sub-expression methods and their '
             'numbering/de-duplication are not in the abstract model (covered by slice-vs-whole values on shared-prefix graphs); COLUMN(area) spill emulation is not generated.',
        technique='Lean 4 proof (DFS invariants: closure, topological order, path/cycle, pigeonhole termination) + differential correspondence + slice-vs-whole law', design='5/C03'),
    'C05': dict(
        text='Lean 4 theorems over a generic interpreter of the token-set parser (CompositeBaseToken.get incl. the control-construction flag, AstBuilder.parse), valid for EVERY '
             'grammar table: the leaves of a returned tree followed by the unconsumed rest are exactly the input tokens (yield_exact: nothing dropped, duplicated, invented); '
             'an accepted formula covers the whole token list and every other outcome is the parser exception (whole_or_rejected, no_silent_truncation); every node of a '
             'returned tree instantiates, in order, one of the token sets of its class (derivation_sound: a supported function is never accepted with an argument list the '
             'grammar does not define); the parser looks at token CLASSES only - relabelling the texts of the tokens relabels the tree and changes neither acceptance nor shape '
             '(kinds_only), so ";" and "," are interchangeable as separators for every formula and grammar (separator_blind); the lexer model drops nothing but whitespace: the token texts in '
             'order, with whitespace only around them, are the whole text (lexer_drops_nothing, for any lexer table), whitespace around the formula and in front of any token is skipped (whitespace_around_formula, whitespace_before_token), and its regex sources are the ones of this run (pinned_sources, '
             'lexer_table_modelled, separators_one_class). On the table regenerated from the source (Tie A): keywords_longest_first, generated_symbols_defined (decide). '
             'Tie B: random derivations of the repository\'s own grammar (all functions, all argument shapes) and mutants, real Lexer + AstBuilder vs the Lean interpreter on the '
             'regenerated table (tree shape / reject), leaves-vs-tokens on the real tree, whitespace and ,/; laws through evaluation.',
        note='Trusted: Lean kernel; standard axioms; extraction of the grammar from the imported classes; the regex lexer itself is not modelled in Lean - that both separators lex to SeparatorToken and that whitespace '
             'is skipped is a law checked on the real code (the parser half of the separator law is the theorem separator_blind); depth exhaustion of the interpreter is excluded by fuel 300 in the driver (generated nesting is far shallower).',
        technique='Lean 4 proof generic in the grammar table (Tie A regenerates the table) + differential correspondence of the interpreter + laws on the real code', design='5/C05'),
    'C06': dict(
        text='Lean 4 theorems: an accepted node consumes at least one token (consumes); for every grammar whose head-symbol relation is ranked (no left recursion) the token-set '
             'interpreter never exhausts a recursion depth of |tokens|*(R+1)+rank (no_depth, double induction on depth and position); the rank table of the grammar of this run is '
             'regenerated from the source and checked by decide (generated_rank_check, rankOK_of_check), giving parse_total: AstBuilder.parse on ANY token list either accepts '
             'the whole list or raises the parser exception, within depth 6n+6; the lexer model ends on EVERY text with tokens or one of its two parser exceptions - every scanner '
             'consumes at least one character, the loop neither spins nor exhausts its fuel (lexer_ends, generated_lexer_table_ok on the regenerated table) - so text -> tree '
             'is total (front_end_total). Together with C05 (no None escapes, nothing truncated) this is the model-level totality of lexing + parsing. '
             'The MEMO TABLE of CompositeBaseToken.get (key = class, number of remaining tokens) is in the model (Model/PegMemo.lean): memo_transparent / parse_total_memo - for every '
             'grammar and token list the parser with the table answers exactly as the parser without it (table invariant over the suffixes of one token list, fuel monotonicity, '
             'simulation), and parse_steps_bound / generated_parse_steps_bound - for every grammar without left recursion `_get` is executed at most once per (class, position), i.e. '
             'at most |classes|*(n+1) times, whatever the outcome (ghost log of executed keys without repetition: executions in progress have a strictly larger measure). '
             'The number of `_get` executions of the real parser is compared with the model\'s count, formula by formula (exact equality), so the bound is tied to the code. '
             'The remaining clauses are measured on the real code: outcome classes of translate / compile / exec / evaluate over grammar-derived formulas, mutants and an '
             'adversarial list (no foreign exception, no class that fails to load, titles and sizes carried, constants evaluate to the stored value), a step counter on '
             'CompositeBaseToken._get against |classes|*(n+1), wall-clock bounds, dependency chains to 2000 cells through the facade, class_file vs class_object; brackets / operator chains / signs / percents / nested functions / '
             'argument lists of 30..3000 elements and literals of up to 100000 characters through the facade in a worker process with a 60 s limit.',
        note='Partial: "never hangs" is a runtime fact - termination, a depth bound and a polynomial bound on parse steps are proved for the parser model (the step count is tied to the real parser by exact correspondence), wall-clock time is measured; the translators (one per '
             'function) are exercised, not modelled: that none of them raises a foreign exception is established by the outcome-class sweep over the grammar-derived inputs only. '
             'Exceptions at EVALUATION of a member (text arithmetic, 1/0, wrong argument types) are results of the formula and are not counted.',
        technique='Lean 4 proofs generic in the grammar (termination, depth bound, memo-table transparency, at-most-once-per-(class, position) step bound) + regenerated rank table (Tie A) + outcome-class sweep, exact step-count correspondence and time bounds on the real code', design='5/C06'),
    'C07': dict(
        text='Lean 4 theorem quote_roundtrip: for EVERY text s and whatever follows it, the characters repr(s) writes lex (model of CPython string-literal lexing: quote choice, '
             '\\\\ \\\' \\" \\n \\r \\t \\xNN) as exactly one string literal whose value is s, and lexing resumes right after it (literal_is_one_token) - by induction over the text with a '
             'per-character escape/unescape lemma. Every place where workbook text enters the module (constants, text and wildcard literals, titles) goes through repr after the '
             'repairs, so the text can only be inert data. Tie B: repr() of every generated string vs the Lean model; end-to-end planting of strings (exhaustive to length 2/3 over a '
             '29-character alphabet, random to 14, injection payloads with a canary) in constants, literals, every criterion position and titles: module parses, planted text '
             'is an ast.Constant, members of plain literals are exactly that Constant, values are exact, canary untouched after load and evaluation; safety check on/off via the facade.',
        note='Trusted: Lean kernel; standard axioms; the model of repr / literal lexing (validated per string against CPython, code points < 128 exact, printable ones above pass through); '
             'that every emission site uses repr is established by the end-to-end sweep (AST of the generated module), not by a Lean model of all translators.',
        technique='Lean 4 proof (escape/unescape round trip for all strings) + differential correspondence with CPython repr + canary / AST inertness sweep on the real code', design='5/C07'),
    'C02': dict(
        text='Lean 4 theorems over the model of handle_cell / Excel._fill_cell / get_matrix / Cell.uid / the sheet-title part of the reference tokens: an area has exactly '
             'r2-r1+1 rows of c2-c1+1 entries and entry (i,j) is the cell (c1+j, r1+i) - exactly those coordinates, each once (coordinates_nodup), row-major (matrix_rows, '
             'matrix_row_length, matrix_entry, matrix_flatten); a cell inside the read data is the stored value, cells beyond it read as blank (fetch_spec, fetch_outside); a '
             'whole-column area spans every row of the sheet (whole_columns_rows); no prefix means the formula\'s own sheet, an unknown title is rejected, a resolved title is that '
             'title (own_sheet_default, unknown_title_rejected, known_title_resolves); quoting then unquoting a title is the identity for every title (unquote_quote); column '
             'letters <-> numbers are inverse for every column (col_roundtrip, both directions, unbounded); distinct coordinates have distinct method names (uid_injective); '
             'every way of WRITING a reference is read back as written by the scanners of the reference tokens: any prefix form (none / Title! / quoted with doubled apostrophes, any '
             'characters), any $ markers, any column letters and row digits, whatever admissible text follows (cell_reference_read_back), and the same for rectangles, row / '
             'column ranges and whole-column areas (area_reference_read_back); the scanners are the ones of this run (reference_regexes_pinned on the regenerated regex sources). '
             'Tie B: workbooks whose cells encode their coordinates, 2-5 sheets with hostile titles in random order, every reference form / $ form / prefix form, columns to XFD, '
             'rows to 5 digits, areas beyond the used range, whole columns, wrapped in SUM / COUNT / INDEX, the same bare text on several sheets, unknown titles; three routes per '
             'formula (class of its own cell / class of the whole workbook / whole workbook with overridden cells): values vs the model and vs an independent decode; '
             '<class>.get of the three reference tokens vs the Lean scanners on spellings and near misses.',
        note='Trusted: Lean kernel; standard axioms; the hand-written scanners of the three reference regexes (backtracking order modelled by hand, pinned to the regex sources, '
             'compared with <class>.get on generated texts; no read-back theorem for CellIdentifierRangeToken, which Lexer.TOKENS order shadows by the matrix token); \\w and \\d are '
             'modelled on ASCII + Cyrillic letters; openpyxl column_index_from_string is an external validated exhaustively (C14).',
        technique='Lean 4 proof over hand model + differential correspondence + independent coordinate-decoding oracle', design='5/C02'),
    'C19': dict(
        text='Lean 4 theorems over a scanner model of the two regexes of _get_suspicious_constructions, the report key and the gate: every reported fragment is call syntax '
             'occurring in the cell text (scan_sound, by induction over the scan), hence a cell without call syntax - in particular without "(" - is never listed '
             '(no_paren_never_listed), cells whose call syntax is only upper-case identifiers are never listed (only_excel_calls_never_listed), every listed fragment has an '
             'identifier that is not upper-case throughout (listed_is_python_like), with the check disabled the exception is never raised and enabled exactly when a cell is '
             'listed (disabled_never_raises, enabled_raises_iff), the key is \'title\' + column letters + row (reportKey_shape); completeness: a text containing an identifier run immediately followed by "(" with a ")" '
             'later makes the scan non-empty (scan_complete), and the cell is listed when no found call fragment is an upper-case function call (flags_when_no_excel_call), in particular when the text has no upper-case letter at all (flags_python_like). Tie B: per cell text the real scanner vs the Lean scanner and vs an independent hand scanner; '
             'workbooks with fragments planted off the diagonal on several sheets, through openpyxl and the facade, check on/off: exception type, exact key set, fragments.',
        note='Completeness for texts mixing upper-case calls and Python-like calls (the scan resumes after the first ")" of a match, so a Python-like call nested inside an '
             'upper-case call\'s arguments is only seen when the argument regex lets it) is established by the differential sweep, not by a theorem. Trusted: Lean kernel; standard axioms; '
             'the model of leftmost non-overlapping regex matching for these two patterns; openpyxl cell.row / column_letter.',
        technique='Lean 4 proof (scanner soundness, gate) over hand model + differential correspondence + independent oracle through the real file path', design='5/C19'),
    'C18': dict(
        text='Lean 4 theorems over the model of Excel.parse with openpyxl\'s padding contract as an explicit input: every cell is seen at the position at which it was yielded with the '
             'value yielded, blank when it has none (read_coords); last_row is the number of rows, last_column bounds every row and is attained (sizes_spec); cells outside the '
             'reported size read as blank (outside_size_blank); titles keep workbook order (titles_in_order); a constant text evaluates to the stored text (constant_text_value, '
             'from C07). The repository\'s own logic here is an enumeration, so the theorems are thin by nature; the assurance is mostly Tie B: real .xlsx files with sparse '
             'layouts, empty / far / offset sheets, every storable value type, formulas and array formulas, 1-8 sheets with hostile titles: every coordinate of the bounding '
             'box (+2) through the executor vs openpyxl\'s normal mode and the generator\'s map; sizes; titles.',
        note='Trusted: Lean kernel; standard axioms; openpyxl (reader, padding contract under reset_dimensions in read-only mode, type mapping) - validated against its own normal mode; '
             'repr round trip of floats / date-times through the generated module (CPython).',
        technique='Lean 4 proof over hand model with the reader contract as hypothesis + differential correspondence through real files', design='5/C18'),
    'C01': dict(
        text='Lean 4 theorems over the model of the (repaired) ExpressionTokenTranslator - the flat sequence of operands and operators grouped by precedence into a fully parenthesised '
             'expression - and of the evaluation of that expression. C01_main: for EVERY stratified expression (every reading the rule "% tightest, then sign, then * /, then + -, then &, '
             'then comparisons, equal levels to the left, brackets override" allows; any length, any nesting) grouping the token sequence it prints to returns exactly that expression '
             '(structural induction with a loop-continuation invariant; fuel-free through eventual values + monotonicity); C01_unambiguous: a token sequence has at most one stratified '
             'reading; C01_main_model: whenever the model\'s grouping with its budget succeeds on such tokens it returns that reading; group_exact: the grouping never drops, reorders or '
             'invents a token (all sequences); the complete operator tables as kernel-evaluated finite statements (pair_table, left_assoc_table, sign_table, pct_table, '
             'malformed_rejected); blank_is_zero, blank_sign, paren_transparent. Tie B: every valid token sequence to 5/6 tokens + random chains to 25 tokens x 4 operand assignments '
             '(workbook cells and overrides) against the model and against an independent recursive-descent reading; numeric literals on a decimal grid vs the nearest double.',
        note='Trusted: Lean kernel; standard axioms; that the bracket structure read off the token tree equals bracket matching on the token sequence (true for derivations, C05; validated by '
             'Tie B); CPython arithmetic on the value domain (exact ints, binary64 as rn of exact rationals); float(text) correctly rounded; text forms under & for ints only.',
        technique='Lean 4 proof (parser-after-printer identity for all stratified expressions; exactness; operator tables) + differential correspondence with an independent parser as spec', design='5/C01'),
    'C12': dict(
        text='Lean 4 theorems over the model of the (repaired) criteria engine _criterion and of _sumifs / _countifs / _sum_if: the operator prefix of a criterion text is decoded as '
             'written (split_ge / _le / _ne / _gt / _lt / _eq / _plain), numbers and blank criterion cells are equality on numbers (decode_number), operator-prefixed numbers and texts '
             'decode to that operator and value (decode_op_number, decode_op_text); numeric criteria compare exactly with numeric cells and are never met by text / blank cells '
             'except <> (accepts_num); text criteria match the WHOLE cell case-insensitively with ? * ~ wildcards, <> is the negation (accepts_text_eq), a pattern without '
             'wildcard characters matches exactly the texts equal up to case (matchAll_plain); position i is selected exactly when every pair accepts the i-th cell of its range '
             '(selectMask_spec), SUMIFS / COUNTIFS fold exactly the selected positions (sumifs_select, countifs_select), ranges of different sizes are an error (misaligned_error). '
             'Tie B: every (criterion, rendering, cell) of a grid through _criterion of both runtime copies vs the decoding model and the structured meaning; SUMIFS / COUNTIFS / '
             'SUMIF formulas with 1-3 pairs, criteria as literals, assembled with &, held by cells, misaligned ranges; AVERAGEIFS = SUMIFS / COUNTIFS on the real code.',
        note='Trusted: Lean kernel; standard axioms; float(text) (theorem parameter P); Python re.fullmatch for the generated pattern (modelled by matchAll, validated per case). '
             'Outside the model and the spec: date criteria and criterion texts containing digits that are not numbers (dateutil is tried on them), blank / boolean cells inside '
             'criteria ranges (the code casts them to 0 / 1; the statement is silent) - compared with the model where it has one. AVERAGEIFS is checked by a law, not modelled.',
        technique='Lean 4 proof over hand model + differential correspondence (both runtime copies) + law on the real code', design='5/C12'),
}

WIP = set()   # built, proofs in progress: not claimed until green
NOT_YET = 'check not built yet (work in progress; will be claimed when its Lean model, theorems and correspondence are green)'


def main():
    props = [json.loads(l)['id'] for l in open(os.path.join(VERIF, 'properties.jsonl'))]
    checks = []
    for pid in props:
        if pid not in CHECKS or pid in WIP:
            continue
        c = CHECKS[pid]
        checks.append({
            'property_id': pid,
            'quick_cmd': '%s check.py --property %s --tier quick' % (PY, pid),
            'thorough_cmd': '%s check.py --property %s --tier thorough' % (PY, pid),
            'evidence_file': 'evidence/%s.json' % pid,
            'replay_cmd_template': '%s check.py --property %s --replay {path}' % (PY, pid),
            'engine': 'lean4-e2p',
            'level_claimed': {'category': c.get('category', 'proof'), 'text': c['text'], 'design_ref': c['design']},
            'level_note': c['note'],
            'technique': c['technique'],
        })
    na = [{'property_id': p, 'reason': NOT_YET} for p in props if p not in CHECKS or p in WIP]
    man = {
        'version': 1,
        'setup_cmd': 'cd lean && lake build e2pdrv ' + ' '.join('E2P.Props.%s' % c['property_id'] for c in checks),
        'hooks': {
            'guard': 'E2PYCL_VERIF',
            'enable': 'no source hooks are installed; the harness observes the unmodified package in-process (E2PYCL_VERIF=1 is exported but nothing in /repo reads it)',
            'baseline_off_cmd': 'cd /repo && /venv/bin/python -m pytest -ra -q -p no:cacheprovider --timeout=900 --continue-on-collection-errors',
            'source_commits': [],
            'add_only': True,
        },
        'engines': [{
            'name': 'lean4-e2p', 'path': 'lean/',
            'serves_properties': [c['property_id'] for c in checks],
            'kind_free_text': 'Lean 4 package E2P: import-free executable models + specs (native driver e2pdrv, line protocol), '
                              'generated tables from the working tree (Tie A), property theorems in E2P/Props, '
                              'Python correspondence harness in harness/ (Tie B)',
        }],
        'checks': checks,
        'not_applicable': na,
        'notes': 'check.py is the single entry point; VERIF_SEED selects the PRNG seed. Exit 2 = infrastructure failure. '
                 'Genuine defects repaired in /repo as fix: commits are listed in known_findings.txt.',
    }
    json.dump(man, open(os.path.join(VERIF, 'MANIFEST.json'), 'w'), indent=1)
    print('wrote MANIFEST.json: %d checks, %d not claimed' % (len(checks), len(na)))


if __name__ == '__main__':
    main()
