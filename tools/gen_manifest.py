#!/usr/bin/env python3
"""Regenerate MANIFEST.json from the table below (kept in one place so it stays valid)."""
import json
import os

VERIF = os.path.dirname(os.path.dirname(os.path.abspath(__file__)))
PY = '/venv/bin/python'

CHECKS = {
    'C10': dict(
        text='Lean 4 theorems over the model of the comparison ladder (_compare/_to_number/_by_operator/EmptyCell ordering): '
             'exact rational order for numbers of any size, the five laws for every pair of one kind and for an arbitrary '
             'text->number parser, the blank-cell and date=midnight facts, and model = spec wherever the statement fixes a value. '
             'Tie B: all ordered pairs of a value pool x 6 operators against inst._compare and end-to-end formulas '
             '(workbook values, overrides, literals). Right level: the property is a universally quantified statement about a small pure function.',
        note='Trusted: Lean kernel; propext/Classical.choice/Quot.sound; hand-written model tied by differential correspondence; '
             'CPython exact int/float comparison and int(str)/float(str) are externals (parser is a theorem parameter).',
        technique='Lean 4 proof over hand model + differential correspondence (value-level)', design='5/C10'),
    'C15': dict(
        text='Lean 4 theorems: the calendar model is a bijection between valid civil dates and ordinals (both round trips, closed-form '
             'ordinal = sum of year lengths), DATE = 1 Jan + (m-1) months + (d-1) days for every integer month/day inside the '
             'representable years, YEAR/MONTH/DAY invert DATE, EDATE/EOMONTH month arithmetic with clamping, DATEDIF M is the greatest '
             'number of complete months and Y/YM decompose it, NETWORKDAYS loop = count of Mon-Fri non-holidays, negated when reversed. '
             'Tie B: helpers and end-to-end formulas against the model and against independent datetime/calendar oracles; the calendar '
             'externals are validated exhaustively (thorough) over all 3 652 059 ordinals.',
        note='Trusted: Lean kernel; standard axioms; datetime/calendar/dateutil are externals modelled in Lean and validated by correspondence; '
             'TODAY depends on the system clock and is measured against date.today(), not proved (partial for that clause).',
        technique='Lean 4 proof over hand model + differential correspondence + independent calendar oracle', design='5/C15'),
    'C16': dict(
        text='Lean 4 theorems over the model of the repaired helpers (print the double with 15 significant digits, round the decimal with '
             'quantize, convert back): the three integer rounding modes are floor / ceiling / nearest-ties-away (bracketing inequalities), '
             'exact values are fixed points in every mode, rounding is sign-symmetric, and for every decimal x whose 15-digit print recovers it '
             '(Recovers x: proved as E2P.dec15_recover when that lemma file is present, otherwise checked by the driver on every generated case) '
             'the helper returns rn(quantize x n) - the double nearest to the exact decimal result. Percent = rn(round15(rn(x/100))). '
             'Tie B: decimal grid incl. every tie x digit counts -3..6 x 3 modes, integers, percent via real formulas, literals/cells/overrides.',
        note="Trusted: Lean kernel; standard axioms; float(str), '{:.15g}' and decimal.quantize are externals modelled as rn / round15 / integer rounding "
             "(cross-checked per case, flags rn-bad / recover-bad); exponent range, NaN, inf, -0.0 not modelled. Partial: round_spec carries the hypothesis Recovers x.",
        technique='Lean 4 proof over hand model (exact rationals for doubles) + differential correspondence', design='5/C16'),
}

NOT_YET = 'check not built yet (work in progress; will be claimed when its Lean model, theorems and correspondence are green)'


def main():
    props = [json.loads(l)['id'] for l in open(os.path.join(VERIF, 'properties.jsonl'))]
    checks = []
    for pid in props:
        if pid not in CHECKS:
            continue
        c = CHECKS[pid]
        checks.append({
            'property_id': pid,
            'quick_cmd': '%s check.py --property %s --tier quick' % (PY, pid),
            'thorough_cmd': '%s check.py --property %s --tier thorough' % (PY, pid),
            'evidence_file': 'evidence/%s.json' % pid,
            'replay_cmd_template': '%s check.py --property %s --replay {path}' % (PY, pid),
            'engine': 'lean4-e2p',
            'level_claimed': {'category': c.get('category', 'proof'), 'text': c['text'], 'design_ref': c['design']},
            'level_note': c['note'],
            'technique': c['technique'],
        })
    na = [{'property_id': p, 'reason': NOT_YET} for p in props if p not in CHECKS]
    man = {
        'version': 1,
        'setup_cmd': 'cd lean && lake build',
        'hooks': {
            'guard': 'E2PYCL_VERIF',
            'enable': 'no source hooks are installed; the harness observes the unmodified package in-process (E2PYCL_VERIF=1 is exported but nothing in /repo reads it)',
            'baseline_off_cmd': 'cd /repo && /venv/bin/python -m pytest -ra -q -p no:cacheprovider --timeout=900 --continue-on-collection-errors',
            'source_commits': [],
            'add_only': True,
        },
        'engines': [{
            'name': 'lean4-e2p', 'path': 'lean/',
            'serves_properties': [c['property_id'] for c in checks],
            'kind_free_text': 'Lean 4 package E2P: import-free executable models + specs (native driver e2pdrv, line protocol), '
                              'generated tables from the working tree (Tie A), property theorems in E2P/Props, '
                              'Python correspondence harness in harness/ (Tie B)',
        }],
        'checks': checks,
        'not_applicable': na,
        'notes': 'check.py is the single entry point; VERIF_SEED selects the PRNG seed. Exit 2 = infrastructure failure. '
                 'Genuine defects repaired in /repo as fix: commits are listed in known_findings.txt.',
    }
    json.dump(man, open(os.path.join(VERIF, 'MANIFEST.json'), 'w'), indent=1)
    print('wrote MANIFEST.json: %d checks, %d not claimed' % (len(checks), len(na)))


if __name__ == '__main__':
    main()
