#!/bin/sh
# run every registered quick (or $1) check on the unchanged tree with seed $VERIF_SEED; print one line per check
tier=${1:-quick}
here=$(cd "$(dirname "$0")/.." && pwd)
for p in $(python3 -c "import json;print(' '.join(c['property_id'] for c in json.load(open('$here/MANIFEST.json'))['checks']))"); do
  t0=$(date +%s)
  out=$(cd "$here" && timeout 7200 /venv/bin/python check.py --property $p --tier $tier 2>&1 | grep -E "^VIOLATION|^KNOWN|^$p |INFRA" | tr '\n' ' ')
  echo "$out [$(( $(date +%s) - t0 )) s]"
done
