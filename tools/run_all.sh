#!/bin/sh
# run every registered quick (or $1) check on the unchanged tree with seed $VERIF_SEED; print one line per check
tier=${1:-quick}
for p in $(python3 -c "import json;print(' '.join(c['property_id'] for c in json.load(open('/verif/MANIFEST.json'))['checks']))"); do
  out=$(cd /verif && timeout 3000 /venv/bin/python check.py --property $p --tier $tier 2>&1 | grep -E "^VIOLATION|^KNOWN|^$p |INFRA" | tr '\n' ' ')
  echo "$out"
done
