#!/bin/sh
# run a property's quick check against the original snapshot (pre-fix) of the repository: every repaired defect must be re-detected
# usage: tools/orig_check.sh C14
[ -d /tmp/wt_orig ] || git -C /repo worktree add -q /tmp/wt_orig d58b180
E2P_REPO=/tmp/wt_orig /venv/bin/python /verif/check.py --property $1 --tier quick | tail -3
python3 - "$1" <<'PY'
import json,collections,sys
d=json.load(open('/tmp/e2p_alt/replays/%s-quick-seed0.json'%sys.argv[1]))
fi=d.get('failing_inputs',[])
print('total',d.get('total'), 'no_failing_input', d.get('no_failing_input_found'))
c=collections.Counter((x.get('why','')[:50],x.get('stream'),x.get('fn')) for x in fi); print(c)
PY
