"""Helper used while preparing fix: commits: apply the same textual replacement to both runtime copies
(the class template in context.py escapes { } and backslashes for str.format)."""
import re, sys
FILES = ['/repo/excel2pycl/src/context.py', '/repo/excel2pycl/src/utilities/abstract_excel_in_python_class.py']

def tpl(text):
    return text.replace('\\', '\\\\').replace('{', '{{').replace('}', '}}')

def replace_both(old, new, count=1, regex=False):
    for p in FILES:
        s = open(p, encoding='utf-8').read()
        o, n = (tpl(old), tpl(new)) if 'context.py' in p else (old, new)
        if regex:
            assert len(re.findall(o, s, re.S)) == count, (p, len(re.findall(o, s, re.S)))
            s = re.sub(o, lambda m: n, s, flags=re.S)
        else:
            assert s.count(o) == count, (p, s.count(o))
            s = s.replace(o, n)
        open(p, 'w', encoding='utf-8').write(s)
