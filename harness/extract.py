"""Tie A: regenerate lean/E2P/Generated/*.lean from the repository's working tree.

Every table is plain data.  Files are rewritten only when their content changes, so an unchanged
tree triggers no Lean rebuild.
"""
from __future__ import annotations

import os

from . import core

GEN_DIR = os.path.join(core.LEAN_DIR, 'E2P', 'Generated')


def write_if_changed(name, text):
    os.makedirs(GEN_DIR, exist_ok=True)
    p = os.path.join(GEN_DIR, name)
    old = open(p, encoding='utf-8').read() if os.path.exists(p) else None
    if old != text:
        with open(p, 'w', encoding='utf-8') as f:
            f.write(text)
        return True
    return False


def lean_str(s: str) -> str:
    out = ['"']
    for ch in s:
        o = ord(ch)
        if ch == '"':
            out.append('\\"')
        elif ch == '\\':
            out.append('\\\\')
        elif ch == '\n':
            out.append('\\n')
        elif ch == '\t':
            out.append('\\t')
        elif ch == '\r':
            out.append('\\r')
        elif o < 32 or o == 127:
            out.append('\\x%02x' % o)
        else:
            out.append(ch)
    out.append('"')
    return ''.join(out)


EXTRACTORS = []


def extractor(fn):
    EXTRACTORS.append(fn)
    return fn


def run():
    core.import_repo()
    for fn in EXTRACTORS:
        fn()
