"""Grammar-driven sentence generator: random derivations of the repository's own token-set grammar (read from the imported classes),
rendered as formula text.  Covers every supported function with every argument shape the grammar defines."""
from __future__ import annotations

from . import extract

_G = {}


def tables():
    """the grammar tables of the working tree; when they can no longer be read off the token classes (the grammar is no longer a table of classes: the Tie A
    obligation of C05 / C06 fails, core reports that) the INPUT GENERATORS fall back to the tables of the pinned tree, so that the search for a failing input
    still has formulas to try - nothing is judged against the fallback"""
    if not _G:
        try:
            _G.update(extract.grammar_tables())
        except Exception as e:  # noqa
            import json, os
            _G.update(json.load(open(os.path.join(os.path.dirname(os.path.abspath(__file__)), 'grammar_fallback.json'))))
            _G['keywords'] = [tuple(k) for k in _G['keywords']]
            _G['fallback'] = '%s: %s' % (type(e).__name__, e)
        _G['kw'] = dict(_G['keywords'])
    return _G


TERMINAL_TEXT = {
    'MatrixOfCellIdentifiersToken': ['A1:B2', 'A1:A3', 'B1:C1', 'A:A', 'A:B', '$A$1:B$2'],
    'CellIdentifierRangeToken': ['A1:A3'],
    'CellIdentifierToken': ['A1', 'B2', 'C3', '$A$1', 'A2'],
    'PatternToken': ['"a*"', '"?b"', '"x~*y*"'],
    'LiteralToken': ['1', '2', '3', '10', '2.5', '"ab"', '"x"', 'TRUE', 'FALSE', '0'],
    'BracketStartToken': ['('], 'BracketFinishToken': [')'], 'SeparatorToken': [',', ';'],
    'NotEqOperatorToken': ['<>'], 'GtOrEqualOperatorToken': ['>='], 'LtOrEqualOperatorToken': ['<='], 'EqOperatorToken': ['='],
    'GtOperatorToken': ['>'], 'LtOperatorToken': ['<'], 'PlusOperatorToken': ['+'], 'MinusOperatorToken': ['-'],
    'MultiplicationOperatorToken': ['*'], 'DivOperatorToken': ['/'], 'AmpersandToken': ['&'], 'PercentToken': ['%'],
}


def terminal_text(rng, name):
    g = tables()
    if name in g['kw']:
        return g['kw'][name]
    return rng.choice(TERMINAL_TEXT[name])


def derive(rng, sym, depth):
    """-> list of (terminal class, text); random token set at each composite, shortest ones when depth runs out"""
    g = tables()
    if sym not in g['rules']:
        return [(sym, terminal_text(rng, sym))]
    sets = g['rules'][sym]
    if depth <= 0:
        # prefer token sets without recursion into big classes
        def cost(ts):
            return sum(0 if t not in g['rules'] else (1 if t in ('OperandToken', 'SimilarCellToken') else 5) for t in ts) + len(ts) * 0.1
        sets = sorted(sets, key=cost)[:2]
        if sym == 'OperandToken':
            sets = [ts for ts in g['rules'][sym] if ts[0] in ('LiteralToken', 'CellIdentifierToken')]
    ts = rng.choice(sets)
    out = []
    for t in ts:
        out += derive(rng, t, depth - 1)
    return out


def sentence(rng, depth=None):
    depth = depth if depth is not None else rng.choice([3, 4, 5, 6, 8])
    return derive(rng, 'EntryPointToken', depth)


def render(rng, toks, ws=None):
    """join token texts; `ws`: alphabet of whitespace to sprinkle (None = no whitespace unless needed to keep tokens apart)"""
    out = []
    for i, (cls, text) in enumerate(toks):
        if ws is not None and i:          # never before the leading '=': a text that does not start with '=' is a constant, not a formula
            out.append(''.join(rng.choice(ws) for _ in range(rng.choice([0, 0, 1, 2]))))
        elif i and need_gap(toks[i - 1], (cls, text)):
            out.append(' ')
        out.append(text)
    if ws is not None:
        out.append(''.join(rng.choice(ws) for _ in range(rng.choice([0, 1, 2]))))
    return ''.join(out)


def need_gap(a, b):
    """adjacent texts that would lex as one token (digits after a cell / literal, letters after letters, < then > or =, …)"""
    x, y = a[1], b[1]
    if not x or not y:
        return False
    if (x[-1].isalnum() or x[-1] in '"$') and (y[0].isalnum() or y[0] in '"$.'):
        return True
    if x[-1] in '<>' and y[0] in '<>=':
        return True
    if x[-1] == ':' or y[0] == ':':
        return True
    return False
