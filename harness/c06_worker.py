"""Worker of the C06 check: translates one workbook per request through the Parser facade, loads the class and evaluates
the formula cell.  One JSON request per line on stdin ({"formula": ...}), one JSON answer per line on stdout.  The parent
kills the process when an answer does not arrive in time (a hang inside one C call cannot be interrupted in-process)."""
import json
import os
import shutil
import sys
import tempfile

sys.path.insert(0, os.path.dirname(os.path.dirname(os.path.abspath(__file__))))
from harness import core, realcode  # noqa: E402


def main():
    core.import_repo()
    Cell = realcode.mods()['Cell']
    for line in sys.stdin:
        req = json.loads(line)
        rows = [[None] * 4 for _ in range(4)]
        for (c, r), v in {(0, 0): 1, (1, 0): 2, (0, 1): 3, (1, 1): 'x', (2, 2): 2.5}.items():
            rows[r][c] = v
        rows[3][3] = req.get('formula')
        if 'chain' in req:       # a running total along one row / down one column: {"chain": [direction, length]}
            from openpyxl.utils import get_column_letter
            direction, n = req['chain']
            if direction == 'row':
                rows = [[1] + ['=%s1+1' % get_column_letter(c) for c in range(1, n)]]
            else:
                rows = [[1]] + [['=A%d+1' % r] for r in range(1, n)]
        d = tempfile.mkdtemp(prefix='e2p_c06_')
        out = {}
        try:
            try:
                text, path = realcode.full_translate([('S', rows)], workdir=d)
                out['translate'] = 'ok'
            except RecursionError:
                out['translate'] = 'ERecursionError'
            except BaseException as e:  # noqa
                out['translate'] = 'E' + core.exc_class(e)
            if out['translate'] == 'ok':
                try:
                    cls = realcode.load_class(text)
                    out['load'] = 'ok'
                except BaseException as e:  # noqa
                    out['load'] = 'E' + type(e).__name__ + ': ' + str(e)[:120]
                if out.get('load') == 'ok':
                    ev = core.outcome(lambda: realcode.executor_for(cls).get_cell(Cell(0, 3, 3)).value)
                    out['evaluate'] = ev[:80]
        finally:
            shutil.rmtree(d, ignore_errors=True)
        sys.stdout.write(json.dumps(out) + '\n')
        sys.stdout.flush()


if __name__ == '__main__':
    main()
