"""C14 — lookup and reference functions return the addressed element."""
from __future__ import annotations

import json

from .. import core, realcode


def key_columns(rng, tier):
    cols = []
    n = 40 if tier == 'quick' else 1200
    for _ in range(n):
        kind = rng.choice(['int', 'mixed', 'float', 'text', 'close'] if _ % 5 else ['close'])
        ln = rng.randint(1, 8)
        if kind == 'text':
            pool = ['apple', 'Banana', 'cherry', 'date', 'Fig', 'grape', 'kiwi', 'a', 'B', 'ab']
            keys = [rng.choice(pool) for _ in range(ln)]
            order = lambda ks: sorted(ks, key=lambda s: s.lower())
        elif kind == 'close':
            # keys that differ only beyond the 9th significant digit: equal keys are EQUAL numbers, not numbers that are close
            base, step = rng.choice([(123456789.0, 1 / 64), (12345678.01, 0.01), (1.0, 2.0 ** -40), (-98765432.5, 1 / 128), (1e15, 1.0)])
            keys = [base + step * rng.randint(0, 6) for _ in range(ln)]
            order = sorted
        else:
            def num():
                v = rng.randint(-5, 30)
                if kind == 'float' or (kind == 'mixed' and rng.random() < 0.5):
                    return float(v) + rng.choice([0.0, 0.0, 0.25, 0.5])
                return v
            keys = [num() for _ in range(ln)]
            order = sorted
        shape = rng.choice(['asc', 'asc', 'unsorted', 'dups', 'desc', 'asc-strict', 'desc-strict'])
        if shape == 'asc':
            keys = order(keys)
        elif shape == 'desc':
            keys = order(keys)[::-1]
        elif shape in ('asc-strict', 'desc-strict'):
            # distinct keys in Python's own order (texts by code point): what the binary search modes of XMATCH are specified on
            keys = sorted(set(keys), reverse=shape == 'desc-strict')
        elif shape == 'dups':
            keys = keys + [rng.choice(keys) for _ in range(rng.randint(1, 3))]
            if rng.random() < 0.5:
                keys = order(keys)
        cols.append((kind, keys))
        if kind != 'text' and rng.random() < 0.5:
            # the same keys with cells of another kind in between (a header text, blanks, a stray text): they are skipped, positions still count from the top
            holed = []
            for k in keys:
                while rng.random() < 0.35:
                    holed.append(rng.choice(['id', None, 'q', None]))
                holed.append(k)
            cols.append((kind, holed))
    return cols


def lookups_for(rng, kind, keys):
    out = set()
    if kind == 'text':
        out.update([rng.choice(keys), rng.choice(keys).upper(), rng.choice(keys).lower(), 'zzz', '0', 'c'])
    else:
        nums = [x for x in keys if type(x) in (int, float)]
        k = rng.choice(nums)
        keys = nums
        out.update([k, float(k) if float(k) == int(float(k)) else k, int(min(keys)) - 1, int(max(keys)) + 1, max(keys) + 100,
                    k + 0.5, k - 0.5, rng.randint(-6, 31)])
        out = {int(v) if (isinstance(v, float) and v == int(v) and rng.random() < 0.5) else v for v in out}
        if kind == 'close':
            ds = sorted(set(abs(a - b) for a in nums for b in nums if a != b)) or [abs(k) * 2.0 ** -36 or 2.0 ** -36]
            out.update([k, k + ds[0], k - ds[0], max(nums) + ds[0], min(nums) - ds[0], k + ds[0] / 2, rng.choice(nums)])
    return list(out)


def run(tier, seed):
    chk = core.Check('C14', tier, seed)
    rng = chk.rng
    chk.rule = ('key columns (ascending / unsorted / duplicates; int, float, mixed int+float, text) x lookup values (present, between, below, '
                'above, other case) x match modes for MATCH / XMATCH / VLOOKUP helpers; INDEX over areas to 6x6 with every (row, column) in a box '
                'around the area and the single-index forms; ADDRESS for every column 1..16384; column letters vs openpyxl for 1..18278; '
                'end-to-end formulas incl. INDEX(MATCH), COLUMN, two-argument MATCH/XMATCH. distinct = distinct request lines')
    chk.assumptions += ['texts are ASCII (str.lower modelled for ASCII only)',
                        'openpyxl get_column_letter / column_index_from_string are externals, validated exhaustively for 1..18278']
    chk.build = core.lean_build(['C14'], tier)
    if not chk.build.driver_ok:
        raise RuntimeError('driver did not build:\n' + chk.build.log[-2000:])
    inst = realcode.runtime_instance()
    cases_m, cases_x, cases_v = [], [], []
    E = type(inst).EmptyCell
    for kind, keys in key_columns(rng, tier):
        keys = [E() if k is None else k for k in keys]
        rows = [[k] for k in keys]
        for lv in lookups_for(rng, kind, keys) + ([E()] if rng.random() < 0.3 else []):        # now and then the lookup value is a blank cell
            if kind != 'text' and any(type(k) not in (int, float) for k in keys):
                # exact match in a column with cells of other kinds in between: the position is the position in the range
                pos = [i + 1 for i, k in enumerate(keys) if type(k) in (int, float) and k == lv]
                for fn, got, want in (('MATCH(…,0)', core.outcome(inst._match, lv, rows, 0), pos[0] if pos else None),
                                      ('XMATCH(…,0,1)', core.outcome(inst._xmatch, lv, rows, 0, 1), pos[0] if pos else None),
                                      ('XMATCH(…,0,-1)', core.outcome(inst._xmatch, lv, rows, 0, -1), pos[-1] if pos else None)):
                    chk.count('oracle:position-in-range')
                    if want is not None and got != core.enc(want):
                        chk.violation({'why': 'the position returned is not the position in the lookup range (cells of another kind are skipped, not removed)', 'fn': fn,
                                       'lookup': repr(lv), 'keys': repr(keys), 'impl': got, 'want': want, 'stream': 'position-in-range'})
            for mt in (0, 1, -1):
                cases_m.append(('lk match %s %s I%d' % (core.enc(lv), core.enc(rows), mt), core.outcome(inst._match, lv, rows, mt),
                                {'fn': 'MATCH', 'lookup': repr(lv), 'keys': repr(keys), 'match_type': mt}))
            for sm in (1, -1):
                cases_x.append(('lk xmatch %s %s I0 I%d' % (core.enc(lv), core.enc(rows), sm), core.outcome(inst._xmatch, lv, rows, 0, sm),
                                {'fn': 'XMATCH', 'lookup': repr(lv), 'keys': repr(keys), 'search_mode': sm}))
            for sm in (2, -2):          # binary search: every match mode, on every column (the model follows the loop also where the column is not sorted)
                for mm in (0, -1, 1):
                    cases_x.append(('lk xmatch %s %s I%d I%d' % (core.enc(lv), core.enc(rows), mm, sm), core.outcome(inst._xmatch, lv, rows, mm, sm),
                                    {'fn': 'XMATCH', 'lookup': repr(lv), 'keys': repr(keys), 'match_mode': mm, 'search_mode': sm}))
                if type(lv) is E:
                    continue          # a blank lookup value: the property fixes nothing (the model follows the blank's own comparison methods)
                if keys == sorted(set(keys), reverse=sm == -2) if all(type(k) is str for k in keys) or all(type(k) in (int, float) for k in keys) else False:
                    want = keys.index(lv) + 1 if lv in keys else '#N/A'
                    got = core.outcome(inst._xmatch, lv, rows, 0, sm)
                    chk.count('oracle:binary-search-exact')
                    if got != core.enc(want):
                        chk.violation({'why': 'XMATCH in a binary search mode on a strictly sorted column does not return the position of the equal key / #N/A',
                                       'lookup': repr(lv), 'keys': repr(keys), 'search_mode': sm, 'impl': got, 'want': want, 'stream': 'binary-search-exact'})
                    # the approximate match modes: the key next to the lookup value (Python's own order as the oracle)
                    le = [i + 1 for i, kx in enumerate(keys) if kx <= lv]
                    ge = [i + 1 for i, kx in enumerate(keys) if kx >= lv]
                    for mm, hits in ((-1, le), (1, ge)):
                        want2 = '#N/A' if not hits else (max(hits) if (sm == 2) == (mm == -1) else min(hits))
                        got2 = core.outcome(inst._xmatch, lv, rows, mm, sm)
                        chk.count('oracle:binary-search-next')
                        if got2 != core.enc(want2):
                            chk.violation({'why': 'XMATCH in a binary search mode on a strictly sorted column does not return the exact match or the next smaller / larger key',
                                           'lookup': repr(lv), 'keys': repr(keys), 'match_mode': mm, 'search_mode': sm, 'impl': got2, 'want': want2, 'stream': 'binary-search-next'})
            width = rng.randint(1, 4)
            table = [[k] + [('r%d' % i) + 'c%d' % c if c % 2 else i * 10 + c for c in range(1, width)] for i, k in enumerate(keys)]
            for rl in (False, True, 0, 1):
                col = rng.randint(1, width)
                cases_v.append(('lk vlookup %s %s I%d %s' % (core.enc(lv), core.enc(table), col, core.enc(rl)),
                                core.outcome(inst._vlookup, lv, table, col, rl),
                                {'fn': 'VLOOKUP', 'lookup': repr(lv), 'table': repr(table), 'col': col, 'range_lookup': rl}))
    chk.judge('MATCH', cases_m)
    chk.judge('XMATCH', cases_x)
    chk.judge('VLOOKUP', cases_v)

    # INDEX
    cases = []
    shapes = [(1, 1), (1, 4), (4, 1), (2, 2), (3, 5), (6, 6)] if tier == 'quick' else [(h, w) for h in range(1, 7) for w in range(1, 7)]
    for h, w in shapes:
        area = [[r * 100 + c for c in range(1, w + 1)] for r in range(1, h + 1)]
        for r in range(-2, h + 3):
            for c in range(-2, w + 3):
                cases.append(('lk index %s I%d I%d' % (core.enc(area), r, c), core.outcome(inst._index, area, r, c, 1),
                              {'fn': 'INDEX', 'area': '%dx%d' % (h, w), 'row': r, 'col': c}))
            cases.append(('lk index %s I%d N' % (core.enc(area), r), core.outcome(inst._index, area, r, None, 1),
                          {'fn': 'INDEX', 'area': '%dx%d' % (h, w), 'row': r, 'col': None}))
    chk.judge('INDEX', cases)

    # ADDRESS + column letters
    cases = []
    cols = range(1, 16385)
    for c in cols:
        r = 1 + (c * 7) % 1000
        cases.append(('lk address I%d I%d' % (r, c), core.outcome(inst._address, r, c), {'fn': 'ADDRESS', 'row': r, 'col': c}))
    chk.judge('ADDRESS', cases, sample_cap=2)
    from openpyxl.utils import get_column_letter, column_index_from_string
    cases = []
    for c in range(1, 18279):
        s = get_column_letter(c)
        cases.append(('lk col I%d' % c, core.enc(s), {'external': 'get_column_letter', 'col': c}))
        cases.append(('lk colidx %s' % core.enc(s), core.enc(column_index_from_string(s)), {'external': 'column_index_from_string', 'letters': s}))
    chk.judge('column-letters-externals', cases)
    chk.exhaustive = False
    chk.info['address_columns_exhaustive'] = '1..16384'

    end_to_end(chk, tier)
    return chk.finish()


def end_to_end(chk, tier):
    rng = chk.rng
    inst = realcode.runtime_instance()
    n = 12 if tier == 'quick' else 150
    for _ in range(n):
        h = rng.randint(2, 7)
        keys = sorted(rng.sample(range(1, 40), h))
        if rng.random() < 0.4:
            keys = [float(k) if rng.random() < 0.5 else k for k in keys]
        vals = ['v%d' % i for i in range(h)]
        third = [k * 2 for k in keys]
        values = {}
        for i in range(h):
            values[(0, i)], values[(1, i)], values[(2, i)] = keys[i], vals[i], third[i]
        dtexts = ['pear', 'melon', 'kiwi', 'fig', 'cherry', 'banana', 'apple'][:h]          # descending, and ascending in column E
        dtexts = dtexts + [] if len(dtexts) == h else dtexts
        for i in range(h):
            values[(3, i)], values[(4, i)] = dtexts[i], dtexts[::-1][i]
        dpick = rng.randrange(h)
        k = rng.choice(keys)
        kk = int(k)
        above = int(max(keys)) + 5
        between = kk + 0.5
        r, c = rng.randint(1, h), rng.randint(1, 3)
        col_no = rng.randint(1, 700)
        area = [[keys[i], vals[i], third[i]] for i in range(h)]
        krows = [[x] for x in keys]
        fs = [
            ('=MATCH(%d,A1:A%d,0)' % (kk, h), lambda: inst._match(kk, krows, 0)),
            ('=MATCH(%d;A1:A%d;1)' % (above, h), lambda: h),
            ('=MATCH(%d,A1:A%d)' % (above, h), lambda: h),
            ('=MATCH(%s,A1:A%d,1)' % (between, h), lambda: inst._match(between, krows, 1)),
            ('=XMATCH(%d,A1:A%d)' % (kk, h), lambda: inst._match(kk, krows, 0)),
            ('=XMATCH(%d,A1:A%d,0,-1)' % (kk, h), lambda: inst._xmatch(kk, krows, 0, -1)),
            ('=VLOOKUP(%d,A1:C%d,2,FALSE)' % (kk, h), lambda: vals[keys.index(k)]),
            ('=VLOOKUP(%d,A1:C%d,3,TRUE)' % (above, h), lambda: third[-1]),
            ('=VLOOKUP(%d,A1:C%d,3)' % (above, h), lambda: third[-1]),
            ('=VLOOKUP(%s,A1:C%d,2,TRUE)' % (between, h), lambda: inst._vlookup(between, area, 2, True)),
            ('=INDEX(A1:C%d,%d,%d)' % (h, r, c), lambda: area[r - 1][c - 1]),
            ('=INDEX(B1:B%d,%d)' % (h, r), lambda: vals[r - 1]),
            ('=INDEX(A1:C%d,%d,%d,1)' % (h, r, c), lambda: area[r - 1][c - 1]),          # four-argument form: the third argument is still the column
            ('=INDEX(A1:C%d,%d,%d,1)' % (h, 1, 4), lambda: '#REF!'),
            ('=XMATCH(%s,A1:A%d,-1,1)' % (between, h), lambda: inst._xmatch(between, krows, -1, 1)),      # four-argument form: the third argument is the match mode
            ('=XMATCH(%s,A1:A%d,1,1)' % (between, h), lambda: inst._xmatch(between, krows, 1, 1)),
            ('=XMATCH(%s,A1:A%d,-1,-1)' % (between, h), lambda: inst._xmatch(between, krows, -1, -1)),
            ('=INDEX(A1:C%d,%d,%d)' % (h, h + 1, 1), lambda: '#REF!'),
            ('=INDEX(B1:B%d,MATCH(%d,A1:A%d,0))' % (h, kk, h), lambda: vals[keys.index(k)]),
            ('=ADDRESS(%d,%d)' % (r, col_no), lambda: inst._address(r, col_no)),
            ('=XMATCH(%d,A1:A%d,0,2)' % (kk, h), lambda: keys.index(k) + 1),               # binary search modes: ascending numbers, descending texts
            ('=XMATCH(%d,A1:A%d,0,2)' % (above, h), lambda: '#N/A'),
            ('=XMATCH(%s,A1:A%d,-1,2)' % (between, h), lambda: keys.index(k) + 1),
            ('=XMATCH(%s,A1:A%d,1,2)' % (between, h), lambda: keys.index(k) + 2 if keys.index(k) + 1 < h else '#N/A'),
            ('=XMATCH("%s",D1:D%d,0,-2)' % (dtexts[dpick], h), lambda: dpick + 1),
            ('=XMATCH("grape",D1:D%d,0,-2)' % h, lambda: '#N/A'),
            ('=INDEX(A1:A%d,XMATCH("%s",D1:D%d,0,-2))' % (h, dtexts[dpick], h), lambda: keys[dpick]),
            ('=XMATCH("%s",E1:E%d,0,2)' % (dtexts[::-1][dpick], h), lambda: dpick + 1),
            ('=COLUMN(B%d)' % r, lambda: 2),
            ('=COLUMN(B1:B%d)' % h, lambda: 2),
        ]
        formulas = [f for f, _ in fs]
        want = [core.outcome(w) for _, w in fs]
        got = realcode.eval_formulas(formulas, values)
        for f, g, w in zip(formulas, got, want):
            chk.count('e2e')
            chk.seen(('e2e', f, repr(keys)))
            if g != w:
                chk.violation({'why': 'formula result differs from the addressed element / the helper on the same operands', 'formula': f,
                               'keys': repr(keys), 'impl': g, 'want': w})
        # the same formula text in several cells of one sheet: COLUMN() is the column of the cell that holds it
        Cellc = realcode.mods()['Cell']
        rows = [[None] * 30 for _ in range(2)]
        spots = [(1, 0), (3, 0), (4, 0), (26, 0), (2, 1), (27, 1)]
        for c, r in spots:
            rows[r][c] = '=COLUMN()'
        rows[0][6] = '=INDEX(A1:C1,1,COLUMN())'
        rows[1][7] = '=INDEX(A1:C1,1,COLUMN())'
        try:
            exc = realcode.executor_for(realcode.load_class(realcode.translate([('S', rows)])))
            for c, r in spots:
                g2 = core.outcome(lambda: exc.get_cell(Cellc(0, c, r)).value)
                chk.count('e2e:column-copies')
                if g2 != 'I%d' % (c + 1):
                    chk.violation({'why': 'COLUMN() in one of several cells with the same formula text is not the column of that cell', 'cell': (c, r), 'impl': g2, 'want': c + 1})
        except Exception as e:  # noqa
            chk.violation({'why': 'a sheet with COLUMN() in several cells does not translate', 'impl': 'E' + core.exc_class(e)})
        # a lookup table whose blank cells are filled in later through overrides
        trows = [[1, 'one'], [2, None], [3, 'three'], [None, None], [5, 'five'], ['=VLOOKUP(2,A1:B5,2,FALSE)', '=MATCH(4,A1:A5,0)', '=INDEX(B1:B5,MATCH(4,A1:A5,0))', '=XMATCH(4,A1:A5,0,-1)']]
        try:
            ext = realcode.executor_for(realcode.load_class(realcode.translate([('T', trows)])))
            for c in range(4):
                core.outcome(lambda: ext.get_cell(Cellc(0, c, 5)).value)
            ext.set_cells([Cellc(0, 1, 1, 'two'), Cellc(0, 0, 3, 4), Cellc(0, 1, 3, 'four')])
            for c, w in enumerate([core.enc('two'), 'I4', core.enc('four'), 'I4']):
                g3 = core.outcome(lambda: ext.get_cell(Cellc(0, c, 5)).value)
                chk.count('e2e:table-overrides')
                if g3 != w:
                    chk.violation({'why': 'a lookup does not see table cells that were blank in the workbook and are supplied by overrides', 'formula': trows[5][c], 'impl': g3, 'want': w})
        except Exception as e:  # noqa
            chk.violation({'why': 'the lookup table workbook does not translate', 'impl': 'E' + core.exc_class(e)})
        # an area declared with room to grow: it runs past the last used row of the sheet; the rows below the data are part of it (blank, and
        # filled in later through overrides)
        gforms = ['=INDEX(A1:B10,8,2)', '=MATCH(80,A1:A10,0)', '=VLOOKUP(80,A1:B10,2,FALSE)', '=INDEX(B1:B10,MATCH(80,A1:A10,0))', '=INDEX(A1:B10,11,1)', '=INDEX(A1:B10,10,2)',
                  '=XMATCH(80,A1:A10,0,-1)', '=INDEX(A1:B10,5,2)']
        grows = [[10, 'ten'] + gforms, [20, 'twenty'], [30, 'thirty'], [40, 'forty'], [50, 'fifty']]
        try:
            exg = realcode.executor_for(realcode.load_class(realcode.translate([('G', grows)])))
            for phase, wants in (('as stored', ['B', core.enc('#N/A'), core.enc('#N/A'), None, core.enc('#REF!'), 'B', core.enc('#N/A'), core.enc('fifty')]),
                                 ('rows below the data supplied', [core.enc('eighty'), 'I8', core.enc('eighty'), core.enc('eighty'), core.enc('#REF!'), 'B', 'I8', core.enc('fifty')])):
                if phase != 'as stored':
                    exg.set_cells([Cellc(0, 0, 7, 80), Cellc(0, 1, 7, 'eighty')])
                for c, w in enumerate(wants):
                    g4 = core.outcome(lambda: exg.get_cell(Cellc(0, c + 2, 0)).value)
                    chk.count('e2e:area-past-used-rows')
                    if w is not None and g4 != w:
                        chk.violation({'why': 'an area that runs past the last used row of the sheet is not the area written in the formula (rows below the data are blank elements of it)',
                                       'formula': gforms[c], 'phase': phase, 'impl': g4, 'want': w, 'stream': 'area-past-used-rows'})
        except Exception as e:  # noqa
            chk.violation({'why': 'the workbook with an area past the used rows does not translate', 'impl': 'E' + core.exc_class(e)})
        # keys outside ASCII: equal means equal without regard to case, nothing more (the sharp s is not "ss", a ligature is not its letters)
        nkeys = ['Masse', 'Maße', 'STRASSE', 'Straße', 'ﬁn', 'fin', 'İ', 'i']
        nforms, nwant = [], []
        for lv in ['Maße', 'masse', 'strasse', 'STRAßE', 'FIN', 'ﬁn', 'I', 'İ']:
            eq = [i + 1 for i, kx in enumerate(nkeys) if kx.lower() == lv.lower()]
            nforms += ['=MATCH("%s",A1:A8,0)' % lv, '=XMATCH("%s",A1:A8,0,-1)' % lv, '=VLOOKUP("%s",A1:B8,2,FALSE)' % lv, '=INDEX(B1:B8,MATCH("%s",A1:A8,0))' % lv]
            nwant += [core.enc(eq[0]) if eq else core.enc('#N/A'), core.enc(eq[-1]) if eq else core.enc('#N/A'), None, core.enc('p%d' % eq[0]) if eq else None]
        nvals = {(0, i): kx for i, kx in enumerate(nkeys)}
        nvals.update({(1, i): 'p%d' % (i + 1) for i in range(len(nkeys))})
        for f, g5, w in zip(nforms, realcode.eval_formulas(nforms, nvals), nwant):
            chk.count('e2e:non-ascii-keys')
            if w is not None and g5 != w:
                chk.violation({'why': 'a text key outside ASCII is matched by a lookup value that is not equal to it (equal = equal without regard to case)', 'formula': f, 'keys': repr(nkeys),
                               'impl': g5, 'want': w, 'stream': 'non-ascii-keys'})
        # COLUMN() of the formula's own cell: formulas sit in column index fcol (0-based) = 6 here
        g = realcode.eval_formulas(['=COLUMN()'], values)[0]
        if g != core.enc(7):
            chk.violation({'why': 'COLUMN() is not the 1-based column of the formula cell', 'impl': g, 'want': 'I7'})
    chk.sample({'formula': formulas[0], 'value': got[0]})


def replay(path):
    data = json.load(open(path))
    for case in data.get('failing_inputs', [])[:20]:
        print('replay case:', json.dumps(case, ensure_ascii=False)[:400])
    return 1 if data.get('failing_inputs') else 0
