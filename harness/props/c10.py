"""C10 — comparisons are exact and lawful."""
from __future__ import annotations

import datetime as dt
import itertools
import json

from .. import core, realcode

OPS = ['>=', '>', '<=', '<', '==', '!=']
XL = {'>=': '>=', '>': '>', '<=': '<=', '<': '<', '==': '=', '!=': '<>'}


def pool(chk, tier):
    rng = chk.rng
    E = type(realcode.runtime_instance()).EmptyCell
    ints = [0, 1, -1, 2, 3, 5, 9, 10, 120, -5, 2 ** 53, 2 ** 53 + 1, 2 ** 70, 2 ** 70 + 1, -2 ** 70]
    flts = [0.5, -0.5, 1.2, 1.5, 1.25, 0.1 + 0.2, 0.3, 0.1, 2.0, 5.0, -1.5, 1e16, float(2 ** 53), 2.0 ** 70, -0.0,
            9.999999999999999e22, 1e-7, 120.5, 2.05, 2.1, 0.01, 0.1, 1.005, 10.0625, 3.0405]
    texts = ['', 'a', 'A', 'b', 'ab', 'abc', 'B', 'Z', '5', '10', '9', '-5', '0', '1.5', '1.25', ' 7 ', '1e2', '+3',
             'нет', '1.50', '5.0', '.5', '5.', 'e5', '1e', '--1', '12a', 'TRUE',
             'nan', 'NaN', '-nan', 'inf', '-inf', 'Infinity', '1_0', '٣', ' ', '  ', '\t', ' a']     # float() takes these for numbers (NaN breaks every law); they are texts
    dates = [dt.date(2024, 1, 1), dt.datetime(2024, 1, 1), dt.datetime(2024, 1, 1, 0, 0, 1),
             dt.datetime(2023, 12, 31, 23, 59, 59), dt.datetime(2024, 1, 1, 1, 10, 10), dt.date(2023, 12, 31),
             dt.datetime(2024, 1, 1, 0, 0, 0, 1), dt.date(1900, 1, 1), dt.datetime(9999, 12, 31, 23, 59, 59, 999999),
             dt.date(1899, 12, 29), dt.datetime(1899, 12, 30), dt.datetime(1850, 6, 1), dt.datetime(1, 1, 1), dt.datetime(2100, 1, 1, 0, 0, 0, 1), dt.datetime(2100, 1, 1, 0, 0, 0, 2)]
    n_extra = 6 if tier == 'quick' else 40
    for _ in range(n_extra):
        ints.append(rng.randint(-10 ** rng.randint(1, 25), 10 ** rng.randint(1, 25)))
        k = rng.randint(0, 6)
        flts.append(rng.randint(-10 ** 6, 10 ** 6) / 10 ** k)
        ip = rng.randint(0, 30)
        flts.append(ip + rng.random())          # same integer part, different fraction
        flts.append(float(ip) + rng.choice([0.25, 0.5, 0.75]))
        texts.append(''.join(rng.choice('abAB019.-e ') for _ in range(rng.randint(1, 5))))
        o = rng.randint(693596, 800000)
        dates.append(dt.date.fromordinal(o))
        dates.append(dt.datetime.fromordinal(o) + dt.timedelta(seconds=rng.choice([0, 0, 1, 86399, rng.randint(0, 86399)])))
    vals = [('blank', E())] + [('bool', True), ('bool', False)] + [('num', x) for x in ints + flts] + \
           [('text', t) for t in texts] + [('date', d) for d in dates]
    return vals


def kind_pair(ka, kb):
    if ka == 'bool':
        ka = 'num'
    if kb == 'bool':
        kb = 'num'
    return ka if ka == kb else ('blank+' + (kb if ka == 'blank' else ka) if 'blank' in (ka, kb) else 'mixed')


def laws(res_ab, res_ba):
    """The C10 laws evaluated on real results (dict op -> 'T'/'F'/E...). Returns list of failed law names."""
    bad = []
    if any(v not in ('T', 'F') for v in list(res_ab.values()) + list(res_ba.values())):
        return ['raises']
    t = lambda d, op: d[op] == 'T'
    if (t(res_ab, '<') + t(res_ab, '==') + t(res_ab, '>')) != 1:
        bad.append('trichotomy')
    if t(res_ab, '!=') == t(res_ab, '=='):
        bad.append('ne_is_not_eq')
    if t(res_ab, '<=') == t(res_ab, '>'):
        bad.append('le_is_not_gt')
    if t(res_ab, '>=') == t(res_ab, '<'):
        bad.append('ge_is_not_lt')
    if t(res_ab, '<') != t(res_ba, '>'):
        bad.append('lt_iff_swapped_gt')
    return bad


def run(tier, seed):
    chk = core.Check('C10', tier, seed)
    chk.rule = ('all ordered pairs of a value pool (ints to 2^70, decimals differing only in the fraction, 0.1+0.2 family, '
                'texts incl. numeric-looking, dates / date-times around midnight, blank, booleans) x 6 operators via '
                'inst._compare; a sample of pairs end-to-end as =A<op>B with workbook values, overrides and literals. '
                'distinct = distinct (op, left, right) canonical triples; non-trivial = operands differ in canonical form')
    chk.assumptions += ['int(str)/float(str) modelled for ASCII decimal syntax only (texts with _, non-ASCII digits, inf, nan are outside the model)',
                        'CPython mixed int/float comparison is exact (external)']
    chk.build = core.lean_build(['C10'], tier)
    inst = realcode.runtime_instance()
    vals = pool(chk, tier)
    encs = [core.enc(v) for _, v in vals]
    reqs, meta = [], []
    impl = {}
    for (i, (ka, a)), (j, (kb, b)) in itertools.product(enumerate(vals), enumerate(vals)):
        for op in OPS:
            r = core.outcome(inst._compare, op, a, b)
            impl[(i, j, op)] = r
            reqs.append('cmp %s %s %s' % (op, encs[i], encs[j]))
            meta.append((i, j, op))
    resp = core.drive(reqs) if chk.build.driver_ok else None
    if resp is None:
        raise RuntimeError('driver did not build:\n' + chk.build.log[-2000:])
    for (i, j, op), line in zip(meta, resp):
        model, spec, _ = core.split3(line)
        ka, kb = vals[i][0], vals[j][0]
        kp = kind_pair(ka, kb)
        chk.count('helper:' + kp)
        chk.seen((op, encs[i], encs[j]), nontrivial=encs[i] != encs[j])
        got = impl[(i, j, op)]
        case = {'via': 'inst._compare', 'op': op, 'left': repr(vals[i][1]), 'right': repr(vals[j][1]),
                'left_enc': encs[i], 'right_enc': encs[j], 'impl': got, 'model': model, 'spec': spec}
        if spec != '-' and got != spec:
            chk.violation(dict(case, why='value differs from the exact result'))
        elif model != 'EUnmodelled' and model != got and kp != 'mixed':
            chk.mismatch('compare-model', case)
        if spec != '-':
            chk.sample(case, cap=6)
    # laws on the real results, per unordered pair of one kind
    for i, j in itertools.product(range(len(vals)), repeat=2):
        kp = kind_pair(vals[i][0], vals[j][0])
        if kp not in ('num', 'text', 'date', 'blank'):
            continue
        ab = {op: impl[(i, j, op)] for op in OPS}
        ba = {op: impl[(j, i, op)] for op in OPS}
        bad = laws(ab, ba)
        chk.count('laws:' + kp)
        if bad:
            chk.violation({'via': 'inst._compare', 'why': 'law(s) fail: ' + ','.join(bad), 'left': repr(vals[i][1]),
                           'right': repr(vals[j][1]), 'left_enc': encs[i], 'right_enc': encs[j], 'results': ab,
                           'swapped': ba})
    # "a blank cell equals 0": against every number a blank answers all six operators as the number 0 does, on either side
    zero = next((k for k, (kind, v) in enumerate(vals) if kind == 'num' and type(v) is int and v == 0), None)
    blank = next((k for k, (kind, v) in enumerate(vals) if kind == 'blank'), None)
    if zero is not None and blank is not None:
        for j, (kind, v) in enumerate(vals):
            if kind != 'num':
                continue
            for op in OPS:
                for (x, y, x0, y0) in ((blank, j, zero, j), (j, blank, j, zero)):
                    chk.count('laws:blank-as-zero')
                    if impl[(x, y, op)] != impl[(x0, y0, op)]:
                        chk.violation({'via': 'inst._compare', 'why': 'a blank does not compare with a number as 0 does', 'op': op, 'left': repr(vals[x][1]), 'right': repr(vals[y][1]),
                                       'impl': impl[(x, y, op)], 'with_zero': impl[(x0, y0, op)], 'stream': 'blank-as-zero'})
    end_to_end(chk, vals, encs, tier)
    return chk.finish()


def literal_of(v):
    """Excel literal text for a value, or None."""
    if type(v).__name__ == 'EmptyCell':
        return None          # a blank has no literal (it is an int subclass that prints as 0: writing 0 would compare a number, not a blank)
    if isinstance(v, bool):
        return 'TRUE' if v else 'FALSE'
    if isinstance(v, int) and 0 <= v < 10 ** 15:
        return str(v)
    if isinstance(v, float) and v >= 0 and 'e' not in repr(v) and 'n' not in repr(v):
        return repr(v)            # a plain decimal literal (2.05, 0.01, 1.25): the double nearest to its text is the same float
    if isinstance(v, str) and '"' not in v and "'" not in v and '\\' not in v and '?' not in v and '*' not in v:
        return '"%s"' % v
    return None


def end_to_end(chk, vals, encs, tier):
    rng = chk.rng
    n = 150 if tier == 'quick' else 1500
    E = type(realcode.runtime_instance()).EmptyCell
    idx = [i for i, (k, v) in enumerate(vals) if not (isinstance(v, float) and v == 0 and str(v) == '-0.0')]
    pairs = [(rng.choice(idx), rng.choice(idx)) for _ in range(n)]
    # numeric-looking texts whose order as texts differs from their order as numbers, texts against numbers, blank against negatives
    where = {}
    for k, (kind, v) in enumerate(vals):
        where.setdefault((type(v).__name__, repr(v)), k)
    for a, b in ((2.05, 2.1), (0.01, 0.1), (1.005, 1.5), (2.5, 2.05), (10.0625, 10.625), ('10', '9'), ('9', '10'), ('5', '10'), ('-5', '9'), ('1.5', '1.25'), ('10', 9), (10, '9'), ('abc', 'B'), ('5', 5), ('a', 'A')):
        ka, kb = where.get((type(a).__name__, repr(a))), where.get((type(b).__name__, repr(b)))
        if ka is not None and kb is not None:
            for _ in range(3):
                pairs.append((ka, kb))
    values, formulas, meta = {}, [], []
    for row, (i, j) in enumerate(pairs):
        a, b = vals[i][1], vals[j][1]
        values[(0, row)] = None if isinstance(a, E) else a
        values[(1, row)] = None if isinstance(b, E) else b
    row_ops = []
    for row, (i, j) in enumerate(pairs):
        op = rng.choice(OPS)
        row_ops.append(op)
        formulas.append('=A%d%sB%d' % (row + 1, XL[op], row + 1))
        meta.append((i, j, op, 'cells'))
    # literals: the same pair under the same operator
    lit_rows = []
    twin = {}
    for row, (i, j) in enumerate(pairs):
        la, lb = literal_of(vals[i][1]), literal_of(vals[j][1])
        if la is not None and lb is not None and len(lit_rows) < n // 3:
            op = row_ops[row]
            twin[len(formulas)] = row
            formulas.append('=%s%s%s' % (la, XL[op], lb))
            meta.append((i, j, op, 'literals'))
    outs = realcode.eval_formulas(formulas, values)
    # overrides: same formulas over blank cells, operands supplied by set_cells
    ov = {k: v for k, v in values.items() if v is not None}
    blank_values = {k: None for k in values}
    n_cells = len(pairs)
    outs_ov = realcode.eval_formulas(formulas[:n_cells], blank_values, overrides=ov)
    # overrides on top of cells that all hold 99: a blank operand is supplied by an override WITHOUT a value
    full_values = {k: 99 for k in values}
    outs_ov2 = realcode.eval_formulas(formulas[:n_cells], full_values, overrides=dict(values))
    for k in range(n_cells):
        chk.count('e2e:cells:override-over-values')
        if outs_ov2[k] != outs[k]:
            i, j, op, _ = meta[k]
            chk.violation({'via': 'end-to-end', 'why': 'operands supplied by overrides on top of other values (a blank by an override without a value) compare differently than the '
                                                       'same operands held by the workbook', 'formula': formulas[k], 'left': repr(vals[i][1]), 'right': repr(vals[j][1]),
                           'overridden': outs_ov2[k], 'workbook': outs[k], 'stream': 'route-independence'})
    inst = realcode.runtime_instance()
    for k, row in twin.items():
        chk.count('e2e:literal-vs-cell')
        if outs[k] != outs[row]:
            i, j, op, _ = meta[k]
            chk.violation({'via': 'end-to-end', 'why': 'the result of a comparison depends on whether the operands are written as literals or held by cells',
                           'formula_literals': formulas[k], 'formula_cells': formulas[row], 'left': repr(vals[i][1]), 'right': repr(vals[j][1]),
                           'literals': outs[k], 'cells': outs[row], 'stream': 'route-independence'})
    for k, (i, j, op, via) in enumerate(meta):
        for route, got in (('workbook', outs[k]),) + ((('override', outs_ov[k]),) if k < n_cells else ()):
            a, b = vals[i][1], vals[j][1]
            want = core.outcome(inst._compare, op, a, b)
            chk.count('e2e:%s:%s' % (via, route))
            chk.seen(('e2e', via, route, op, encs[i], encs[j]))
            if got != want:
                # glue differs from the helper: decide by the spec / laws through the driver
                line = core.drive(['cmp %s %s %s' % (op, encs[i], encs[j])])[0]
                model, spec, _ = core.split3(line)
                case = {'via': 'end-to-end/%s/%s' % (via, route), 'formula': formulas[k], 'left': repr(a), 'right': repr(b),
                        'impl': got, 'helper': want, 'model': model, 'spec': spec}
                if spec != '-' and got != spec:
                    chk.violation(dict(case, why='end-to-end value differs from the exact result'))
                elif model != 'EUnmodelled':
                    chk.mismatch('compare-end-to-end', case)
    chk.sample({'formula': formulas[0], 'A1': repr(values[(0, 0)]), 'B1': repr(values[(1, 0)]), 'value': outs[0]})


def replay(path):
    data = json.load(open(path))
    inst = realcode.runtime_instance()
    rc = 0
    for case in data.get('failing_inputs', [])[:20]:
        if 'op' in case and 'left_enc' in case:
            l, r = core.dec(case['left_enc']), core.dec(case['right_enc'])
            E = type(inst).EmptyCell
            l = E() if l == core.BLANK else l
            r = E() if r == core.BLANK else r
            got = core.outcome(inst._compare, case['op'], l, r)
            print('replay %s %r %r -> impl %s (spec %s)' % (case['op'], l, r, got, case.get('spec')))
            if case.get('spec') not in (None, '-') and got != case['spec']:
                rc = 1
        else:
            print('replay (informational):', json.dumps(case, ensure_ascii=False)[:300])
    return rc
