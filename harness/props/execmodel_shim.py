from ..execmodel import col_letters  # noqa
