"""C04 — overrides mean edit-the-cell-and-recalculate; the last write wins."""
from __future__ import annotations

import json

from .. import core, realcode, execmodel as em


def run(tier, seed, prop='C04', p_set=0.45, nops=(1, 30)):
    chk = core.Check(prop, tier, seed)
    rng = chk.rng
    chk.rule = ('workbooks of 1-3 sheets with formula chains (+ * / SUM IF IFERROR over earlier cells, other sheets, cells beyond the used range, a formula '
                'that raises) x histories of 1-30 calls of set_cells (batches with repeated cells and different values; formula, constant, blank and '
                'out-of-range targets; numeric, A1-style and title+numeric addressing) interleaved with get_cell / get_cells / get_sheet; every output of '
                'the real Executor compared with the Lean state machine (model) and with the from-scratch recalculation of the edited workbook (spec); '
                'at the end of each history the real code re-translates the edited workbook from scratch and every cell of every sheet is compared. '
                'distinct = distinct (workbook, history)')
    chk.assumptions += ['formula evaluation inside the state-machine model is the C13 fragment evaluator (operators fully parenthesised)',
                        'fuel 400 stands for CPython\'s recursion limit; generated dependency chains are far shorter']
    chk.build = core.lean_build(['C04', 'C08'] if prop == 'C08' else ['C04'], tier)
    if not chk.build.driver_ok:
        raise RuntimeError('driver did not build:\n' + chk.build.log[-2000:])
    nbooks = 120 if tier == 'quick' else 1500
    per_book = 6
    m = realcode.mods()
    cases = []
    for b in range(nbooks):
        book = em.Book(rng)
        try:
            cls = realcode.load_class(realcode.translate(book.sheets()))
        except Exception as e:  # noqa
            chk.violation({'why': 'generated workbook failed to translate: %r' % (e,), 'stream': 'setup', 'book': repr(book.cells)[:500]})
            continue
        if b % 6 == 0:
            import datetime as _dt
            exv = realcode.executor_for(cls)
            Cellv = m['Cell']
            special = [_dt.datetime(2024, 1, 1, 13, 30), _dt.datetime(2024, 1, 1), _dt.date(2024, 2, 29), _dt.datetime(1999, 12, 31, 23, 59, 59, 999999), 'x' * 300, 10 ** 30, -0.0, 1e-300]
            for k, v in enumerate(special):
                exv.set_cells([Cellv(0, 20 + k, 30, v)])
            for k, v in enumerate(special):
                got = exv.get_cell(Cellv(0, 20 + k, 30)).value
                chk.count('law:override-value-kept')
                if type(got) is not type(v) or got != v or repr(got) != repr(v):
                    chk.violation({'why': 'an override is not reported with exactly the value that was supplied', 'supplied': repr(v), 'impl': repr(got), 'stream': 'override-value'})
        prefix = book.request_prefix()
        for hno in range(per_book):
            ops = em.gen_ops(book, rng, rng.randint(*nops), p_set)
            outs, ex = em.run_real(cls, ops)
            req = ' '.join(prefix + em.ops_request(ops))
            cases.append((req, ' ; '.join(outs), {'book': b, 'history': repr(ops)[:1500]}))
            chk.count('ops', len(ops))
            for op in ops:
                chk.count('op:' + op[0])
            if hno % 2 == 1:
                rejected_batch_law(chk, rng, m, book, cls, ex, ops)
            # real code vs real code: a fresh translation of the edited workbook
            lw = em.last_writes(ops)
            if lw and hno % 2 == 0:
                try:
                    cls2 = realcode.load_class(realcode.translate(book.sheets(lw)))
                    ex2 = realcode.executor_for(cls2)
                    if hno % 4 == 2:
                        # the executor is given its class again (a reload), then one more set-cells call that repeats the most recent write: every override
                        # supplied before the reload still counts
                        (t0, v0) = list(lw.items())[-1]
                        ex.set_executed_class(class_object=cls)
                        ex.set_cells([m['Cell'](t0[0], t0[1], t0[2], v0)])
                        chk.count('law:reload-keeps-overrides')
                    for s in range(book.ns):
                        W = max([book.w[s]] + [c + 1 for (ss, c, r) in lw if ss == s])
                        H = max([book.h[s]] + [r + 1 for (ss, c, r) in lw if ss == s])
                        for r in range(H):
                            for c in range(W):
                                a = core.outcome(lambda: ex.get_cell(m['Cell'](s, c, r)).value)
                                w = core.outcome(lambda: ex2.get_cell(m['Cell'](s, c, r)).value)
                                chk.count('retranslate-cells')
                                if a != w:
                                    chk.violation({'why': 'value after overrides differs from a fresh translation of the edited workbook',
                                                   'cell': (s, c, r), 'impl': a, 'fresh': w, 'history': repr(ops)[:1500], 'stream': 'retranslate',
                                                   'workbook': repr(book.cells)[:1500]})
                except Exception as e:  # noqa
                    chk.mismatch('retranslate', {'error': repr(e), 'history': repr(ops)[:500]})
    chk.judge('histories', cases, sample_cap=3)
    return chk.finish()


def rejected_batch_law(chk, rng, m, book, cls, ex, ops):
    """a set-cells call that is REJECTED (a valid cell followed by an address on a sheet that does not exist) either counts as a whole, or up to the rejected
    cell, or not at all - but whatever it left is visible at once and stays: a later call on an unrelated cell changes no other cell's value"""
    Cell = m['Cell']
    coords = [(s, c, r) for s in range(book.ns) for r in range(book.h[s] + 1) for c in range(book.w[s] + 1)]
    lw = em.last_writes(ops)
    coords += [t for t in lw if t not in coords]

    def snapshot(e):
        return [core.outcome(lambda t=t: e.get_cell(Cell(*t)).value) for t in coords]
    consts = [t for t, v in book.cells.items() if v[0] == 'const'] or coords[:1]
    t = rng.choice(consts)
    x = rng.choice([111, 222.5, 'rej'])
    before = snapshot(ex)
    bad_first = rng.random() < 0.25
    batch = [Cell(t[0], t[1], t[2], x), Cell('No such sheet %d' % rng.randint(0, 9), 0, 0, 3)]
    try:
        ex.set_cells(batch[::-1] if bad_first else batch)
        return                      # accepted: nothing to say here
    except Exception:  # noqa
        pass
    chk.count('law:rejected-batch')
    after = snapshot(ex)
    ex.set_cells([Cell(0, 40, 40, 7)])
    later = snapshot(ex)
    if after != later:
        i = [k for k in range(len(coords)) if after[k] != later[k]][0]
        chk.violation({'why': 'after a rejected set-cells call, a later call on an unrelated cell changes the value of another cell (part of the rejected batch was kept '
                              'hidden and surfaced later)', 'cell': coords[i], 'right_after_the_rejected_call': after[i], 'after_the_unrelated_call': later[i],
                       'rejected_batch': [(t, x), 'No such sheet'][::-1 if bad_first else 1], 'history': repr(ops)[:1200], 'workbook': repr(book.cells)[:1200],
                       'stream': 'rejected-batch'})
        return
    if after != before:
        # counted up to the rejected cell: then exactly as if that part had been supplied alone
        ex3 = realcode.executor_for(cls)
        for op in ops:
            if op[0] == 'set':
                ex3.set_cells([em.mk_cell(Cell, tt, st, v) for tt, v, st in op[1]])
        ex3.set_cells([Cell(t[0], t[1], t[2], x)])
        if snapshot(ex3) != after:
            chk.violation({'why': 'a rejected set-cells call left values that are neither those before the call nor those of the part before the rejected cell',
                           'rejected_batch': [(t, x), 'No such sheet'], 'history': repr(ops)[:1200], 'workbook': repr(book.cells)[:1200], 'stream': 'rejected-batch'})


def replay(path):
    data = json.load(open(path))
    for case in data.get('failing_inputs', [])[:20]:
        print('replay case:', json.dumps(case, ensure_ascii=False, default=str)[:800])
    return 1 if data.get('failing_inputs') else 0
