"""C09 — translation output depends only on the current workbook and settings."""
from __future__ import annotations

import hashlib
import itertools
import json
import os
import shutil
import subprocess
import tempfile
import threading

from .. import core, realcode

OPS = ['P0', 'P1', 'P2', 'P3', 'E0', 'E1', 'S+', 'S-', 'G', 'W']
# e0 / e1: the entry cell is set again with THE SAME Cell object, re-targeted in place by the caller (for the model: the same as E0 / E1)
REUSE = ['e0', 'e1']


def books():
    b0 = [('Main', [[1, '=A1+1', '=SUM(A1:B1)'], [5, '=A2*2', '=IF(A2>3,"big","small")'], ['x', None, '=B1&A3']]),
          ('Other', [[10, 20], ['=Main!A1+A1', '=SUM(A1:B1)']])]
    b1 = [('Main', [[2, '=A1*3', 7], [4, '=A2-1', '=MAX(A1:B2)'], [None, '=B2+1', '=ROUND(B1/7,2)']]),
          ('Data', [[1.5, 'txt'], ['=A1*2', '=LEFT(B1,2)']])]
    # unsafe: python-like text in a constant cell (rejected while the check is enabled)
    b2 = [('Main', [[3, '=A1+2', 'eval(1)'], [6, '=A2/2', '=A1&"z"'], [1, '=SUM(A1:A3)', 2]])]
    # the same template as b0 filled with other data: same formula text at the same cells, different constants
    b3 = [('Main', [[4, '=A1+1', '=SUM(A1:B1)'], [2, '=A2*2', '=IF(A2>3,"big","small")'], ['y', None, '=B1&A3']]),
          ('Other', [[11, 21], ['=Main!A1+A1', '=SUM(A1:B1)']])]
    return [b0, b1, b2, b3]


def sha(text):
    return 'T' + hashlib.sha256(text.encode('utf-8')).hexdigest()[:16]


FRESH_SRC = """
import hashlib, sys, warnings
sys.path.insert(0, sys.argv[1]); sys.path.insert(0, %r)
warnings.filterwarnings('ignore')
from harness import core
from excel2pycl import Parser, Cell
path, entry, safety = sys.argv[2], sys.argv[3], sys.argv[4] == '1'
try:
    p = Parser().set_excel_file_path(path)
    if not safety:
        p.disable_safety_check()
    if entry != '-':
        p.set_entrypoint_cell(Cell(*[int(x) for x in entry.split(',')]))
    print('T' + hashlib.sha256(p.get_translation().encode('utf-8')).hexdigest()[:16])
except Exception as e:
    print('E' + core.exc_class(e))
""" % core.VERIF


def fresh_all(combos):
    """what a fresh parser in a FRESH PROCESS returns for each (path, entry, safety): the oracle must not share process state with the code under test"""
    procs = []
    for path, entry, safety in combos:
        e = '-' if entry is None else ','.join(str(x) for x in entry)
        procs.append(subprocess.Popen(['/venv/bin/python', '-c', FRESH_SRC, core.REPO, path, e, '1' if safety else '0'],
                                      stdout=subprocess.PIPE, stderr=subprocess.DEVNULL, text=True))
    return [p.communicate(timeout=600)[0].strip().splitlines()[-1] for p in procs]


ENTRIES = [(0, 1, 1), (0, 2, 0)]


def run_sequence(m, paths, seq, workdir):
    p = m['Parser']()
    outs = []
    held = None
    for k, op in enumerate(seq):
        try:
            if op[0] == 'P':
                p.set_excel_file_path(paths[int(op[1:])])
            elif op[0] == 'E':
                held = m['Cell'](*ENTRIES[int(op[1:])])
                p.set_entrypoint_cell(held)
            elif op[0] == 'e':
                t, c, r = ENTRIES[int(op[1:])]
                if held is None:
                    held = m['Cell'](t, c, r)
                else:
                    held.title, held.column, held.row = t, c, r
                p.set_entrypoint_cell(held)
            elif op == 'S+':
                p.enable_safety_check()
            elif op == 'S-':
                p.disable_safety_check()
            elif op == 'G':
                t = p.get_translation()
                outs.append('N' if t is None else sha(t))
            else:
                f = os.path.join(workdir, 'written.py')       # every write of the sequence goes to the same file, as a user's would
                p.write_translation(f)
                text = open(f, encoding='utf-8').read()
                outs.append(sha(text))
                ret = p.get_translation()
                if ret != text:
                    outs[-1] = 'MISMATCH-written-vs-returned'
        except Exception as e:  # noqa
            if op in ('G', 'W'):
                outs.append('E' + core.exc_class(e))
            else:
                outs.append('E!' + core.exc_class(e))
    return outs


def run(tier, seed):
    chk = core.Check('C09', tier, seed)
    rng = chk.rng
    chk.rule = ('facade: call sequences over {set path x4 (one workbook unsafe), set entry x2 with a new Cell or with the caller\'s previous Cell object re-targeted in place, enable/disable safety, get_translation, write_translation}: '
                'every sequence to length 4 (thorough; quick: length 3) plus random ones to length 8, against the Lean model (flag table regenerated from the source) '
                'and against a fresh parser configured with the settings in force (spec). determinism: sha256 of the text of each workbook (whole file and from an '
                'entry cell) across subprocesses with different PYTHONHASHSEED, after earlier translations of other workbooks in the same process, and from 4 '
                'threads translating concurrently with a 1 µs switch interval. distinct = distinct call sequences / (workbook, hash seed, warm-up) combinations')
    chk.assumptions += ['process history, hash seeds and thread interleavings are sampled on the real code, not proved: the model takes the translation as a pure function '
                        'of (path, entry, safety) - partial for that clause',
                        'the workbook file is not modified between calls']
    chk.build = core.lean_build(['C09'], tier)
    if not chk.build.driver_ok:
        raise RuntimeError('driver did not build:\n' + chk.build.log[-2000:])
    m = realcode.mods()
    d = tempfile.mkdtemp(prefix='e2p_c09_')
    try:
        paths = []
        for i, b in enumerate(books()):
            p = os.path.join(d, 'wb%d.xlsx' % i)
            realcode.write_xlsx(p, b)
            paths.append(p)
        keys = [(pi, ei, s) for pi in range(len(paths)) for ei in range(len(ENTRIES) + 1) for s in (True, False)]
        res = fresh_all([(paths[pi], ([None] + ENTRIES)[ei], s) for pi, ei, s in keys])
        table = [(pi, ei, 1 if s else 0, r) for (pi, ei, s), r in zip(keys, res)]
        chk.info['fresh_results'] = {'%d/%d/%d' % t[:3]: t[3] for t in table}
        tab = [str(len(table))] + [str(x) for t in table for x in t]
        seqs = []
        maxlen = 3 if tier == 'quick' else 4
        for n in range(1, maxlen + 1):
            for seq in itertools.product(OPS, repeat=n):
                if seq[-1] in ('G', 'W'):
                    seqs.append(list(seq))
        setters = [o for o in OPS if o not in ('G', 'W')]
        for c1 in setters:          # translate, change one setting, translate again: every (change, change) pair
            for c2 in setters:
                for q1 in ('G', 'W'):
                    for q2 in ('G', 'W'):
                        seqs.append(['P0', c1, q1, c2, q2])
        for i in range(4):          # a translation that fails (or not), then a retry without any change in between
            for j in range(4):
                for pre in ([], ['S-'], ['E0']):
                    seqs.append(pre + ['P%d' % i, 'G', 'P%d' % j, 'G', 'G', 'W'])
                    seqs.append(pre + ['P%d' % i, 'W', 'S+', 'P%d' % j, 'W', 'G'])
        for c1 in setters:          # a setting set, used, then another setting set twice in a row (the second call must not cancel the first)
            for c2 in setters:
                seqs.append(['P0', c1, 'G', c2, c2, 'G'])
                seqs.append(['P2', c1, c1, 'W', c2, c2, 'G'])
        for q1 in ('G', 'W'):       # the safety setting toggled around an unsafe workbook without touching the path
            for q2 in ('G', 'W'):
                seqs.append(['S-', 'P2', q1, 'S+', q2])
                seqs.append(['P2', q1, 'S-', q2, 'S+', q1])
                seqs.append(['S-', 'P2', 'E0', q1, 'S+', q2, 'S-', q1])
        for a in ('E0', 'E1', 'e0', 'e1'):       # the caller re-targets the Cell object it passed before and passes it again
            for b in REUSE:
                for q1 in ('G', 'W'):
                    seqs.append(['P0', a, q1, b, 'G'])
                    seqs.append(['P0', a, q1, b, 'W', 'P1', 'G'])
                    seqs.append([a, 'P3', q1, b, q1, a.upper(), 'G'])
        nrand = 300 if tier == 'quick' else 4000
        for _ in range(nrand):
            n = rng.randint(4, 8)
            seq = [rng.choice(OPS + REUSE + ['G', 'G', 'W']) for _ in range(n - 1)] + [rng.choice(['G', 'W'])]
            seqs.append(seq)
        cases = []
        for seq in seqs:
            outs = run_sequence(m, paths, seq, d)
            req = 'fc %s %d %s' % (' '.join(tab), len(seq), ' '.join(o.upper() if o in REUSE else o for o in seq))
            cases.append((req, ' '.join(outs), {'sequence': ' '.join(seq)}))
            chk.count('len:%d' % len(seq))
        chk.judge('facade-sequences', cases, sample_cap=4)
        overwrite_law(chk, m, paths, d, table)
        determinism(chk, tier, paths, d)
    finally:
        shutil.rmtree(d, ignore_errors=True)
    return chk.finish()


def overwrite_law(chk, m, paths, d, table):
    """the file at the path is replaced by another workbook and the same path is set again: the next result is the new workbook's"""
    fresh = {(pi, ei, s): r for pi, ei, s, r in table}
    for a, b in ((0, 1), (1, 3), (3, 0), (0, 3)):
        for entry in (None, 0):
            x = os.path.join(d, 'same_path.xlsx')
            shutil.copyfile(paths[a], x)
            p = m['Parser']().set_excel_file_path(x)
            if entry is not None:
                p.set_entrypoint_cell(m['Cell'](*ENTRIES[entry]))
            outs = []
            for src in (a, b):
                shutil.copyfile(paths[src], x)
                p.set_excel_file_path(x)
                if entry is not None and src == b:
                    p.set_entrypoint_cell(m['Cell'](*ENTRIES[entry]))       # an equal entry cell, set again
                try:
                    outs.append(sha(p.get_translation()))
                except Exception as e:  # noqa
                    outs.append('E' + core.exc_class(e))
            want = [fresh[(a, 0 if entry is None else entry + 1, 1)], fresh[(b, 0 if entry is None else entry + 1, 1)]]
            chk.count('law:overwritten-file')
            chk.seen(('overwrite', a, b, entry))
            if outs != want:
                chk.violation({'why': 'after the file at the path was replaced and the same path (and an equal entry cell) set again, the result is not the translation of the new '
                                      'workbook', 'first_workbook': a, 'second_workbook': b, 'entry': entry, 'impl': outs, 'fresh': want, 'stream': 'overwritten-file'})


def determinism(chk, tier, paths, d):
    m = realcode.mods()
    env_base = dict(os.environ)
    worker = os.path.join(core.VERIF, 'harness', 'c09_worker.py')
    results = {}
    seeds = ['0', '1', '7', 'random'] if tier == 'quick' else ['0', '1', '2', '3', '7', '42', '1234', 'random']
    jobs = []
    for hs in seeds:
        for warm in ([], [paths[1]], [paths[2], paths[0]], [paths[3]], [paths[0], paths[3]]):
            env = dict(env_base, PYTHONHASHSEED=hs)
            jobs.append((hs, len(warm), subprocess.Popen(['/venv/bin/python', worker, core.REPO, ','.join(warm)] + paths,
                                                         stdout=subprocess.PIPE, stderr=subprocess.DEVNULL, text=True, env=env)))
    for hs, nwarm, p in jobs:
        out, _ = p.communicate(timeout=600)
        chk.count('determinism:process')
        for line in out.strip().splitlines():
            name, mode, h = line.split()
            chk.seen(('det', name, mode, hs, nwarm))
            results.setdefault((name, mode), {}).setdefault(h, []).append('hashseed=%s warm=%d' % (hs, nwarm))
    # history that changes what the interpreter allows: dependency chains near / beyond the depth a fresh process accepts, translated in a fresh process and after
    # a large workbook (and others) went through the same process
    deep_paths = []
    for depth in (150, 300, 600, 1200):
        x = os.path.join(d, 'chain%d.xlsx' % depth)
        realcode.write_xlsx(x, [('S', [[1, '=A%d' % depth]] + [['=A%d+1' % r] for r in range(1, depth)])])
        deep_paths.append(x)
    large = os.path.join(d, 'large.xlsx')
    realcode.write_xlsx(large, [('L', [[r * 100 + c for c in range(100)] for r in range(60)])])
    djobs = []
    for hs in seeds[:2]:
        for warm in ([], [large], [large, paths[0]], [deep_paths[3], large], [paths[1]]):
            djobs.append((hs, len(warm), subprocess.Popen(['/venv/bin/python', worker, core.REPO, ','.join(warm)] + deep_paths,
                                                          stdout=subprocess.PIPE, stderr=subprocess.DEVNULL, text=True, env=dict(env_base, PYTHONHASHSEED=hs))))
    for hs, nwarm, p in djobs:
        out, _ = p.communicate(timeout=900)
        chk.count('determinism:deep-chain-history')
        for line in out.strip().splitlines():
            name, mode, h = line.split()
            chk.seen(('det', name, mode, hs, nwarm))
            results.setdefault((name, mode), {}).setdefault(h, []).append('hashseed=%s warm=%d' % (hs, nwarm))
    # cold start: the first translations of a fresh process are made by four threads at once
    cold = os.path.join(core.VERIF, 'harness', 'c09_cold.py')
    cjobs = [subprocess.Popen(['/venv/bin/python', cold, core.REPO] + [paths[0], paths[1], paths[3]], stdout=subprocess.PIPE, stderr=subprocess.DEVNULL, text=True,
                              env=dict(env_base, PYTHONHASHSEED=str(k), E2P_COLD_TRACE='1' if k % 2 else '0')) for k in range(8 if tier == 'quick' else 40)]
    cold_hashes = {}
    for p in cjobs:
        out, _ = p.communicate(timeout=600)
        for line in out.strip().splitlines():
            name, mode, h, where = line.split()
            chk.count('determinism:cold-thread')
            cold_hashes.setdefault((name, mode), {}).setdefault(h, []).append(where)
    for key, hs in cold_hashes.items():
        if len(hs) > 1:
            chk.violation({'why': 'translations made by several threads right after the start of a process are not identical', 'workbook': key[0],
                           'variants': {h: w[:3] for h, w in hs.items()}, 'stream': 'determinism'})
    # threads in this process
    def work(out, idx):
        for r in range(6 if tier == 'quick' else 40):
            for p in paths:
                for mode, entry in (('whole', None), ('entry', (0, 1, 1))):
                    try:
                        pr = m['Parser']().set_excel_file_path(p)
                        if entry:
                            pr.set_entrypoint_cell(m['Cell'](*entry))
                        h = hashlib.sha256(pr.get_translation().encode('utf-8')).hexdigest()
                    except Exception as e:  # noqa
                        h = 'E' + type(e).__name__
                    out.append((os.path.basename(p), mode, h, 'thread=%d round=%d' % (idx, r)))
    import sys
    outs = [[] for _ in range(4)]
    ts = [threading.Thread(target=work, args=(outs[i], i)) for i in range(4)]
    interval = sys.getswitchinterval()
    sys.setswitchinterval(1e-6)          # switch threads inside a parse, not only between translations
    try:
        [t.start() for t in ts]
        [t.join() for t in ts]
    finally:
        sys.setswitchinterval(interval)
    for o in outs:
        for name, mode, h, where in o:
            chk.count('determinism:thread')
            results.setdefault((name, mode), {}).setdefault(h, []).append(where)
    for key, hs in results.items():
        if len(hs) > 1:
            chk.violation({'why': 'the translation of one workbook under one setting is not byte-identical across processes / hash seeds / warm-ups / threads',
                           'workbook': key[0], 'mode': key[1], 'variants': {h: w[:3] for h, w in hs.items()}, 'stream': 'determinism'})
    chk.info['determinism_keys'] = len(results)


def replay(path):
    data = json.load(open(path))
    for case in data.get('failing_inputs', [])[:20]:
        print('replay case:', json.dumps(case, ensure_ascii=False, default=str)[:800])
    return 1 if data.get('failing_inputs') else 0
