"""C17 — text functions obey the substring algebra."""
from __future__ import annotations

import itertools
import json
import re

from .. import core, realcode

ALPHA = ['a', 'B', '?', '*', '~', '.', '[', '(']


def canon_text(got):
    """blank stands for the empty text; any #… text is 'an error value'"""
    if got == 'B':
        return 'S'
    if got.startswith('S35.') or got == 'S35':
        return 'ERRVAL'
    return got


def ref_search(f, t, s):
    """independent reference: first position >= s where the wildcard pattern matches (ASCII case-insensitive)"""
    if s is None or s == 0:
        s = 1
    if s > len(t) or s <= 0:
        return 'ERRVAL'
    pats, i = [], 0
    while i < len(f):
        c = f[i]
        if c == '~' and i + 1 < len(f) and f[i + 1] in '?*~':
            pats.append(('l', f[i + 1]))
            i += 2
            continue
        pats.append(('?',) if c == '?' else ('*',) if c == '*' else ('l', c))
        i += 1

    def m(pi, ti):          # pattern from pi matches some prefix of t[ti:]
        states = {(pi, ti)}
        seen = set()
        while states:
            st = states.pop()
            if st in seen:
                continue
            seen.add(st)
            p, x = st
            if p == len(pats):
                return True
            k = pats[p]
            if k[0] == '*':
                states.add((p + 1, x))
                if x < len(t):
                    states.add((p, x + 1))
            elif x < len(t) and (k[0] == '?' or k[1].lower() == t[x].lower()):
                states.add((p + 1, x + 1))
        return False

    for p in range(s - 1, len(t) + 1):
        if m(0, p):
            return 'I%d' % (p + 1)
    return 'ERRVAL'


def run(tier, seed):
    chk = core.Check('C17', tier, seed)
    rng = chk.rng
    chk.rule = ('all strings to length 3 (quick) / 4 (thorough) over {a,B,?,*,~,.,[,(} as text and as pattern, plus random ASCII strings to length 10; '
                'LEFT/RIGHT/MID with every position/count in a box around the length; the rebuild law LEFT(t,n)&MID(t,n+1,len)=t; SEARCH with '
                'every start position; & / CONCATENATE on texts and integers; VALUE on decimal prints; end-to-end formulas. '
                'distinct = distinct request lines / law instances')
    chk.assumptions += ['texts are ASCII (re.I and str.lower modelled for ASCII only)', 're.search leftmost-match semantics is an external',
                        "text form of floats under & is Python repr (not modelled; the statement fixes no text form)"]
    chk.build = core.lean_build(['C17'], tier)
    if not chk.build.driver_ok:
        raise RuntimeError('driver did not build:\n' + chk.build.log[-2000:])
    inst = realcode.runtime_instance()
    L = 3 if tier == 'quick' else 4
    strings = [''.join(p) for n in range(0, L + 1) for p in itertools.product(ALPHA, repeat=n)]
    extra = [''.join(rng.choice('abcABC xyz019.?*~[(+$^\\') for _ in range(rng.randint(1, 10))) for _ in range(60 if tier == 'quick' else 800)]
    texts = (rng.sample(strings, 250) if tier == 'quick' else strings) + extra + ['', 'Hello, World', 'a']
    cases = []
    for t in texts:
        n_t = len(t)
        for n in range(-2, n_t + 3):
            cases.append(('tx left %s I%d' % (core.enc(t), n), core.outcome(inst._left, t, n), {'fn': 'LEFT', 't': t, 'n': n}))
            cases.append(('tx right %s I%d' % (core.enc(t), n), core.outcome(inst._right, t, n), {'fn': 'RIGHT', 't': t, 'n': n}))
            for k in range(-1, n_t + 3):
                cases.append(('tx mid %s I%d I%d' % (core.enc(t), k, n), core.outcome(inst._mid, t, k, n), {'fn': 'MID', 't': t, 'k': k, 'n': n}))
        # rebuild law on the real code
        for n in range(0, n_t):
            chk.count('law:rebuild')
            chk.seen(('rebuild', t, n))
            try:
                a, b = inst._left(t, n), inst._mid(t, n + 1, n_t)
                ok = ('' if type(a).__name__ == 'EmptyCell' else a) + ('' if type(b).__name__ == 'EmptyCell' else b) == t
            except Exception as e:  # noqa
                ok, a, b = False, 'E' + core.exc_class(e), None
            if not ok:
                chk.violation({'why': 'LEFT(t,n) & MID(t,n+1,len) does not rebuild t', 't': t, 'n': n, 'left': repr(a), 'mid': repr(b)})
    chk.judge('LEFT-RIGHT-MID', cases, canon=canon_text)

    # SEARCH
    cases = []
    pats = (rng.sample(strings, 120) if tier == 'quick' else rng.sample(strings, 1500)) + ['a*b', '~*', '~~', 'b?', 'B', 'A', '*', '?', '', '~', 'a~',
                                                                                              '~b', '~x', 'a~b', '~**c', '~**', '*~*', '**', 'a**b', '~?*', '*~?', '~~*', '~*~*', '~~~*', '***c', '~*?']
    withins = (rng.sample(strings, 40) if tier == 'quick' else rng.sample(strings, 300)) + ['abab', 'aBAb*', 'xa?b', 'a~b', 'ABC abc', '', 'a*bc', 'a**c', '*c', 'a*b', '?*', '~*c', 'a~*']
    for f in pats:
        for t in withins:
            for s in [None] + list(range(-1, len(t) + 2)):
                got = core.outcome(inst._search, f, t, s)
                want = ref_search(f, t, s)
                chk.count('oracle:search')
                if canon_text(got) != want:
                    chk.violation({'why': 'SEARCH is not the first case-insensitive wildcard occurrence at or after the start position',
                                   'fn': 'SEARCH', 'find': f, 'within': t, 'start': s, 'impl': got, 'reference': want})
                cases.append(('tx search %s %s %s' % (core.enc(f), core.enc(t), core.enc(s)), got,
                              {'fn': 'SEARCH', 'find': f, 'within': t, 'start': s}))
    chk.judge('SEARCH', cases, canon=canon_text)

    # VALUE on decimal prints
    cases = []
    for _ in range(300 if tier == 'quick' else 5000):
        nd = rng.randint(1, 15)
        digits = rng.randint(0, 10 ** nd - 1)
        k = rng.randint(0, nd)
        txt = str(digits) if k == 0 else ('%0*d' % (k + 1, digits))[:-k] + '.' + ('%0*d' % (k + 1, digits))[-k:]
        txt = rng.choice(['', '-', '+']) + txt
        if rng.random() < 0.2:
            txt = txt.replace('.', ',')
        if rng.random() < 0.2:
            txt = ' ' + txt + '  '
        if rng.random() < 0.1:
            txt = txt + 'e%d' % rng.randint(-5, 5)
        cases.append(('tx value %s' % core.enc(txt), core.outcome(inst._value, txt), {'fn': 'VALUE', 'text': txt}))
    # decimal texts with 16-17 significant digits: the double nearest to the text, nothing coarser
    for _ in range(150 if tier == 'quick' else 3000):
        x = rng.random() * 10 ** rng.randint(-3, 9)
        txt = repr(x) if 'e' not in repr(x) else '%.17f' % x
        cases.append(('tx value %s' % core.enc(txt), core.outcome(inst._value, txt), {'fn': 'VALUE', 'text': txt}))
    for txt in ['0.30000000000000004', '1234567.1234567891', '0.1000000000000000055', '9007199254740993', '2.675', '1.0000000000000002']:
        cases.append(('tx value %s' % core.enc(txt), core.outcome(inst._value, txt), {'fn': 'VALUE', 'text': txt}))
    chk.judge('VALUE', cases)
    end_to_end(chk, tier)
    return chk.finish()


def end_to_end(chk, tier):
    rng = chk.rng
    inst = realcode.runtime_instance()
    n = 25 if tier == 'quick' else 300
    values, formulas, want = {}, [], []
    for r in range(n):
        t = ''.join(rng.choice('abcXYZ 019') for _ in range(rng.randint(1, 9)))
        u = ''.join(rng.choice('abXY?*') for _ in range(rng.randint(1, 3)))
        i1, i2 = (0 if r % 4 == 0 else rng.randint(0, 99)), rng.randint(-50, 500)       # zero is a number like any other: its text is 0
        a, b = rng.randint(0, len(t) + 1), rng.randint(0, len(t) + 1)
        values[(0, r)], values[(1, r)], values[(2, r)], values[(3, r)], values[(4, r)], values[(5, r)] = t, u, i1, i2, a, b
        row = r + 1
        lit = t.replace(' ', '_')
        dec = '%d.%02d' % (i1, rng.randint(0, 99))
        fs = [
            ('=LEFT(A%d,E%d)' % (row, row), lambda: inst._left(t, a)),
            ('=LEFT(A%d)' % row, lambda: t[0]),
            ('=RIGHT(A%d,%d)' % (row, a), lambda: inst._right(t, a)),
            ('=RIGHT(A%d)' % row, lambda: t[-1]),
            ('=MID(A%d;E%d;F%d)' % (row, row, row), lambda: inst._mid(t, a, b)),
            ('=LEFT(A%d,%d)&MID(A%d,%d,%d)' % (row, min(a, len(t) - 1), row, min(a, len(t) - 1) + 1, len(t)), lambda: t),
            ('=A%d&B%d' % (row, row), lambda: t + u),
            ('=A%d&C%d&D%d' % (row, row, row), lambda: t + str(i1) + str(i2)),
            ('="%s"&A%d' % (lit, row), lambda: lit + t),
            ('=CONCATENATE(A%d,B%d,C%d)' % (row, row, row), lambda: t + u + str(i1)),
            ('=CONCATENATE(B%d;"-";A%d)' % (row, row), lambda: u + '-' + t),
            ('=CONCATENATE(A%d,0,"|")' % row, lambda: t + '0|'),
            ('=LEFT(Z%d,2)' % row, lambda: inst._left(type(inst).EmptyCell(), 2)),          # a blank cell as the text argument: what the helper says for a blank
            ('=LEFT(MID(A%d,99,2),1)' % row, lambda: inst._left(inst._mid(t, 99, 2), 1)),
            ('=RIGHT(MID(A%d,99,2))' % row, lambda: inst._right(inst._mid(t, 99, 2), None)),
            ('=CONCATENATE(A%d,1234.5678,"|",0.000012345)' % row, lambda: t + '1234.5678|1.2345e-05'),
            ('=CONCATENATE(C%d,"|",A%d)' % (row, row), lambda: str(i1) + '|' + t),
            ('=CONCATENATE(C%d)' % row, lambda: str(i1)),                       # one argument: still the TEXT form of the operand
            ('=CONCATENATE(%d)' % i2, lambda: str(i2)),
            ('=LEFT(CONCATENATE(C%d+5),1)' % row, lambda: str(i1 + 5)[0]),
            ('=CONCATENATE(A%d)' % row, lambda: t),
            ('=CONCATENATE(D%d)&C%d' % (row, row), lambda: str(i2) + str(i1)),
            ('=SEARCH(B%d,A%d)' % (row, row), lambda: inst._search(u, t, None)),
            ('=SEARCH(B%d,A%d,%d)' % (row, row, max(1, a)), lambda: inst._search(u, t, max(1, a))),
            ('=VALUE("%s")' % dec, lambda: float(dec)),
            ('=VALUE(C%d)' % row, lambda: i1),
        ]
        for f, w in fs:
            formulas.append(f)
            want.append(core.outcome(w))
    # & between two text literals: every character of both, in order (backslashes, both kinds of quotes, line breaks)
    for x, y in (('C:\\dir', '\\f'), ('a\\', 'b'), ("it's \"q\"", 'x\ny'), ('\\', '\\'), ("'", '"'), ('tab\there', "\\'"), ('{0}', '%s'), ('', '\\n')):
        formulas.append('="%s"&"%s"' % (x.replace('"', '""'), y.replace('"', '""')))
        want.append(core.enc(x + y))
    got = realcode.eval_formulas(formulas, values)
    for f, g, w in zip(formulas, got, want):
        chk.count('e2e')
        chk.seen(('e2e', f))
        if g != w:
            chk.violation({'why': 'formula result differs from the substring algebra / the helper on the same operands', 'formula': f,
                           'impl': g, 'want': w})
    chk.sample({'formula': formulas[6], 'value': got[6]})


def replay(path):
    data = json.load(open(path))
    for case in data.get('failing_inputs', [])[:20]:
        print('replay case:', json.dumps(case, ensure_ascii=False)[:400])
    return 1 if data.get('failing_inputs') else 0
