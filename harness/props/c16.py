"""C16 — rounding and percent are decimal-exact."""
from __future__ import annotations

import json
from decimal import Decimal

from .. import core, realcode

MODES = ['round', 'roundup', 'rounddown']
XL = {'round': 'ROUND', 'roundup': 'ROUNDUP', 'rounddown': 'ROUNDDOWN'}


def dec_text(digits, exp):
    """decimal text of digits * 10**exp"""
    return format(Decimal(digits).scaleb(exp), 'f')


def grid(chk, tier):
    rng = chk.rng
    out = set()
    q = tier == 'quick'
    # sign x integer part x up to 4 fractional digits (every tie case) on a grid
    ips = [0, 1, 2, 5, 9, 10, 12, 99, 100, 1234] if q else list(range(0, 13)) + [19, 20, 49, 50, 99, 100, 101, 127, 128, 255, 256, 999, 1000, 1234, 4095, 4096, 99999]
    for ip in ips:
        fracs = set()
        for k in range(1, 5):
            step = 1 if (k <= 2 or (not q and k == 3)) else (13 if not q else 10 ** (k - 2) * 3 + 1)
            for f in range(0, 10 ** k, step):
                fracs.add((f, k))
            for t in range(10 ** (k - 1)):          # ties at every shorter precision: ...5
                fracs.add((t * 10 + 5, k)) if t * 10 + 5 < 10 ** k else None
        for f, k in (rng.sample(sorted(fracs), 250) if q else sorted(fracs)):
            for sign in (1, -1):
                out.add((sign * (ip * 10 ** k + f), -k))
    # long mantissas (up to 15 significant digits), large and small magnitudes
    for _ in range(300 if q else 30000):
        nd = rng.randint(1, 15)
        digits = rng.randint(10 ** (nd - 1), 10 ** nd - 1) * rng.choice([1, -1])
        out.add((digits, rng.randint(-nd - 3, 6)))
    for d, e in [(1005, -3), (2675, -3), (1, 300), (15, -1), (25, -1), (35, -1), (125, -3), (5, -1), (45, -2), (1, 0), (0, 0),
                 (999999999999999, -15), (999999999999999, 0), (5, -4), (49999, -5), (50001, -5)]:
        out.add((d, e))
        out.add((-d, e))
    return sorted(out)


def run(tier, seed):
    chk = core.Check('C16', tier, seed)
    rng = chk.rng
    chk.rule = ('decimals digits x 10^exp: sign x integer part x up to 4 fractional digits incl. every tie, plus random mantissas to 15 '
                'significant digits, x digit counts -3..6 x ROUND/ROUNDUP/ROUNDDOWN via the helpers; percent on decimals with <= 13 digits; '
                'a sample end-to-end as literals, cells and overrides. distinct = distinct request lines; non-trivial = the operand is '
                'not already at the requested precision')
    chk.assumptions += ["float(str) and '{:.15g}' are correctly rounded (externals; rn / round15 in Lean, cross-checked on every case: flags rn-bad / recover-bad)",
                        'decimal.quantize modelled as exact integer rounding (external)',
                        'exponent range of doubles not modelled (|x| within 1e-290..1e290)']
    chk.build = core.lean_build(['C16'], tier)
    if not chk.build.driver_ok:
        raise RuntimeError('driver did not build:\n' + chk.build.log[-2000:])
    inst = realcode.runtime_instance()
    fns = {'round': inst._round, 'roundup': inst._roundup, 'rounddown': inst._rounddown}
    cases = []
    g = grid(chk, tier)
    ns = list(range(-3, 7))
    for digits, exp in g:
        x = float(dec_text(digits, exp))
        for mode in MODES:
            for n in rng.sample(ns, 3 if tier == 'quick' else 4):
                got = core.outcome(fns[mode], x, n)
                cases.append(('rnd %s I%d I%d %s I%d' % (mode, digits, exp, core.enc(x), n), got,
                              {'fn': XL[mode], 'number': dec_text(digits, exp), 'digits': n}))
        if len(cases) >= 200000:         # judged in chunks: the thorough grid has millions of cases
            chk.judge('round-helpers', cases)
            cases = []
    chk.judge('round-helpers', cases)
    flags_bad = 0
    # integers (ROUND(1250,-2) etc.)
    cases = []
    for z in [0, 5, 15, 25, 1250, 1350, 1249, -1250, -15, 999, 10 ** 20 + 5 * 10 ** 9] + [rng.randint(-10 ** 6, 10 ** 6) for _ in range(50)]:
        for mode in MODES:
            for n in ns:
                cases.append(('rnd %s I%d I%d' % (mode, z, n), core.outcome(fns[mode], z, n), {'fn': XL[mode], 'number': z, 'digits': n}))
    chk.judge('round-integers', cases)
    # percent through the real translator (x% is emitted inline): formulas over cells
    pct_cases = []
    items = [(d, e) for d, e in g if abs(d) < 10 ** 13 and d >= 0][:: (7 if tier == 'quick' else 1)]
    values = {(0, r): float(dec_text(d, e)) for r, (d, e) in enumerate(items)}
    outs = realcode.eval_formulas(['=A%d%%' % (r + 1) for r in range(len(items))], values)
    for r, (d, e) in enumerate(items):
        pct_cases.append(('pct I%d I%d %s' % (d, e, core.enc(values[(0, r)])), outs[r], {'formula': '=A%d%%' % (r + 1), 'A': dec_text(d, e)}))
    chk.judge('percent-cells', pct_cases)
    # the same decimals written as literals in the formula, and supplied as overrides of a cell holding something else
    outs = realcode.eval_formulas(['=%s%%' % dec_text(d, e) for d, e in items], {})
    chk.judge('percent-decimal-literals', [('pct I%d I%d %s' % (d, e, core.enc(values[(0, r)])), outs[r], {'formula': '=%s%%' % dec_text(d, e)})
                                           for r, (d, e) in enumerate(items)])
    outs = realcode.eval_formulas(['=A%d%%' % (r + 1) for r in range(len(items))], {(0, r): 1 for r in range(len(items))}, overrides=values)
    chk.judge('percent-overrides', [('pct I%d I%d %s' % (d, e, core.enc(values[(0, r)])), outs[r], {'formula': '=A%d%%' % (r + 1), 'override A': dec_text(d, e)})
                                    for r, (d, e) in enumerate(items)])
    # a percent term under a sign, in brackets, next to * 1 and 0 -: the value of x% is the same wherever the term stands (cells, literals, overrides)
    some = items[:: max(1, len(items) // 120)]
    for route in ('cell', 'literal', 'override'):
        forms, kinds = [], []
        for r, (d, e) in enumerate(some):
            x = 'A%d' % (r + 1) if route != 'literal' else dec_text(d, e)
            for kind, f in (('plain', '=%s%%'), ('minus', '=-%s%%'), ('plus', '=+%s%%'), ('bracket', '=(%s%%)'), ('minus-bracket', '=-(%s%%)'), ('times-one', '=%s%%*1'),
                            ('zero-minus', '=0-%s%%'), ('double-minus', '=--%s%%')):
                forms.append(f % x)
                kinds.append(kind)
        vals = {(0, r): float(dec_text(d, e)) for r, (d, e) in enumerate(some)}
        if route == 'override':
            outs = realcode.eval_formulas(forms, {(0, r): 1 for r in range(len(some))}, overrides=vals, min_rows=len(some))
        else:
            outs = realcode.eval_formulas(forms, vals if route == 'cell' else {}, min_rows=len(some))
        for i in range(0, len(forms), 8):
            try:
                plain = core.dec(outs[i])
            except Exception:  # noqa
                plain = None
            for j in range(1, 8):
                chk.count('percent-in-context')
                want = None if plain is None else (-plain if kinds[i + j] in ('minus', 'minus-bracket', 'zero-minus') else plain)
                try:
                    got = core.dec(outs[i + j])
                except Exception:  # noqa
                    got = outs[i + j]
                if want is None or got != want:
                    chk.violation({'why': 'a percent term does not have the same value under a sign / in brackets / next to * 1 as on its own', 'formula': forms[i + j], 'route': route,
                                   'impl': outs[i + j], 'on its own': outs[i], 'stream': 'percent-in-context'})
    ints = [0, 1, 5, 7, 15, 50, 99, 100, 12345, 33, 1234567]
    outs = realcode.eval_formulas(['=%d%%' % z for z in ints], {})
    chk.judge('percent-literals', [('pct I%d' % z, o, {'formula': '=%d%%' % z}) for z, o in zip(ints, outs)])
    ov_items = [(d, e) for d, e in items if e < 0][:60]
    for mode in MODES:
        for k in (0, 1, 2):
            forms = ['=%s(A%d,%d)' % (XL[mode], r + 1, k) for r in range(len(ov_items))]
            ov = {(0, r): float(dec_text(d, e)) for r, (d, e) in enumerate(ov_items)}
            outs = realcode.eval_formulas(forms, {(0, r): 7 for r in range(len(ov_items))}, overrides=ov)
            chk.judge('round-override-literal-digits', [('rnd %s I%d I%d %s I%d' % (mode, d, e, core.enc(ov[(0, r)]), k), outs[r], {'formula': forms[r], 'override A': dec_text(d, e)})
                                                        for r, (d, e) in enumerate(ov_items)])
    tiny = [(15, -16), (25, -16), (14, -16), (123456, -20), (5, -15), (999, -18), (-15, -16), (1, -15)]
    cases = []
    for d, e in tiny:
        x = float(dec_text(d, e))
        for mode in MODES:
            for n in (14, 15, 16, 17, 20):
                cases.append(('rnd %s I%d I%d %s I%d' % (mode, d, e, core.enc(x), n), core.outcome(fns[mode], x, n), {'fn': XL[mode], 'number': dec_text(d, e), 'digits': n}))
    chk.judge('round-many-digits', cases)
    end_to_end(chk, g, tier, fns)
    return chk.finish()


def end_to_end(chk, g, tier, fns):
    """literals, cells and overrides through the translators (argument order, defaults, int() of the digit count)"""
    rng = chk.rng
    n = 60 if tier == 'quick' else 1500
    sel = [x for x in rng.sample(g, min(len(g), n)) if abs(x[0]) < 10 ** 15]
    values, formulas, want = {}, [], []
    for r, (d, e) in enumerate(sel):
        txt = dec_text(d, e)
        x = float(txt)
        k = rng.randint(-3, 6)
        mode = rng.choice(MODES)
        values[(0, r)] = x
        values[(1, r)] = k
        formulas.append('=%s(A%d,B%d)' % (XL[mode], r + 1, r + 1))
        want.append(core.outcome(fns[mode], x, k))
        if d >= 0 and 'E' not in txt and len(txt) < 18:
            formulas.append('=%s(%s;%d)' % (XL[mode], txt, k) if k >= 0 else '=%s(%s,B%d)' % (XL[mode], txt, r + 1))
            want.append(core.outcome(fns[mode], int(txt) if '.' not in txt else x, k))
        if mode != 'round' and rng.random() < 0.3:
            formulas.append('=%s(A%d)' % (XL[mode], r + 1))       # default digit count 0
            want.append(core.outcome(fns[mode], x, 0))
    got = realcode.eval_formulas(formulas, values)
    blank = {k: None for k in values}
    got_ov = realcode.eval_formulas(formulas, blank, overrides=values)
    for f, a, b, w in zip(formulas, got, got_ov, want):
        for route, v in (('workbook', a), ('override', b)):
            chk.count('e2e:' + route)
            chk.seen(('e2e', route, f))
            if v != w:
                chk.violation({'why': 'formula result differs from the helper on the same operands (translator glue)', 'route': route,
                               'formula': f, 'impl': v, 'helper': w})
    chk.sample({'formula': formulas[0], 'value': got[0]})


def replay(path):
    data = json.load(open(path))
    for case in data.get('failing_inputs', [])[:20]:
        print('replay case:', json.dumps(case, ensure_ascii=False)[:400])
    return 1 if data.get('failing_inputs') else 0
