"""C18 — the workbook is read at true coordinates, with true types and sizes."""
from __future__ import annotations

import datetime
import json
import os
import shutil
import tempfile

from .. import core, realcode

VALUES = [0, 1, -7, 123456789, 2 ** 40, 1.5, -0.25, 1e-7, 1e15, 0.1, True, False, 'text', 'x y', "it's", 'Ünï', '  padded  ', '007', 'TRUE', '1.5',
          datetime.datetime(2024, 2, 29, 12, 30, 15), datetime.datetime(1999, 12, 31), datetime.date(2024, 1, 1), datetime.time(1, 2, 3), 'line\nbreak', '#N/A',
          datetime.datetime(2024, 3, 5, 14, 30, 15, 250000), datetime.datetime(2001, 1, 1, 0, 0, 0, 500000), ' =1+1', '\t=A1', "'=1", 'ok \U0001F600 done', '\U0001F4CA']
TITLES = ['Sheet1', 'Data 2', "o'clock", 'Лист', 'A1', 'SUM', 'x-y', 'Z', 'very long sheet title 123', '2024']


def run(tier, seed):
    chk = core.Check('C18', tier, seed)
    rng = chk.rng
    chk.rule = ('real .xlsx files written with openpyxl: 1-8 sheets (hostile titles, some empty), sparse layouts (gaps of empty rows and columns, a far cell, first cell not '
                'in A1), every value type openpyxl can store (int, float, bool, text, date-time, date, time), formulas and array formulas, a sheet of plain references into the '
                'other sheets\' bounding boxes, every third file with its <dimension> records overwritten by A1; read by Excel.parse and translated '
                'by the Parser: for EVERY coordinate of the bounding box (+2) the value and type seen through the executor vs the generator\'s cell map and vs openpyxl\'s '
                'normal (non read-only) mode; titles in workbook order; sizes = bounding box. distinct = distinct (workbook, sheet, coordinate)')
    chk.assumptions += ['openpyxl\'s read-only iter_rows() after reset_dimensions() yields row i+1 at index i and column j+1 at position j (padding contract): an explicit hypothesis of the '
                        'theorems, validated here against the normal mode and the generator\'s map',
                        'a date cell is stored by xlsx as a date-time at midnight; the stored value is what openpyxl\'s normal mode reads']
    chk.build = core.lean_build(['C18'], tier, want_driver=False)
    m = realcode.mods()
    Cell = m['Cell']
    from openpyxl import Workbook, load_workbook
    from openpyxl.worksheet.formula import ArrayFormula
    from excel2pycl.src.excel import Excel
    d = tempfile.mkdtemp(prefix='e2p_c18_')
    try:
        nbooks = 25 if tier == 'quick' else 400
        shared_parser = m['Parser']()
        for b in range(nbooks):
            ns = rng.randint(1, 8)
            titles = rng.sample(TITLES, ns)
            wb = Workbook()
            wb.remove(wb.active)
            plan = []
            for s, t in enumerate(titles):
                ws = wb.create_sheet(t)
                cells = {}
                shape = rng.choice(['empty', 'dense', 'sparse', 'sparse', 'far', 'offset'])
                if shape == 'dense':
                    for r in range(1, rng.randint(2, 5)):
                        for c in range(1, rng.randint(2, 5)):
                            cells[(c, r)] = rng.choice(VALUES)
                elif shape in ('sparse', 'far', 'offset'):
                    r0, c0 = (rng.randint(3, 9), rng.randint(3, 9)) if shape == 'offset' else (1, 1)
                    for _ in range(rng.randint(1, 8)):
                        cells[(c0 + rng.randint(0, 7), r0 + rng.randint(0, 9))] = rng.choice(VALUES)
                    if shape == 'far':
                        cells[(rng.choice([27, 53, 300]), rng.choice([40, 120]))] = rng.choice(VALUES)
                formulas = {}
                if cells and rng.random() < 0.6:
                    (c, r) = rng.choice(sorted(cells))
                    fc, fr = c + 1, r
                    if (fc, fr) not in cells:
                        formulas[(fc, fr)] = '=%s&"!"' % (chr(64 + c) + str(r)) if c <= 26 else '=1+1'
                    if rng.random() < 0.5 and (fc, fr + 1) not in cells and (fc, fr + 2) not in cells:
                        formulas[(fc, fr + 1)] = ('array', '=SUM(1,2)', '%s%d:%s%d' % (col(fc), fr + 1, col(fc), fr + 2))
                for (c, r), v in cells.items():
                    ws.cell(row=r, column=c, value=v)
                # formatted cells without a value: they belong to the sheet (its size covers them) and read as blank
                styled = set()
                if cells and rng.random() < 0.4:
                    from openpyxl.styles import Font
                    W0, H0 = max(c for c, _ in cells), max(r for _, r in cells)
                    for _ in range(rng.randint(1, 3)):
                        c, r = rng.randint(1, W0 + 3), rng.randint(1, H0 + 2)
                        if (c, r) not in cells and (c, r) not in formulas:
                            ws.cell(row=r, column=c).font = Font(bold=True)
                            styled.add((c, r))
                for (c, r), f in formulas.items():
                    if isinstance(f, tuple):
                        ws.cell(row=r, column=c).value = ArrayFormula(f[2], f[1])
                    else:
                        ws.cell(row=r, column=c, value=f)
                plan.append((t, cells, formulas, styled))
            # a last sheet of probes: plain references into the other sheets' bounding boxes (blanks right of a short row, empty rows, the far corner)
            probes = {}
            for t, cells, formulas, _styled in plan:
                if not cells:
                    continue
                W0, H0 = max(c for c, _ in cells), max(r for _, r in cells)
                for _ in range(rng.randint(2, 6)):
                    c, r = rng.randint(1, min(W0, 40) + 1), rng.randint(1, H0 + 1)
                    if (c, r) in formulas:
                        continue
                    probes[(1, len(probes) + 1)] = ("='%s'!%s%d" % (t.replace("'", "''"), col(c), r), t, c, r)
            if probes:
                ws = wb.create_sheet('Probe sheet')
                for (c, r), (f, _, _, _) in probes.items():
                    ws.cell(row=r, column=c, value=f)
                titles = titles + ['Probe sheet']
                plan.append(('Probe sheet', {}, {k: v[0] for k, v in probes.items()}, set()))
            if b % 5 == 2:
                # a tab that is not a worksheet: it is not a sheet of the translated workbook, and the worksheets keep their order and titles
                from openpyxl.chart import BarChart
                wb.create_chartsheet('Chart tab', 0).add_chart(BarChart())
                chk.count('chartsheet-in-front')
            path = os.path.join(d, 'workbook.xlsx')          # the same path for every workbook, and one long-lived parser that is given it again each time
            wb.save(path)
            if b % 3 == 1:
                stale_dimension(path)       # some writers leave <dimension ref="A1"/> whatever the sheet holds: the reader must not trust it
                chk.count('stale-dimension-record')
            # what is stored: openpyxl normal mode
            nwb = load_workbook(path)
            stored = [{(c.column, c.row): c.value for row in nwb[t].iter_rows() for c in row if c.value is not None} for t in titles]
            try:
                text = shared_parser.set_excel_file_path(path).disable_safety_check().get_translation()
                cls = realcode.load_class(text)
            except Exception as e:  # noqa
                chk.violation({'why': 'a readable workbook does not translate', 'error': repr(e)[:300], 'titles': titles, 'stream': 'translate'})
                continue
            inst = cls()
            ex = realcode.executor_for(cls)
            if inst.get_titles() != {t: i for i, t in enumerate(titles)}:
                chk.violation({'why': 'sheet titles are not reported in workbook order', 'titles': titles, 'impl': repr(inst.get_titles()), 'stream': 'titles'})
            sizes = inst.get_sheets_size()
            if len(sizes) != len(plan) or list(inst.get_titles()) != titles:
                chk.violation({'why': 'the translated class does not have the sheets of the workbook at the path (number / titles of sheets)', 'titles': titles,
                               'impl_titles': repr(inst.get_titles())[:300], 'impl_sizes': repr(sizes)[:200], 'stream': 'titles'})
                continue
            parsed = Excel.parse(path)
            for (pc, pr), (f, t, c, r) in probes.items():
                got = outcome_any(lambda: ex.get_cell(Cell('Probe sheet', pc - 1, pr - 1)).value)
                want_v = stored[titles.index(t)].get((c, r))
                if isinstance(want_v, str) and want_v.startswith('='):
                    continue
                want = 'B' if want_v is None else enc_any(want_v)
                chk.count('probe:' + ('blank' if want == 'B' else 'value'))
                chk.seen((b, 'probe', t, c, r))
                if got != want:
                    chk.violation({'why': 'a reference to a cell inside the bounding box of a sparse sheet does not give the stored value (blank where nothing is stored)',
                                   'formula': f, 'impl': got, 'stored': repr(want_v), 'stream': 'probe'})
            for s, (t, cells, formulas, styled) in enumerate(plan):
                allc = set(cells) | set(formulas) | styled
                W = max([c for c, _ in allc] or [0])
                H = max([r for _, r in allc] or [0])
                chk.count('sheets')
                if sizes[s] != {'last_column': W, 'last_row': H}:
                    chk.violation({'why': 'the reported sheet size is not the bounding box of the written cells', 'title': t, 'impl': sizes[s], 'want': (W, H), 'stream': 'sizes'})
                for r in range(1, H + 3):
                    for c in range(1, min(W, 60) + 3):
                        if (c, r) in formulas:
                            f = formulas[(c, r)]
                            if isinstance(f, tuple):       # an array formula is seen by its formula text
                                seen = parsed._data[s][r - 1][c - 1] if r - 1 < len(parsed._data[s]) and c - 1 < len(parsed._data[s][r - 1]) else None
                                if seen != f[1]:
                                    chk.violation({'why': 'an array formula is not seen by its formula text', 'title': t, 'cell': (c, r), 'impl': repr(seen), 'want': f[1],
                                                   'stream': 'array-formula'})
                            continue
                        got = outcome_any(lambda: ex.get_cell(Cell(s, c - 1, r - 1)).value)
                        want_v = stored[s].get((c, r))
                        gen_v = cells.get((c, r))
                        want = 'B' if want_v is None else enc_any(want_v)
                        chk.seen((b, s, c, r), nontrivial=(want != 'B'))
                        chk.count('cells:' + ('blank' if want == 'B' else type(want_v).__name__))
                        if got != want:
                            chk.violation({'why': 'a constant cell is not seen at its true coordinates with its stored value and type', 'title': t, 'cell': (c, r),
                                           'impl': got, 'stored': repr(want_v), 'written': repr(gen_v), 'stream': 'coords-types'})
                        if (gen_v is None) != (want_v is None):
                            chk.mismatch('external:openpyxl-normal-mode', {'cell': (c, r), 'written': repr(gen_v), 'normal_mode': repr(want_v)})
        # one parser whose entry cell is set once, then given workbook after workbook: each time the cell read is the one of the workbook at the path
        from openpyxl import Workbook as _WB
        pe = m['Parser']().disable_safety_check()
        pe.set_entrypoint_cell(Cell('Beta', 'D', '7'))
        for k, (order, v) in enumerate(((['Alpha', 'Beta'], 111), (['Alpha', 'Beta'], 2.5), (['Beta', 'Gamma', 'Alpha'], 'third'), (['Gamma', 'Alpha', 'Beta'], True))):
            wb2 = _WB()
            wb2.remove(wb2.active)
            for t in order:
                ws = wb2.create_sheet(t)
                ws.cell(row=7, column=4, value=v if t == 'Beta' else 'not this sheet')
            path2 = os.path.join(d, 'entry_%d.xlsx' % k)
            wb2.save(path2)
            try:
                cls2 = realcode.load_class(pe.set_excel_file_path(path2).get_translation())
                got = outcome_any(lambda: realcode.executor_for(cls2).get_cell(Cell('Beta', 3, 6)).value)
            except Exception as e:  # noqa
                got = 'E' + core.exc_class(e)
            chk.count('entry-kept-across-workbooks')
            chk.seen(('entry-kept', k))
            if got != enc_any(v):
                chk.violation({'why': 'a parser whose entry cell was set once does not read that cell from the workbook now at the path', 'workbook': k, 'sheets': order,
                               'stored': repr(v), 'impl': got, 'stream': 'entry-kept'})
    finally:
        shutil.rmtree(d, ignore_errors=True)
    return chk.finish()


def stale_dimension(path):
    """rewrite every worksheet's <dimension> record to A1, leaving the cells as they are"""
    import re
    import zipfile
    tmp = path + '.tmp'
    with zipfile.ZipFile(path) as zin, zipfile.ZipFile(tmp, 'w', zipfile.ZIP_DEFLATED) as zout:
        for item in zin.infolist():
            data = zin.read(item.filename)
            if item.filename.startswith('xl/worksheets/') and item.filename.endswith('.xml'):
                data = re.sub(rb'<dimension ref="[^"]*"\s*/>', b'<dimension ref="A1"/>', data)
            zout.writestr(item, data)
    os.replace(tmp, path)


def col(n):
    from ..execmodel import col_letters
    return col_letters(n)


def enc_any(v):
    if type(v) is datetime.time:
        return 'Xtime:' + v.isoformat()
    return core.enc(v)


def outcome_any(fn):
    try:
        return enc_any(fn())
    except core.Unencodable:
        return 'EUnencodable'
    except Exception as e:  # noqa
        return 'E' + core.exc_class(e)


def replay(path):
    data = json.load(open(path))
    for case in data.get('failing_inputs', [])[:20]:
        print('replay case:', json.dumps(case, ensure_ascii=False, default=str)[:800])
    return 1 if data.get('failing_inputs') else 0
