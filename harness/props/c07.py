"""C07 — workbook text never becomes executable code."""
from __future__ import annotations

import ast
import itertools
import re
import json
import os
import shutil
import sys
import tempfile

from .. import core, realcode

ALPHA = ['\'', '"', '\\', '\n', '\t', '#', '{', '}', '%', '~', '?', '*', 'a', 'B', '1', '(', ')', '.', '_', '+', ' ', '=', ',', ';', '\r', '\x00', '\x1f', '\x7f', 'é']
CANARY = 'E2P_CANARY'
SET = "setattr (__import__ ('sys'),'%s',1)" % CANARY          # the space before ( passes the safety regex
PAYLOADS = [
    '{%s}' % SET, '{self.__class__.__name__}', '{{%s}}' % SET, '{0}{self}', "{__import__ ('sys').modules}",
    "'+%s+'" % SET, '"+%s+"' % SET, "\\'+%s+\\'" % SET, "\\\\'+%s+'" % SET, "'''+%s+'''" % SET, '\n%s\n#' % SET, "')\n        %s\n        ('" % SET,
    '{%s}' % SET, "'+str(%s)+'" % SET, "x' if %s else '" % SET, "'%s'" % SET, "\\", "\\'", "'\\", "a'\nb", "'; %s; '" % SET, "__import__ ('os').system ('true')",
    "'+%s)#\"" % SET, "\"+%s)#'" % SET, "'+%s+'\"" % SET, "\"'+%s,'" % SET, "')+%s#\"" % SET, "'+'4'+'2", "' + self.%s + '" % CANARY, "{titles}", "{0}", "%(x)s", "' # ", '" # ', "\\x27+%s+\\x27" % SET, "\\N{APOSTROPHE}+%s" % SET,
    # wildcard literals (PatternToken) with backslashes; texts that look like formulas after a blank
    'red,green ,blue', 'x,y', 'a , b', 'US$ 5', 'ok \U0001F600', '\U0001F4CA{x}', 'stored as _xlfn.IFS by Excel', '_xlfn.', '_xlws.FILTER', 'what?""', '*""', '""*', '?"', '"*"', 'a*""""b', "it's", 'say "hi"',
    'a?\\n', '*\\t', '?\\\\', '*\\x41', 'a*\\', '?\\', '~*\\', '*\\"', ' =1+1', '\n="a"&"b"', '  =A1*2 ', '\t=%s' % SET, ' =%s' % SET,
]


def canary_set():
    return hasattr(sys, CANARY)


def excel_literal(s):
    return '"' + s.replace('"', '""') + '"'


def module_constants(text):
    tree = ast.parse(text)
    return {n.value for n in ast.walk(tree) if isinstance(n, ast.Constant) and isinstance(n.value, str)}, tree


def method_body(tree, name):
    for n in ast.walk(tree):
        if isinstance(n, ast.FunctionDef) and n.name == name:
            return n.body[0].value if isinstance(n.body[0], ast.Return) else None
    return None


def run(tier, seed):
    chk = core.Check('C07', tier, seed)
    rng = chk.rng
    chk.rule = ('strings over an alphabet of quotes, backslash, newline, tab, control characters, # { } % ~ ? *, call syntax, plus injection payloads that set a canary attribute '
                'on the sys module if any workbook text is ever evaluated: exhaustive to length 2 (quick) / 3 (thorough) and random to length 14; planted in constant cells, '
                'plain text literals, literals next to operators, every criterion / pattern position (COUNTIFS, SUMIF, SUMIFS, AVERAGEIFS, SEARCH, MATCH, IF comparison, '
                'LEFT) and sheet titles; observed: the module parses, the planted text occurs as an ast.Constant, the member of a plain literal / constant is exactly that '
                'Constant, evaluation returns exactly the text, the canary is untouched after load and after evaluating every cell; safety check on and off through the '
                'Parser facade. repr() of every string vs the Lean model of repr (and the model\'s own literal round trip). distinct = distinct (string, placement)')
    chk.assumptions += ['CPython\'s repr / string-literal lexing are externals modelled in Lean for code points < 128 (and printable ones above); the str.format step substitutes the '
                        'three fields verbatim (Python does not re-scan substituted values)']
    chk.build = core.lean_build(['C07'], tier)
    if not chk.build.driver_ok:
        raise RuntimeError('driver did not build:\n' + chk.build.log[-2000:])
    if canary_set():
        delattr(sys, CANARY)
    m = realcode.mods()
    Cell = m['Cell']
    strings = list(PAYLOADS)
    for n in range(0, (2 if tier == 'quick' else 3) + 1):
        for tup in itertools.product(ALPHA[:16] if n == 3 else ALPHA, repeat=n):
            strings.append(''.join(tup))
    for _ in range(300 if tier == 'quick' else 6000):
        strings.append(''.join(rng.choice(ALPHA) for _ in range(rng.randint(3, 14))))
        if rng.random() < 0.3:
            strings.append(rng.choice(PAYLOADS) + ''.join(rng.choice(ALPHA) for _ in range(rng.randint(0, 3))))
    strings = list(dict.fromkeys(strings))
    # stream A: repr vs the Lean model
    cases = []
    for s in strings:
        if any(ord(c) > 127 and not c.isprintable() for c in s):
            continue
        cases.append(('qt ' + core.enc(s), core.enc(repr(s)), {'string': repr(s)}))
        if ast.literal_eval(repr(s)) != s:
            chk.mismatch('external:literal_eval', {'string': repr(s)})
    chk.judge('repr-model', cases, sample_cap=3)
    # stream B: end to end, in batches
    B = 40
    for k in range(0, len(strings), B):
        batch = strings[k:k + B]
        rows, plan = [], []
        for i, s in enumerate(batch):
            lit = excel_literal(s)
            # a text starting with '=' is a formula, not a constant: keep the planted constant a text
            const = s if not s.startswith('=') else 'x' + s
            row = [const, '=' + lit, '=A%d&%s' % (i + 1, lit), '=%s&"z"' % lit, '=IF(A%d=%s,1,2)' % (i + 1, lit), '=COUNTIFS(A1:A%d,%s)' % (len(batch), lit),
                   '=SUMIF(A1:A%d,%s,A1:A%d)' % (len(batch), lit, len(batch)), '=LEFT(%s,3)' % lit, '=SEARCH(%s,A%d)' % (lit, i + 1),
                   # a criterion assembled with & from the text and a cell / another literal
                   '=COUNTIFS(A1:A%d,%s&A%d)' % (len(batch), lit, i + 1), '=SUMIF(A1:A%d,%s&"",A1:A%d)' % (len(batch), lit, len(batch)),
                   '=SUMIFS(A1:A%d,A1:A%d,%s&"z")' % (len(batch), len(batch), lit), '=AVERAGEIFS(A1:A%d,A1:A%d,"<>"&%s)' % (len(batch), len(batch), lit),
                   # the text as the sheet-text argument of ADDRESS; one criterion literal that starts with a comparison operator
                   '=ADDRESS(1,1,1,TRUE,%s)' % lit, '=COUNTIFS(A1:A%d,%s)' % (len(batch), excel_literal('=' + s)),
                   '=SUMIF(A1:A%d,%s,A1:A%d)' % (len(batch), excel_literal('<>' + s), len(batch)), '=COUNTIFS(A1:A%d,%s)' % (len(batch), excel_literal('>=' + s))]
            rows.append(row)
            plan.append((s, const))
        sheets = [('S', rows)]
        try:
            text = realcode.translate(sheets)
        except Exception as e:  # noqa: a rejected workbook is fine; find which formula is rejected and keep the rest
            text = None
            kind = core.exc_class(e)
            if kind not in ('Parser', 'Cell', 'Safety'):
                chk.violation({'why': 'translation of planted text ends with a foreign exception', 'impl': 'E' + kind, 'strings': [repr(x) for x in batch][:5], 'stream': 'translate'})
        if text is None:
            # per string fallback: the string's whole row alone (every position), then constant + literal only
            for i, (s, const) in enumerate(plan):
                row = [f if not isinstance(f, str) or not f.startswith('=') else re.sub(r'A%d\b' % (i + 1), 'A1', f) for f in rows[i]]
                try:
                    text1 = realcode.translate([('S', [row])])
                except Exception as e1:  # noqa
                    if isinstance(e1.__cause__, SyntaxError):
                        chk.violation({'why': 'a planted text breaks the syntax of the generated module (the text is not carried as inert data)', 'string': repr(s),
                                       'error': str(e1)[:200], 'stream': 'module'})
                    one(chk, s, const)
                    continue
                verify(chk, text1, [('S', [row])], [(s, const)])
            continue
        verify(chk, text, sheets, plan)
    text_format_law(chk)
    titles(chk, strings, rng)
    facade(chk, strings, rng)
    if canary_set():
        chk.violation({'why': 'workbook text was executed (canary set) - not attributed to a single input', 'stream': 'canary'})
    return chk.finish()


def one(chk, s, const):
    lit = excel_literal(s)
    sheets = [('S', [[const, '=' + lit, '=A1&%s' % lit, '=%s&"z"' % lit]])]
    try:
        text = realcode.translate(sheets)
    except Exception as e:  # noqa
        kind = core.exc_class(e)
        chk.count('rejected:' + kind)
        if kind not in ('Parser', 'Cell', 'Safety'):
            chk.violation({'why': 'translation of planted text ends with a foreign exception', 'impl': 'E' + kind, 'string': repr(s), 'stream': 'translate'})
        else:
            # a constant text cell and a formula that is one text literal are always translatable: a rejection means the text was not carried as data
            chk.violation({'why': 'a workbook of one constant text and one plain text literal is rejected: the text is not carried as inert data', 'impl': 'E' + kind,
                           'error': str(e)[:200], 'string': repr(s), 'stream': 'rejected-literal'})
        return
    verify(chk, text, sheets, [(s, const)], cols=4)


def verify(chk, text, sheets, plan, cols=None):
    m = realcode.mods()
    Cell = m['Cell']
    try:
        consts, tree = module_constants(text)
    except SyntaxError as e:
        chk.violation({'why': 'the generated module does not parse', 'error': repr(e)[:200], 'strings': [repr(s) for s, _ in plan][:5], 'stream': 'module'})
        return
    try:
        cls = realcode.load_class(text)
    except Exception as e:  # noqa
        chk.violation({'why': 'loading the generated module fails', 'error': repr(e)[:200], 'strings': [repr(s) for s, _ in plan][:5], 'stream': 'module'})
        return
    if canary_set():
        delattr(sys, CANARY)
        chk.violation({'why': 'loading the generated module executed workbook text (canary set)', 'strings': [repr(s) for s, _ in plan][:8], 'stream': 'canary'})
    ex = realcode.executor_for(cls)
    ncols = cols or len(sheets[0][1][0])
    for i, (s, const) in enumerate(plan):
        chk.seen(('e2e', s))
        chk.count('planted')
        for c in range(ncols):
            got = core.outcome(lambda: ex.get_cell(Cell(0, c, i)).value)
            if canary_set():
                delattr(sys, CANARY)
                chk.violation({'why': 'evaluating a cell executed workbook text (canary set)', 'string': repr(s), 'column': c, 'formula': repr(sheets[0][1][i][c])[:200],
                               'stream': 'canary'})
            if c == 0 and got != core.enc(const):
                chk.violation({'why': 'a constant text cell does not evaluate to exactly the original string', 'string': repr(const), 'impl': got, 'stream': 'constant-value'})
            if c == 1 and got != core.enc(s):
                chk.violation({'why': 'a plain string literal does not evaluate to exactly the original string', 'string': repr(s), 'impl': got, 'stream': 'literal-value'})
            if c == 2 and got != core.enc(const + s):
                chk.violation({'why': 'cell & literal is not the cell text followed by exactly the literal', 'string': repr(s), 'impl': got, 'stream': 'literal-value'})
            if c == 13 and got != core.enc(repr(s) + '!$A$1'):
                chk.violation({'why': 'ADDRESS with the text as its sheet-text argument is not exactly the quoted text followed by the address', 'string': repr(s), 'impl': got,
                               'stream': 'literal-value'})
            if c == 3 and got != core.enc(s + 'z'):
                chk.violation({'why': 'literal & "z" is not exactly the literal followed by z', 'string': repr(s), 'impl': got, 'stream': 'literal-value'})
        if s not in consts or const not in consts:
            chk.violation({'why': 'the planted text does not occur as a string constant of the generated module', 'string': repr(s), 'stream': 'inert'})
        for c, want in ((0, const), (1, s)):
            body = method_body(tree, '_0_%d_%d' % (c, i))
            if not (isinstance(body, ast.Constant) and body.value == want):
                chk.violation({'why': 'the member of a constant / plain literal is not exactly one string constant', 'string': repr(want),
                               'ast': ast.dump(body)[:200] if body is not None else None, 'stream': 'inert'})


def text_format_law(chk):
    """field syntax of Python's str.format / % / f-strings written in the format argument of TEXT (a literal or a referenced text cell) is never interpreted"""
    probes = ['0.0 {0.__class__.__name__}', '{0.real.__class__.__mro__}', '0 {}', '{0!r}', '{0:>10}', '%(x)s', '{self}', '0.00{{}}', '{0.__class__.__init__.__globals__}']
    Cell = realcode.mods()['Cell']
    rows = [[p, '=TEXT(2.5,%s)' % excel_literal(p), '=TEXT(7,A%d)' % (i + 1)] for i, p in enumerate(probes)]
    try:
        ex = realcode.executor_for(realcode.load_class(realcode.translate([('S', rows)])))
    except Exception as e:  # noqa
        if core.exc_class(e) not in ('Parser', 'Cell'):
            chk.violation({'why': 'TEXT with field syntax in its format does not translate', 'impl': 'E' + core.exc_class(e), 'stream': 'text-format'})
        return
    leaks = ('float', 'int', 'class', 'object', 'ExcelInPython', 'globals', 'builtins')
    for i, p in enumerate(probes):
        for c in (1, 2):
            got = core.outcome(lambda: ex.get_cell(Cell(0, c, i)).value)
            chk.count('law:text-format')
            chk.seen(('text-format', p, c))
            val = core.dec(got) if not got.startswith('E') else None
            leaked = isinstance(val, str) and any(w in val and w not in p for w in leaks)
            if got.startswith('E') and got[1:] in ('ValueError', 'KeyError', 'IndexError', 'AttributeError', 'TypeError') or leaked:
                chk.violation({'why': 'field syntax in the format text of TEXT is interpreted (str.format): workbook text acts as code', 'format': p, 'formula': rows[i][c],
                               'impl': got if val is None else repr(val)[:200], 'stream': 'text-format'})


def titles(chk, strings, rng):
    """sheet titles (fast path: any characters)"""
    pool = [s for s in strings if s and len(s) < 20]
    rng.shuffle(pool)
    for k in range(0, min(len(pool), 240), 3):
        ts = list(dict.fromkeys(pool[k:k + 3]))
        sheets = [(t, [[i, '=A1+1']]) for i, t in enumerate(ts)]
        try:
            text = realcode.translate(sheets)
            consts, tree = module_constants(text)
            cls = realcode.load_class(text)
            inst = cls()
        except Exception as e:  # noqa
            kind = core.exc_class(e)
            if kind not in ('Parser', 'Cell', 'Safety'):
                chk.violation({'why': 'a workbook with unusual sheet titles does not translate / load', 'titles': [repr(t) for t in ts], 'error': repr(e)[:200], 'stream': 'titles'})
            continue
        chk.count('titles')
        chk.seen(('titles', tuple(ts)))
        if canary_set():
            delattr(sys, CANARY)
            chk.violation({'why': 'a sheet title was executed (canary set)', 'titles': [repr(t) for t in ts], 'stream': 'canary'})
        if inst.get_titles() != {t: i for i, t in enumerate(ts)}:
            chk.violation({'why': 'sheet titles are not carried verbatim', 'titles': [repr(t) for t in ts], 'impl': repr(inst.get_titles())[:200], 'stream': 'titles'})


def facade(chk, strings, rng):
    """full path through openpyxl and the Parser facade, safety check on and off"""
    m = realcode.mods()
    d = tempfile.mkdtemp(prefix='e2p_c07_')
    try:
        pool = [s for s in strings if s and all(c >= ' ' or c in '\n\t' for c in s) and '\r' not in s]   # openpyxl refuses other control characters
        rng.shuffle(pool)
        # texts that look like formulas after leading whitespace are always among those read through the real file reader
        always = [x for x in PAYLOADS if x.lstrip().startswith('=') and x in pool]
        pool = always + [x for x in pool if x not in always]
        batches = [pool[k:k + 6] for k in range(0, min(len(pool), 60), 6)]
        bi = 0
        while bi < len(batches):
            batch = batches[bi]
            bi += 1
            rows = [[(s if not s.startswith('=') else 'x' + s), '=' + excel_literal(s)] for s in batch]
            for safety in (True, False):
                try:
                    text, out = realcode.full_translate([('S', rows)], safety=safety, workdir=d)
                except Exception as e:  # noqa
                    kind = core.exc_class(e)
                    chk.count('facade:rejected:' + kind)
                    if kind not in ('Parser', 'Cell', 'Safety'):
                        chk.violation({'why': 'full-path translation of planted text ends with a foreign exception', 'impl': 'E' + kind, 'safety': safety, 'stream': 'facade'})
                    elif kind != 'Safety':
                        # constant texts and plain text literals are always translatable: find the string that is not carried as data
                        if len(batch) > 1:
                            batches.extend([[x] for x in batch])
                        else:
                            chk.violation({'why': 'a workbook of one constant text and one plain text literal, read from a real file, is rejected: the text is not carried as inert data',
                                           'string': repr(batch[0]), 'impl': 'E' + kind, 'error': str(e)[:200], 'safety': safety, 'stream': 'facade'})
                        break
                    continue
                chk.count('facade:accepted:safety=%s' % safety)
                try:
                    ex = m['Executor']().set_executed_class(class_file=out)
                except Exception as e:  # noqa
                    chk.violation({'why': 'the written class file does not load', 'error': repr(e)[:200], 'strings': [repr(x) for x in batch], 'safety': safety,
                                   'stream': 'facade'})
                    continue
                for i, s in enumerate(batch):
                    chk.seen(('facade', s, safety))
                    for c in (0, 1):
                        got = core.outcome(lambda: ex.get_cell(m['Cell'](0, c, i)).value)
                        want = core.enc(rows[i][0]) if c == 0 else core.enc(s)
                        if got != want:
                            chk.violation({'why': 'text read through openpyxl and the facade does not evaluate to exactly the original string', 'string': repr(s),
                                           'column': c, 'impl': got, 'safety': safety, 'stream': 'facade'})
                    if canary_set():
                        delattr(sys, CANARY)
                        chk.violation({'why': 'workbook text was executed through the facade (canary set)', 'string': repr(s), 'safety': safety, 'stream': 'canary'})
    finally:
        shutil.rmtree(d, ignore_errors=True)


def replay(path):
    data = json.load(open(path))
    for case in data.get('failing_inputs', [])[:20]:
        print('replay case:', json.dumps(case, ensure_ascii=False, default=str)[:800])
    return 1 if data.get('failing_inputs') else 0
