"""C20 — the importable runtime base class and the emitted runtime agree."""
from __future__ import annotations

import datetime
import inspect
import json
import re

from .. import core, realcode, extract

BLANK = ('blank',)
STRS = ['', 'a', 'abc', 'ABC', 'a??', 'a*b', '~?x', '[x]', 'a.b', '??', '*', '~*', 'x~', '#N/A', '#VALUE!', '7', '12.5', '-3', '1e3', 'TRUE',
        '2024-02-29', 'Hello World', 'a?c*', '(', '\\d', '>5', '<=3', '<>x', '=3', 'D', 'M', 'Y', 'YM', 'MD',
        # number-like texts with separators, signs, units; wildcard escapes; texts float() has surprises for
        '1,234', '1,234,567.89', '12,34', '1.234,5', '1 234', '1_234', '5%', '$5', '(5)', '+7', ' 7 ', '1e-3', '.5', '5.', 'nan', 'inf', '0x10',
        'a~~b', '~~', '~', 'a~', '**', '~**c', 'a\tb', 'two\nlines', "it's", 'q"q', '{x}', '%s']
NUMS = [0, 1, -1, 2, 3, 5, 10, 26, 27, 52, 100, 702, 703, 2.5, -2.5, 0.5, 1.005, 2.675, 1e3, 12345, -0.0001, 1900, 2024, 12, 13, 31, -5]
DATES = [datetime.datetime(2024, 2, 29), datetime.datetime(2023, 1, 31), datetime.datetime(1999, 12, 31, 23, 59, 59), datetime.datetime(2024, 3, 1),
         datetime.date(2024, 2, 29)]
OPS = ['>=', '>', '<=', '<', '==', '!=']


def gen_scalar(rng):
    r = rng.random()
    if r < 0.35:
        return rng.choice(NUMS)
    if r < 0.65:
        return rng.choice(STRS)
    if r < 0.75:
        return rng.choice(DATES)
    if r < 0.85:
        return rng.choice([True, False])
    if r < 0.93:
        return BLANK
    return None


def gen_list(rng, depth=2):
    n = rng.randint(0, 4)
    if depth <= 0 or rng.random() < 0.4:
        return [gen_scalar(rng) for _ in range(n)]
    return [gen_list(rng, depth - 1) if rng.random() < 0.6 else gen_scalar(rng) for _ in range(n)]


def gen_matrix(rng):
    h, w = rng.randint(1, 4), rng.randint(1, 3)
    kind = rng.choice(['num', 'str', 'mixed'])
    cell = {'num': lambda: rng.choice(NUMS), 'str': lambda: rng.choice(STRS), 'mixed': lambda: gen_scalar(rng)}[kind]
    rows = [[cell() for _ in range(w)] for _ in range(h)]
    if kind == 'num' and rng.random() < 0.5:
        rows.sort(key=lambda r: r[0])
    return rows


def gen_for(rng, pname):
    p = pname.lower()
    if rng.random() < 0.2:
        return rng.choice([gen_scalar(rng), gen_list(rng)])
    if p in ('operator',):
        return rng.choice(OPS)
    if 'lambda' in p or 'function' in p or p in ('when_error', 'condition'):
        v = gen_scalar(rng)
        return ('lambda', v, rng.random() < 0.2)
    if any(k in p for k in ('pattern', 'text', 'string', 'unit', 'str')):
        return rng.choice(STRS)
    if any(k in p for k in ('matrix', 'array', 'table', 'range')):
        return gen_matrix(rng)
    if any(k in p for k in ('list', 'arr', 'args', 'cells', 'holidays', 'subject', 'matrices')):
        return gen_list(rng)
    if any(k in p for k in ('date', 'start', 'end')):
        return rng.choice(DATES)
    if any(k in p for k in ('num', 'year', 'month', 'day', 'row', 'col', 'index', 'type', 'mode', 'digits', 'chars', 'count')):
        return rng.choice(NUMS + [None])
    return gen_scalar(rng)


def materialise(inst, v):
    if v is BLANK or v == BLANK:
        return inst.EmptyCell()
    if isinstance(v, tuple) and v and v[0] == 'crit':
        return inst._criterion(materialise(inst, v[1]))
    if isinstance(v, tuple) and v and v[0] == 'lambda':
        val, fails = materialise(inst, v[1]), v[2]
        if fails:
            return lambda: 1 / 0
        return lambda: val
    if isinstance(v, list):
        return [materialise(inst, x) for x in v]
    return v


def out(fn, *args):
    try:
        v = fn(*args)
    except RecursionError:
        return 'ERecursionError'
    except Exception as e:  # noqa
        return 'E' + core.exc_class(e) + ':' + type(e).__name__
    if callable(v):
        # a helper that returns a predicate (criteria): compare the predicates by their answers on a fixed probe
        probe = [0, 1, 5, 2.5, -3, 'apple', 'Apple', 'a*c', 'abc', '5', '', None, True, False, datetime.datetime(2024, 2, 29), '2024-02-29', 'x5']
        return 'Xcallable:' + ','.join(out(v, x)[:12] for x in probe)
    try:
        return core.enc(v)
    except core.Unencodable:
        return 'X' + type(v).__name__ + ':' + re.sub(r'0x[0-9a-f]+', '0x', repr(v))[:200]


def helper_names(inst):
    names = []
    for n in dir(type(inst)):
        if n.startswith('_') and not n.startswith('__') and not n.startswith('_abc') and callable(getattr(inst, n, None)) \
                and not re.match(r'_\d', n) and n not in ('_cell_preprocessor',):
            names.append(n)
    return names


def run(tier, seed):
    chk = core.Check('C20', tier, seed)
    rng = chk.rng
    chk.rule = ('Tie A: (name, normalised AST) tables of every helper of both runtime copies, compared by the kernel. Tie B / failing-input search: '
                'every same-named helper of an instance of a freshly generated class and of AbstractExcelInPython called on the same arguments '
                '(argument pools chosen by parameter name: numbers, texts incl. wildcard / regex-special / criterion texts, dates, booleans, blanks, '
                'None, nested lists, matrices, lambdas that return or fail); outcome = encoded value or exception type. distinct = distinct (helper, arguments)')
    chk.assumptions += ['two helpers with the same normalised AST in the same import environment compute the same results (CPython determinism): trusted, not proved',
                        'helpers reading the clock (_today) are compared by result type only']
    chk.build = core.lean_build(['C20'], tier, want_driver=False)
    a, b = realcode.runtime_instance(), realcode.abstract_instance()
    na, nb = set(helper_names(a)), set(helper_names(b))
    for n in sorted(na ^ nb):
        chk.violation({'why': 'helper offered by only one of the two runtime copies', 'helper': n,
                       'in_generated_class': n in na, 'in_abstract_class': n in nb, 'stream': 'names'})
    ft, fa, it, ia = extract.runtime_tables()
    differing = sorted(k for k in set(ft) | set(fa) if extract.is_helper(k) and ft.get(k) != fa.get(k))
    chk.info['helpers_compared'] = len(na & nb)
    chk.info['helpers_with_different_ast'] = differing
    base = 120 if tier == 'quick' else 3000
    for n in sorted(na & nb):
        fa_, fb_ = getattr(a, n), getattr(b, n)
        try:
            params = [p for p in inspect.signature(fa_).parameters.values()]
        except (TypeError, ValueError):
            continue
        suspect = any(d.split('.')[-1] == n or d.split('.')[0] == n for d in differing)
        rounds = base * (10 if suspect else 1)
        for _ in range(rounds):
            spec = []
            if n in ('_sumifs', '_countifs', '_averageifs') and rng.random() < 0.7 and hasattr(a, '_criterion') and hasattr(b, '_criterion'):
                # aligned columns and criteria built by the instance's own _criterion: (target, range, criterion, range, criterion, …)
                h = rng.randint(1, 5)
                column = lambda pool: [[rng.choice(pool)] for _ in range(h)]
                spec = [column([1, 2, 4, 8, 2.5, '16', BLANK])]
                for _ in range(rng.randint(1, 2)):
                    spec.append(column([1, 0, True, False, 2, 'x', 'apple', BLANK, 1.0, '1']))
                    spec.append(('crit', rng.choice([1, 0, True, False, '>0', '<>1', 'x', '=TRUE', 'apple', '<2', ''])))
                ra, rb = out(fa_, *materialise(a, spec)), out(fb_, *materialise(b, spec))
                chk.count('helper:' + n)
                chk.seen((n, repr(spec)))
                if ra != rb:
                    chk.violation({'why': 'same-named helpers of the generated class and of the abstract base class return different results', 'helper': n,
                                   'args': repr(spec)[:300], 'generated': ra[:200], 'abstract': rb[:200], 'stream': 'differential', 'fn': n})
                continue
            for p in params:
                if p.kind in (p.VAR_POSITIONAL, p.VAR_KEYWORD):
                    continue
                if p.default is not p.empty and rng.random() < 0.3:
                    break
                spec.append(gen_for(rng, p.name))
            ra, rb = out(fa_, *materialise(a, spec)), out(fb_, *materialise(b, spec))
            if 'today' in n:
                ra, rb = ra[:1], rb[:1]
            chk.count('helper:' + n)
            chk.count('outcome:' + ('exception' if ra.startswith('E') else 'value'))
            chk.seen((n, repr(spec)), nontrivial=not ra.startswith('ETypeError'))
            if ra != rb:
                chk.violation({'why': 'same-named helpers of the generated class and of the abstract base class return different results',
                               'helper': n, 'args': repr(spec), 'generated': ra, 'abstract': rb, 'stream': 'differential', 'fn': n})
            elif len(chk.samples) < 8 and not ra.startswith('E') and rng.random() < 0.05:
                chk.sample({'helper': n, 'args': repr(spec), 'both': ra})
    # the value class used by the helpers: EmptyCell dunder methods
    for opname in ('__eq__', '__ne__', '__lt__', '__le__', '__gt__', '__ge__', '__str__', '__repr__', '__hash__', '__bool__', '__int__', '__float__'):
        for v in NUMS[:12] + STRS[:8] + DATES[:2] + [True, False, None, BLANK]:
            fa_, fb_ = getattr(a.EmptyCell(), opname, None), getattr(b.EmptyCell(), opname, None)
            if fa_ is None and fb_ is None:
                continue
            args_a = [] if opname in ('__str__', '__repr__', '__hash__', '__bool__', '__int__', '__float__') else [materialise(a, v)]
            args_b = [] if not args_a else [materialise(b, v)]
            ra = out(fa_, *args_a) if fa_ else 'missing'
            rb = out(fb_, *args_b) if fb_ else 'missing'
            chk.count('EmptyCell.' + opname)
            chk.seen(('EmptyCell', opname, repr(v)))
            if ra != rb:
                chk.violation({'why': 'EmptyCell of the two runtime copies behaves differently', 'helper': 'EmptyCell.' + opname, 'args': repr(v),
                               'generated': ra, 'abstract': rb, 'stream': 'differential', 'fn': 'EmptyCell.' + opname})
    return chk.finish()


def replay(path):
    data = json.load(open(path))
    for case in data.get('failing_inputs', [])[:20]:
        print('replay case:', json.dumps(case, ensure_ascii=False, default=str)[:500])
    return 1 if data.get('failing_inputs') else 0
