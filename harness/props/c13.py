"""C13 — IF / IFS / IFERROR choose the right branch and contain errors."""
from __future__ import annotations

import json

from .. import core, realcode

CELLS = [1, 0, 5, None, '#N/A', '#NULL!', '=1/0', 'abc', '#DIV/0!', 7, '#VALUE!', '#REF!', '#NAME?', '#NUM!', True, False, 'x',
         # evaluations that fail with other exception classes (attribute, index, type) and texts that merely look like error values
         '=DAY("n/a")', '=LEFT("")', '="a"+1', '#42', '#TODO', '#N/A ', '#n/a', 'N/A', '#']
ENV = ['I1', 'I0', 'I5', 'B', core.enc('#N/A'), core.enc('#NULL!'), 'EZeroDivisionError', core.enc('abc'), core.enc('#DIV/0!'), 'I7',
       core.enc('#VALUE!'), core.enc('#REF!'), core.enc('#NAME?'), core.enc('#NUM!'), 'T', 'F', core.enc('x'),
       'EAttributeError', 'EIndexError', 'ETypeError', core.enc('#42'), core.enc('#TODO'), core.enc('#N/A '), core.enc('#n/a'), core.enc('N/A'), core.enc('#')]
NUM_CELLS, TXT_CELLS, ERR_CELLS, COND_CELLS = [0, 1, 2, 9], [7, 16, 20, 21, 22, 23, 24, 25], [4, 5, 6, 8, 10, 11, 12, 13, 17, 18, 19], [0, 1, 3, 14, 15]


class Gen:
    def __init__(self, rng, depth):
        self.rng, self.depth = rng, depth
        self.made = {}          # kind -> branching sub-expressions already used in this formula (repeated verbatim now and then)

    # each generator returns (excel_text, request_tokens)
    def lit_int(self):
        v = self.rng.choice([0, 1, 2, 3, 6, 10])
        return str(v), ['lit', 'I%d' % v]

    def ref(self, pool):
        i = self.rng.choice(pool)
        return 'A%d' % (i + 1), ['ref', str(i)]

    def leaf(self, kind):
        r = self.rng.random()
        if r < 0.12:
            return self.ref(ERR_CELLS)
        if kind == 'num':
            return self.lit_int() if r < 0.6 else self.ref(NUM_CELLS)
        if kind == 'txt':
            if r < 0.6:
                s = self.rng.choice(['ab', 'hello', 'Z'])
                return '"%s"' % s, ['lit', core.enc(s)]
            return self.ref(TXT_CELLS)
        if kind == 'cond':
            if r < 0.4:
                b = self.rng.random() < 0.5
                return ('TRUE' if b else 'FALSE'), ['lit', 'T' if b else 'F']
            return self.ref(COND_CELLS)
        return self.leaf(self.rng.choice(['num', 'txt', 'cond']))

    def expr(self, kind, d):
        rng = self.rng
        if d <= 0 or rng.random() < 0.15:
            return self.leaf(kind)
        if kind == 'any':
            kind = rng.choice(['num', 'num', 'txt', 'cond'])
        branchy = rng.random() < 0.6
        if branchy and self.made.get(kind) and rng.random() < 0.2:
            return rng.choice(self.made[kind])       # the same IF / IFS / IFERROR text once more, after others
        if branchy:
            out = self.branch(kind, d)
            self.made.setdefault(kind, []).append(out)
            return out
        return self.plain(kind, d)

    def branch(self, kind, d):
        rng = self.rng
        if True:
            which = rng.choice(['if3', 'if2', 'ifs', 'iferr'])
            if which == 'if3':
                c, t, f = self.expr('cond', d - 1), self.expr(kind, d - 1), self.expr(kind, d - 1)
                return 'IF(%s,%s,%s)' % (c[0], t[0], f[0]), ['if3'] + c[1] + t[1] + f[1]
            if which == 'if2':
                c, t = self.expr('cond', d - 1), self.expr(kind, d - 1)
                return 'IF(%s;%s)' % (c[0], t[0]), ['if2'] + c[1] + t[1]
            if which == 'ifs':
                n = rng.randint(1, 3)
                parts, toks = [], ['ifs', str(n)]
                for _ in range(n):
                    c, v = self.expr('cond', d - 1), self.expr(kind, d - 1)
                    parts += [c[0], v[0]]
                    toks += c[1] + v[1]
                return 'IFS(%s)' % ','.join(parts), toks
            a, b = self.expr(rng.choice([kind, 'any']), d - 1), self.expr(kind, d - 1)
            return 'IFERROR(%s,%s)' % (a[0], b[0]), ['iferr'] + a[1] + b[1]

    def plain(self, kind, d):
        rng = self.rng
        if kind == 'num':
            op = rng.choice(['add', 'mul', 'div', 'sum'])
            a, b = self.expr('num', d - 1), self.expr('num', d - 1)
            if op == 'div':
                b = rng.choice([('1', ['lit', 'I1']), ('0', ['lit', 'I0']), self.ref([0, 1])]) if rng.random() < 0.8 else b
                return '(%s/%s)' % (a[0], b[0]), ['div'] + a[1] + b[1]
            if op == 'sum':
                b = self.expr('any', d - 1) if rng.random() < 0.3 else b
                return 'SUM(%s,%s)' % (a[0], b[0]), ['sum'] + a[1] + b[1]
            return '(%s%s%s)' % (a[0], '+' if op == 'add' else '*', b[0]), [op] + a[1] + b[1]
        if kind == 'txt':
            if rng.random() < 0.5:
                a, b = self.expr('any', d - 1), self.expr('any', d - 1)
                return '(%s&%s)' % (a[0], b[0]), ['cat'] + a[1] + b[1]
            t, n = self.expr('txt', d - 1), self.expr('num', d - 1)
            return 'LEFT(%s,%s)' % (t[0], n[0]), ['left'] + t[1] + n[1]
        a, b = self.expr('num', d - 1), self.expr('num', d - 1)
        return '(%s=%s)' % (a[0], b[0]), ['eq'] + a[1] + b[1]


def canon_fail(got):
    return 'EFAIL' if got.startswith('E') else got


def run(tier, seed):
    chk = core.Check('C13', tier, seed)
    rng = chk.rng
    chk.rule = ('random nestings of IF (2 and 3 arguments) / IFS (1-3 pairs) / IFERROR to depth 3 (quick) / 4 (thorough) in operand and argument '
                'positions of + * / & = SUM LEFT, over cells holding numbers, blanks, booleans, text, every Excel error value and a failing '
                'formula (=1/0); evaluated through the real translator and class. distinct = distinct formulas; non-trivial = contains at least '
                'one branching function')
    chk.assumptions += ['operators in the fragment are fully parenthesised (operator precedence is property C01)',
                        'arithmetic in the fragment is on integers (exact division only)']
    chk.build = core.lean_build(['C13'], tier)
    if not chk.build.driver_ok:
        raise RuntimeError('driver did not build:\n' + chk.build.log[-2000:])
    depth = 3 if tier == 'quick' else 4
    n = 1500 if tier == 'quick' else 20000
    g = Gen(rng, depth)
    seen, items = set(), []
    fixed = [('IFERROR(5,(1/0))', ['iferr', 'lit', 'I5', 'div', 'lit', 'I1', 'lit', 'I0']),
             ('IFS(A1,1,A2,(1/0))', ['ifs', '2', 'ref', '0', 'lit', 'I1', 'ref', '1', 'div', 'lit', 'I1', 'lit', 'I0']),
             ('IFS(A2,(1/0),A1,7)', ['ifs', '2', 'ref', '1', 'div', 'lit', 'I1', 'lit', 'I0', 'ref', '0', 'lit', 'I7']),
             ('IFERROR(A6,9)', ['iferr', 'ref', '5', 'lit', 'I9']),
             ('IF(A2,(1/0))', ['if2', 'ref', '1', 'div', 'lit', 'I1', 'lit', 'I0'])]
    rep = ('IFS((A1=1),"big",TRUE,"small")', ['ifs', '2', 'eq', 'ref', '0', 'lit', 'I1', 'lit', core.enc('big'), 'lit', 'T', 'lit', core.enc('small')])
    oth = ('IFS((A2=1),"big",TRUE,"small")', ['ifs', '2', 'eq', 'ref', '1', 'lit', 'I1', 'lit', core.enc('big'), 'lit', 'T', 'lit', core.enc('small')])
    fixed.append(('((%s&%s)&%s)' % (rep[0], oth[0], rep[0]), ['cat', 'cat'] + rep[1] + oth[1] + rep[1]))      # the first IFS again after a different one
    # IF with literal TRUE / FALSE branches over conditions that are numbers, blanks and booleans (the result is the branch, never the condition)
    for ci in COND_CELLS + NUM_CELLS:
        for tb, fb in ((True, False), (False, True)):
            t1, t2 = ('TRUE', 'FALSE') if tb else ('FALSE', 'TRUE')
            e1, e2 = ('T', 'F') if tb else ('F', 'T')
            base = ('IF(A%d,%s,%s)' % (ci + 1, t1, t2), ['if3', 'ref', str(ci), 'lit', e1, 'lit', e2])
            fixed.append(base)
            fixed.append(('(%s&"!")' % base[0], ['cat'] + base[1] + ['lit', core.enc('!')]))
            fixed.append(('IF((%s=TRUE),"yes","no")' % base[0], ['if3', 'eq'] + base[1] + ['lit', 'T', 'lit', core.enc('yes'), 'lit', core.enc('no')]))
    # the condition / the guarded value refers to a cell in column IF (a column, not the function); the cell is blank like A4
    fixed.append(('IF((IF1=0),"z","nz")', ['if3', 'eq', 'ref', '3', 'lit', 'I0', 'lit', core.enc('z'), 'lit', core.enc('nz')]))
    fixed.append(('IFERROR((10/IF2),"n/a")', ['iferr', 'div', 'lit', 'I10', 'ref', '3', 'lit', core.enc('n/a')]))
    fixed.append(('(1+IF(IF2,100,IF((IF1=7),20,30)))', ['add', 'lit', 'I1', 'if3', 'ref', '3', 'lit', 'I100', 'if3', 'eq', 'ref', '3', 'lit', 'I7', 'lit', 'I20', 'lit', 'I30']))
    # conditions that START with a literal but are not a literal (A1 = 1, A2 = 0, A3 = 5): the whole condition decides
    E = core.enc
    fixed.append(('IF(1=A3,"one","other")', ['if3', 'eq', 'lit', 'I1', 'ref', '2', 'lit', E('one'), 'lit', E('other')]))
    fixed.append(('IF(5=A3,"five","other")', ['if3', 'eq', 'lit', 'I5', 'ref', '2', 'lit', E('five'), 'lit', E('other')]))
    fixed.append(('IF(0=A2,"zero","other")', ['if3', 'eq', 'lit', 'I0', 'ref', '1', 'lit', E('zero'), 'lit', E('other')]))
    fixed.append(('IF(0+A1,"rest","none")', ['if3', 'add', 'lit', 'I0', 'ref', '0', 'lit', E('rest'), 'lit', E('none')]))
    fixed.append(('IF(1*A2,"t","f")', ['if3', 'mul', 'lit', 'I1', 'ref', '1', 'lit', E('t'), 'lit', E('f')]))
    fixed.append(('IF(TRUE=A15,"t","f")', ['if3', 'eq', 'lit', 'T', 'ref', '14', 'lit', E('t'), 'lit', E('f')]))
    fixed.append(('IF(FALSE=A15,"t","f")', ['if3', 'eq', 'lit', 'F', 'ref', '14', 'lit', E('t'), 'lit', E('f')]))
    fixed.append(('(1+IF(0=A1,10,IF(1=A2,20,30)))', ['add', 'lit', 'I1', 'if3', 'eq', 'lit', 'I0', 'ref', '0', 'lit', 'I10', 'if3', 'eq', 'lit', 'I1', 'ref', '1', 'lit', 'I20', 'lit', 'I30']))
    fixed.append(('IFERROR(IF(0+A1,(1/0),"neg"),"err")', ['iferr', 'if3', 'add', 'lit', 'I0', 'ref', '0', 'div', 'lit', 'I1', 'lit', 'I0', 'lit', E('neg'), 'lit', E('err')]))
    fixed.append(('IF(0+A1,"only")', ['if2', 'add', 'lit', 'I0', 'ref', '0', 'lit', E('only')]))
    fixed.append(('IFS(0+A1,"first",TRUE,"second")', ['ifs', '2', 'add', 'lit', 'I0', 'ref', '0', 'lit', E('first'), 'lit', 'T', 'lit', E('second')]))
    for txt, toks in fixed:
        items.append((txt, toks))
        seen.add(txt)
    while len(items) < n:
        g.made = {}
        txt, toks = g.expr('any', depth)
        if txt in seen or not any(k in txt for k in ('IF(', 'IFS(', 'IFERROR(')):
            continue
        seen.add(txt)
        items.append((txt, toks))
    values = {(0, r): v for r, v in enumerate(CELLS)}
    # cross-check the environment the driver is told about
    env_real = realcode.eval_formulas(['=A%d' % (i + 1) for i in range(len(CELLS))], values)
    for i, (a, b) in enumerate(zip(env_real, ENV)):
        if a != b:
            # a referenced cell evaluates to something else than assumed when the generator was written (e.g. a division by zero that yields an error VALUE instead of
            # failing): the model is told what the cell really evaluates to; what the property fixes is judged on the formulas built over these cells
            chk.count('environment-differs:A%d' % (i + 1))
    env_now = list(env_real)
    cases = []
    B = 400
    for k in range(0, len(items), B):
        chunk = items[k:k + B]
        outs = realcode.eval_formulas(['=' + t for t, _ in chunk], values)
        for (txt, toks), got in zip(chunk, outs):
            req = 'br %d %s %s' % (len(env_now), ' '.join(env_now), ' '.join(toks))
            cases.append((req, got, {'formula': '=' + txt}))
            for fn in ('IF(', 'IFS(', 'IFERROR('):
                if fn in txt:
                    chk.count('contains:' + fn[:-1])
    chk.judge('branching', cases, canon=canon_fail, sample_cap=6)
    return chk.finish()


def replay(path):
    data = json.load(open(path))
    values = {(0, r): v for r, v in enumerate(CELLS)}
    rc = 0
    for case in data.get('failing_inputs', [])[:20]:
        f = case.get('formula')
        if f:
            got = realcode.eval_formulas([f], values)[0]
            print('replay %s -> impl %s (spec %s)' % (f, got, case.get('spec')))
            if case.get('spec') not in (None, '-') and canon_fail(got) != case['spec']:
                rc = 1
    return rc
