"""C01 — formula operators keep their Excel meaning (precedence, sign, %, &)."""
from __future__ import annotations

import itertools
import json

from .. import core, realcode

BIN = ['+', '-', '*', '/', '&', '=', '<>', '<', '<=', '>', '>=']
ASSIGN = [
    [2, 3, 5, 7, 11, 13, 17, 19],                       # distinct primes: different groupings give different values
    [-3, 0.5, 7, 2.25, -1.5, 11, 4, 0.125],             # signs and dyadic fractions
    ['ab', None, 'cd', 5, None, 'x', 2, 'ab'],          # texts and blanks
    [0, 1, 1, 2, 0, 3, 2, 1],                           # zeros and equal operands: division by zero, ties in comparisons
    [None, -1, -0.5, None, 3, -7, 0, None],             # blanks next to negative numbers and zero: a blank counts as 0 on either side of every operator
    [0, 'v1.0', False, '', 0.0, '2.0', 0, 'x.0'],       # falsy values (as OVERRIDES of non-zero cells) and texts that end in .0
    [None, '', 'a', None, '', 0, False, ' '],           # blanks next to the empty text, a text, zero and FALSE
    [3, 5, 2, 9, 4, 6, 8, 7],                           # numbers supplied as OVERRIDES of cells that are blank in the workbook
]


def shapes(max_tokens):
    """every valid token sequence of the operator grammar up to `max_tokens` tokens, operands as 'x'"""
    from functools import lru_cache

    @lru_cache(None)
    def post(n):          # operand with %s, or bracketed
        out = []
        if n >= 1:
            out.append(('x',))
        for k in range(1, n):
            for p in post(n - k) if k == 1 else []:
                pass
        # x %...%
        for k in range(1, n):
            if n - k == 1:
                out.append(('x',) + ('%',) * k)
        # ( cmp ) %*
        for inner in range(1, n - 1):
            for e in level(4, inner):
                for k in range(0, n - inner - 2 + 1):
                    if inner + 2 + k == n:
                        out.append(('(',) + e + (')',) + ('%',) * k)
        return tuple(dict.fromkeys(out))

    @lru_cache(None)
    def unary(n):
        out = list(post(n))
        for s in ('-', '+'):
            if n >= 2:
                for e in unary(n - 1):
                    out.append((s,) + e)
        return tuple(dict.fromkeys(out))

    OPS = {1: ['*', '/'], 2: ['+', '-'], 3: ['&'], 4: ['=', '<>', '<', '<=', '>', '>=']}

    @lru_cache(None)
    def level(k, n):
        if k == 0:
            return unary(n)
        out = list(level(k - 1, n))
        for left in range(1, n - 1):
            for l in level(k, left):
                for o in OPS[k]:
                    for r in level(k - 1, n - left - 1):
                        out.append(l + (o,) + r)
        return tuple(dict.fromkeys(out))
    res = []
    for n in range(1, max_tokens + 1):
        res += [s for s in level(4, n) if len(s) == n]
    return list(dict.fromkeys(res))


def instantiate(rng, shape, literal_prob=0.15):
    """-> (formula text, driver tokens, number of cell operands used)"""
    text, toks, k = [], [], 0
    for t in shape:
        if t == 'x':
            text.append('%s1' % 'ABCDEFGH'[k % 8])
            toks.append('a%d' % (k % 8))
            k += 1
        else:
            text.append(t)
            toks.append(t)
    return '=' + ''.join(text), toks, k


def run(tier, seed):
    chk = core.Check('C01', tier, seed)
    rng = chk.rng
    chk.rule = ('every valid token sequence of the operator grammar (operands, brackets, unary + -, postfix %, + - * / &, six comparisons) up to 5 tokens (quick) / 7 (thorough) '
                'and random chains to 25 tokens with redundant brackets and spaces, each under 7 operand assignments (distinct primes; signs and dyadic fractions; texts and '
                'blanks; zeros and ties; blanks next to negative numbers; falsy overrides and texts ending in .0; blanks next to the empty text), operands from workbook cells and from overrides; value through the real translator and class vs the Lean model of the grouping + '
                'evaluation and vs an independent recursive-descent reading of the same tokens (spec); numeric literals on a decimal grid vs the nearest double; malformed '
                'operator sequences are rejected. distinct = distinct (formula, assignment)')
    chk.assumptions += ['text forms under & follow Python str() for ints; floats and booleans under & are compared with the model only where it models them (the statement fixes no text form)',
                        'comparisons between operands of different kinds are outside C10\'s domain: spec "-" there']
    chk.build = core.lean_build(['C01'], tier)
    if not chk.build.driver_ok:
        raise RuntimeError('driver did not build:\n' + chk.build.log[-2000:])
    allshapes = shapes(5 if tier == 'quick' else 6)
    if tier == 'quick':
        rng.shuffle(allshapes)
        keep = [s for s in allshapes if len(s) <= 4] + [s for s in allshapes if len(s) == 5][:2500]
    else:
        keep = allshapes
    # random long chains
    extra = []
    for _ in range(400 if tier == 'quick' else 6000):
        n = rng.randint(6, 25)
        extra.append(tuple(random_chain(rng, n)))
    items = [instantiate(rng, s) for s in keep + extra]
    chk.info['shapes'] = {'enumerated': len(keep), 'random_chains': len(extra)}
    cases = []
    B = 400
    for ai, assign in enumerate(ASSIGN):
        values = {(c, 0): v for c, v in enumerate(assign) if v is not None}
        env = ' '.join('B' if v is None else core.enc(v) for v in assign)
        for k in range(0, len(items), B):
            chunk = items[k:k + B]
            formulas = [spaced(rng, f) if rng.random() < 0.2 else f for f, _, _ in chunk]
            if ai in (1, 5, 7):       # these assignments come from overrides on top of the first one (7: on top of BLANK cells)
                base = {(c, 0): v for c, v in enumerate(ASSIGN[0])} if ai != 7 else {}
                outs = realcode.eval_formulas(formulas, base, overrides=values, min_rows=2, min_fcol=9)
            else:
                outs = realcode.eval_formulas(formulas, values, min_rows=2, min_fcol=9)
            for (f, toks, _), g in zip(chunk, outs):
                cases.append(('op %d %s %s' % (len(assign), env, ' '.join(toks)), g, {'formula': f, 'assignment': ai, 'route': 'override' if ai in (1, 5, 7) else 'workbook'}))
                chk.count('assignment:%d' % ai)
    chk.judge('operators', cases, sample_cap=6)
    twin_sheets(chk, rng, items)
    # formulas sit in the column after the operands: eval_formulas puts them at column max+2; operands A1..H1 occupy row 1 only
    malformed(chk, rng)
    literals(chk, tier)
    text_literals(chk)
    return chk.finish()


def twin_sheets(chk, rng, items):
    """the same formula texts (unqualified references) on two sheets of ONE workbook whose operand cells differ: each sheet's formulas read their own sheet -
    every value equals the value of that formula in a workbook that holds that sheet alone"""
    m = realcode.mods()
    Cell = m['Cell']
    chunk = rng.sample(items, min(len(items), 240))
    formulas = [f for f, _, _ in chunk]
    a0, a2 = ASSIGN[0], ASSIGN[2]
    fcol = 9

    def rows_for(assign):
        rows = [[None] * (fcol + 1) for _ in range(max(2, len(formulas)))]
        for c, v in enumerate(assign):
            rows[0][c] = v
        for i, f in enumerate(formulas):
            rows[i][fcol] = f
        return rows
    alone = [realcode.eval_formulas(formulas, {(c, 0): v for c, v in enumerate(a) if v is not None}, min_rows=2, min_fcol=fcol) for a in (a0, a2)]
    try:
        cls = realcode.load_class(realcode.translate([('S', rows_for(a0)), ('Twin', rows_for(a2))]))
    except Exception as e:  # noqa
        chk.violation({'why': 'two sheets holding the same operator formulas do not translate as one workbook: %r' % (e,), 'stream': 'twin-sheets'})
        return
    ex = realcode.executor_for(cls)
    for si in (1, 0):
        for i, f in enumerate(formulas):
            got = core.outcome(lambda: ex.get_cell(Cell(si, fcol, i)).value)
            chk.count('law:twin-sheets')
            if got != alone[si][i]:
                chk.violation({'why': 'a formula evaluates differently when another sheet of the workbook holds the same formula text over other operands',
                               'formula': f, 'sheet': ['S', 'Twin'][si], 'operands_of_the_sheet': repr([a0, a2][si]), 'impl': got, 'sheet_alone': alone[si][i],
                               'stream': 'twin-sheets'})
                return


def random_chain(rng, n):
    """a valid token sequence of about n tokens"""
    def expr(budget, depth):
        out = []
        if rng.random() < 0.2:
            out.append(rng.choice(['-', '+']))
        if depth < 3 and budget > 4 and rng.random() < 0.25:
            inner = expr(rng.randint(1, budget - 2), depth + 1)
            out += ['('] + inner + [')']
        else:
            out.append('x')
        if rng.random() < 0.15:
            out.append('%')
        while len(out) < budget - 1 and rng.random() < 0.85:
            out.append(rng.choice(BIN if rng.random() < 0.5 else ['+', '-', '*', '/']))
            if rng.random() < 0.15:
                out.append('-')
            if depth < 3 and budget - len(out) > 4 and rng.random() < 0.2:
                out += ['('] + expr(rng.randint(1, max(1, budget - len(out) - 2)), depth + 1) + [')']
            else:
                out.append('x')
            if rng.random() < 0.1:
                out.append('%')
        return out
    return expr(n, 0)


def spaced(rng, f):
    out = []
    i = 1
    body = f[1:]
    toks = []
    j = 0
    while j < len(body):
        if body[j] in '<>' and j + 1 < len(body) and body[j + 1] in '=>':
            toks.append(body[j:j + 2]); j += 2
        elif body[j].isalpha():
            toks.append(body[j:j + 2]); j += 2
        else:
            toks.append(body[j]); j += 1
    return '=' + ''.join(t + (' ' if rng.random() < 0.4 else '') for t in toks)


def malformed(chk, rng):
    bad = ['=1+', '=*2', '=1 2', '=(1+2', '=1+2)', '=1++*2', '=%', '=1%%%(', '=()', '=1&', '=<2', '=1<>', '=(1+2)%(', '=1 (2)', '=A1 B1', '=1,2', '=+', '=-', '=(-)', '=2^3']
    outs = realcode.eval_formulas(bad, {(0, 0): 1, (1, 0): 2})
    for f, o in zip(bad, outs):
        chk.count('malformed')
        chk.seen(('malformed', f))
        if not (o.startswith('E') and o[1:] in ('Parser', 'Cell')):
            chk.violation({'why': 'a malformed operator sequence is not rejected with the parser exception', 'formula': f, 'impl': o, 'stream': 'malformed'})


def literals(chk, tier):
    texts = []
    digs = ['0', '1', '5', '9', '12', '007', '123456789', '999999999999999', '1234567890123456', '17976931348623157']
    fracs = ['', '.0', '.5', '.1', '.25', '.3', '.999', '.000001', '.1234567890123456', '.30000000000000004', '.05', '.005', '.015', '.2675']
    exps = ['', 'e0', 'e1', 'e5', 'e-1', 'e-3', 'e10', 'e-10', 'e22', 'e23', 'e-22', 'e100', 'e-100', 'e300', 'e-300', 'e308', 'e-320']
    for d in digs:
        for f in fracs:
            for e in (exps if tier == 'thorough' else exps[:9]):
                texts.append(d + f + e)
    texts += ['1.1e-1', '2.675', '1.005', '0.1', '0.2', '0.3', '4.35', '9007199254740993', '9007199254740992.5', '1.7976931348623157e308', '4.9e-324', '2.2250738585072014e-308']
    outs = realcode.eval_formulas(['=' + t for t in texts], {})
    for t, o in zip(texts, outs):
        chk.count('literal')
        chk.seen(('literal', t))
        try:
            want_v = float(t)
        except ValueError:
            continue
        if want_v in (float('inf'),):
            if not (o.startswith('E') and o[1:] == 'Parser'):
                chk.violation({'why': 'a literal beyond the double range is not rejected', 'literal': t, 'impl': o, 'stream': 'literals'})
            continue
        ok = False
        if o.startswith('I'):
            ok = float(int(o[1:])) == want_v and ('.' not in t)          # an integer literal stays an exact integer
            if 'e' in t and '.' not in t:
                ok = int(o[1:]) == int(t.split('e')[0]) * 10 ** int(t.split('e')[1]) if int(t.split('e')[1]) >= 0 else False
        elif o.startswith('R'):
            n, d = o[1:].split('/')
            ok = (int(n) / int(d)) == want_v and (int(n), int(d)) == want_v.as_integer_ratio() or (want_v == 0 and int(n) == 0)
        if not ok:
            chk.violation({'why': 'a numeric literal does not denote the double nearest to its decimal text', 'literal': t, 'impl': o, 'nearest': repr(want_v),
                           'stream': 'literals'})


def text_literals(chk):
    """text and boolean literals under & and the comparisons: a literal denotes exactly its text (inner blanks, doubled quotes, wildcards, digits)"""
    pct = ['5.6', '1.1', '0.7', '2.7', '33.3', '0.07', '12', '100', '0.125']
    po = realcode.eval_formulas(['=%s%%' % d for d in pct] + ['=A%d%%' % (i + 1) for i in range(len(pct))] + ['=%s%%=A%d%%' % (d, i + 1) for i, d in enumerate(pct)],
                                {(0, i): (float(d) if '.' in d else int(d)) for i, d in enumerate(pct)})
    for i, d in enumerate(pct):
        chk.count('text-literal')
        if po[i] != po[len(pct) + i] or po[2 * len(pct) + i] != 'T':
            chk.violation({'why': 'a percent applied to a numeric literal differs from the percent applied to a cell holding the same number', 'formula': '=%s%%' % d,
                           'literal': po[i], 'cell': po[len(pct) + i], 'stream': 'text-literals'})
    # long runs of one operator over values whose sum / product depends on the grouping: equal levels associate to the LEFT (cells, literals, overrides)
    import functools, operator as _op
    runs = [[0.1, 0.1, 0.2, 0.5], [0.1, 0.2, 0.3, 0.4, 0.5, 0.6], [0.1, 0.7, 0.3], [1.1, 1.1, 1.1, 1.1, 1.1], [3, 0.1, 0.1, 0.1, 0.1, 0.1, 0.1, 0.1],
            [0.3, 0.3, 0.3, 1e15], [7, 1e-16, 1e-16, 1e-16, 1e-16], [1.5e16, 1.3, 1.3, 1.3], [0.7, 0.1, 0.1, 0.1, 0.1, 0.1, 0.1, 0.1]]       # (whole numbers are exact integers here: left out)
    for sym, fn in (('+', _op.add), ('*', _op.mul), ('-', _op.sub)):
        for route in ('cell', 'literal', 'override'):
            forms, wants = [], []
            for r, vs in enumerate(runs):
                ops = ['%s%d' % ('ABCDEFGH'[i], r + 1) for i in range(len(vs))] if route != 'literal' else [repr(v).replace('e+', 'e') for v in vs]
                forms.append('=' + sym.join(ops))
                try:
                    wants.append(core.enc(functools.reduce(fn, vs)))
                except (OverflowError, core.Unencodable):
                    wants.append(None)          # infinite in Python: the property fixes nothing
            vals = {(i, r): v for r, vs in enumerate(runs) for i, v in enumerate(vs)}
            if route == 'override':
                outs = realcode.eval_formulas(forms, {k: 1 for k in vals}, overrides=vals, min_fcol=9)
            else:
                outs = realcode.eval_formulas(forms, vals if route == 'cell' else {}, min_fcol=9)
            for f, o, w, vs in zip(forms, outs, wants, runs):
                chk.count('text-literal')
                if w is not None and o != w:
                    chk.violation({'why': 'a run of one operator is not evaluated from the left', 'formula': f, 'operands': repr(vs), 'route': route, 'impl': o, 'want': w,
                                   'stream': 'left-to-right'})
    # text operands supplied by overrides are the operands: a text that reads as a number stays the text it is under &
    tov = ['007', '0042', '1e3', ' 12 ', '5', '-0', '1_0', 'TRUE', '']
    o1 = realcode.eval_formulas(['=A%d&"-x"' % (i + 1) for i in range(len(tov))] + ['=A%d&A%d' % (i + 1, i + 1) for i in range(len(tov))], {(0, i): 'w' for i in range(len(tov))},
                                overrides={(0, i): t for i, t in enumerate(tov)}, min_fcol=2)
    for i, t in enumerate(tov):
        chk.count('text-literal')
        if o1[i] != core.enc(t + '-x') or o1[len(tov) + i] != core.enc(t + t):
            chk.violation({'why': 'a text supplied by an override is not the operand of &', 'override': repr(t), 'impl': [o1[i], o1[len(tov) + i]], 'want': t + '-x', 'stream': 'text-overrides'})
    texts = ['US$ ', '$', 'a,b ,c', 'a', 'a  b', ' a', 'a ', 'a\tb', 'two\nlines', 'it\'s', 'q"q', '"', '""', '*"', '"*', '?"x"', 'a*"b', 'v1.0', '2.0', '007', '1e3', '', 'TRUE', 'x~*', '*', 'a?c']
    lit = lambda t: '"' + t.replace('"', '""') + '"'
    formulas, wants = [], []
    for t in texts:
        formulas += ['=' + lit(t), '=%s&"!"' % lit(t), '="<"&%s&">"' % lit(t), '=%s=%s' % (lit(t), lit(t)), '=%s&%s' % (lit(t), lit(t))]
        wants += [core.enc(t), core.enc(t + '!'), core.enc('<' + t + '>'), 'T', core.enc(t + t)]
    for a, b in (('a  b', 'a b'), ('a', 'a '), ('x', ' x'), ('*"', '*'), ('v1.0', 'v1'), ('a\tb', 'a b')):
        formulas += ['=%s=%s' % (lit(a), lit(b)), '=%s<>%s' % (lit(a), lit(b))]
        wants += ['F', 'T']
    formulas += ['=TRUE&"x"', '=FALSE&"x"', '=TRUE=TRUE', '=TRUE<>FALSE', '=TRUE()&"x"']
    wants += [core.enc('Truex'), core.enc('Falsex'), 'T', 'T', core.enc('Truex')]
    outs = realcode.eval_formulas(formulas, {})
    for f, o, w in zip(formulas, outs, wants):
        chk.count('text-literal')
        chk.seen(('text-literal', f))
        if o != w:
            chk.violation({'why': 'a text / boolean literal under & or a comparison does not denote exactly its text', 'formula': f, 'impl': o, 'want': w, 'stream': 'text-literals'})


def replay(path):
    data = json.load(open(path))
    rc = 0
    for case in data.get('failing_inputs', [])[:20]:
        print('replay case:', json.dumps(case, ensure_ascii=False, default=str)[:600])
        rc = 1
    return rc
