"""C06 — translation is total: a loadable Python class or a library exception."""
from __future__ import annotations

import json
import os
import shutil
import sys
import tempfile
import time

from .. import core, realcode, gramgen
from . import c05

LIB = {'Parser', 'Safety', 'Cell', 'Executor'}
BROKEN_AT_EVAL = {'NameError', 'SyntaxError', 'UnboundLocalError'}

ADVERSARIAL = ['=A0', '=A1:A0', '=AAAA1', '=XFE1', '=ZZZZ1:A1', '=Nope!A1', "='No pe'!A1", '=TRUE1', '=1e5', '=1E2', '=1.5e-3', '="it\'s"', '="a\\"',
               '="a\\\\"', '="tab\there"', '="{x}"', '="%s"', '="{0}{titles}"', '=IFS(1)', '=IFS(1,2,3)', '=INDEX(A1:B2&A1:B2,1)', '=INDEX(A1:A2&B1:B2&A1:A2,2)',
               '=INDEX(A1:B2,1,1,1)', '=SUM(A1:B2:C3)', '=A1:B2:C3', '=$A1', '=S!A1', '=1.', '=.5', '=1..2', '=00012', '=99999999999999999999999', '=1e999', '=1.5e999',
               '=1e-999', '=DATE(99999,1,1)', '=COLUMN(A1:B2)', '=COLUMN()', '=ADDRESS(0,0)', '=TODAY(1)', '=TEXT(1,"0")', '=VALUE("x")', '=VLOOKUP(1,A1,1)',
               '=A1:A', '=A:A1', '=1:1', '=A', '=A1B2', '=SUMX(1)', '=SUM', '=SUM(', '=IF(,,)', '=IF(1,,2)', '=""', '="""', "='a'", '=#REF!', '=A1#', '=@A1',
               '=[1]S!A1', '={1,2}', '=--1', '=2^3', '=true', '=sum(1,2)', '=A1.', '=(A1,B2)', '=((1)', '=(1))', '=()', '=', '=)', '==1', '=1=', '=,', '=%', '=&',
               '="line\nbreak"', '=MATCH(1,A1:A3)', '=XMATCH(1,A1:A3)', '=COUNT(-1)', '=COUNT((A1))', '=SUMIF(A1:A2,">1",B1)', '=SUMIFS(A1:A2,A1:A2,">1")',
               '=COUNTIFS(A1:A2,">1",B1:B3,"x")', '=AVERAGEIFS(A1:A2,B1:B2,"x")', '=NETWORKDAYS(A1,A2)', '=DATEDIF(A1,A2,"Q")', '=EDATE("x",1)', '=LEFT()', '=MID("a")',
               '=ROUND(1)', '=ROUNDUP(1,)', '=ROUNDDOWN(1)', '=CONCATENATE()', '=CONCATENATE("a")', '=AND()', '=OR(1)', '=MIN()', '=MAX(A1:B2)', '=AVERAGE("x")',
               '=SEARCH("a")', '=IFERROR(1)', '=IFERROR(1,2,3)', '=YEAR()', '=DAY(1,2)', '=EOMONTH(A1)', '=VLOOKUP(1,A1:B2,5)', '=INDEX(A1:B2,9)', '=ADDRESS(1,99999)',
               '=SUMIF(A1:B2,10,A:A)', '=SUMIF(A1:A2,1,B:B)', '=SUMIF(A:A,1,B2)', '=SUMIF(A1:A2,">0",B:C)', '=SUMIF(A:B,1,B2)', '=SUMIFS(A:A,B1:B2,1)', '=COUNTIFS(A:A,1,B1:B2,2)',
               '=AVERAGEIFS(A1:A2,B:B,1)', '=VLOOKUP(1,A:B,2)', '=INDEX(A:B,1,1)', '=MATCH(1,A:A)', '=SUM(A:A,B1)', '=A:A+1', '=A:A%',
               '=SUM(COLUMN())', '=MAX(1,COLUMN())', '=SUM(COLUMN(B1))', '=IF(COLUMN()>1,1,2)', '=COLUMN()&"x"', '=AND(COLUMN())', '=CONCATENATE(COLUMN(),COLUMN(A1))',
               '=SUM(B:C3)', '=COUNT(B:C3)', '=B:C3', '=SUM(A2:B)', '=INDEX(B:C3,1,1)', '=SUMIF(B:B3,">1")']
TITLES = ['S', 'Sheet 2', "it's", 'A1', 'SUM', 'Лист', 'x!y', '{0}', "quote'\"", 'a\\b', '1st', 'Data_2', '\U0001F4CA Report', '表', 'tab\there']
CONSTANTS = [0, -1, 2 ** 70, 1.5, -0.0, 1e300, True, False, '', 'x', "it's", 'a\\', '{x}', '{titles}', 'tab\t', 'nl\n', 'eval(1)', 'é✓', "'''", '"""', '\\n']


PROBE = [('Main', [['=B1*5', 2, '=SUM(A1:B1)']])]


def outcome_of_translate(sheets, entry):
    try:
        return 'ok', realcode.translate(sheets, entry=entry)
    except RecursionError:
        return 'ERecursionError', None
    except Exception as e:  # noqa
        return 'E' + core.exc_class(e), None


def retry_outcome(sheets, entry):
    """two consecutive get_translation() calls on one parser: -> (outcome 1, outcome 2) with outcome = 'T<sha>' | 'E<class>' | 'N' (None returned)"""
    import hashlib
    m = realcode.mods()
    excel = realcode.make_excel(sheets)
    Excel = m['Excel']
    orig = Excel.__dict__['parse']
    Excel.parse = classmethod(lambda cls, path: excel)
    outs = []
    try:
        p = m['Parser']().set_excel_file_path('<memory>')
        if entry is not None:
            p.set_entrypoint_cell(m['Cell'](*entry))
        for _ in range(2):
            try:
                t = p.get_translation()
                outs.append('N' if t is None else 'T' + hashlib.sha256(t.encode('utf-8')).hexdigest()[:12])
            except RecursionError:
                outs.append('ERecursionError')
            except Exception as e:  # noqa
                outs.append('E' + core.exc_class(e))
    finally:
        Excel.parse = orig
    return outs


def check_class(chk, text, sheets, entry, what):
    """compiles, defines the class with the workbook's titles and sizes, one evaluable member per translated cell"""
    try:
        cls = realcode.load_class(text)
    except SyntaxError as e:
        chk.violation({'why': 'the generated class does not compile', 'input': what, 'error': repr(e)[:200], 'stream': 'load'})
        return None
    except Exception as e:  # noqa
        chk.violation({'why': 'loading the generated class fails', 'input': what, 'error': repr(e)[:200], 'stream': 'load'})
        return None
    inst = cls()
    titles = {t: i for i, (t, _) in enumerate(sheets)}
    sizes = [{'last_column': max([len(r) for r in rows] or [0]), 'last_row': len(rows)} for _, rows in sheets]
    if inst.get_titles() != titles or inst.get_sheets_size() != sizes:
        chk.violation({'why': 'titles / sizes of the generated class differ from the workbook', 'input': what, 'titles': repr(inst.get_titles())[:200],
                       'sizes': repr(inst.get_sheets_size())[:200], 'stream': 'titles-sizes'})
    return cls


def run(tier, seed):
    chk = core.Check('C06', tier, seed)
    rng = chk.rng
    chk.rule = ('(1) random derivations of the repository\'s grammar and mutants placed in a workbook, full translate -> compile -> exec -> evaluate: outcome classes '
                '(value / library exception / foreign exception / class that does not load / member that refers to nothing); (2) a fixed adversarial list (bad '
                'addresses, unknown titles, quotes and backslashes and braces in literals, wrong arities, truncated and empty formulas); (3) unusual sheet titles x every '
                'constant type; (4) nesting of brackets / IF / mixed functions to depth 12 with a step counter on CompositeBaseToken._get and a wall-clock bound; '
                '(5) dependency chains of 50..2000 cells through the Parser facade; (6) class_file vs class_object executors on every cell; (7) the Lean interpreter '
                'with the proved depth bound 6n+6 on the real token lists (never out of depth); (8) brackets / operator chains of every kind / signs / percents / nested '
                'functions / argument lists of 30..3000 elements and numeric / text literals of up to 100000 characters, each through the Parser facade in a worker process '
                'with a 60 s limit: class that loads and evaluates, or library exception. distinct = distinct inputs')
    chk.assumptions += ['wall-clock time and the interpreter recursion limit are runtime facts: termination and the depth bound are proved for the parser model, steps and time are '
                        'measured on the real code (partial for the "never hangs" clause)',
                        'exceptions raised when a member is EVALUATED (1/0, text arithmetic, …) are results of the formula, not of translation; only NameError / SyntaxError / '
                        'UnboundLocalError at evaluation count as a member that is not evaluable']
    chk.build = core.lean_build(['C06'], tier)
    if not chk.build.driver_ok:
        raise RuntimeError('driver did not build:\n' + chk.build.log[-2000:])
    core.import_repo()
    m = realcode.mods()
    Cell = m['Cell']
    values = {(0, 0): 1, (1, 0): 2, (0, 1): 3, (1, 1): 'x', (2, 2): 2.5, (0, 2): None}

    def sheet_with(formula):
        rows = [[None] * 4 for _ in range(4)]
        for (c, r), v in values.items():
            rows[r][c] = v
        rows[3][3] = formula
        return [('S', rows)]

    # (1) + (2)
    n = 1200 if tier == 'quick' else 25000
    formulas = list(ADVERSARIAL)
    seen = set(formulas)
    while len(formulas) < n:
        toks = gramgen.sentence(rng)
        if len(toks) > 60:
            continue
        for variant in (toks, c05.mutate(rng, toks)):
            f = gramgen.render(rng, variant)
            if f not in seen:
                seen.add(f)
                formulas.append(f)
    peg_cases, memo_cases = [], []
    probe_base = outcome_of_translate(PROBE, None)
    from excel2pycl.src.tokens.composite_base_token import CompositeBaseToken
    get_calls = [0]
    counted_hook = hasattr(CompositeBaseToken, '_get') and hasattr(CompositeBaseToken, '_MEMO')
    nclasses = len(gramgen.tables()['rules'])
    if counted_hook:
        orig_get = CompositeBaseToken._get.__func__

        def counted_get(cls, *a, **k):
            get_calls[0] += 1
            return orig_get(cls, *a, **k)
        setattr(CompositeBaseToken, '_get', classmethod(counted_get))
    for f in formulas:
        sheets = sheet_with(f)
        t0 = time.time()
        out, text = outcome_of_translate(sheets, (0, 3, 3))
        dt = time.time() - t0
        chk.count('translate:' + out)
        chk.seen(('formula', f))
        if dt > 5:
            chk.violation({'why': 'translation of one formula took more than 5 s', 'formula': f, 'seconds': round(dt, 1), 'stream': 'time'})
        if out != 'ok':
            if out[1:] not in LIB:
                chk.violation({'why': 'translation ends with a foreign exception', 'formula': f, 'impl': out, 'stream': 'translate-outcome'})
            elif sum(map(ord, f)) % 3 == 0:
                # asking again without changing anything: the same library exception, never None / a foreign exception / some earlier text
                o1, o2 = retry_outcome(sheets, (0, 3, 3))
                chk.count('retry-after-failure')
                if o1 != o2:
                    chk.violation({'why': 'a translation that failed answers differently when asked again (nothing was changed in between)', 'formula': f,
                                   'first': o1, 'second': o2, 'stream': 'retry'})
                # ... and the NEXT workbook is translated as if the failure had not happened: a small probe workbook (one sheet) right after a formula of a
                # two-sheet workbook was rejected gives the class it gave at the start - one member per cell of the probe, none for cells it does not hold
                two = [('Main', [[1, 2], [3, f]]), ('Data', [[5, 6, 7]] * 8)]
                if outcome_of_translate(two, (0, 1, 1))[0] != 'ok' or True:
                    now = outcome_of_translate(PROBE, None)
                    chk.count('probe-after-failure')
                    if now != probe_base:
                        chk.violation({'why': 'after a formula was rejected, the next workbook (a one-sheet probe: A1 = B1*5, B1 = 2, C1 = SUM(A1:B1)) is not translated into the class '
                                              'it is translated into at the start: members / code left over from the rejected formula', 'rejected_formula': f[:300],
                                       'probe_now': (now[0], (now[1] or '')[-400:]), 'stream': 'probe-after-failure'})
        else:
            cls = check_class(chk, text, sheets, (0, 3, 3), f)
            if cls is not None:
                ev = core.outcome(lambda: realcode.executor_for(cls).get_cell(Cell(0, 3, 3)).value)
                chk.count('evaluate:' + (ev if ev.startswith('E') else 'value'))
                if ev.startswith('E') and ev[1:] in BROKEN_AT_EVAL:
                    chk.violation({'why': 'a translated member refers to something that does not exist / is not valid code', 'formula': f, 'impl': ev, 'stream': 'evaluable'})
        # (7) the Lean interpreter with the proved depth bound
        get_calls[0] = 0
        pout, classes, _ = c05.real_parse(f)
        if classes is not None and not pout.startswith('E'):
            peg_cases.append(('pg %d EntryPointToken %s' % (6 * len(classes) + 6, ' '.join(classes)), pout, {'formula': f}))
            if counted_hook:
                # (8) the MEMOISED interpreter (Model/PegMemo.lean): the same outcome and exactly as many executions of `_get` as the real parser made
                memo_cases.append(('pm %d EntryPointToken %s' % (6 * len(classes) + 6, ' '.join(classes)), '%s #%d' % (pout, get_calls[0]), {'formula': f}))
                chk.count('memo:get-calls', get_calls[0])
                if get_calls[0] > nclasses * (len(classes) + 1):
                    chk.violation({'why': 'the parser executed `_get` more often than there are (class, position) pairs: the memo table does not hold', 'formula': f[:300],
                                   'get_calls': get_calls[0], 'bound': nclasses * (len(classes) + 1), 'stream': 'parse-steps'})
    if counted_hook:
        setattr(CompositeBaseToken, '_get', classmethod(orig_get))
    chk.judge('parse-with-proved-depth', peg_cases, sample_cap=3)
    chk.judge('memoised-parse-and-get-calls', memo_cases, sample_cap=3)
    for c in chk.mismatches:
        pass
    titles_constants(chk, rng)
    nesting(chk, tier)
    chains(chk, tier)
    file_vs_object(chk, rng)
    deep(chk, tier)
    return chk.finish()


def deep_cases(tier):
    sizes = [60, 150, 199, 200, 201, 260, 400] if tier == 'quick' else [30, 60, 100, 150, 180, 195, 198, 199, 200, 201, 202, 210, 260, 330, 400, 700, 1200, 3000]
    shapes = {
        'brackets': lambda d: '=' + '(' * d + '1' + ')' * d,
        'sum-chain': lambda d: '=' + '+'.join(['1'] * d),
        'ref-chain': lambda d: '=' + '-'.join(['A1'] * d),
        'mul-chain': lambda d: '=' + '*'.join(['2'] * d),
        'div-chain': lambda d: '=' + '/'.join(['1'] * d),
        'concat-chain': lambda d: '=' + '&'.join(['"a"'] * d),
        'compare-chain': lambda d: '=' + '='.join(['1'] * d),
        'mixed-chain': lambda d: '=' + ''.join('%d%s' % (i % 7 + 1, '+-*/&<'[i % 6]) for i in range(d)) + '1',
        'signs': lambda d: '=' + '-' * d + '1',
        'percents': lambda d: '=1' + '%' * d,
        'if-nest': lambda d: '=' + 'IF(A1>0,' * d + '1' + ',2)' * d,
        'fn-nest': lambda d: '=' + 'SUM(1,ROUND(' * d + '1' + ',1))' * d,
        'args': lambda d: '=SUM(' + ','.join(['1'] * d) + ')',
        'concat-args': lambda d: '=CONCATENATE(' + ','.join(['"a"'] * d) + ')',
        'unclosed': lambda d: '=' + '(' * d + '1',
        # the same depth INSIDE an argument (arguments of most functions become members of their own)
        'concat-chain-in-sum': lambda d: '=SUM(' + '&'.join(['"a"'] * d) + ')',
        'sum-chain-in-max': lambda d: '=MAX(1,' + '+'.join(['1'] * d) + ')',
        'brackets-in-if': lambda d: '=IF(A1>0,' + '(' * d + '1' + ')' * d + ',2)',
        'mixed-chain-in-ifs': lambda d: '=IFS(A1>0,' + ''.join('%d%s' % (i % 7 + 1, '+-*/&<'[i % 6]) for i in range(d)) + '1)',
        'compare-chain-in-countifs': lambda d: '=COUNTIFS(A1:A2,' + '='.join(['1'] * d) + ')',
        'ref-chain-in-index': lambda d: '=INDEX(A1:B2,' + '-'.join(['A1'] * d) + ',1)',
        'concat-chain-in-iferror': lambda d: '=IFERROR(LEFT(' + '&'.join(['"a"'] * d) + ',2),"x")',
    }
    cases = [(name, d, mk(d)) for name, mk in shapes.items() for d in sizes]
    literals = ['=0e999999999', '=0e' + '9' * 5000, '=1e999999999', '=1e-999999999', '=0.0e999999999', '=' + '1' * 310, '=' + '1' * 4300, '=' + '1' * 4301, '=' + '1' * 5000,
                '=' + '0' * 5000, '=' + '0' * 5000 + '7', '=' + '0' * 5000 + '1e2', '=1e' + '0' * 5000 + '2', '=1e-' + '0' * 5000, '=' + '1' * 5000 + '.5', '=1.' + '1' * 5000,
                '=0.' + '0' * 5000 + '1', '=' + '9' * 309, '=1' + '0' * 308, '=1' + '0' * 308 + 'e0', '=1e308', '=1.8e308', '=17976931348623158' + '0' * 292,
                '="' + 'a' * 100000 + '"', '="' + '""' * 50000 + '"', '=' + ' ' * 100000 + '1', '=A' + '1' * 5000, '=' + 'A' * 5000 + '1', "='" + 'x' * 5000 + "'!A1"]
    chains = [('chain-' + direction, n, {'chain': [direction, n]}) for direction in ('row', 'column') for n in ([150, 1200] if tier == 'quick' else [150, 600, 1200, 3000])]
    return cases + [('literal', i, f) for i, f in enumerate(literals)] + chains


def deep(chk, tier):
    """deep nesting, long operator chains, huge literals: through the Parser facade in a worker process that is killed when one
    workbook takes longer than the limit (a hang inside one C call cannot be interrupted in-process)"""
    import subprocess
    limit = 60
    cases = deep_cases(tier)
    env = dict(os.environ)
    worker = [sys.executable, os.path.join(os.path.dirname(os.path.dirname(os.path.abspath(__file__))), 'c06_worker.py')]
    proc = None
    import select

    def start():
        return subprocess.Popen(worker, stdin=subprocess.PIPE, stdout=subprocess.PIPE, stderr=subprocess.DEVNULL, text=True, env=env)
    try:
        for name, d, f in cases:
            if proc is None or proc.poll() is not None:
                proc = start()
            chk.count('deep:' + name)
            chk.seen(('deep', name, d))
            t0 = time.time()
            proc.stdin.write(json.dumps(f if isinstance(f, dict) else {'formula': f}) + '\n')
            proc.stdin.flush()
            ready, _, _ = select.select([proc.stdout], [], [], limit)
            if isinstance(f, dict):
                short = 'a running total of %d cells along one %s (A1 = 1, every next cell = the previous one + 1)' % (f['chain'][1], f['chain'][0])
            else:
                short = f if len(f) < 120 else f[:60] + ' … ' + f[-30:] + ' (%d characters)' % len(f)
            if not ready:
                proc.kill()
                proc.wait()
                proc = None
                chk.count('deep-outcome:hang')
                chk.violation({'why': 'translation does not end within %d s' % limit, 'shape': name, 'size': d, 'formula': short, 'stream': 'deep-hang'})
                continue
            line = proc.stdout.readline()
            if not line:
                proc = None
                chk.count('deep-outcome:crash')
                chk.violation({'why': 'the interpreter died while translating / loading (stack overflow?)', 'shape': name, 'size': d, 'formula': short, 'stream': 'deep-crash'})
                continue
            out = json.loads(line)
            dt = time.time() - t0
            chk.info.setdefault('deep', {})['%s/%s' % (name, d)] = dict(out, seconds=round(dt, 2))
            tr = out['translate']
            chk.count('deep-outcome:' + (tr if tr != 'ok' else 'class'))
            if tr != 'ok':
                if tr[1:] not in LIB:
                    chk.violation({'why': 'translation ends with a foreign exception', 'shape': name, 'size': d, 'formula': short, 'impl': tr, 'stream': 'deep-translate'})
            elif out.get('load') != 'ok':
                chk.violation({'why': 'the returned class does not load', 'shape': name, 'size': d, 'formula': short, 'impl': out.get('load'), 'stream': 'deep-load'})
            elif not isinstance(f, dict) and out.get('evaluate', '').startswith('E') and out['evaluate'][1:] in BROKEN_AT_EVAL | {'RecursionError'}:
                chk.violation({'why': 'the member of a deeply nested formula cannot be evaluated', 'shape': name, 'size': d, 'formula': short, 'impl': out.get('evaluate'),
                               'stream': 'deep-evaluate'})
    finally:
        if proc is not None and proc.poll() is None:
            try:
                proc.stdin.close()
            except Exception:
                pass
            proc.kill()
            proc.wait()


def titles_constants(chk, rng):
    m = realcode.mods()
    for k in range(len(TITLES)):
        ts = TITLES[k:] + TITLES[:k]
        sheets = []
        for i, t in enumerate(ts[:4]):
            rows = [[rng.choice(CONSTANTS) for _ in range(3)] for _ in range(3)]
            if i == 0:
                rows[0][0] = 7
                rows[2][2] = '=A1+1'
            sheets.append((t, rows))
        out, text = outcome_of_translate(sheets, None)
        chk.count('titles:' + out)
        chk.seen(('titles', repr(ts[:4])))
        if out != 'ok':
            if out[1:] not in LIB:
                chk.violation({'why': 'translation of a workbook with unusual titles / constants ends with a foreign exception', 'titles': ts[:4], 'impl': out, 'stream': 'titles'})
            continue
        cls = check_class(chk, text, sheets, None, repr(ts[:4]))
        if cls is None:
            continue
        ex = realcode.executor_for(cls)
        for s, (t, rows) in enumerate(sheets):
            for r, row in enumerate(rows):
                for c, v in enumerate(row):
                    if isinstance(v, str) and v.startswith('='):
                        continue
                    got = core.outcome(lambda: ex.get_cell(m['Cell'](t, c, r)).value)
                    want = 'B' if v is None else core.enc(v)
                    chk.count('constants')
                    if got != want:
                        chk.violation({'why': 'a constant cell does not evaluate to the stored value', 'title': t, 'cell': (c, r), 'stored': repr(v), 'impl': got,
                                       'stream': 'constants'})


def nesting(chk, tier):
    from excel2pycl.src.tokens.composite_base_token import CompositeBaseToken
    counter = {'n': 0}
    # the un-memoised parse step is `_get` (behind the memo of `get`); a tree without it is counted at `get` itself
    hook = '_get' if hasattr(CompositeBaseToken, '_get') else 'get'
    orig = getattr(CompositeBaseToken, hook).__func__
    chk.count('nesting:hook:' + hook)

    def counted(cls, *a, **k):
        counter['n'] += 1
        return orig(cls, *a, **k)
    setattr(CompositeBaseToken, hook, classmethod(counted))
    try:
        g = gramgen.tables()
        nclasses = len(g['rules'])
        depth = 12
        shapes = {
            'brackets': lambda d: '=' + '(' * d + '1' + ')' * d,
            'if': lambda d: '=' + 'IF(A1>0,' * d + '1' + ',2)' * d,
            'mixed': lambda d: '=' + 'SUM(1,ROUND(' * d + '1' + ',1))' * d,
            'iferror': lambda d: '=' + 'IFERROR(LEFT(' * d + '"ab"' + ',1),"x")' * d,
            'ops': lambda d: '=' + '+'.join('(A1*%d-B1)' % i for i in range(1, 4 * d)),
            # malformed nesting: the inner part fails, every alternative retries it (without a memo of failures: exponential)
            'unclosed': lambda d: '=' + '(' * (d + 2) + '1',
            'unclosed-if': lambda d: '=' + 'IF(A1>0,' * d + '1',
            'dangling': lambda d: '=' + '(' * d + '1+' + ')' * d,
        }
        for name, mk in shapes.items():
            for d in range(1, depth + 1):
                f = mk(d)
                rows = [[1, 2], [None, f]]
                counter['n'] = 0
                t0 = time.time()
                out, text = outcome_of_translate([('S', rows)], (0, 1, 1))
                dt = time.time() - t0
                ntok = len(c05.split_texts(f))
                chk.count('nesting:' + name)
                chk.seen(('nesting', name, d))
                chk.info.setdefault('nesting_steps', {})['%s/%d' % (name, d)] = {'tokens': ntok, 'get_calls': counter['n'], 'seconds': round(dt, 3)}
                if out != 'ok' and out[1:] not in LIB:
                    chk.violation({'why': 'translation of a nested formula ends with a foreign exception', 'formula': f[:200], 'impl': out, 'stream': 'nesting'})
                if counter['n'] > nclasses * (ntok + 1):
                    chk.violation({'why': 'the parser evaluated more (class, position) pairs than exist: it re-parses the same span', 'formula': f[:200],
                                   'get_calls': counter['n'], 'bound': nclasses * (ntok + 1), 'stream': 'parse-steps'})
                if dt > 5:
                    chk.violation({'why': 'translation of a nested formula took more than 5 s', 'formula': f[:200], 'seconds': round(dt, 1), 'stream': 'time'})
                if counter['n'] > 4 * nclasses * (ntok + 1) or dt > 5:
                    break           # growth beyond the bound is established for this shape; deeper nesting only takes longer (this loop runs in-process)
    finally:
        setattr(CompositeBaseToken, hook, classmethod(orig))


def chains(chk, tier):
    m = realcode.mods()
    d = tempfile.mkdtemp(prefix='e2p_c06_')
    try:
        for n in ([50, 150, 400] if tier == 'quick' else [50, 100, 150, 200, 400, 1000, 2000]):
            for direction in ('forward', 'backward'):
                if direction == 'backward':
                    rows = [['=A%d+1' % (i + 2)] for i in range(n)] + [[1]]
                else:
                    rows = [[1]] + [['=A%d+1' % (i + 1)] for i in range(n)]
                t0 = time.time()
                try:
                    text, out = realcode.full_translate([('S', rows)], workdir=d)
                    res = 'ok'
                except RecursionError:
                    res = 'ERecursionError'
                except Exception as e:  # noqa
                    res = 'E' + core.exc_class(e)
                chk.count('chain:%s:%s' % (direction, res))
                chk.seen(('chain', n, direction))
                if res != 'ok' and res[1:] not in LIB:
                    chk.violation({'why': 'a long dependency chain ends with a foreign exception', 'cells': n, 'direction': direction, 'impl': res, 'stream': 'chains'})
                if time.time() - t0 > 60:
                    chk.violation({'why': 'translation of a dependency chain took more than 60 s', 'cells': n, 'stream': 'time'})
    finally:
        shutil.rmtree(d, ignore_errors=True)


def file_vs_object(chk, rng):
    m = realcode.mods()
    d = tempfile.mkdtemp(prefix='e2p_c06_')
    try:
        for k in range(4):
            rows = [[rng.choice([1, 2.5, 'x', True, None]) for _ in range(3)] for _ in range(3)]
            rows.append(['=A1+1', '=SUM(A1:C3)', '=IF(A1>1,"a","b")'])
            rows.append(['=A4&"z"', '=LEFT("hello",2)', '=ROUND(B4/3,2)'])
            # ragged rows: openpyxl's read-only rows end at their own last cell; references inside the sheet's width but past a short row read as blank
            rows.append([7])
            rows.append([1, 2, 3, 4, 5])
            rows.append(['=B6+1', '=SUM(A6:E6)', '=C6&"x"', '=COUNT(A6:E7)', '=INDEX(A6:E7,1,4)'])
            sheets = [('Main', rows), ('Other sheet', [['=Main!A1', 5]]), ('Empty sheet', []), ('\U0001F4CA Report', [[1]])]
            try:
                text, out = realcode.full_translate(sheets, workdir=d)
            except Exception as e:  # noqa
                if core.exc_class(e) not in LIB:
                    chk.violation({'why': 'full-path translation ends with a foreign exception', 'impl': repr(e)[:200], 'stream': 'file-vs-object'})
                continue
            exf = m['Executor']().set_executed_class(class_file=out)
            exo = m['Executor']().set_executed_class(class_object=realcode.load_class(text))
            for s, (t, rs) in enumerate(sheets):
                for r in range(len(rs)):
                    for c in range(len(rs[r])):
                        a = core.outcome(lambda: exf.get_cell(m['Cell'](s, c, r)).value)
                        b = core.outcome(lambda: exo.get_cell(m['Cell'](s, c, r)).value)
                        chk.count('file-vs-object')
                        chk.seen(('fvo', k, s, c, r))
                        if a != b:
                            chk.violation({'why': 'the class behaves differently when loaded from the written file and when used as a class object',
                                           'cell': (s, c, r), 'file': a, 'object': b, 'stream': 'file-vs-object'})
            # a second pair of executors on the same file / the same class object, after the first pair was given an override far outside the used range:
            # whatever the first pair did to itself must not show in the second, whichever way the class was loaded
            cls_obj = realcode.load_class(text)
            for label, make in (('file', lambda: m['Executor']().set_executed_class(class_file=out)),
                                ('object', lambda: m['Executor']().set_executed_class(class_object=cls_obj))):
                first = make()
                first.set_cells([m['Cell']('Main', 9, 14, 42)])
                first.get_cell(m['Cell']('Main', 0, 0))
                second = make()

                def shape(ex):
                    g = ex.get_sheet('Main')
                    return 'G%dx%d' % (len(g), len(g[0]) if g else 0), core.outcome(lambda: ex.get_cell(m['Cell']('Main', 9, 14)).value)
                got = core.outcome(lambda: repr(shape(second)))
                want = core.outcome(lambda: repr(shape(m['Executor']().set_executed_class(class_object=realcode.load_class(text)))))
                chk.count('file-vs-object:fresh-after-use')
                if got != want:
                    chk.violation({'why': 'an executor made after another executor of the same class was used does not start from the translated workbook',
                                   'loaded_as': label, 'impl': got, 'fresh_class': want, 'stream': 'file-vs-object'})
    finally:
        shutil.rmtree(d, ignore_errors=True)


def replay(path):
    data = json.load(open(path))
    for case in data.get('failing_inputs', [])[:20]:
        print('replay case:', json.dumps(case, ensure_ascii=False, default=str)[:800])
    return 1 if data.get('failing_inputs') else 0
