"""C11 — aggregates fold exactly the numeric cells of their arguments."""
from __future__ import annotations

import datetime
import json

from .. import core, realcode


class EmptyCell:       # encodes as the blank object (core.enc looks at the type name)
    pass


BLANK = EmptyCell()
COARSE = [0, 1, 2, 3, 7, 10, -1, -4, 100, 2.5, 0.25, -1.5, 1024.125, 3.0, 1e3, 0.5, 12345678, -0.75]
# small dyadic values with more than 15 significant decimal digits: every sum of a workbook of them fits in 53 bits (|sum| < 2^8, steps of 2^-44), so it is
# exact in any order - and a total that were rounded to 15 digits would differ
FINE = [1 + 2.0 ** -40, 2 + 2.0 ** -42, 0.5 + 2.0 ** -44, 3 - 2.0 ** -41, 1, 2, 0.5, -1.5, 0.25, 0, -1]
NUMS = list(COARSE)          # the pool of the current workbook (one workbook at a time): COARSE or FINE, never mixed (a mix would make partial sums inexact)
TEXTS = ['x', 'abc', '7', '12', '', 'TRUE', '-3', '1.5', '#N/A ', '#42', '#TODO', '#n/a', ' ', '   ']
OTHER = [True, False, None, None, None]
DATES = [datetime.datetime(2024, 2, 29), datetime.datetime(1999, 12, 31, 23, 59)]
ERRS = ['#N/A', '#DIV/0!']


def cell_value(rng, with_dates, with_errs):
    r = rng.random()
    if r < 0.5:
        return rng.choice(NUMS)
    if r < 0.68:
        return rng.choice(TEXTS)
    if r < 0.9:
        return rng.choice(OTHER)
    if with_dates and r < 0.95:
        return rng.choice(DATES)
    if with_errs and r < 0.99:
        return rng.choice(ERRS)
    return rng.choice(NUMS)


def col_letter(c):
    return 'ABCDEFGHIJ'[c]


class Book:
    """two sheets of planted contents; formulas live on sheet 0 to the right of the data"""

    def __init__(self, rng, with_dates=False, with_errs=False):
        self.rng = rng
        NUMS[:] = FINE if rng.random() < 0.3 else COARSE
        self.w = [rng.randint(2, 5), rng.randint(1, 4)]
        self.h = [rng.randint(2, 7), rng.randint(1, 5)]
        self.title1 = rng.choice(['Other', 'Other sheet', 'Data_2'])
        self.data = [[[cell_value(rng, with_dates, with_errs) for _ in range(self.w[s])] for _ in range(self.h[s])] for s in (0, 1)]

    def val(self, s, c, r):
        if r < self.h[s] and c < self.w[s]:
            v = self.data[s][r][c]
            return BLANK if v is None else v
        return BLANK

    def area(self, kind=None):
        """-> (text, rows) with rows the list of rows the area denotes (row-major)"""
        rng = self.rng
        s = 0 if rng.random() < 0.75 else 1
        pre = '' if s == 0 else ("'%s'!" % self.title1 if (' ' in self.title1 or rng.random() < 0.5) else self.title1 + '!')
        kind = kind or rng.choice(['row', 'col', 'rect', 'rect', 'wholecol', 'single', 'beyond'])
        W, H = self.w[s], self.h[s]
        if kind == 'wholecol':
            c1 = rng.randrange(W)
            c2 = rng.randrange(c1, W)
            nrows = H if s == 1 else self.nrows0
            rows = [[self.val(s, c, r) for c in range(c1, c2 + 1)] for r in range(nrows)]
            return '%s%s:%s' % (pre, col_letter(c1), col_letter(c2)), rows
        c1, r1 = rng.randrange(W), rng.randrange(H)
        if kind == 'row':
            c2, r2 = rng.randrange(c1, W), r1
        elif kind == 'col':
            c2, r2 = c1, rng.randrange(r1, H)
        elif kind == 'single':
            c2, r2 = c1, r1
        elif kind == 'beyond':
            c2, r2 = min(c1 + rng.randint(0, 2), W), r1 + rng.randint(0, 3) + (H - r1 if rng.random() < 0.5 else 0)
        else:
            c2, r2 = rng.randrange(c1, W), rng.randrange(r1, H)
        d = lambda: '$' if rng.random() < 0.15 else ''
        text = '%s%s%s%s%d:%s%s%s%d' % (pre, d(), col_letter(c1), d(), r1 + 1, d(), col_letter(c2), d(), r2 + 1)
        rows = [[self.val(s, c, r) for c in range(c1, c2 + 1)] for r in range(r1, r2 + 1)]
        return text, rows

    def cellref(self):
        rng = self.rng
        s = 0 if rng.random() < 0.8 else 1
        pre = '' if s == 0 else "'%s'!" % self.title1
        c, r = rng.randrange(self.w[s] + 1), rng.randrange(self.h[s] + 1)
        return '%s%s%d' % (pre, col_letter(c), r + 1), self.val(s, c, r)


def fmt_num(v):
    return repr(v) if isinstance(v, int) else ('%r' % v)


def gen_formula(book, rng):
    fn = rng.choice(['SUM', 'SUM', 'AVERAGE', 'MIN', 'MAX', 'COUNT', 'COUNT', 'COUNTBLANK', 'AND', 'OR'])
    nargs = rng.choice([1, 1, 2, 2, 3, 4])
    parts, args = [], []
    matrices, scal, cells = [], [], []
    for _ in range(nargs):
        r = rng.random()
        if r < 0.7 or fn == 'COUNTBLANK':
            t, rows = book.area()
            parts.append(t)
            args.append(rows)
            matrices.append(rows)
        elif r < 0.85:
            t, v = book.cellref()
            parts.append(t)
            args.append(v)
            cells.append(v)
        else:
            if fn == 'COUNT' and rng.random() < 0.4:
                # scalar arguments that are not literals: function calls, arithmetic, signed and bracketed values
                t, v = rng.choice([('SUM(1,2)', 3), ('1+1', 2), ('-1', -1), ('(2.5)', 2.5), ('5%', 0.05), ('2*3', 6), ('"a"&"b"', 'ab'), ('MIN(4,2)', 2)])
                parts.append(t)
                args.append(v)
                scal.append(v)
                continue
            if fn == 'COUNT':
                v = rng.choice([1, 2.5, 40, True, False, '7', 'x', '12'])
            elif fn in ('AND', 'OR'):
                v = rng.choice([1, 0, True, False, 2.5])
            else:
                v = rng.choice([1, 2.5, 40, 0.125, 1000])
            parts.append('TRUE' if v is True else 'FALSE' if v is False else '"%s"' % v if isinstance(v, str) else fmt_num(v))
            args.append(v)
            scal.append(v)
    sep = rng.choice([',', ';'])
    text = '=%s(%s)' % (fn, sep.join(parts))
    if fn == 'COUNT':
        req = 'ag count %s %s %s' % (core.enc(matrices), core.enc(scal), core.enc(cells))
    else:
        req = 'ag %s %s' % (fn.lower(), core.enc(args))
    return fn, text, req


def canon_for(fn):
    if fn in ('MIN', 'MAX'):
        def c(got):
            if got.startswith('I'):
                return 'Q%s/1' % got[1:]
            if got.startswith('R'):
                return 'Q' + got[1:]
            return got
        return c
    return None


def run(tier, seed):
    chk = core.Check('C11', tier, seed)
    rng = chk.rng
    chk.rule = ('workbooks of two sheets with planted contents (ints, dyadic floats, negatives, text, numeric text, empty text, booleans, '
                'blanks; one stream with date-times and error values) x formulas SUM/AVERAGE/MIN/MAX/COUNT/COUNTBLANK/AND/OR over 1-4 arguments: '
                'areas of every shape (row, column, rectangle, single, beyond the used range, whole column, other sheet, $ forms), cell '
                'references and scalar literals, both separators; evaluated through the real translator and class, compared with the Lean model '
                '(what the helpers compute on the denoted cells) and the spec (fold over the numeric cells); the same argument lists through the '
                'helpers of both runtime copies; split law SUM(X,Y)=SUM(X)+SUM(Y) on the real code. distinct = distinct (workbook, formula)')
    chk.assumptions += ['float summands are dyadic with bounded exponent so that every partial sum is exact (sum() is compensated on CPython >= 3.12, plain before; '
                        'they agree exactly on such inputs; driver flag allExact, else the case is outside model and spec)',
                        'dates inside areas and scalar text/boolean arguments of SUM/AVERAGE/MIN/MAX: the statement is silent, compared with the model only',
                        'AND/OR: truth value of numbers, booleans and blanks (blank = 0 = false); text operands compared with the model only']
    chk.build = core.lean_build(['C11'], tier)
    if not chk.build.driver_ok:
        raise RuntimeError('driver did not build:\n' + chk.build.log[-2000:])
    nbooks = 25 if tier == 'quick' else 400
    per = 60
    for b in range(nbooks):
        special = (b % 5 == 4)
        book = Book(rng, with_dates=special, with_errs=special)
        book.nrows0 = max(book.h[0], per)
        items, seen = [], set()
        while len(items) < per:
            fn, text, req = gen_formula(book, rng)
            if text in seen:
                continue
            seen.add(text)
            items.append((fn, text, req))
        values = {(c, r): book.data[0][r][c] for r in range(book.h[0]) for c in range(book.w[0]) if book.data[0][r][c] is not None}
        outs = realcode.eval_formulas([t for _, t, _ in items], values, extra_sheets=[(book.title1, book.data[1])], min_rows=per, min_fcol=book.w[0] + 2)
        # formulas sit in column fcol = w0 + 1 of sheet 0 and make the sheet `per` rows high: whole-column areas of sheet 0 see `nrows0` rows
        by_fn = {}
        for (fn, text, req), got in zip(items, outs):
            by_fn.setdefault(fn, []).append((req, got, {'formula': text, 'fn': fn, 'book': b}))
            chk.count('fn:' + fn)
        for fn, cases in by_fn.items():
            chk.judge('e2e-' + fn + ('-special' if special else ''), cases, canon=canon_for(fn), sample_cap=1)
        # split law on the real code: SUM(X,Y) = SUM(X)+SUM(Y), COUNT likewise
        laws = []
        from fractions import Fraction

        def exact_total(rows_list):
            q = Fraction(0)
            for rows in rows_list:
                for row in rows:
                    for v in row:
                        if type(v) in (int, float):
                            q += Fraction(v)
            return q

        def representable(q):
            try:
                return Fraction(float(q)) == q
            except OverflowError:
                return False
        while len(laws) < 40:
            (tx, rx), (ty, ry) = book.area(), book.area()
            # the law is about exact sums: it is only stated where the three totals are doubles (then no summation order can matter)
            if not (representable(exact_total([rx])) and representable(exact_total([ry])) and representable(exact_total([rx, ry]))):
                chk.count('law:split:skipped-inexact')
                continue
            laws += ['=SUM(%s,%s)' % (tx, ty), '=SUM(%s)+SUM(%s)' % (tx, ty), '=COUNT(%s,%s)' % (tx, ty), '=COUNT(%s)+COUNT(%s)' % (tx, ty)]
        twin_sheets_law(chk, rng, b)
        if b == 0:
            file_route_law(chk)
            falsy_overrides_law(chk, b)
            forms = ['=OR(INDEX(A1:B3,0,1))', '=OR(IF(C1,A1:A3,B1:B3))', '=AND(INDEX(A1:B3,0,2))', '=AND(IF(C1,B1:B3,A1:A3),C1)', '=OR(A1:A3)', '=AND(B1:B3)', '=OR(INDEX(A1:B3,0,2))']
            wants = ['F', 'F', 'F', 'F', 'F', 'F', 'T']
            outs2 = realcode.eval_formulas(forms, {(0, 0): 0, (0, 1): 0, (0, 2): 0, (1, 0): 1, (1, 1): 0, (1, 2): 2, (2, 0): True}, min_fcol=4)
            for f, o, w in zip(forms, outs2, wants):
                chk.count('law:area-from-function')
                if o != w:
                    chk.violation({'why': 'AND / OR over an area delivered by INDEX / IF is not the conjunction / disjunction of its cells', 'formula': f, 'impl': o, 'want': w,
                                   'stream': 'area-from-function'})
        if special:
            text_is_ignored_law(chk, rng, book, b)
        lo = realcode.eval_formulas(laws, values, extra_sheets=[(book.title1, book.data[1])], min_rows=per, min_fcol=book.w[0] + 2)
        for i in range(0, len(laws), 2):
            chk.count('law:split')
            chk.seen(('split', b, laws[i]))
            if lo[i] != lo[i + 1] and not special:
                chk.violation({'why': 'the result depends on how the cells are split into areas', 'formula': laws[i], 'other': laws[i + 1],
                               'impl': lo[i], 'impl_other': lo[i + 1], 'stream': 'split-law'})
    helpers(chk, tier)
    return chk.finish()


def helpers(chk, tier):
    """the same helpers called directly, on both runtime copies (the abstract class is what a hand-written subclass uses)"""
    rng = chk.rng
    n = 400 if tier == 'quick' else 6000
    for name, inst in (('template', realcode.runtime_instance()), ('abstract', realcode.abstract_instance())):
        cases = {}
        for _ in range(n):
            nargs = rng.randint(1, 3)
            args = []
            for _ in range(nargs):
                if rng.random() < 0.7:
                    h, w = rng.randint(1, 4), rng.randint(1, 3)
                    args.append([[conv(inst, cell_value(rng, False, rng.random() < 0.05)) for _ in range(w)] for _ in range(h)])
                else:
                    args.append(conv(inst, rng.choice(NUMS)))
            enc_args = core.enc(args)
            fl = inst._flatten_list(args)
            for fn, call in (('sum', lambda: inst._sum(inst._only_numeric_list(fl))), ('average', lambda: inst._average(inst._only_numeric_list(fl))),
                             ('min', lambda: inst._min(fl)), ('max', lambda: inst._max(inst._only_numeric_list(fl))), ('countblank', lambda: inst._count_blank(fl)),
                             ('and', lambda: inst._and(fl)), ('or', lambda: inst._or(fl))):
                cases.setdefault(fn, []).append(('ag %s %s' % (fn, enc_args), core.outcome(call), {'fn': fn, 'copy': name}))
        for fn, cs in cases.items():
            chk.judge('helper-%s-%s' % (name, fn), cs, canon=canon_for(fn.upper()), sample_cap=1)


def conv(inst, v):
    return inst.EmptyCell() if v is None else v


def text_is_ignored_law(chk, rng, book, b):
    """SUM / AVERAGE / MAX / COUNT ignore text cells of an area whatever the text says (text_bool_blank_ignored): a text that looks like an error value changes nothing"""
    data0 = [[('zzz' if v in ERRS else v) for v in row] for row in book.data[0]]
    if data0 == book.data[0]:
        return
    forms = []
    for _ in range(6):
        t, rows = book.area(rng.choice(['col', 'rect', 'row']))
        if '!' in t:
            continue
        for fn in ('SUM', 'AVERAGE', 'MAX', 'COUNT'):
            forms.append('=%s(%s)' % (fn, t))
    if not forms:
        return
    vals = lambda d: {(c, r): d[r][c] for r in range(len(d)) for c in range(len(d[r])) if d[r][c] is not None}
    a = realcode.eval_formulas(forms, vals(book.data[0]), min_rows=10, min_fcol=book.w[0] + 2)
    z = realcode.eval_formulas(forms, vals(data0), min_rows=10, min_fcol=book.w[0] + 2)
    for f, x, y in zip(forms, a, z):
        chk.count('law:text-is-ignored')
        chk.seen(('textignored', b, f))
        if x != y:
            chk.violation({'why': 'an aggregate over an area changes when a TEXT cell of the area (one that looks like an error value) is replaced by another text',
                           'formula': f, 'with_error_like_text': x, 'with_other_text': y, 'stream': 'text-is-ignored'})


def file_route_law(chk):
    """the same cells and formulas read from a real .xlsx file: texts of blanks, the empty text, zeros and real blanks are four different things for the folds"""
    import tempfile, shutil, os
    row = [' ', None, 'x', 0, '  ', '=""', '\t', 'a ', ' 7', 3.5, True]
    forms = ['=COUNTBLANK(A1:K1)', '=COUNTBLANK(A1:A1,B1:K1)', '=COUNTBLANK(A1:A1)', '=COUNTBLANK(E1:G1)', '=OR(A1:B1)', '=AND(A1:A1,C1:C1)', '=SUM(A1:K1)', '=COUNT(A1:K1)',
             '=MAX(A1:K1)', '=MIN(A1:K1)', '=AVERAGE(A1:K1)', '=COUNTBLANK(H1:I1)']
    vals = {(c, 0): v for c, v in enumerate(row) if v is not None}
    mem = realcode.eval_formulas(forms, vals, min_fcol=12)
    d = tempfile.mkdtemp(prefix='e2p_c11_')
    try:
        rows = [list(row) + [None] + [forms[0]]] + [[None] * 12 + [f] for f in forms[1:]]
        text, _ = realcode.full_translate([('S', rows)], workdir=d)
        ex = realcode.executor_for(realcode.load_class(text))
        Cell = realcode.mods()['Cell']
        fil = [core.outcome(lambda i=i: ex.get_cell(Cell(0, 12, i)).value) for i in range(len(forms))]
    except Exception as e:  # noqa
        fil = ['E' + core.exc_class(e)] * len(forms)
    finally:
        shutil.rmtree(d, ignore_errors=True)
    for f, a, z in zip(forms, mem, fil):
        chk.count('law:file-route')
        if a != z:
            chk.violation({'why': 'a fold over cells read from a real file differs from the fold over the same cells (texts of blanks, the empty text, zero, blank are not the same thing)',
                           'formula': f, 'cells': repr(row), 'file': z, 'same cells in memory': a, 'stream': 'file-route'})
    want = ['I2', 'I2', 'I0', 'I1']
    for f, z, w in zip(forms, fil, want):
        if z != w:
            chk.violation({'why': 'COUNTBLANK over cells read from a file does not count exactly the blank cells and the empty texts', 'formula': f, 'cells': repr(row), 'impl': z, 'want': w,
                           'stream': 'file-route'})


def falsy_overrides_law(chk, b):
    """a cell overridden with 0 / 0.0 is a number for every aggregate, exactly as if the workbook held that 0"""
    forms = ['=COUNT(A1:A3)', '=MIN(A1:A3)', '=MAX(A1:A3)', '=AVERAGE(A1:A3)', '=SUM(A1:A3)', '=COUNTBLANK(A1:A3)', '=COUNT(A1:A2,A3)', '=MIN(A1,A2:A3)']
    for zero in (0, 0.0):
        edited = realcode.eval_formulas(forms, {(0, 0): zero, (0, 1): -2, (0, 2): 8}, min_fcol=3)
        overridden = realcode.eval_formulas(forms, {(0, 0): 5, (0, 1): -2, (0, 2): 8}, overrides={(0, 0): zero}, min_fcol=3)
        for f, a, o in zip(forms, edited, overridden):
            chk.count('law:falsy-override')
            chk.seen(('falsy', b, f, repr(zero)))
            if a != o:
                chk.violation({'why': 'an aggregate over a cell overridden with zero differs from the workbook that holds the zero', 'formula': f, 'override': repr(zero),
                               'overridden': o, 'edited_by_hand': a, 'stream': 'falsy-override'})


def twin_sheets_law(chk, rng, b):
    """the same unqualified area texts in formulas of two sheets: each formula aggregates the cells of its OWN sheet"""
    m = realcode.mods()
    h = rng.randint(3, 6)
    data = [[[rng.choice([1, 2, 3, 5, 8, 13, 0.5, -4, 'x', None]) for _ in range(3)] for _ in range(h)] for _ in (0, 1)]
    texts = ['=SUM(A1:A%d)' % h, '=SUM(A1:C%d)' % h, '=COUNT(A1:B%d)' % h, '=MAX(B1:C%d)' % h, '=MIN(A1:A%d,7)' % h, '=AVERAGE(A1:C%d,1)' % h, '=SUM(B:B)', '=COUNTBLANK(A1:C%d)' % h]
    sheets = []
    for s in (0, 1):
        rows = [list(r) + [None, None] for r in data[s]] + [[None] * 5 for _ in range(max(0, len(texts) - h))]
        for i, t in enumerate(texts):
            rows[i][4] = t
        sheets.append((['First', 'Second'][s], rows))
    try:
        ex = realcode.executor_for(realcode.load_class(realcode.translate(sheets)))
    except Exception as e:  # noqa
        chk.violation({'why': 'two sheets with the same formula texts do not translate', 'impl': 'E' + core.exc_class(e), 'stream': 'twin-sheets'})
        return
    got = [[core.outcome(lambda s=s, i=i: ex.get_cell(m['Cell'](s, 4, i)).value) for i in range(len(texts))] for s in (0, 1)]
    # reference: each sheet alone in a workbook of its own
    for s in (0, 1):
        alone = realcode.executor_for(realcode.load_class(realcode.translate([sheets[s]])))
        for i, t in enumerate(texts):
            want = core.outcome(lambda i=i: alone.get_cell(m['Cell'](0, 4, i)).value)
            chk.count('law:twin-sheets')
            chk.seen(('twin', b, s, t))
            if got[s][i] != want:
                chk.violation({'why': 'an aggregate over an unqualified area gives another value when a second sheet holds a formula with the same text', 'formula': t,
                               'on_sheet': sheets[s][0], 'impl': got[s][i], 'alone': want, 'stream': 'twin-sheets'})


def replay(path):
    data = json.load(open(path))
    for case in data.get('failing_inputs', [])[:20]:
        print('replay case:', json.dumps(case, ensure_ascii=False, default=str)[:500])
    return 1 if data.get('failing_inputs') else 0
