"""C03 — entry-point translation is a closed, faithful slice; cycles are rejected."""
from __future__ import annotations

import json
import re

from .. import core, realcode, execmodel as em

TITLES = em.TITLES
L = em.LETTERS


class GBook:
    """cells with formulas over single references, areas (overlapping formula cells), other sheets, beyond-range cells"""

    def __init__(self, rng, cyclic=False):
        self.rng = rng
        self.ns = rng.randint(1, 3)
        self.w = [rng.randint(2, 4) for _ in range(self.ns)]
        self.h = [rng.randint(2, 5) for _ in range(self.ns)]
        self.cells = {}        # (s,c,r) -> value or formula text
        self.deps = {}         # (s,c,r) -> [targets in visiting order]
        order = [(s, c, r) for s in range(self.ns) for r in range(self.h[s]) for c in range(self.w[s])]
        rng.shuffle(order)     # dependency direction is not tied to the position on the sheet
        done = []
        data_sheet = self.ns > 1 and rng.random() < 0.35       # the last sheet is a pure data sheet: constants only, some of them referenced by nothing
        for pos in order:
            k = rng.random()
            if k < 0.15:
                pass
            elif k < 0.45 or len(done) < 2 or (data_sheet and pos[0] == self.ns - 1):
                self.cells[pos] = rng.choice([1, 2, 3, 5, 7, 10, -4])
            else:
                self.cells[pos], self.deps[pos] = self.formula(pos[0], done)
            done.append(pos)
        self.shared_prefix_cluster()
        self.cycle_members = set()
        if cyclic:
            self.add_cycle()

    def shared_prefix_cluster(self):
        """several formulas whose areas start at the same cell with different extents, the first extent used again afterwards, and one
        formula repeating a sub-expression after a different one (sub-expression methods are keyed by the owning cell and de-duplicated)"""
        rng = self.rng
        cand = [s for s in range(self.ns) if self.h[s] >= 3]
        if not cand or rng.random() < 0.25:
            return
        s = rng.choice(cand)
        c = rng.randrange(self.w[s])
        r0 = rng.randrange(self.h[s] - 2)
        r1 = rng.randrange(r0 + 1, self.h[s] - 1)
        r2 = rng.randrange(r1 + 1, self.h[s])
        a, b1, b2 = '%s%d' % (L[c], r0 + 1), '%s%d' % (L[c], r1 + 1), '%s%d' % (L[c], r2 + 1)
        cells1 = [(s, c, r) for r in range(r0, r1 + 1)]
        cells2 = [(s, c, r) for r in range(r0, r2 + 1)]
        row = self.h[s]
        self.h[s] += 1
        self.w[s] = max(self.w[s], 4)
        forms = [('=SUM(%s:%s)' % (a, b1), cells1), ('=SUM(%s:%s)' % (a, b2), cells2), ('=MAX(%s:%s)' % (a, b1), cells1),
                 ('=SUM(%s:%s)+SUM(%s:%s)+SUM(%s:%s)' % (a, b1, a, b2, a, b1), cells1 + cells2 + cells1)]
        rng.shuffle(forms)
        for k, (text, deps) in enumerate(forms):
            self.cells[(s, k, row)] = text
            self.deps[(s, k, row)] = deps

    def ref(self, s, t):
        pre = '' if t[0] == s else TITLES[t[0]] + '!'
        return '%s%s%d' % (pre, L[t[1]], t[2] + 1)

    def area(self, s, done):
        """an area all of whose cells are already placed (so that the graph stays acyclic) or beyond the used range"""
        rng = self.rng
        ts = rng.randrange(self.ns)
        cand = [p for p in done if p[0] == ts]
        if not cand:
            return None
        a = rng.choice(cand)
        b = rng.choice([p for p in cand if p[1] >= a[1] and p[2] >= a[2]])
        cells = [(ts, c, r) for r in range(a[2], b[2] + 1) for c in range(a[1], b[1] + 1)]
        if any(p not in done for p in cells):
            b = a
            cells = [a]
        pre = '' if ts == s else TITLES[ts] + '!'
        return '%s%s%d:%s%d' % (pre, L[a[1]], a[2] + 1, L[b[1]], b[2] + 1), cells

    def operand(self, s, done):
        rng = self.rng
        k = rng.random()
        if k < 0.15:
            return str(rng.choice([1, 2, 3])), []
        if k < 0.25:
            ts = rng.randrange(self.ns)
            t = (ts, self.w[ts] + rng.randint(0, 1), self.h[ts] + rng.randint(0, 1))
            return self.ref(s, t), [t]
        t = rng.choice(done)
        return self.ref(s, t), [t]

    def formula(self, s, done):
        rng = self.rng
        f = rng.choice(['add', 'mul', 'if', 'iflit', 'sum', 'sum', 'sum2', 'ref', 'index'])
        a, b, c = self.operand(s, done), self.operand(s, done), self.operand(s, done)
        if f == 'ref':
            t = rng.choice(done)
            return '=' + self.ref(s, t), [t]
        if f == 'add':
            return '=(%s+%s)' % (a[0], b[0]), a[1] + b[1]
        if f == 'mul':
            return '=(%s*%s)' % (a[0], b[0]), a[1] + b[1]
        if f == 'if':
            return '=IF(%s,%s,%s)' % (a[0], b[0], c[0]), a[1] + b[1] + c[1]
        if f == 'iflit':
            # a literal condition: the branch that is never taken still is a dependency of the cell
            return '=IF(%s,%s,%s)+%s' % (rng.choice(['TRUE', 'FALSE', '1', '0']), b[0], c[0], a[0]), b[1] + c[1] + a[1]
        ar = self.area(s, done)
        if ar is None:
            return '=(%s+%s)' % (a[0], b[0]), a[1] + b[1]
        if f == 'index':
            # one cell of the area is selected, all of them are dependencies
            return '=INDEX(%s,1,1)+%s' % (ar[0], a[0]), ar[1] + a[1]
        if f == 'sum':
            return '=SUM(%s)' % ar[0], ar[1]
        return '=SUM(%s,%s)' % (ar[0], a[0]), ar[1] + a[1]

    def reach(self, roots):
        seen, todo = [], list(roots)
        while todo:
            u = todo.pop()
            if u in seen:
                continue
            seen.append(u)
            todo += self.deps.get(u, [])
        return seen

    def add_cycle(self):
        """make some formula cell depend on a cell that depends on it"""
        rng = self.rng
        formulas = [p for p in self.deps if self.deps[p]]
        rng.shuffle(formulas)
        for b in formulas:
            anc = [a for a in formulas if a != b and b in self.reach([a])]
            pick = rng.choice(anc + [b]) if (anc and rng.random() < 0.8) else b      # self-reference is the 1-cycle
            txt = self.cells[b]
            how = rng.choice(['plus', 'if', 'sum', 'iferror', 'iferror-fallback', 'ifs', 'and', 'if-true', 'if-false', 'index'])
            r = self.ref(b[0], pick)
            if how == 'iferror':
                self.cells[b] = '=IFERROR(%s,%s)' % (r, txt[1:])          # the cycle enters through the guarded argument
            elif how == 'iferror-fallback':
                self.cells[b] = '=IFERROR(%s,%s)' % (txt[1:], r)          # … or through the fallback
            elif how == 'ifs':
                self.cells[b] = '=IFS(TRUE,%s,FALSE,%s)' % (txt[1:], r)   # a pair that is never reached
            elif how == 'if-true':
                self.cells[b] = '=IF(TRUE,%s,%s)' % (txt[1:], r)
            elif how == 'if-false':
                self.cells[b] = '=IF(FALSE,%s,%s)' % (r, txt[1:])
            elif how == 'index':
                rr = r.split('!')[-1]
                self.cells[b] = '=(%s)+INDEX(%s:%s,1,1)*0' % (txt[1:], r, rr)
            elif how == 'and':
                self.cells[b] = '=IF(AND(0,%s),1,%s)' % (r, txt[1:])
            elif how == 'plus':
                self.cells[b] = '=(%s+%s)' % (txt[1:], r)
            elif how == 'if':
                self.cells[b] = '=IF(1,%s,%s)' % (txt[1:], r)       # a branch that is never taken still is a dependency
            else:
                self.cells[b] = '=SUM(%s,%s:%s)' % (txt[1:], r, r.split('!')[-1])
            self.deps[b] = self.deps[b] + [pick]
            return

    def sheets(self):
        out = []
        for s in range(self.ns):
            rows = [[None] * self.w[s] for _ in range(self.h[s])]
            for (ss, c, r), v in self.cells.items():
                if ss == s:
                    rows[r][c] = v
            out.append((TITLES[s], rows))
        return out

    def graph_request(self, fuel=300):
        parts = [str(fuel), str(len(self.deps))]
        for u, ds in self.deps.items():
            parts += [str(em.code(*u)), str(len(ds))] + [str(em.code(*d)) for d in ds]
        return parts


def members(text):
    return sorted(em.code(int(a), int(b), int(c)) for a, b, c in re.findall(r'def _(\d+)_(\d+)_(\d+)\(self\)', text))


def run(tier, seed):
    chk = core.Check('C03', tier, seed)
    rng = chk.rng
    chk.rule = ('random dependency graphs to ~40 cells over 1-3 sheets (single references, areas overlapping formula cells, other sheets, cells beyond the used '
                'range, shared dependencies; dependency direction independent of sheet position), every cell as entry: the set of generated cell members vs '
                'the Lean descent (model) and vs reachability (spec); value of every slice member under the slice class vs the whole-workbook class; cyclic '
                'variants (self reference, cycles through references, areas, IF / IFS branches never taken, IFERROR arguments, AND arguments): outcome class for every entry and for the whole file; two '
                'long-lived parsers that keep their entry cell across all workbooks must return the slice a fresh parser returns. '
                'distinct = distinct (workbook, entry)')
    chk.assumptions += ['sub-expression methods (_s_c_r_k) are not in the abstract model; their effect is covered by the slice-vs-whole value comparison',
                        'fuel 300 stands for the recursion limit; generated graphs are far smaller']
    chk.build = core.lean_build(['C03'], tier)
    if not chk.build.driver_ok:
        raise RuntimeError('driver did not build:\n' + chk.build.log[-2000:])
    m = realcode.mods()
    Cell = m['Cell']
    nbooks = 24 if tier == 'quick' else 300
    cases = []
    # two long-lived parsers that keep their entry cell (numeric / A1-style spelling) across all workbooks
    reused = {'numeric': (realcode.ReusedParser(), (0, 0, 0)), 'a1': (realcode.ReusedParser(), (TITLES[0], 'B', '1'))}
    for b in range(nbooks):
        cyclic = (b % 3 == 2)
        book = GBook(rng, cyclic)
        sheets = book.sheets()
        greq = book.graph_request()
        allcells = [(s, c, r) for s in range(book.ns) for r in range(book.h[s]) for c in range(book.w[s])]
        # whole file
        try:
            text = realcode.translate(sheets)
            whole = realcode.executor_for(realcode.load_class(text))
            got = 'K%d ' % len(members(text)) + ' '.join(map(str, members(text)))
        except RecursionError:
            whole, got = None, 'ERecursionError'
        except Exception as e:  # noqa
            whole, got = None, 'E' + core.exc_class(e)
        order = [em.code(*p) for s in range(book.ns) for r in range(book.h[s]) for c in range(book.w[s]) for p in [(s, c, r)]]
        cases.append(('gr ' + ' '.join(greq + ['all', str(len(order))] + [str(x) for x in order]), got,
                      {'book': b, 'mode': 'whole', 'cyclic': cyclic, 'workbook': repr(book.cells)[:1200]}))
        chk.count('whole:' + ('cyclic' if cyclic else 'acyclic'))
        for e in allcells:
            try:
                text_e = realcode.translate(sheets, entry=e)
                got = 'K%d ' % len(members(text_e)) + ' '.join(map(str, members(text_e)))
            except RecursionError:
                text_e, got = None, 'ERecursionError'
            except Exception as ex:  # noqa
                text_e, got = None, 'E' + core.exc_class(ex)
            cases.append(('gr ' + ' '.join(greq + ['from', str(em.code(*e))]), got,
                          {'book': b, 'mode': 'entry', 'entry': e, 'cyclic': cyclic, 'workbook': repr(book.cells)[:1200]}))
            for name, (rp, spelled) in reused.items():
                if e == {'numeric': (0, 0, 0), 'a1': (0, 1, 0)}[name]:
                    try:
                        again = rp.translate(sheets, spelled)
                    except RecursionError:
                        again = None
                    except Exception:  # noqa
                        again = None
                    chk.count('reused-parser:' + name)
                    try:
                        second = rp.ask_again()
                    except RecursionError:
                        second = None
                    except Exception:  # noqa
                        second = None
                    if second != again:
                        chk.violation({'why': 'asked again without any change, the parser does not repeat its answer (the same text, or the same rejection)', 'entry': e,
                                       'book': b, 'first': 'rejected' if again is None else 'K%d' % len(members(again)),
                                       'second': 'rejected' if second is None else ('None returned' if second is None else 'K%d' % len(members(second))),
                                       'stream': 'reused-parser', 'workbook': repr(book.cells)[:1200]})
                    if again != text_e:
                        chk.violation({'why': 'a parser that translated other workbooks before, keeping its entry cell, does not return the slice a fresh parser returns',
                                       'entry': e, 'spelling': repr(spelled), 'book': b, 'fresh': None if text_e is None else 'members ' + got,
                                       'reused': None if again is None else 'members K%d ' % len(members(again)) + ' '.join(map(str, members(again))),
                                       'stream': 'reused-parser', 'workbook': repr(book.cells)[:1200]})
            chk.count('entry:' + ('error' if got.startswith('E') else 'slice'))
            if text_e is not None and whole is not None:
                sl = realcode.executor_for(realcode.load_class(text_e))
                for c in book.reach([e]):
                    a = core.outcome(lambda: sl.get_cell(Cell(*c)).value)
                    w = core.outcome(lambda: whole.get_cell(Cell(*c)).value)
                    chk.count('slice-vs-whole')
                    if a != w:
                        chk.violation({'why': 'a cell evaluates differently in the slice translated from an entry cell and in the whole-workbook translation',
                                       'entry': e, 'cell': c, 'slice': a, 'whole': w, 'stream': 'slice-vs-whole', 'workbook': repr(book.cells)[:1500]})
    chk.judge('members', cases, sample_cap=4)
    return chk.finish()


def replay(path):
    data = json.load(open(path))
    for case in data.get('failing_inputs', [])[:20]:
        print('replay case:', json.dumps(case, ensure_ascii=False, default=str)[:800])
    return 1 if data.get('failing_inputs') else 0
