"""C19 — the safety gate reports exactly the Python-like cells."""
from __future__ import annotations

import json
import os
import re
import shutil
import tempfile

from .. import core, realcode
from ..execmodel import col_letters

PYLIKE = ['getX(1)', 'os.systeM("ls")', 'eval(1)', 'os.system("x")', 'f(\n)', 'aB(2)', "__import__('os')", 'x1(2)', 'exec(compile("a","b","exec"))', 'lambda_(x)', 'Sum(1)', 'sUM(1)', 'getattr(a,b)',
          'a(b)c(d)', 'open("f").read()', 'é_x(1)', 'print(\t1)', '_(1)', '9a(1)', 'aSUM(1)', 'sumIF(1,2)', 'x = y(z)', 'call()\n', 'a.b.c(1)',
          'x' * 9000 + ' eval(1)', 'word ' * 2500 + "__import__('os')", '_RUN(1)', '__IMPORT__("os")', '7Z(1)', '_X9(2)', 'eval(' + 'x' * 130 + ')', 'run(' + '1, ' * 40 + '\n 2)', 'longname_' * 12 + '(1)']          # long fragments are reported whole
INNOCENT = ['SUM(A1)', 'IF(A1,1,2)', 'LOG10(5)', 'plain text', '(no call)', 'a (b)', 'print (1)', 'ROUND(SUM(A1:A2),1)', 'X_Y(1)', 'A1(2)', 'f(', 'g)', 'h()'[:1] + ' ()',
            'just words', '100%', 'a+b', 'TRUE', 'VLOOKUP(1,A1:B2,2,FALSE)', 'text with ) then (', 'ABC(', 'DAYS360(1,2)', 'N(1)']
MIXED = ['SUM(eval(1))', 'eval(SUM(1))', 'IF(a(1),2,3)']          # an upper-case call and other call syntax in one cell: the statement leaves these open


def oracle(text):
    """independent of the regexes: 'listed' / 'not-listed' / 'open' by the statement"""
    ident = lambda ch: ch.isascii() and (ch.isalnum() or ch == '_')
    calls = []
    i, n = 0, len(text)
    while i < n:
        if ident(text[i]):
            j = i
            while j < n and ident(text[j]):
                j += 1
            if j < n and text[j] == '(' and ')' in text[j + 1:]:
                calls.append(text[i:j])
            i = j
        else:
            i += 1
    if not calls:
        return 'not-listed'
    upper = [c for c in calls if c[0].isalpha() and c[0].isupper() and all(ch.isupper() or ch.isdigit() or ch == '_' for ch in c)]
    if len(upper) == len(calls):
        return 'not-listed'
    if not upper:
        return 'listed'         # call syntax, and no identifier that is upper-case throughout: aB(2), getX(1), Sum(1) are not Excel functions
    return 'open'               # an upper-case function call AND other call syntax in one cell: the statement leaves these open


def run(tier, seed):
    chk = core.Check('C19', tier, seed)
    rng = chk.rng
    chk.rule = ('workbooks of 1-4 sheets (titles with spaces / apostrophes) in which Python-like fragments (eval(1), os.system("x"), f(<newline>), aB(2), Sum(1), …), innocent '
                'texts (upper-case Excel calls, text without call syntax, "print (1)") and mixed ones are planted at random (sheet, column, row) - off the diagonal on '
                'purpose, several per workbook, as constants and inside formulas - read through openpyxl and the Parser facade with the check enabled and disabled: '
                'exception type, the keys of suspicious_cells vs the true A1 addresses of the cells that must be listed (independent hand scanner), fragments are substrings '
                'of the cell text, innocent cells never listed, disabled check never raises the safety exception; per cell text: _get_suspicious_constructions vs the '
                'Lean scanner model. distinct = distinct (workbook) / cell texts')
    chk.assumptions += ['cells that contain both an upper-case function call and other call syntax are left open by the statement (reading under which less is demanded): compared with the model only',
                        'identifier characters are ASCII letters, digits and underscore (the regex class [a-zA-Z_\\\\d]; \\\\d also matches non-ASCII digits, which are not generated)']
    chk.build = core.lean_build(['C19'], tier)
    if not chk.build.driver_ok:
        raise RuntimeError('driver did not build:\n' + chk.build.log[-2000:])
    m = realcode.mods()
    from excel2pycl.src.excel import Excel
    from excel2pycl.src.exceptions import E2PyclSafetyException
    # per-text correspondence with the Lean scanner
    texts = list(dict.fromkeys(PYLIKE + INNOCENT + MIXED + ['=' + t for t in PYLIKE + INNOCENT + MIXED]))
    alpha = ['a', 'B', '1', '_', '(', ')', ' ', '.', '\n', 'Z']
    for _ in range(300 if tier == 'quick' else 5000):
        texts.append(''.join(rng.choice(alpha) for _ in range(rng.randint(1, 9))))
    cases = []
    for t in dict.fromkeys(texts):
        got = core.outcome(lambda: list(Excel._get_suspicious_constructions(t)))
        cases.append(('sf ' + core.enc(t), got, {'text': repr(t)}))
        o = oracle(t)
        listed = got != 'L0'
        chk.count('oracle:' + o)
        if (o == 'listed' and not listed) or (o == 'not-listed' and listed):
            chk.violation({'why': 'the scanner lists a cell it must not list / misses one it must list', 'text': repr(t), 'impl': got, 'oracle': o, 'stream': 'scanner'})
    chk.judge('scanner', cases, sample_cap=3)
    # end to end
    d = tempfile.mkdtemp(prefix='e2p_c19_')
    try:
        nbooks = 80 if tier == 'quick' else 800
        shared_parser = m['Parser']()
        for b in range(nbooks):
            ns = rng.randint(1, 4)
            titles = rng.sample(['Main', 'Sheet 2', "it's", 'Data_1', 'Лист', 'A B C'], ns)
            sheets, must, mustnot, cellsrc = [], set(), set(), {}
            kind = rng.choice(['mixed', 'mixed', 'innocent-only'])
            for s in range(ns):
                w, h = rng.randint(2, 6), rng.randint(2, 6)
                rows = [[None] * w for _ in range(h)]
                for _ in range(rng.randint(1, 5)):
                    c, r = rng.randrange(w), rng.randrange(h)
                    if c == r and rng.random() < 0.8:
                        c = (c + 1) % w                     # off the diagonal on purpose
                    pool = INNOCENT if kind == 'innocent-only' else rng.choice([PYLIKE, PYLIKE, INNOCENT, MIXED])
                    t = rng.choice(pool)
                    if rng.random() < 0.4:
                        t = '=' + t
                    rows[r][c] = t
                if kind != 'innocent-only' and rng.random() < 0.5:
                    # neighbours: a cell that OPENS an upper-case call and never closes it, right before / above / after a Python-like cell - every cell is judged
                    # on its own text, whatever stands in the same row or column
                    r, c = rng.randrange(h), rng.randrange(w - 1)
                    opener = rng.choice(['NOTE(', 'ABC(', '="TOTAL("&A1', 'SUM(', 'X(1', 'IF(A1,"(', 'N(\n'])
                    py = rng.choice(PYLIKE[:24])
                    if rng.random() < 0.7:
                        rows[r][c], rows[r][c + 1] = opener, py
                    else:
                        rows[r][c], rows[r][c + 1] = py, opener
                    if h > 1:
                        rows[(r + 1) % h][c] = rng.choice(PYLIKE[:24])
                for r in range(h):
                    for c in range(w):
                        if rows[r][c] is None and rng.random() < 0.3:
                            rows[r][c] = rng.choice([1, 2.5, 'word', True])
                        if isinstance(rows[r][c], str):
                            key = "'%s'%s%d" % (titles[s], col_letters(c + 1), r + 1)
                            cellsrc[key] = rows[r][c]
                            o = oracle(rows[r][c])
                            (must if o == 'listed' else mustnot if o == 'not-listed' else set()).add(key)
                sheets.append((titles[s], rows))
            path = os.path.join(d, 'wb%d.xlsx' % b)
            # tabs that are not worksheets (chart sheets) in front of / between the worksheets: keys still carry the worksheet's own title
            charts = [(0, 'Overview chart')] + ([(2, 'Mid chart')] if len(sheets) > 1 else []) if b % 3 == 1 else []
            realcode.write_xlsx(path, sheets, chartsheets=charts)
            if b % 4 == 2:
                from .c18 import stale_dimension
                stale_dimension(path)          # a writer that leaves <dimension ref="A1"/> whatever the sheet holds: every cell is still scanned
                chk.count('book:stale-dimension-record')
            chk.count('book:chartsheets:%d' % len(charts))
            chk.seen(('book', b))
            chk.count('book:' + kind)
            # one parser, the check toggled between translations: the gate follows the setting in force at each call
            if must:
                p = m['Parser']().set_excel_file_path(path)
                seq = rng.choice([['off', 'get', 'on', 'get'], ['get', 'off', 'get', 'on', 'get'], ['off', 'get', 'get', 'on', 'get', 'off', 'get'],
                                  ['off', 'get', 'on', 'on', 'get'], ['get', 'get'], ['off', 'get', 'on', 'get', 'get'], ['off', 'off', 'get', 'on', 'off', 'on', 'get'], ['on', 'off', 'off', 'get', 'on', 'on', 'on', 'get']])
                state = True
                for step in seq:
                    if step == 'on':
                        p.enable_safety_check(); state = True
                    elif step == 'off':
                        p.disable_safety_check(); state = False
                    else:
                        try:
                            p.get_translation(); r = 'ok'
                        except E2PyclSafetyException:
                            r = 'Safety'
                        except Exception as e:  # noqa
                            r = 'E' + core.exc_class(e)
                        chk.count('toggle')
                        if state and r != 'Safety':
                            chk.violation({'why': 'with the check enabled a workbook with a Python-like cell is translated (after toggling the check on one parser)',
                                           'sequence': seq, 'impl': r, 'must': sorted(must), 'stream': 'gate-toggle'})
                        if not state and r == 'Safety':
                            chk.violation({'why': 'the safety exception is raised although the check is disabled (after toggling)', 'sequence': seq, 'stream': 'gate-toggle'})
            # one long-lived parser and ONE path: the file behind it is replaced by this workbook and the path is set again
            import shutil as _sh
            same = os.path.join(d, 'same_path.xlsx')
            _sh.copyfile(path, same)
            try:
                shared_parser.set_excel_file_path(same).get_translation()
                r2 = 'ok'
            except E2PyclSafetyException:
                r2 = 'Safety'
            except Exception as e:  # noqa
                r2 = 'E' + core.exc_class(e)
            chk.count('same-path-reused')
            if must and r2 != 'Safety':
                chk.violation({'why': 'a parser given the same path again after the file was replaced by a workbook with a Python-like cell does not raise the safety exception',
                               'impl': r2, 'must': sorted(must), 'stream': 'same-path'})
            if not must and not (set(cellsrc) - mustnot) and r2 == 'Safety':
                chk.violation({'why': 'a parser given the same path again reports the cells of the workbook that was there before', 'stream': 'same-path'})
            for enabled in (True, False):
                p = m['Parser']().set_excel_file_path(path)
                if not enabled:
                    p.disable_safety_check()
                try:
                    p.get_translation()
                    res, report = 'ok', {}
                except E2PyclSafetyException as e:
                    res, report = 'Safety', dict(e.suspicious_cells)
                except Exception as e:  # noqa
                    res, report = 'E' + core.exc_class(e), {}
                meta = {'titles': titles, 'enabled': enabled, 'kind': kind, 'cells': {k: repr(v) for k, v in list(cellsrc.items())[:12]}}
                if not enabled:
                    if res == 'Safety':
                        chk.violation(dict(meta, why='the safety exception is raised although the check is disabled', stream='disabled'))
                    continue
                if must and res != 'Safety':
                    chk.violation(dict(meta, why='a workbook with a Python-like cell is not rejected with the safety exception', impl=res, must=sorted(must), stream='gate'))
                if res == 'Safety':
                    keys = set(report)
                    if not must <= keys:
                        chk.violation(dict(meta, why='a Python-like cell is not listed by its true sheet title and A1 address', missing=sorted(must - keys), listed=sorted(keys),
                                           stream='report-key'))
                    if keys & mustnot:
                        chk.violation(dict(meta, why='an innocent cell is listed', wrongly=sorted(keys & mustnot), stream='report-key'))
                    if not keys <= set(cellsrc):
                        chk.violation(dict(meta, why='the report names an address where no text cell is', unknown=sorted(keys - set(cellsrc)), stream='report-key'))
                    for k, frags in report.items():
                        if k in cellsrc and (not frags or any(f not in cellsrc[k] for f in frags)):
                            chk.violation(dict(meta, why='reported fragments are not fragments of the cell text', key=k, fragments=frags, stream='fragments'))
                if not must and not (set(cellsrc) - mustnot) and res == 'Safety':
                    chk.violation(dict(meta, why='a workbook made only of innocent cells is rejected', report=report, stream='gate'))
    finally:
        shutil.rmtree(d, ignore_errors=True)
    keys = []
    for t, c, r in [('Main', 1, 1), ("it's", 27, 10), ('A B', 703, 12345), ('Лист', 16384, 1048576)]:
        keys.append(('sk %s %d %d' % (core.enc(t), c, r), core.enc("'%s'%s%d" % (t, col_letters(c), r)), {'title': t, 'col': c, 'row': r}))
    chk.judge('report-key-format', keys, sample_cap=1)
    return chk.finish()


def replay(path):
    data = json.load(open(path))
    for case in data.get('failing_inputs', [])[:20]:
        print('replay case:', json.dumps(case, ensure_ascii=False, default=str)[:800])
    return 1 if data.get('failing_inputs') else 0
